//! C13 — delete, insert, append, repeat, trim_zeros change exactly the addressed positions. Value protocol with tags.
//!
//! Every case is executed on the i64 tag array (the answer is compared with the model) AND on images of the tag array in other
//! element types (u8, i16 with negative values, i64 beyond 2^53, f64 with tag 0 = -0.0, f32 likewise, String, bool), each through
//! BOTH receivers: the plain `Array<T>` call and the same call on `Ok(array)` through `impl … for Result<Array<T>, ArrayError>`.
//! An image that behaves differently from the i64 run turns the observed answer into `TYPE-DIVERGENCE …` / `RECEIVER-DIVERGENCE …`,
//! which then fails the comparison with the model.
//! `trimc` is the value-class stream of `trim_zeros`: the case carries a list of class codes (+0, -0, NaN, subnormals, inf, extreme
//! integers, zero-looking strings …); the model sees 0 for the two zero classes and `position+1` otherwise, so its answer names the
//! surviving slice, which every element type must reproduce bit-wise.
use arrharness::*;
use std::panic::{catch_unwind, AssertUnwindSafe};

type R<T> = Result<Array<T>, ArrayError>;

fn subsets(n: usize) -> Vec<Vec<usize>> { (0..(1usize << n)).map(|m| (0..n).filter(|k| (m >> k) & 1 == 1).collect()).collect() }

fn landing(idxs: &[usize]) -> Vec<usize> { let mut s = idxs.to_vec(); s.sort(); s.iter().enumerate().map(|(k, i)| i + k).collect() }

// ------------------------------------------------------------------------------------------------ generator

/// `k` DISTINCT indices below `n`, shuffled
fn distinct(rng: &mut Rng, n: usize, k: usize) -> Vec<usize> { let mut p = rng.perm(n); p.truncate(k.min(n)); p }

/// request spellings of the same index set: shuffled, ascending, descending, shuffled with repeated entries
fn spellings(rng: &mut Rng, set: &[usize]) -> Vec<Vec<usize>> {
    let mut asc = set.to_vec(); asc.sort();
    let mut desc = asc.clone(); desc.reverse();
    let mut dup = set.to_vec();
    for _ in 0..(set.len() / 2 + 1) { if !set.is_empty() { dup.push(*rng.pick(set)); } }
    let p = rng.perm(dup.len()); let dup: Vec<usize> = p.iter().map(|&i| dup[i]).collect();
    vec![set.to_vec(), asc, desc, dup]
}

/// the class codes of `trimc`; 0 and 1 are the two zeros
const NCODES: usize = 13;
fn trimc_line(codes: &[usize]) -> String {
    let ints: Vec<i64> = codes.iter().enumerate().map(|(i, &c)| if c <= 1 { 0 } else { i as i64 + 1 }).collect();
    format!("trimc {}:{} {}", codes.len(), show_list(&ints), show_list(codes))
}

fn gen(tier: &str, seed: u64, out: &mut dyn FnMut(String)) {
    let thorough = tier == "thorough";
    let mut rng = Rng::new(seed);
    for l in ["delete i2,3,2,2 1 1", "repeat i2,3,2 1,2 2", "repeat i2,3,4 1,0,2 1", "insert i2,3 4 i1+100"] { out(l.to_string()); }
    // corpus of past misses (seeded changes C13-r2-m1, -m2, -m3): one literal witness each, the classes follow in the streams below
    { let idx: Vec<usize> = (0..48).map(|k| (7 * k + 3) % 11).collect(); out(format!("insert i10 {} i48+100", show_list(&idx))); }
    out(trimc_line(&[0, 2, 0, 5, 5, 0, 2, 0]));
    { let idx: Vec<usize> = (0..70).map(|k| (k * 37) % 100).collect(); out(format!("delete i100 {} none", show_list(&idx))); }

    let mut all = shapes(1, 4, 1, 3);
    all.extend(vec![vec![4], vec![5], vec![2, 4], vec![4, 2], vec![2, 3, 4]]);
    for s in &all {
        let a = tag(s); let nd = s.len(); let n: usize = s.iter().product();
        // delete along every axis: every subset of the axis' indices + permuted/repeated requests + out of range
        for ax in 0..nd {
            for sub in subsets(s[ax]) {
                out(format!("delete {a} {} {ax}", show_list(&sub)));
                if sub.len() >= 2 { let mut p = sub.clone(); p.reverse(); p.push(sub[0]); p.push(*sub.last().unwrap()); out(format!("delete {a} {} {ax}", show_list(&p))); }
            }
            out(format!("delete {a} {} {ax}", s[ax])); out(format!("delete {a} 0,{} {ax}", s[ax] + 3));
        }
        out(format!("delete {a} 0 {nd}")); out(format!("delete {a} 0 {}", nd + 1));
        // flat delete: every subset when small, sampled otherwise
        if n <= 6 { for sub in subsets(n) { out(format!("delete {a} {} none", show_list(&sub))); } }
        else { for _ in 0..(if thorough { 40 } else { 12 }) { let k = rng.below(n + 1); let idx: Vec<usize> = (0..k).map(|_| rng.below(n)).collect(); out(format!("delete {a} {} none", show_list(&idx))); } }
        out(format!("delete {a} {n} none")); out(format!("delete {a} 0,{},0 none", n + 5));
        // flat insert: 1..3 values at every position 0..=n (all positions for one value; pairs/triples sampled incl. repeated positions)
        for p in 0..=n { out(format!("insert {a} {p} i1+100")); out(format!("insert_delete {a} {p} i1+100")); }
        for _ in 0..(if thorough { 60 } else { 14 }) {
            let k = 2 + rng.below(2); let idx: Vec<usize> = (0..k).map(|_| rng.below(n + 1)).collect();
            out(format!("insert {a} {} {}", show_list(&idx), tag_off(&[k], 100)));
            out(format!("insert_delete {a} {} {}", show_list(&idx), tag_off(&[k], 100)));
            out(format!("insert {a} {} i1+100", show_list(&idx)));          // one value at several positions
            out(format!("insert {a} {} {}", idx[0], tag_off(&[k], 100)));   // several values at one position
        }
        out(format!("insert {a} {} i1+100", n + 1)); out(format!("insert {a} 0,1 i3+100")); out(format!("insert {a} 0 i1,1+100"));
        // append
        for k in 0..=3 { out(format!("append {a} {}", tag_off(&[k], 100))); }
        out(format!("append {a} {}", tag_off(&[2, 2], 100)));
        // repeat along every axis: every count vector in {0,1,2}^d, and a single count
        for ax in 0..nd {
            let d = s[ax];
            for c in boxes(&vec![3; d]) { out(format!("repeat {a} {} {ax}", show_list(&c))); }
            for c in 0..=3 { out(format!("repeat {a} {c} {ax}")); }
            out(format!("repeat {a} {} {ax}", show_list(&vec![1; d + 1])));
        }
        out(format!("repeat {a} 2 {nd}"));
        for c in 0..=3 { out(format!("repeat {a} {c} none")); }
        let last = *s.last().unwrap();
        for _ in 0..3 { let c: Vec<usize> = (0..last).map(|_| rng.below(3)).collect(); out(format!("repeat {a} {} none", show_list(&c))); }
        out(format!("repeat {a} {} none", show_list(&vec![1; last + 1])));
    }
    // trim_zeros: every 0/non-0 pattern up to length 7 (8 in thorough), plus rank-2 refusal
    for len in 0..=(if thorough { 8 } else { 7 }) { for m in 0..(1usize << len) {
        let e: Vec<i64> = (0..len).map(|k| if (m >> k) & 1 == 1 { (k + 1) as i64 } else { 0 }).collect();
        out(format!("trim {}:{}", len, show_list(&e)));
    } }
    out("trim 2,2:0,1,1,0".to_string());
    // random rank 5
    for _ in 0..(if thorough { 3000 } else { 300 }) {
        let s: Vec<usize> = (0..5).map(|_| 1 + rng.below(3)).collect(); let a = tag(&s); let ax = rng.below(5);
        if rng.below(2) == 0 { let k = rng.below(s[ax] + 1); let idx: Vec<usize> = (0..k).map(|_| rng.below(s[ax])).collect(); out(format!("delete {a} {} {ax}", show_list(&idx))); }
        else { let c: Vec<usize> = (0..s[ax]).map(|_| rng.below(3)).collect(); out(format!("repeat {a} {} {ax}", show_list(&c))); }
    }

    // ============================================================ robustness streams (FRAMEWORK.md)
    let reps = if thorough { 3 } else { 1 };

    // ---- stream 1a: flat delete of MANY distinct positions. The numbers of distinct indices straddle the small-sort / block
    // thresholds of std (20/21, 32/33, 64/65, 128/129, 256/257) and reach "all but one" and "all"; each set in four spellings
    for n in [24usize, 70, 100, 130, 300, 1030, 4100] {
        let a = tag(&[n]);
        let mut ks = vec![20, 21, 32, 33, 64, 65, 66, 100, 128, 129, 256, 257, 1000, 1025, 4097, n / 2, n - 1, n];
        ks.retain(|&k| k <= n); ks.sort(); ks.dedup();
        for &k in &ks { for _ in 0..reps {
            let set = distinct(&mut rng, n, k);
            for (j, sp) in spellings(&mut rng, &set).into_iter().enumerate() {
                if n > 1030 && j > 0 && j < 3 && !thorough { continue; }
                out(format!("delete {a} {} none", show_list(&sp)));
            }
        } }
        out(format!("delete {a} {} none", show_list(&(0..=n).collect::<Vec<_>>())));       // one index too far
    }
    for s in [vec![40usize, 30], vec![70, 70], vec![4, 4, 4, 4], vec![2, 3, 4, 5, 2]] {
        let n: usize = s.iter().product(); let a = tag(&s);
        for k in [65usize, 66, n / 2, n - 1] { if k <= n { let set = distinct(&mut rng, n, k); out(format!("delete {a} {} none", show_list(&set))); } }
    }
    // ---- stream 1b: delete along an axis that is LONG (>= 65 positions: the per-lane call sees many distinct indices) in leading,
    // inner and trailing position
    for (s, ax) in [(vec![2usize, 100], 1usize), (vec![100, 2], 0), (vec![1, 65], 1), (vec![66, 3], 0), (vec![3, 70, 2], 1), (vec![70, 70], 0), (vec![70, 70], 1),
                    (vec![2, 2, 130], 2), (vec![300, 1], 0), (vec![2, 1030], 1), (vec![66, 9], 0), (vec![9, 66], 1), (vec![3, 3, 3, 65], 3)] {
        let a = tag(&s); let d = s[ax];
        // the model driver needs ~0.5 s for one axis delete on 4900 elements: such shapes get three requests in the quick tier
        let heavy = s.iter().product::<usize>() > 2000 && !thorough;
        let mut ks = if heavy { vec![65usize, d - 1] } else { vec![1usize, 20, 21, 64, 65, 66, d / 2, d - 1, d] }; ks.retain(|&k| k <= d); ks.sort(); ks.dedup();
        for &k in &ks {
            if heavy { out(format!("delete {a} {} {ax}", show_list(&distinct(&mut rng, d, k)))); continue; }
            let set = distinct(&mut rng, d, k);
            let sps = spellings(&mut rng, &set);
            out(format!("delete {a} {} {ax}", show_list(&sps[0])));
            if k >= 64 || thorough { out(format!("delete {a} {} {ax}", show_list(&sps[3]))); out(format!("delete {a} {} {ax}", show_list(&sps[1]))); }
        }
        out(format!("delete {a} {} {ax}", show_list(&(0..=d).collect::<Vec<_>>())));
    }
    // ---- stream 1c: every operation on the big shapes (axis lengths 7-17 in every position, > 256 / 1024 / 4096 elements)
    for s in big_shapes() {
        let a = tag(&s); let nd = s.len(); let n: usize = s.iter().product();
        let heavy = n > 3000 && !thorough;      // model driver: ~0.5 s per axis operation on > 4000 elements
        for ax in 0..nd {
            let d = s[ax];
            if heavy {
                let k = 1 + rng.below(d); let set = distinct(&mut rng, d, k);
                out(format!("delete {a} {} {ax}", show_list(&spellings(&mut rng, &set)[3])));
                let c: Vec<usize> = (0..d).map(|_| rng.below(3)).collect();
                out(format!("repeat {a} {} {ax}", show_list(&c)));
                out(format!("delete {a} {} {ax}", d));
                continue;
            }
            for _ in 0..reps {
                let k = rng.below(d + 1); let set = distinct(&mut rng, d, k);
                let sps = spellings(&mut rng, &set);
                out(format!("delete {a} {} {ax}", show_list(&sps[3])));
                out(format!("delete {a} {} {ax}", show_list(&sps[0])));
                let c: Vec<usize> = (0..d).map(|_| rng.below(3)).collect();
                out(format!("repeat {a} {} {ax}", show_list(&c)));
            }
            out(format!("delete {a} {} {ax}", show_list(&distinct(&mut rng, d, d - 1))));
            out(format!("delete {a} {} {ax}", d));
            out(format!("repeat {a} 2 {ax}")); out(format!("repeat {a} 0 {ax}"));
            out(format!("repeat {a} {} {ax}", show_list(&vec![1; d + 1])));
        }
        let k = rng.below(n + 1); let idx: Vec<usize> = (0..k).map(|_| rng.below(n)).collect();
        out(format!("delete {a} {} none", show_list(&idx)));
        out(format!("delete {a} - none")); out(format!("delete {a} {n} none"));
        for p in [0, n / 2, n] { out(format!("insert {a} {p} i1+100")); out(format!("insert_delete {a} {p} i3+100")); }
        for k in [3usize, 21, 65] {
            let idx: Vec<usize> = (0..k).map(|_| rng.below(n + 1)).collect();
            out(format!("insert {a} {} {}", show_list(&idx), tag_off(&[k], 100)));
            out(format!("insert_delete {a} {} {}", show_list(&idx), tag_off(&[k], 100)));
        }
        out(format!("insert {a} {} i1+100", n + 1));
        out(format!("append {a} i3+100")); out(format!("append {a} {}", tag_off(&[300], 100))); out(format!("append {a} i0"));
        out(format!("repeat {a} 2 none")); out(format!("repeat {a} 1 none")); out(format!("repeat {a} 0 none"));
        let last = *s.last().unwrap();
        let c: Vec<usize> = (0..last).map(|_| rng.below(3)).collect(); out(format!("repeat {a} {} none", show_list(&c)));
    }
    // ---- stream 1d: flat insert of MANY (index, value) pairs: more than 20 / 32 / 64 / 256 pairs, positions drawn from a small
    // pool (so that many pairs share a position and their request order matters), not sorted; also sorted / reversed / one position
    for n in [0usize, 1, 10, 16, 100, 1030] {
        let a = tag(&[n]);
        for k in [20usize, 21, 24, 33, 48, 65, 100, 300] { for r in 0..reps {
            if n == 1030 && k > 100 && r > 0 { continue; }
            let pool = 1 + rng.below((n + 1).min(11));
            let pos: Vec<usize> = (0..pool).map(|_| rng.below(n + 1)).collect();
            let idx: Vec<usize> = (0..k).map(|_| *rng.pick(&pos)).collect();
            out(format!("insert {a} {} {}", show_list(&idx), tag_off(&[k], 100)));
            out(format!("insert_delete {a} {} {}", show_list(&idx), tag_off(&[k], 100)));
            let idx2: Vec<usize> = (0..k).map(|j| (7 * j + 3) % (n + 1)).collect();
            out(format!("insert {a} {} {}", show_list(&idx2), tag_off(&[k], 100)));
            let mut asc = idx.clone(); asc.sort(); out(format!("insert {a} {} {}", show_list(&asc), tag_off(&[k], 100)));
            asc.reverse(); out(format!("insert {a} {} {}", show_list(&asc), tag_off(&[k], 100)));
            out(format!("insert {a} {} {}", pos[0], tag_off(&[k], 100)));                 // k values at one position (broadcast index)
            out(format!("insert {a} {} {}", show_list(&vec![pos[0]; k]), tag_off(&[k], 100)));   // the same, spelled pairwise
            out(format!("insert {a} {} i1+100", show_list(&idx)));                        // one value at k positions
            out(format!("insert {a} {} {}", show_list(&idx), tag_off(&[k + 1], 100)));    // counts differ: refused
        } }
    }
    for s in [vec![3usize, 4], vec![2, 3, 2], vec![9, 9]] {
        let a = tag(&s); let n: usize = s.iter().product();
        for k in [24usize, 48, 81] {
            let idx: Vec<usize> = (0..k).map(|_| rng.below(n + 1).min(3 + rng.below(4))).collect();
            out(format!("insert {a} {} {}", show_list(&idx), tag_off(&[k], 100)));
            out(format!("insert_delete {a} {} {}", show_list(&idx), tag_off(&[k], 100)));
        }
    }
    // ---- stream 2: zero-length axes, every operation
    for s in zero_shapes().into_iter().chain(vec![vec![0usize, 3], vec![3, 0], vec![0, 0, 0], vec![1, 0, 1]]) {
        let a = tag(&s); let nd = s.len();
        for ax in 0..=nd {
            out(format!("delete {a} - {ax}")); out(format!("delete {a} 0 {ax}")); out(format!("delete {a} 1,0 {ax}"));
            out(format!("repeat {a} 2 {ax}")); out(format!("repeat {a} 0 {ax}")); out(format!("repeat {a} - {ax}")); out(format!("repeat {a} 1,2 {ax}")); out(format!("repeat {a} 1,2,0 {ax}"));
        }
        out(format!("delete {a} - none")); out(format!("delete {a} 0 none"));
        out(format!("repeat {a} 2 none")); out(format!("repeat {a} - none")); out(format!("repeat {a} 1,2 none"));
        out(format!("insert {a} 0 i1+100")); out(format!("insert {a} 0 i3+100")); out(format!("insert {a} 0,0 i2+100")); out(format!("insert {a} 1 i1+100")); out(format!("insert {a} - i1+100")); out(format!("insert {a} 0 i0"));
        out(format!("insert_delete {a} 0 i1+100")); out(format!("insert_delete {a} 0,0,0 i3+100"));
        out(format!("append {a} i0")); out(format!("append {a} i2+100")); out(format!("append {a} i2,0")); out(format!("append {a} {a}"));
        out(format!("trim {a}"));
    }
    for s in [vec![3usize], vec![2, 2]] { let a = tag(&s); out(format!("append {a} i0")); out(format!("append {a} i0,2")); out(format!("insert {a} 0 i0")); out(format!("insert {a} - i0")); out(format!("repeat {a} - none")); out(format!("repeat {a} - 0")); }
    // ---- stream 3: value classes of trim_zeros (the only value-dependent operation): +0 / -0 / NaN / 1 exhaustively, then every
    // class (subnormals, infinities, extreme integers, zero-looking strings) at random, then long lanes with wide zero borders
    for len in 0..=(if thorough { 7 } else { 5 }) {
        for c in boxes(&vec![4; len]) { let codes: Vec<usize> = c.iter().map(|&x| [0usize, 1, 2, 5][x]).collect(); out(trimc_line(&codes)); }
    }
    for _ in 0..(if thorough { 6000 } else { 800 }) {
        let len = 1 + rng.below(12);
        let codes: Vec<usize> = (0..len).map(|_| if rng.below(5) < 2 { rng.below(2) } else { rng.below(NCODES) }).collect();
        out(trimc_line(&codes));
    }
    for len in [17usize, 64, 300, 1030, 4100] { for _ in 0..(2 * reps) {
        let (l, r) = (rng.below(len / 2), rng.below(len / 2));
        let mut codes: Vec<usize> = (0..len).map(|i| if i < l || i >= len - r { rng.below(2) } else if rng.below(3) == 0 { rng.below(2) } else { 2 + rng.below(NCODES - 2) }).collect();
        // a NaN / subnormal right at, or just inside, a zero border
        if rng.below(2) == 0 && l > 1 { codes[l - 1 - rng.below(2)] = 2; }
        if rng.below(2) == 0 && r > 1 { codes[len - r + rng.below(2)] = *rng.pick(&[2usize, 3, 4, 12]); }
        out(trimc_line(&codes));
    } }
    out(trimc_line(&vec![0; 4100])); out(trimc_line(&vec![1; 300])); out(trimc_line(&vec![2; 300]));
    for len in [300usize, 4100] { for m in 0..(1usize << 2) {
        let e: Vec<i64> = (0..len).map(|k| if k == 0 { (m & 1) as i64 } else if k == len - 1 { (m >> 1) as i64 * 7 } else if k % 5 == 0 { 0 } else { k as i64 }).collect();
        out(format!("trim {}:{}", len, show_list(&e)));
    } }
    out("trim i2,0".into()); out("trim 1,4:0,1,2,0".into()); out("trim 1,1,1:0".into());
}

// ------------------------------------------------------------------------------------------------ executor

fn mk<T: ArrayElement>(s: &str, of: &dyn Fn(i64) -> T) -> Array<T> {
    let (sh, e) = parse_arr_raw(s);
    Array::new(e.into_iter().map(of).collect(), sh).expect("harness: malformed array literal in case line")
}

/// one real call on element type `T`; `chained` = on `Ok(array)` through the `Result` receiver
fn call<T: ArrayElement>(op: &str, args: &[&str], chained: bool, of: &dyn Fn(i64) -> T) -> Option<R<T>> {
    let a = mk(args[0], of);
    let ra: R<T> = Ok(a.clone());
    Some(match op {
        "delete" => { let idx = parse_usize_list(args[1]); let ax: Option<usize> = parse_opt(args[2]);
            if chained { ra.delete(&idx, ax) } else { a.delete(&idx, ax) } }
        "insert" => { let idx = parse_usize_list(args[1]); let v = mk(args[2], of);
            if chained { ra.insert(&idx, &v, None) } else { a.insert(&idx, &v, None) } }
        "insert_delete" => { let idx = parse_usize_list(args[1]); let v = mk(args[2], of); let land = landing(&idx);
            if chained { ra.insert(&idx, &v, None).delete(&land, None) } else { match a.insert(&idx, &v, None) { Ok(x) => x.delete(&land, None), Err(e) => Err(e) } } }
        "append" => { let v = mk(args[1], of); if chained { ra.append(&v, None) } else { a.append(&v, None) } }
        "repeat" => { let reps = parse_usize_list(args[1]); let ax: Option<usize> = parse_opt(args[2]);
            if chained { ra.repeat(&reps, ax) } else { a.repeat(&reps, ax) } }
        "trim" => if chained { ra.trim_zeros() } else { a.trim_zeros() },
        _ => return None,
    })
}

enum Out<T: ArrayElement> { Panic, Val(R<T>) }
fn attempt<T: ArrayElement>(op: &str, args: &[&str], chained: bool, of: &dyn Fn(i64) -> T) -> Option<Out<T>> {
    match catch_unwind(AssertUnwindSafe(|| call(op, args, chained, of))) { Ok(Some(r)) => Some(Out::Val(r)), Ok(None) => None, Err(_) => Some(Out::Panic) }
}
fn out_text<T: ArrayElement>(o: &Out<T>) -> String { match o { Out::Panic => "panic".into(), Out::Val(r) => truncate(&res_arr(r), 200) } }

/// `None` when the image run `img` is the image under `of` of the canonical i64 run
fn image_diff<T: ArrayElement>(canon: &Out<i64>, img: &Out<T>, of: &dyn Fn(i64) -> T, same: fn(&T, &T) -> bool) -> Option<String> {
    match (canon, img) {
        (Out::Panic, Out::Panic) => None,
        (Out::Val(Err(_)), Out::Val(Err(_))) => None,
        (Out::Val(Ok(c)), Out::Val(Ok(i))) => {
            if !consistent(i) { return Some("result violates shape/length consistency".into()); }
            if c.get_shape().unwrap() != i.get_shape().unwrap() { return Some(format!("shape {:?} instead of {:?}", i.get_shape().unwrap(), c.get_shape().unwrap())); }
            let (ce, ie) = (c.get_elements().unwrap(), i.get_elements().unwrap());
            for p in 0..ce.len() { let w = of(ce[p]); if !same(&w, &ie[p]) { return Some(format!("flat position {p} holds {:?} instead of {:?}", ie[p], w)); } }
            None
        }
        _ => Some(format!("outcome `{}`", out_text(img))),
    }
}

/// run both receivers on the image type; the first divergence from the canonical i64 run as text
fn images<T: ArrayElement>(canon: &Out<i64>, op: &str, args: &[&str], name: &str, of: &dyn Fn(i64) -> T, same: fn(&T, &T) -> bool) -> Option<Result<(), String>> {
    for chained in [false, true] {
        let o = attempt(op, args, chained, of)?;
        if let Some(d) = image_diff(canon, &o, of, same) {
            let kind = if chained { "RECEIVER-DIVERGENCE" } else { "TYPE-DIVERGENCE" };
            return Some(Err(format!("{kind} element type {name}, {} receiver: {d}; i64 plain run: {}", if chained { "Result" } else { "plain" }, out_text(canon))));
        }
    }
    Some(Ok(()))
}

fn eq<T: PartialEq>(a: &T, b: &T) -> bool { a == b }
fn bits64(a: &f64, b: &f64) -> bool { a.to_bits() == b.to_bits() }
fn bits32(a: &f32, b: &f32) -> bool { a.to_bits() == b.to_bits() }

/// structural operations (and `trim` on integer patterns): the i64 run and all its images
fn run_structural(op: &str, args: &[&str]) -> Option<String> {
    let canon = attempt(op, args, false, &|t| t)?;
    if let Out::Val(Ok(a)) = &canon { if !consistent(a) { return Some(format!("INCONSISTENT result (shape/length): {}", out_text(&canon))); } }
    let text = match &canon { Out::Panic => "panic".to_string(), Out::Val(r) => res_arr(r) };
    // the same call a second time, on the Result receiver
    let again = attempt(op, args, true, &|t| t)?;
    if let Some(d) = image_diff(&canon, &again, &|t| t, eq) { return Some(format!("RECEIVER-DIVERGENCE element type i64, Result receiver: {d}; plain run: {}", out_text(&canon))); }
    let value_dep = op == "trim";       // images must then map 0 to the zero of the type and everything else to a non-zero
    macro_rules! img { ($name:expr, $of:expr, $same:expr) => { if let Err(d) = images(&canon, op, args, $name, &$of, $same)? { return Some(d); } } }
    if value_dep {
        img!("u8", |t: i64| if t == 0 { 0u8 } else { 255 - ((t - 1).rem_euclid(255)) as u8 }, eq);
        img!("i16", |t: i64| (-(t.rem_euclid(32000))) as i16, eq);
        img!("i64 beyond 2^53", |t: i64| if t == 0 { 0 } else { (1i64 << 62) - 7 * t }, eq);
    } else {
        img!("u8", tag_u8, eq);
        img!("i16", |t: i64| (t.rem_euclid(65521) - 32760) as i16, eq);
        img!("i64 beyond 2^53", |t: i64| (1i64 << 62) - 7 * t, eq);
        img!("bool", |t: i64| t % 2 != 0, eq);
    }
    img!("f64 (tag 0 = -0.0)", tag_f64z, bits64);
    img!("f32 (tag 0 = -0.0)", |t: i64| if t == 0 { -0.0f32 } else { t as f32 }, bits32);
    img!("String", |t: i64| t.to_string(), eq);
    Some(text)
}

// ---- trimc: value classes

const F64_CLASS: [f64; NCODES] = [0.0, -0.0, f64::NAN, 5e-324, -5e-324, 1.0, -1.0, f64::INFINITY, f64::NEG_INFINITY, f64::MIN_POSITIVE, f64::MAX, 9007199254740993.0, 1e-320];
const F32_CLASS: [f32; NCODES] = [0.0, -0.0, f32::NAN, 1e-45, -1e-45, 1.0, -1.0, f32::INFINITY, f32::NEG_INFINITY, f32::MIN_POSITIVE, f32::MAX, 16777217.0, 1e-40];
const I64_CLASS: [i64; NCODES] = [0, 0, 1, -1, i64::MAX, i64::MIN, 9007199254740993, -9007199254740993, 1 << 32, 1 << 53, 256, -256, 2];
const U8_CLASS: [u8; NCODES] = [0, 0, 1, 255, 254, 128, 127, 2, 16, 64, 200, 100, 3];
const I16_CLASS: [i16; NCODES] = [0, 0, 1, -1, i16::MAX, i16::MIN, 256, -256, 255, 128, -128, 2, -2];
const STR_CLASS: [&str; NCODES] = ["0", "0", "", "00", "0.0", "-0", " 0", "1", "nan", "0 ", "+0", "O", "zero"];

/// `trim_zeros` on the class-coded lane in element type `T`; the answer as the model would print it (surviving positions + 1, 0 for
/// a kept zero), found by locating the result as a contiguous slice of the input (bit-wise)
fn trimc_run<T: ArrayElement>(input: Vec<T>, ints: &[i64], chained: bool, same: fn(&T, &T) -> bool, hint: Option<usize>) -> String {
    let n_in = input.len();
    let a = Array::new(input.clone(), vec![n_in]).expect("harness: lane");
    let r = catch_unwind(AssertUnwindSafe(|| if chained { let ra: R<T> = Ok(a.clone()); ra.trim_zeros() } else { a.trim_zeros() }));
    let r = match r { Err(_) => return "panic".into(), Ok(Err(e)) => return format!("err {}", err_name(&e)), Ok(Ok(r)) => r };
    if !consistent(&r) { return "ok <shape/length inconsistent>".into(); }
    if r.get_shape().unwrap().len() != 1 { return format!("ok <rank {}>", r.get_shape().unwrap().len()); }
    let e = r.get_elements().unwrap(); let n = e.len();
    if n == 0 { return "ok 0:-".into(); }
    if n > n_in { return format!("ok <{} elements out of {}>", n, n_in); }
    let at = |lo: usize| (0..n).all(|k| same(&input[lo + k], &e[k]));
    let mut found = None;
    if let Some(h) = hint { if h + n <= n_in && at(h) { found = Some(h); } }
    if found.is_none() { found = (0..=(n_in - n)).find(|&lo| at(lo)); }
    match found { Some(lo) => format!("ok {}:{}", n, show_list(&ints[lo..lo + n])), None => format!("ok <{} elements that are no contiguous slice of the input; first {:?}>", n, e[0]) }
}

fn run_trimc(args: &[&str], expected: &str) -> Option<String> {
    let (shape, ints) = parse_arr_raw(args[0]);
    let codes = parse_usize_list(args[1]);
    if shape != vec![codes.len()] || ints.len() != codes.len() || codes.iter().any(|&c| c >= NCODES) { return None; }
    // the integers sent to the model must say exactly which positions are zeros
    for (i, &c) in codes.iter().enumerate() { if ints[i] != if c <= 1 { 0 } else { i as i64 + 1 } { return None; } }
    // where the model says the surviving slice starts (first surviving element is non-zero, = position + 1)
    let hint = expected.strip_prefix("ok ").and_then(|s| s.split_once(':')).and_then(|(_, e)| e.split(',').next().and_then(|x| x.parse::<usize>().ok())).and_then(|p| p.checked_sub(1));
    let mut answers: Vec<(String, String)> = vec![];
    macro_rules! ty { ($name:expr, $v:expr, $same:expr) => { for chained in [false, true] {
        answers.push((format!("{}{}", $name, if chained { ", Result receiver" } else { "" }), trimc_run($v, &ints, chained, $same, hint))); } } }
    ty!("f64", codes.iter().map(|&c| F64_CLASS[c]).collect::<Vec<f64>>(), bits64);
    ty!("f32", codes.iter().map(|&c| F32_CLASS[c]).collect::<Vec<f32>>(), bits32);
    ty!("i64", codes.iter().map(|&c| I64_CLASS[c]).collect::<Vec<i64>>(), eq);
    ty!("u8", codes.iter().map(|&c| U8_CLASS[c]).collect::<Vec<u8>>(), eq);
    ty!("i16", codes.iter().map(|&c| I16_CLASS[c]).collect::<Vec<i16>>(), eq);
    ty!("String", codes.iter().map(|&c| STR_CLASS[c].to_string()).collect::<Vec<String>>(), eq);
    ty!("bool", codes.iter().map(|&c| c > 1).collect::<Vec<bool>>(), eq);
    // all element types and receivers must tell the same story; report the first one that does not agree with the model
    let first = answers[0].1.clone();
    for (name, ans) in &answers { if ans != expected && !(class_of(ans) == "err" && class_of(expected) == "err") { return Some(format!("{} [element type {}]", ans, name)); } }
    Some(first)
}

fn exec(op: &str, args: &[&str], expected: &str) -> Option<Verdict> {
    let obs = match op {
        "delete" | "insert" | "insert_delete" | "append" | "repeat" | "trim" => run_structural(op, args)?,
        "trimc" => run_trimc(args, expected)?,
        _ => return None,
    };
    Some(compare_default(obs, expected))
}

fn nontrivial(op: &str, args: &[&str]) -> bool {
    let s = parse_arr_raw(args[0]).0;
    match op { "trim" | "trimc" => s.iter().product::<usize>() >= 2, _ => args[1] != "-" && s.iter().product::<usize>() >= 2 }
}

fn main() {
    harness_main(Spec { prop: "C13", gen, exec, nontrivial, hang_secs: 20,
        rule: "every shape rank<=4 len<=3 (+ lengths 4-5): delete along every axis for EVERY subset of its indices (+ reversed / repeated requests, out-of-range index and axis), flat delete (every subset when <=6 elements, sampled multisets otherwise); flat insert of 1 value at every position 0..=n, 2-3 values at sampled (also repeated) positions, one value at several positions, several values at one position, malformed; insert-then-delete round trips; append of 0..3 values; repeat along every axis with EVERY count vector in {0,1,2}^d and single counts, flat repeat; trim_zeros on every zero/non-zero pattern up to length 7 (8); seeded random rank 5. Robustness streams: flat delete of 20..4100 DISTINCT positions (shuffled / ascending / descending / with repeats) from lanes of 24..4100 elements, delete along axes of length 65..1030, every operation on big_shapes() (axis lengths 7-17, > 256/1024/4096 elements), flat insert of 20..300 (index,value) pairs with many shared positions (request order observable), zero-length axes for every operation, trim_zeros value classes (+0, -0, NaN, subnormals, infinities, extreme integers, zero-looking strings; exhaustive over {+0,-0,NaN,1} to length 5 (7), random over all classes, lanes up to 4100). Every case runs on i64 tags and on u8 / i16 / i64>2^53 / f64(-0.0) / f32 / String / bool images, plain and Result receiver. Tag arrays. non-trivial = >=2 elements and a non-empty request" });
}
