//! C13 — delete, insert, append, repeat, trim_zeros change exactly the addressed positions. Value protocol with tags.
//!
//! Every case is executed on the i64 tag array (the answer is compared with the model) AND on images of the tag array in other
//! element types (u8, i16 with negative values, i64 beyond 2^53, f64 with tag 0 = -0.0, f32 likewise, String, bool), each through
//! BOTH receivers: the plain `Array<T>` call and the same call on `Ok(array)` through `impl … for Result<Array<T>, ArrayError>`.
//! An image that behaves differently from the i64 run turns the observed answer into `TYPE-DIVERGENCE …` / `RECEIVER-DIVERGENCE …`,
//! which then fails the comparison with the model.
//! `trimc` is the value-class stream of `trim_zeros`: the case carries a list of class codes (+0, -0, NaN, subnormals, inf, extreme
//! integers, zero-looking strings …); the model sees 0 for the two zero classes and `position+1` otherwise, so its answer names the
//! surviving slice, which every element type must reproduce bit-wise.
//!
//! Robustness streams, part 2: `seq call / call / …` lines run several calls back to back on the executing thread (hidden state:
//! after a delete / insert / repeat request a DIFFERENT request of the same length — also with the same sum, xor, polynomial hash
//! (31, 33, 37, 131, 257) or 32-bit FNV fingerprint, found by a birthday search at generation time —, a refused call followed by a
//! valid one, A–B–A); `n call…` lines are huge requests (products of request size and lane length above 2^26, more than 65 536
//! inserted values, lanes of 20 000 … 70 000 elements along an axis) judged by the harness-native index-filter reference `oracle`,
//! which is compared with the full model answer on EVERY other structural case of the run (`oracle_report` lines); `exec`
//! additionally re-runs the previous case after a share of the cases (implicit A–B–A).  `append_self` / `insert_self` pass the
//! receiver itself as the `values` argument (aliasing).
//!
//! Robustness streams, part 3: `g call…` lines are GIANT requests (2^17 … 2.2·10^6 elements; the receiver is only named in the line,
//! `iota:<shape>` / `zpad:<n>,<l>,<r>`, and built by the harness) for every operation, flat and along first / middle / last axes of
//! ranks 1-4, judged IN PLACE (nothing is printed but the first differing position) by the same native reference; every structural
//! case additionally runs on element types of unusual LAYOUT (12-, 3-, 6-byte tuples, the 32-byte non-Copy Tuple2<String,i32>, a
//! 40-byte tuple; lib's `on_layouts_arr!` for the single-array operations), on an all-zero f64 image (+0.0 / -0.0 by parity: all
//! elements `==`, none bit-identical to its neighbour) and on strings with a 40-byte common stem; ±0 / constant lanes for
//! `trim_zeros`; constant and paired receivers; indices whose product with a stride or the element size wraps modulo 2^64.
use arrharness::*;
use std::panic::{catch_unwind, AssertUnwindSafe};

type R<T> = Result<Array<T>, ArrayError>;

fn subsets(n: usize) -> Vec<Vec<usize>> { (0..(1usize << n)).map(|m| (0..n).filter(|k| (m >> k) & 1 == 1).collect()).collect() }

fn landing(idxs: &[usize]) -> Vec<usize> { let mut s = idxs.to_vec(); s.sort(); s.iter().enumerate().map(|(k, i)| i + k).collect() }

// ------------------------------------------------------------------------------------------------ generator

/// `k` DISTINCT indices below `n`, shuffled
fn distinct(rng: &mut Rng, n: usize, k: usize) -> Vec<usize> { let mut p = rng.perm(n); p.truncate(k.min(n)); p }

/// request spellings of the same index set: shuffled, ascending, descending, shuffled with repeated entries
fn spellings(rng: &mut Rng, set: &[usize]) -> Vec<Vec<usize>> {
    let mut asc = set.to_vec(); asc.sort();
    let mut desc = asc.clone(); desc.reverse();
    let mut dup = set.to_vec();
    for _ in 0..(set.len() / 2 + 1) { if !set.is_empty() { dup.push(*rng.pick(set)); } }
    let p = rng.perm(dup.len()); let dup: Vec<usize> = p.iter().map(|&i| dup[i]).collect();
    vec![set.to_vec(), asc, desc, dup]
}

/// the class codes of `trimc`; 0 and 1 are the two zeros
const NCODES: usize = 13;
fn trimc_line(codes: &[usize]) -> String {
    let ints: Vec<i64> = codes.iter().enumerate().map(|(i, &c)| if c <= 1 { 0 } else { i as i64 + 1 }).collect();
    format!("trimc {}:{} {}", codes.len(), show_list(&ints), show_list(codes))
}

fn gen(tier: &str, seed: u64, out: &mut dyn FnMut(String)) {
    let thorough = tier == "thorough";
    let mut rng = Rng::new(seed);
    for l in ["delete i2,3,2,2 1 1", "repeat i2,3,2 1,2 2", "repeat i2,3,4 1,0,2 1", "insert i2,3 4 i1+100"] { out(l.to_string()); }
    // corpus of past misses (seeded changes C13-r2-m1, -m2, -m3): one literal witness each, the classes follow in the streams below
    { let idx: Vec<usize> = (0..48).map(|k| (7 * k + 3) % 11).collect(); out(format!("insert i10 {} i48+100", show_list(&idx))); }
    out(trimc_line(&[0, 2, 0, 5, 5, 0, 2, 0]));
    { let idx: Vec<usize> = (0..70).map(|k| (k * 37) % 100).collect(); out(format!("delete i100 {} none", show_list(&idx))); }

    let mut all = shapes(1, 4, 1, 3);
    all.extend(vec![vec![4], vec![5], vec![2, 4], vec![4, 2], vec![2, 3, 4]]);
    for s in &all {
        let a = tag(s); let nd = s.len(); let n: usize = s.iter().product();
        // delete along every axis: every subset of the axis' indices + permuted/repeated requests + out of range
        for ax in 0..nd {
            for sub in subsets(s[ax]) {
                out(format!("delete {a} {} {ax}", show_list(&sub)));
                if sub.len() >= 2 { let mut p = sub.clone(); p.reverse(); p.push(sub[0]); p.push(*sub.last().unwrap()); out(format!("delete {a} {} {ax}", show_list(&p))); }
            }
            out(format!("delete {a} {} {ax}", s[ax])); out(format!("delete {a} 0,{} {ax}", s[ax] + 3));
        }
        out(format!("delete {a} 0 {nd}")); out(format!("delete {a} 0 {}", nd + 1));
        // flat delete: every subset when small, sampled otherwise
        if n <= 6 { for sub in subsets(n) { out(format!("delete {a} {} none", show_list(&sub))); } }
        else { for _ in 0..(if thorough { 40 } else { 12 }) { let k = rng.below(n + 1); let idx: Vec<usize> = (0..k).map(|_| rng.below(n)).collect(); out(format!("delete {a} {} none", show_list(&idx))); } }
        out(format!("delete {a} {n} none")); out(format!("delete {a} 0,{},0 none", n + 5));
        // flat insert: 1..3 values at every position 0..=n (all positions for one value; pairs/triples sampled incl. repeated positions)
        for p in 0..=n { out(format!("insert {a} {p} i1+100")); out(format!("insert_delete {a} {p} i1+100")); }
        for _ in 0..(if thorough { 60 } else { 14 }) {
            let k = 2 + rng.below(2); let idx: Vec<usize> = (0..k).map(|_| rng.below(n + 1)).collect();
            out(format!("insert {a} {} {}", show_list(&idx), tag_off(&[k], 100)));
            out(format!("insert_delete {a} {} {}", show_list(&idx), tag_off(&[k], 100)));
            out(format!("insert {a} {} i1+100", show_list(&idx)));          // one value at several positions
            out(format!("insert {a} {} {}", idx[0], tag_off(&[k], 100)));   // several values at one position
        }
        out(format!("insert {a} {} i1+100", n + 1)); out(format!("insert {a} 0,1 i3+100")); out(format!("insert {a} 0 i1,1+100"));
        // append
        for k in 0..=3 { out(format!("append {a} {}", tag_off(&[k], 100))); }
        out(format!("append {a} {}", tag_off(&[2, 2], 100)));
        // repeat along every axis: every count vector in {0,1,2}^d, and a single count
        for ax in 0..nd {
            let d = s[ax];
            for c in boxes(&vec![3; d]) { out(format!("repeat {a} {} {ax}", show_list(&c))); }
            for c in 0..=3 { out(format!("repeat {a} {c} {ax}")); }
            out(format!("repeat {a} {} {ax}", show_list(&vec![1; d + 1])));
        }
        out(format!("repeat {a} 2 {nd}"));
        for c in 0..=3 { out(format!("repeat {a} {c} none")); }
        let last = *s.last().unwrap();
        for _ in 0..3 { let c: Vec<usize> = (0..last).map(|_| rng.below(3)).collect(); out(format!("repeat {a} {} none", show_list(&c))); }
        out(format!("repeat {a} {} none", show_list(&vec![1; last + 1])));
    }
    // trim_zeros: every 0/non-0 pattern up to length 7 (8 in thorough), plus rank-2 refusal
    for len in 0..=(if thorough { 8 } else { 7 }) { for m in 0..(1usize << len) {
        let e: Vec<i64> = (0..len).map(|k| if (m >> k) & 1 == 1 { (k + 1) as i64 } else { 0 }).collect();
        out(format!("trim {}:{}", len, show_list(&e)));
    } }
    out("trim 2,2:0,1,1,0".to_string());
    // random rank 5
    for _ in 0..(if thorough { 3000 } else { 300 }) {
        let s: Vec<usize> = (0..5).map(|_| 1 + rng.below(3)).collect(); let a = tag(&s); let ax = rng.below(5);
        if rng.below(2) == 0 { let k = rng.below(s[ax] + 1); let idx: Vec<usize> = (0..k).map(|_| rng.below(s[ax])).collect(); out(format!("delete {a} {} {ax}", show_list(&idx))); }
        else { let c: Vec<usize> = (0..s[ax]).map(|_| rng.below(3)).collect(); out(format!("repeat {a} {} {ax}", show_list(&c))); }
    }

    // ============================================================ robustness streams (FRAMEWORK.md)
    let reps = if thorough { 3 } else { 1 };

    // ---- stream 1a: flat delete of MANY distinct positions. The numbers of distinct indices straddle the small-sort / block
    // thresholds of std (20/21, 32/33, 64/65, 128/129, 256/257) and reach "all but one" and "all"; each set in four spellings
    for n in [24usize, 70, 100, 130, 300, 1030, 4100] {
        let a = tag(&[n]);
        let mut ks = vec![20, 21, 32, 33, 64, 65, 66, 100, 128, 129, 256, 257, 1000, 1025, 4097, n / 2, n - 1, n];
        ks.retain(|&k| k <= n); ks.sort(); ks.dedup();
        for &k in &ks { for _ in 0..reps {
            let set = distinct(&mut rng, n, k);
            for (j, sp) in spellings(&mut rng, &set).into_iter().enumerate() {
                if n > 1030 && j > 0 && j < 3 && !thorough { continue; }
                out(format!("delete {a} {} none", show_list(&sp)));
            }
        } }
        out(format!("delete {a} {} none", show_list(&(0..=n).collect::<Vec<_>>())));       // one index too far
    }
    for s in [vec![40usize, 30], vec![70, 70], vec![4, 4, 4, 4], vec![2, 3, 4, 5, 2]] {
        let n: usize = s.iter().product(); let a = tag(&s);
        for k in [65usize, 66, n / 2, n - 1] { if k <= n { let set = distinct(&mut rng, n, k); out(format!("delete {a} {} none", show_list(&set))); } }
    }
    // ---- stream 1b: delete along an axis that is LONG (>= 65 positions: the per-lane call sees many distinct indices) in leading,
    // inner and trailing position
    for (s, ax) in [(vec![2usize, 100], 1usize), (vec![100, 2], 0), (vec![1, 65], 1), (vec![66, 3], 0), (vec![3, 70, 2], 1), (vec![70, 70], 0), (vec![70, 70], 1),
                    (vec![2, 2, 130], 2), (vec![300, 1], 0), (vec![2, 1030], 1), (vec![66, 9], 0), (vec![9, 66], 1), (vec![3, 3, 3, 65], 3)] {
        let a = tag(&s); let d = s[ax];
        // the model driver needs ~0.5 s for one axis delete on 4900 elements: such shapes get three requests in the quick tier
        let heavy = s.iter().product::<usize>() > 2000 && !thorough;
        let mut ks = if heavy { vec![65usize, d - 1] } else { vec![1usize, 20, 21, 64, 65, 66, d / 2, d - 1, d] }; ks.retain(|&k| k <= d); ks.sort(); ks.dedup();
        for &k in &ks {
            if heavy { out(format!("delete {a} {} {ax}", show_list(&distinct(&mut rng, d, k)))); continue; }
            let set = distinct(&mut rng, d, k);
            let sps = spellings(&mut rng, &set);
            out(format!("delete {a} {} {ax}", show_list(&sps[0])));
            if k >= 64 || thorough { out(format!("delete {a} {} {ax}", show_list(&sps[3]))); out(format!("delete {a} {} {ax}", show_list(&sps[1]))); }
        }
        out(format!("delete {a} {} {ax}", show_list(&(0..=d).collect::<Vec<_>>())));
    }
    // ---- stream 1c: every operation on the big shapes (axis lengths 7-17 in every position, > 256 / 1024 / 4096 elements)
    for s in big_shapes() {
        let a = tag(&s); let nd = s.len(); let n: usize = s.iter().product();
        let heavy = n > 3000 && !thorough;      // model driver: ~0.5 s per axis operation on > 4000 elements
        for ax in 0..nd {
            let d = s[ax];
            if heavy {
                let k = 1 + rng.below(d); let set = distinct(&mut rng, d, k);
                out(format!("delete {a} {} {ax}", show_list(&spellings(&mut rng, &set)[3])));
                let c: Vec<usize> = (0..d).map(|_| rng.below(3)).collect();
                out(format!("repeat {a} {} {ax}", show_list(&c)));
                out(format!("delete {a} {} {ax}", d));
                continue;
            }
            for _ in 0..reps {
                let k = rng.below(d + 1); let set = distinct(&mut rng, d, k);
                let sps = spellings(&mut rng, &set);
                out(format!("delete {a} {} {ax}", show_list(&sps[3])));
                out(format!("delete {a} {} {ax}", show_list(&sps[0])));
                let c: Vec<usize> = (0..d).map(|_| rng.below(3)).collect();
                out(format!("repeat {a} {} {ax}", show_list(&c)));
            }
            out(format!("delete {a} {} {ax}", show_list(&distinct(&mut rng, d, d - 1))));
            out(format!("delete {a} {} {ax}", d));
            out(format!("repeat {a} 2 {ax}")); out(format!("repeat {a} 0 {ax}"));
            out(format!("repeat {a} {} {ax}", show_list(&vec![1; d + 1])));
        }
        let k = rng.below(n + 1); let idx: Vec<usize> = (0..k).map(|_| rng.below(n)).collect();
        out(format!("delete {a} {} none", show_list(&idx)));
        out(format!("delete {a} - none")); out(format!("delete {a} {n} none"));
        for p in [0, n / 2, n] { out(format!("insert {a} {p} i1+100")); out(format!("insert_delete {a} {p} i3+100")); }
        for k in [3usize, 21, 65] {
            let idx: Vec<usize> = (0..k).map(|_| rng.below(n + 1)).collect();
            out(format!("insert {a} {} {}", show_list(&idx), tag_off(&[k], 100)));
            out(format!("insert_delete {a} {} {}", show_list(&idx), tag_off(&[k], 100)));
        }
        out(format!("insert {a} {} i1+100", n + 1));
        out(format!("append {a} i3+100")); out(format!("append {a} {}", tag_off(&[300], 100))); out(format!("append {a} i0"));
        out(format!("repeat {a} 2 none")); out(format!("repeat {a} 1 none")); out(format!("repeat {a} 0 none"));
        let last = *s.last().unwrap();
        let c: Vec<usize> = (0..last).map(|_| rng.below(3)).collect(); out(format!("repeat {a} {} none", show_list(&c)));
    }
    // ---- stream 1d: flat insert of MANY (index, value) pairs: more than 20 / 32 / 64 / 256 pairs, positions drawn from a small
    // pool (so that many pairs share a position and their request order matters), not sorted; also sorted / reversed / one position
    for n in [0usize, 1, 10, 16, 100, 1030] {
        let a = tag(&[n]);
        for k in [20usize, 21, 24, 33, 48, 65, 100, 300] { for r in 0..reps {
            if n == 1030 && k > 100 && r > 0 { continue; }
            let pool = 1 + rng.below((n + 1).min(11));
            let pos: Vec<usize> = (0..pool).map(|_| rng.below(n + 1)).collect();
            let idx: Vec<usize> = (0..k).map(|_| *rng.pick(&pos)).collect();
            out(format!("insert {a} {} {}", show_list(&idx), tag_off(&[k], 100)));
            out(format!("insert_delete {a} {} {}", show_list(&idx), tag_off(&[k], 100)));
            let idx2: Vec<usize> = (0..k).map(|j| (7 * j + 3) % (n + 1)).collect();
            out(format!("insert {a} {} {}", show_list(&idx2), tag_off(&[k], 100)));
            let mut asc = idx.clone(); asc.sort(); out(format!("insert {a} {} {}", show_list(&asc), tag_off(&[k], 100)));
            asc.reverse(); out(format!("insert {a} {} {}", show_list(&asc), tag_off(&[k], 100)));
            out(format!("insert {a} {} {}", pos[0], tag_off(&[k], 100)));                 // k values at one position (broadcast index)
            out(format!("insert {a} {} {}", show_list(&vec![pos[0]; k]), tag_off(&[k], 100)));   // the same, spelled pairwise
            out(format!("insert {a} {} i1+100", show_list(&idx)));                        // one value at k positions
            out(format!("insert {a} {} {}", show_list(&idx), tag_off(&[k + 1], 100)));    // counts differ: refused
        } }
    }
    for s in [vec![3usize, 4], vec![2, 3, 2], vec![9, 9]] {
        let a = tag(&s); let n: usize = s.iter().product();
        for k in [24usize, 48, 81] {
            let idx: Vec<usize> = (0..k).map(|_| rng.below(n + 1).min(3 + rng.below(4))).collect();
            out(format!("insert {a} {} {}", show_list(&idx), tag_off(&[k], 100)));
            out(format!("insert_delete {a} {} {}", show_list(&idx), tag_off(&[k], 100)));
        }
    }
    // ---- stream 2: zero-length axes, every operation
    for s in zero_shapes().into_iter().chain(vec![vec![0usize, 3], vec![3, 0], vec![0, 0, 0], vec![1, 0, 1]]) {
        let a = tag(&s); let nd = s.len();
        for ax in 0..=nd {
            out(format!("delete {a} - {ax}")); out(format!("delete {a} 0 {ax}")); out(format!("delete {a} 1,0 {ax}"));
            out(format!("repeat {a} 2 {ax}")); out(format!("repeat {a} 0 {ax}")); out(format!("repeat {a} - {ax}")); out(format!("repeat {a} 1,2 {ax}")); out(format!("repeat {a} 1,2,0 {ax}"));
        }
        out(format!("delete {a} - none")); out(format!("delete {a} 0 none"));
        out(format!("repeat {a} 2 none")); out(format!("repeat {a} - none")); out(format!("repeat {a} 1,2 none"));
        out(format!("insert {a} 0 i1+100")); out(format!("insert {a} 0 i3+100")); out(format!("insert {a} 0,0 i2+100")); out(format!("insert {a} 1 i1+100")); out(format!("insert {a} - i1+100")); out(format!("insert {a} 0 i0"));
        out(format!("insert_delete {a} 0 i1+100")); out(format!("insert_delete {a} 0,0,0 i3+100"));
        out(format!("append {a} i0")); out(format!("append {a} i2+100")); out(format!("append {a} i2,0")); out(format!("append {a} {a}"));
        out(format!("trim {a}"));
    }
    for s in [vec![3usize], vec![2, 2]] { let a = tag(&s); out(format!("append {a} i0")); out(format!("append {a} i0,2")); out(format!("insert {a} 0 i0")); out(format!("insert {a} - i0")); out(format!("repeat {a} - none")); out(format!("repeat {a} - 0")); }
    // ---- stream 3: value classes of trim_zeros (the only value-dependent operation): +0 / -0 / NaN / 1 exhaustively, then every
    // class (subnormals, infinities, extreme integers, zero-looking strings) at random, then long lanes with wide zero borders
    for len in 0..=(if thorough { 7 } else { 5 }) {
        for c in boxes(&vec![4; len]) { let codes: Vec<usize> = c.iter().map(|&x| [0usize, 1, 2, 5][x]).collect(); out(trimc_line(&codes)); }
    }
    for _ in 0..(if thorough { 6000 } else { 800 }) {
        let len = 1 + rng.below(12);
        let codes: Vec<usize> = (0..len).map(|_| if rng.below(5) < 2 { rng.below(2) } else { rng.below(NCODES) }).collect();
        out(trimc_line(&codes));
    }
    for len in [17usize, 64, 300, 1030, 4100] { for _ in 0..(2 * reps) {
        let (l, r) = (rng.below(len / 2), rng.below(len / 2));
        let mut codes: Vec<usize> = (0..len).map(|i| if i < l || i >= len - r { rng.below(2) } else if rng.below(3) == 0 { rng.below(2) } else { 2 + rng.below(NCODES - 2) }).collect();
        // a NaN / subnormal right at, or just inside, a zero border
        if rng.below(2) == 0 && l > 1 { codes[l - 1 - rng.below(2)] = 2; }
        if rng.below(2) == 0 && r > 1 { codes[len - r + rng.below(2)] = *rng.pick(&[2usize, 3, 4, 12]); }
        out(trimc_line(&codes));
    } }
    out(trimc_line(&vec![0; 4100])); out(trimc_line(&vec![1; 300])); out(trimc_line(&vec![2; 300]));
    for len in [300usize, 4100] { for m in 0..(1usize << 2) {
        let e: Vec<i64> = (0..len).map(|k| if k == 0 { (m & 1) as i64 } else if k == len - 1 { (m >> 1) as i64 * 7 } else if k % 5 == 0 { 0 } else { k as i64 }).collect();
        out(format!("trim {}:{}", len, show_list(&e)));
    } }
    out("trim i2,0".into()); out("trim 1,4:0,1,2,0".into()); out("trim 1,1,1:0".into());
    // ---- robustness streams, part 2: hidden state, huge sizes, exact lengths and values, aliasing, long lists and high ranks
    gen_part2(thorough, &mut rng, out);
    // ---- robustness streams, part 3: giant sizes, element layout (in exec), value relations, wrapping coordinates
    gen_part3(thorough, &mut rng, out);
    out("oracle_report final".to_string());
}


// ------------------------------------------------------------------------------------------------ generator, part 2

fn seq(calls: &[String]) -> String { format!("seq {}", calls.join(" / ")) }

fn fnv32(bytes: impl Iterator<Item = u8>, one_a: bool) -> u32 {
    bytes.fold(0x811c_9dc5u32, |h, b| if one_a { (h ^ b as u32).wrapping_mul(0x0100_0193) } else { h.wrapping_mul(0x0100_0193) ^ b as u32 })
}
/// Pairs of index lists of length `len` (entries below `bound`, each list without repetition) that are DIFFERENT SETS but have the same
/// 32-bit FNV fingerprint — found by a birthday search (about 2^17 lists).  `kind`: 0 = FNV-1a over the 8 little-endian bytes of every
/// index, 1 = FNV-1a over 4 bytes, 2 = FNV-1 over 8 bytes, 3 = FNV-1a over the decimal text "i,j,k".
fn fnv_collisions(rng: &mut Rng, len: usize, bound: usize, kind: usize, want: usize) -> Vec<(Vec<usize>, Vec<usize>)> {
    let mut seen: std::collections::HashMap<u32, Vec<usize>> = std::collections::HashMap::new();
    let mut found = vec![];
    for _ in 0..3_000_000usize {
        let mut l: Vec<usize> = vec![];
        while l.len() < len { let x = rng.below(bound); if !l.contains(&x) { l.push(x); } }
        let h = match kind {
            0 => fnv32(l.iter().flat_map(|i| (*i as u64).to_le_bytes()), true),
            1 => fnv32(l.iter().flat_map(|i| (*i as u32).to_le_bytes()), true),
            2 => fnv32(l.iter().flat_map(|i| (*i as u64).to_le_bytes()), false),
            _ => fnv32(show_list(&l).bytes(), true),
        };
        if let Some(prev) = seen.get(&h) {
            let (mut a, mut b) = (prev.clone(), l.clone()); a.sort(); b.sort();
            if a != b { found.push((prev.clone(), l.clone())); if found.len() >= want { break; } }
        } else { seen.insert(h, l); }
    }
    found
}

/// a different request of the same length that a weakly keyed memo could confuse with `l` (entries stay below `bound`, the SET differs):
/// same length only / same sum / same xor / same polynomial hash h = h*m + x for m = 31, 33, 37, 131, 257 / same sorted prefix
fn confusable(rng: &mut Rng, l: &[usize], bound: usize) -> Vec<(&'static str, Vec<usize>)> {
    let mut v: Vec<(&'static str, Vec<usize>)> = vec![];
    let k = l.len();
    let differs = |a: &[usize], b: &[usize]| { let (mut x, mut y) = (a.to_vec(), b.to_vec()); x.sort(); x.dedup(); y.sort(); y.dedup(); x != y };
    let fresh: Vec<usize> = { let mut p = rng.perm(bound); p.truncate(k); p };
    if differs(l, &fresh) { v.push(("same length", fresh)); }
    if k >= 2 {
        for q in 0..k - 1 {
            if l[q] + 1 < bound && l[q + 1] >= 1 { let mut t = l.to_vec(); t[q] += 1; t[q + 1] -= 1; if differs(l, &t) { v.push(("same sum", t)); break; } }
        }
        for bit in [1usize, 2, 4, 8, 16] { let mut t = l.to_vec(); t[0] ^= bit; t[k - 1] ^= bit; if t[0] < bound && t[k - 1] < bound && differs(l, &t) { v.push(("same xor", t)); break; } }
        for m in [31usize, 33, 37, 131, 257] {
            for q in 0..k - 1 {
                if l[q] >= 1 && l[q + 1] + m < bound { let mut t = l.to_vec(); t[q] -= 1; t[q + 1] += m; if differs(l, &t) { v.push(("same polynomial hash", t)); break; } }
                if l[q] + 1 < bound && l[q + 1] >= m { let mut t = l.to_vec(); t[q] += 1; t[q + 1] -= m; if differs(l, &t) { v.push(("same polynomial hash", t)); break; } }
            }
        }
        // same smallest / largest entry, same first and last entry
        let mut t = l.to_vec(); let mid = k / 2; t[mid] = (t[mid] + 1 + rng.below(bound - 1)) % bound; if differs(l, &t) { v.push(("same ends", t)); }
    }
    v
}

fn gen_part2(thorough: bool, rng: &mut Rng, out: &mut dyn FnMut(String)) {
    out("oracle_report".to_string());
    // ---- 6a. hidden state: after every request a DIFFERENT request of the same length on the same array (and on another array)
    for (s, ax) in [(vec![600usize], None), (vec![2, 300], Some(1usize)), (vec![300, 2], Some(0)), (vec![2, 300], None), (vec![3, 40, 2], Some(1)), (vec![12], None), (vec![40], None), (vec![3, 4], Some(1)), (vec![4, 3], Some(0))] {
        let a = tag(&s); let n: usize = s.iter().product();
        let bound = match ax { Some(x) => s[x], None => n }; let axs = show_opt(&ax);
        let lens: Vec<usize> = if bound >= 100 { vec![2, 3, 6, 21, 65] } else if bound >= 12 { vec![2, 3, 6] } else { vec![1, 2] };
        for &k in &lens { for _ in 0..(if thorough { 4 } else if bound >= 100 { 1 } else { 2 }) {
            let l = distinct(rng, bound, k);
            for (_why, t) in confusable(rng, &l, bound) {
                out(seq(&[format!("delete {a} {} {axs}", show_list(&l)), format!("delete {a} {} {axs}", show_list(&t)), format!("delete {a} {} {axs}", show_list(&l))]));
                if ax.is_none() && s.len() == 1 {
                    out(seq(&[format!("insert {a} {} {}", show_list(&l), tag_off(&[k], 100)), format!("insert {a} {} {}", show_list(&t), tag_off(&[k], 100)), format!("insert_delete {a} {} {}", show_list(&l), tag_off(&[k], 100)), format!("insert_delete {a} {} {}", show_list(&t), tag_off(&[k], 100))]));
                }
            }
            // the same request on another array of the same element count / another length (a memo that ignores the array)
            let b = match ax { Some(x) => { let mut t = s.clone(); t[x] += 7; tag_off(&t, 5000) } None => tag_off(&[n + 7], 5000) };
            out(seq(&[format!("delete {a} {} {axs}", show_list(&l)), format!("delete {b} {} {axs}", show_list(&l)), format!("delete {a} {} {axs}", show_list(&l))]));
        } }
        // repeat: count vectors of the same length, the same sum, permuted
        if let Some(x) = ax { if s[x] <= 40 {
            let d = s[x];
            for _ in 0..3 {
                let c1: Vec<usize> = (0..d).map(|_| rng.below(3)).collect(); let mut c2 = c1.clone(); c2.reverse(); let mut c3 = c1.clone(); c3[0] += 1; c3[d - 1] = (c3[d - 1] + 2) % 3;
                out(seq(&[format!("repeat {a} {} {x}", show_list(&c1)), format!("repeat {a} {} {x}", show_list(&c2)), format!("repeat {a} {} {x}", show_list(&c3)), format!("repeat {a} {} {x}", show_list(&c1))]));
            }
        } }
    }
    // ---- 6b. index-list fingerprints: different requests of the same length with the same 32-bit FNV hash (birthday search)
    for (kind, len, bound) in [(0usize, 6usize, 200usize), (1, 6, 200), (2, 6, 200), (3, 6, 200), (0, 3, 600), (0, 8, 64)] {
        let pairs = fnv_collisions(rng, len, bound, kind, if thorough { 6 } else { 3 });
        for (l, t) in pairs {
            let a = tag(&[bound]); let b = tag(&[2, bound]); let c = tag(&[bound, 2]);
            out(seq(&[format!("delete {a} {} none", show_list(&l)), format!("delete {a} {} none", show_list(&t)), format!("delete {a} {} none", show_list(&l))]));
            out(seq(&[format!("delete {b} {} 1", show_list(&t)), format!("delete {b} {} 1", show_list(&l))]));
            out(seq(&[format!("delete {c} {} 0", show_list(&l)), format!("delete {c} {} 0", show_list(&t))]));
            out(seq(&[format!("insert {a} {} {}", show_list(&l), tag_off(&[len], 100)), format!("insert {a} {} {}", show_list(&t), tag_off(&[len], 100))]));
        }
    }
    // ---- 6c. a refused call directly followed by valid calls on the same thread
    for s in [vec![5usize], vec![2, 3], vec![3, 2, 2], vec![12], vec![4, 4]] {
        let a = tag(&s); let nd = s.len(); let n: usize = s.iter().product(); let d = s[nd - 1];
        let bads = vec![format!("delete {a} 0,{} {}", d, nd - 1), format!("delete {a} 1,{},0 none", n + 2), format!("delete {a} 0 {}", nd), format!("insert {a} 0,{} i2+100", n + 1), format!("insert {a} 0,1 i3+100"),
                        format!("repeat {a} {} {}", show_list(&vec![1; d + 1]), nd - 1), format!("repeat {a} 2 {}", nd + 1), format!("repeat {a} 1,2,1,2,1,2,1 none"), format!("append {a} i2,2+100")];
        let goods = vec![format!("delete {a} 0 {}", nd - 1), format!("delete {a} 1,0 none"), format!("delete {a} {} 0", s[0] - 1), format!("insert {a} 1,0 i2+100"), format!("insert_delete {a} 0,{n} i2+100"),
                         format!("repeat {a} {} {}", show_list(&vec![2; d]), nd - 1), format!("repeat {a} 2 none"), format!("append {a} i2+100"), format!("delete {a} - none")];
        for (q, bad) in bads.iter().enumerate() { for r in 0..(if thorough { goods.len() } else { 3 }) { out(seq(&[bad.clone(), goods[(q + 3 * r) % goods.len()].clone(), goods[(q + r + 1) % goods.len()].clone()])); } }
        out(seq(&[bads[0].clone(), bads[3].clone(), goods[0].clone(), bads[5].clone(), goods[5].clone(), goods[3].clone()]));
    }
    // ---- 6d. A–B–A: a call, a different call, the first call again (seeded)
    {
        let mk = |rng: &mut Rng| -> String {
            let nd = 1 + rng.below(3); let hi = if rng.below(3) == 0 { 17 } else { 4 };
            let mut s: Vec<usize> = (0..nd).map(|_| 1 + rng.below(hi)).collect();
            while s.iter().product::<usize>() > 400 { let p = rng.below(nd); s[p] = 1 + s[p] / 2; }
            let a = tag(&s); let n: usize = s.iter().product(); let ax = rng.below(nd); let d = s[ax];
            match rng.below(6) {
                0 => format!("delete {a} {} {ax}", show_list(&(0..rng.below(d + 1)).map(|_| rng.below(d)).collect::<Vec<_>>())),
                1 => format!("delete {a} {} none", show_list(&(0..rng.below(n.min(9) + 1)).map(|_| rng.below(n)).collect::<Vec<_>>())),
                2 => { let k = 1 + rng.below(5); format!("insert {a} {} {}", show_list(&(0..k).map(|_| rng.below(n + 1)).collect::<Vec<_>>()), tag_off(&[k], 100)) }
                3 => format!("repeat {a} {} {ax}", show_list(&(0..d).map(|_| rng.below(3)).collect::<Vec<_>>())),
                4 => format!("repeat {a} {} none", rng.below(3)),
                _ => format!("append {a} {}", tag_off(&[rng.below(4)], 100)),
            }
        };
        for _ in 0..(if thorough { 1500 } else { 250 }) { let (a, b) = (mk(rng), mk(rng)); out(seq(&[a.clone(), b, a])); }
    }
    // ---- 7a. huge flat deletes: (number of distinct indices) x (elements) around and above 2^24 … 2^28; the model's flat delete is
    // fast enough for two of them directly, the others go through the native reference
    {
        let mut plans: Vec<(usize, usize, bool)> = vec![(8300, 8200, true), (70000, 1000, true), (8200, 8200, false), (8200, 4100, false), (20000, 10000, false), (70000, 959, false), (70000, 958, false),
                                                        (16385, 4097, false), (33000, 8200, false), (16385, 16384, false), (140000, 500, false), (65537, 1025, false)];
        if thorough { plans.extend([(20000, 10000, true), (33000, 2034, true), (40000, 40000, false), (131072, 2048, false), (100000, 671, false), (100000, 672, true)]); }
        for (n, k, direct) in plans {
            let a = tag(&[n]); let set = distinct(rng, n, k);
            let sps = spellings(rng, &set);
            let pre = if direct { "" } else { "n " };
            out(format!("{pre}delete {a} {} none", show_list(&sps[0])));
            if !direct { out(format!("n delete {a} {} none", show_list(&sps[1]))); out(format!("n delete {a} {} none", show_list(&sps[3]))); if thorough { out(format!("n delete {a} {} none", show_list(&sps[2]))); } }
        }
        // the same through a higher-rank receiver (the flat form ravels first)
        let set = distinct(rng, 16900, 4000); out(format!("n delete {} {} none", tag(&[130, 130]), show_list(&set)));
        let set = distinct(rng, 36000, 1900); out(format!("n delete {} {} none", tag(&[40, 30, 30]), show_list(&set)));
    }
    // ---- 7b. huge deletes along an axis (the per-lane call sees lanes of 8 300 … 70 000 elements and up to 10 000 indices)
    {
        let mut plans: Vec<(Vec<usize>, usize, usize)> = vec![(vec![2, 20000], 1, 10000), (vec![2, 8300], 1, 8200), (vec![70000, 2], 0, 1000), (vec![2, 70000], 1, 960), (vec![3, 8200, 2], 1, 8199), (vec![130, 130], 1, 65), (vec![300, 300], 0, 150), (vec![2, 16385], 1, 4097)];
        if thorough { plans.extend([(vec![20000, 2], 0, 10000), (vec![2, 2, 33000], 2, 2034), (vec![10, 11, 12, 13], 2, 7), (vec![5, 4, 10, 10, 10], 4, 3), (vec![129, 131], 0, 128), (vec![2, 40000], 1, 40000)]); }
        for (s, ax, k) in plans {
            let a = tag(&s); let set = distinct(rng, s[ax], k); let sps = spellings(rng, &set);
            out(format!("n delete {a} {} {ax}", show_list(&sps[0]))); out(format!("n delete {a} {} {ax}", show_list(&sps[3])));
        }
    }
    // ---- 7c. flat insert of very many (index, value) pairs: 1000 … 8193 directly, 16 385 … 70 000 (beyond 65 536) through the reference
    {
        let mut plans: Vec<(usize, usize, usize, bool)> = vec![(4, 1000, 5, true), (10, 1001, 3, true), (100, 4097, 11, true), (4, 8193, 5, true), (16, 16385, 7, false), (4, 32769, 5, false), (4, 70000, 5, false), (100, 68000, 9, false)];
        if thorough { plans.extend([(4, 65536, 5, false), (4, 65537, 2, false), (1000, 66000, 1001, false), (1, 65600, 1, false), (4, 16385, 5, true), (4, 131073, 5, false)]); }
        for (n, k, pool, direct) in plans {
            let a = tag(&[n]);
            let pos: Vec<usize> = if pool > n { (0..=n).collect() } else { (0..pool).map(|_| rng.below(n + 1)).collect() };
            let idx: Vec<usize> = if pool > n { (0..k).map(|j| j % (n + 1)).collect() } else { (0..k).map(|_| *rng.pick(&pos)).collect() };
            out(format!("{}insert {a} {} {}", if direct { "" } else { "n " }, show_list(&idx), tag_off(&[k], 100)));
            if direct { out(format!("insert_delete {a} {} {}", show_list(&idx), tag_off(&[k], 100))); }
        }
        if thorough { let idx: Vec<usize> = (0..66000).map(|j| j % 5).collect(); out(format!("insert i4 {} {}", show_list(&idx), tag_off(&[66000], 100))); }
    }
    // ---- 7d. repeat / append / trim on huge arrays: the flat forms directly (linear model), the axis forms through the reference
    for s in huge_shapes() {
        let a = tag(&s); let nd = s.len(); let n: usize = s.iter().product(); let last = s[nd - 1];
        out(format!("repeat {a} 2 none")); out(format!("append {a} {}", tag_off(&[70000], 1000000))); out(format!("append_self {a}"));
        if last <= 300 { let c: Vec<usize> = (0..last).map(|_| rng.below(3)).collect(); out(format!("repeat {a} {} none", show_list(&c))); }
        for ax in 0..nd {
            // the crate's `split` is quadratic in the number of parts (3 s per call for 70 000): axes up to 3000 positions only
            if s[ax] > 3000 { continue; }
            let mut c: Vec<usize> = (0..s[ax]).map(|_| rng.below(3)).collect(); c[0] = c[0].max(1);      // the reference abstains on all-zero counts
            out(format!("n repeat {a} {} {ax}", show_list(&c)));
            if n <= 70000 { out(format!("n repeat {a} 2 {ax}")); }
        }
        if nd == 1 { out(format!("trim {a}")); out(format!("n insert {a} {},0,{} i3+1000000", n, n / 2)); }
    }
    { let e: Vec<i64> = (0..70000).map(|k| if k < 30000 || k >= 66000 || k % 7 == 0 { 0 } else { k }).collect(); out(format!("trim 70000:{}", show_list(&e))); }
    // ---- 8. exact lengths and values: every axis length 1..300 in a non-leading position; request sizes 31, 37, 1000, 1001; indices
    // c + 2^8, c + 2^16, c + 2^32 (valid only after a narrowing cast: must be refused)
    for l in 1..=300usize {
        let a = tag(&[2, l]);
        let k = 1 + rng.below(l.min(6)); let set = distinct(rng, l, k);
        out(format!("delete {a} {} 1", show_list(&set)));
        match l % 3 { 0 => out(format!("delete {a} {} 1", l - 1)), 1 => out(format!("repeat {a} 2 1")), _ => { let c: Vec<usize> = (0..l).map(|q| (q * 7 + l) % 3).collect(); out(format!("repeat {a} {} 1", show_list(&c))); } }
        if l % 6 == 1 || l == 49 || thorough { let b = tag(&[3, l, 2]); out(format!("delete {b} {} 1", show_list(&set))); if l % 12 == 1 { out(format!("repeat {b} {} 1", show_list(&(0..l).map(|q| (q + l) % 3).collect::<Vec<_>>()))); } }
        if l % 5 == 0 { out(format!("delete {} {} none", tag(&[l]), show_list(&distinct(rng, l, l / 2)))); }
    }
    for k in [31usize, 37, 1000, 1001] {
        let n = 1200; let a = tag(&[n]);
        out(format!("delete {a} {} none", show_list(&distinct(rng, n, k))));
        out(format!("insert {a} {} {}", show_list(&(0..k).map(|_| rng.below(n + 1)).collect::<Vec<_>>()), tag_off(&[k], 5000)));
        out(format!("delete {} {} 1", tag(&[2, 1100]), show_list(&distinct(rng, 1100, k))));
        out(format!("repeat {} {} none", tag(&[3, k]), show_list(&(0..k).map(|_| rng.below(3)).collect::<Vec<_>>())));
    }
    for &p in &[19usize, 23, 29, 31, 37, 41, 43, 47, 49, 53, 97, 101, 127, 131, 251, 257] {
        let a = tag(&[p]); out(format!("delete {a} {} none", show_list(&distinct(rng, p, p / 2)))); out(format!("repeat {a} {} 0", show_list(&(0..p).map(|q| q % 3).collect::<Vec<_>>())));
        out(format!("insert {a} {} {}", show_list(&(0..p).map(|q| (q * 5) % (p + 1)).collect::<Vec<_>>()), tag_off(&[p], 1000)));
    }
    for s in [vec![5usize], vec![2, 3], vec![3, 4, 2], vec![300]] {
        let a = tag(&s); let nd = s.len();
        for c in [0usize, 1, 2] { for v in narrowing_images(c) {
            out(format!("delete {a} {v} none")); out(format!("delete {a} 0,{v} {}", nd - 1)); out(format!("delete {a} {c} {v}")); out(format!("insert {a} {v} i1+100")); out(format!("insert {a} 0,{v} i2+100")); out(format!("repeat {a} 2 {v}"));
        } }
        // a refused index of that kind followed by the index it aliases
        out(seq(&[format!("delete {a} {} none", (1usize << 32) + 1), format!("delete {a} 1 none"), format!("insert {a} {} i1+100", (1usize << 16) + 1), format!("insert {a} 1 i1+100")]));
    }
    // ---- 9. aliasing: the receiver itself as the `values` argument
    for s in [vec![0usize], vec![1], vec![3], vec![17], vec![300], vec![4100], vec![2, 3], vec![0, 2], vec![3, 1, 2], vec![70, 70]] {
        let a = tag(&s); let n: usize = s.iter().product();
        out(format!("append_self {a}"));
        if s.len() == 1 { out(format!("insert_self {a} 0")); out(format!("insert_self {a} {n}")); out(format!("insert_self {a} {}", show_list(&(0..n).rev().collect::<Vec<_>>()))); out(format!("insert_self {a} {}", show_list(&(0..n).map(|q| (q * 7) % (n + 1)).collect::<Vec<_>>()))); }
        else { out(format!("insert_self {a} 0")); }
    }
    // ---- 10. ranks 5..8 and long unsorted requests
    for s in [vec![2usize, 3, 2, 2, 3], vec![2, 1, 2, 2, 1, 2], vec![3, 2, 2, 1, 2, 2], vec![2, 2, 2, 2, 2, 2, 2], vec![1, 2, 1, 2, 2, 1, 2, 3], vec![2, 2, 1, 3, 1, 2, 2, 2]] {
        let a = tag(&s); let nd = s.len(); let n: usize = s.iter().product();
        for ax in 0..nd { let d = s[ax];
            for sub in subsets(d) { out(format!("delete {a} {} {ax}", show_list(&sub))); }
            let req: Vec<usize> = (0..(3 + rng.below(4))).map(|_| rng.below(d)).collect(); out(format!("delete {a} {} {ax}", show_list(&req)));
            for _ in 0..2 { let c: Vec<usize> = (0..d).map(|_| rng.below(3)).collect(); out(format!("repeat {a} {} {ax}", show_list(&c))); }
            out(format!("repeat {a} 2 {ax}"));
        }
        out(format!("delete {a} 0 {nd}")); out(format!("repeat {a} 1 {nd}"));
        for _ in 0..4 { let k = 3 + rng.below(4); let req: Vec<usize> = (0..k).map(|_| rng.below(n)).collect(); out(format!("delete {a} {} none", show_list(&req)));
            let pos: Vec<usize> = (0..k).map(|_| rng.below(n + 1)).collect(); out(format!("insert {a} {} {}", show_list(&pos), tag_off(&[k], 1000))); out(format!("insert_delete {a} {} {}", show_list(&pos), tag_off(&[k], 1000))); }
        out(format!("repeat {a} 2 none")); out(format!("append {a} i3+1000")); out(format!("append_self {a}"));
    }
}

// ------------------------------------------------------------------------------------------------ generator, part 3

/// index requests for a giant lane of `bound` positions: at least two DISTINCT indices in every pattern but the last one
fn giant_request(rng: &mut Rng, bound: usize, kind: usize) -> Vec<usize> {
    let near = if bound > (1 << 20) + 1 { 1usize << 20 } else { bound / 2 };
    match kind % 9 {
        0 => vec![bound - 1, 0],                                                        // both ends, descending
        1 => vec![bound / 3 * 2, 3, 10, 3],                                             // unsorted with a repetition
        2 => distinct(rng, bound, 7),
        3 => vec![near, near - 1],                                                      // adjacent, around 2^20
        4 => { let set = distinct(rng, bound, 100); spellings(rng, &set).pop().unwrap() }  // 100 distinct, with repeats, shuffled
        5 => vec![1, 64, 65, bound - 2],                                                // ascending
        6 => distinct(rng, bound, 33),
        7 => { let mut v = distinct(rng, bound, 5); v.sort(); v.reverse(); v }         // descending
        _ => vec![rng.below(bound)],                                                    // a single index
    }
}

fn gen_part3(thorough: bool, rng: &mut Rng, out: &mut dyn FnMut(String)) {
    out("oracle_report".to_string());
    let g = |s: &[usize]| format!("iota:{}", show_list(s));
    let count = |s: &[usize]| s.iter().product::<usize>();
    // ---- 11. giant requests (2^20 < elements <= 2.2e6) and the ladder below (2^17 .. 2^20: a threshold need not sit at 2^20);
    // ranks 1-4, first / middle / last axis, extents that are and are not multiples of 64.  Judged by the native reference.
    let rank4: Vec<Vec<usize>> = vec![vec![3, 5, 7, 10007], vec![64, 4, 64, 65], vec![2, 2, 65537, 4], vec![1, 1, 1048601, 1]];
    let ladder: Vec<Vec<usize>> = vec![vec![200_003], vec![262_147], vec![512, 1024], vec![524_289], vec![700_001], vec![1_048_575], vec![1_048_576], vec![1_048_577], vec![4, 262_144], vec![16, 65_600]];
    // 11a. flat delete (the receiver of any rank is ravelled)
    {
        let mut shapes: Vec<Vec<usize>> = giant_shapes(); shapes.extend(rank4.iter().cloned());
        if !thorough { shapes = vec![vec![1 << 20 | 5], vec![2_097_153], vec![1031, 1033], vec![400_001, 3], vec![65, 129, 127], vec![2, 131_073, 4], vec![3, 5, 7, 10007], vec![64, 4, 64, 65]]; }
        for (q, s) in shapes.iter().enumerate() {
            for r in 0..(if thorough { 4 } else { 1 }) { let req = giant_request(rng, count(s), q + 3 * r); out(format!("g delete {} {} none", g(s), show_list(&req))); }
        }
        for (q, s) in ladder.iter().enumerate() {
            if !thorough && q % 2 == 1 { continue; }
            let req = giant_request(rng, count(s), q + 1); out(format!("g delete {} {} none", g(s), show_list(&req)));
            if thorough { let req = giant_request(rng, count(s), q + 4); out(format!("g delete {} {} none", g(s), show_list(&req))); }
        }
        if thorough { let n = (1 << 20) + 77; out(format!("g delete {} {} none", g(&[n]), show_list(&distinct(rng, n, 1000)))); }
        out(format!("g delete {} 3,{} none", g(&[1 << 20 | 5]), 1 << 20 | 5));             // one index too far: refused
    }
    // 11b. delete along an axis: lanes above 2^20 (the per-lane flat delete is then giant itself) and giant arrays with shorter lanes.
    // The crate's `split` clones the whole array once per lane, so only axes with at most 16 lanes across
    {
        let mut plans: Vec<(Vec<usize>, usize)> = vec![(vec![1, 1 << 20 | 5], 1), (vec![1_048_583, 1], 0), (vec![1, 1, 1_048_601, 1], 2),
            (vec![400_001, 3], 0), (vec![2, 131_073, 4], 1)];
        if thorough { plans.extend([(vec![2, 1_048_577], 1), (vec![3, 400_001], 1), (vec![2, 2, 65537, 4], 2), (vec![1_048_577, 2], 0), (vec![2, 3, 174_763], 2), (vec![1, 2, 2, 262_147], 3), (vec![262_147, 2, 1, 2], 0), (vec![8, 131_136], 1), (vec![1_048_576, 1], 0), (vec![1, 1_048_577], 1), (vec![1, 700_001, 1], 1)]); }
        for (q, (s, ax)) in plans.iter().enumerate() {
            for r in 0..(if thorough { 3 } else { 1 }) { let req = giant_request(rng, s[*ax], q + 1 + 3 * r); out(format!("g delete {} {} {ax}", g(s), show_list(&req))); }
        }
        if thorough { out(format!("g delete {} 0,{} 1", g(&[1, 1 << 20 | 5]), 1 << 20 | 5)); }
    }
    // 11c. flat insert and the insert / delete round trip
    {
        let mut plans: Vec<(Vec<usize>, usize, usize)> = vec![(vec![1 << 20 | 5], 2, 0), (vec![2_097_153], 5, 0), (vec![1031, 1033], 70, 9)];
        if thorough { plans.extend([(vec![65, 129, 127], 3, 0), (vec![3, 5, 7, 10007], 33, 5), (vec![700_001], 4, 0), (vec![1_048_576], 2, 0), (vec![1_048_577], 2, 0), (vec![2, 3, 174_763], 100, 0)]); }
        for (s, k, pool) in plans {
            let n = count(&s);
            let mut idx: Vec<usize> = if pool > 0 { let pos: Vec<usize> = (0..pool).map(|_| rng.below(n + 1)).collect(); (0..k).map(|_| *rng.pick(&pos)).collect() } else { (0..k).map(|_| rng.below(n + 1)).collect() };
            if k == 2 { idx = vec![100, 7]; } else { idx[0] = n; idx[1] = 0; }
            out(format!("g insert {} {} {}", g(&s), show_list(&idx), tag_off(&[k], 5_000_000)));
            out(format!("g insert_delete {} {} {}", g(&s), show_list(&idx), tag_off(&[k], 5_000_000)));
            if thorough { out(format!("g insert {} {} i1+5000000", g(&s), show_list(&idx))); out(format!("g insert {} {} {}", g(&s), idx[0], tag_off(&[k], 5_000_000))); }
        }
        out(format!("g insert {} {} i1+5000000", g(&[1 << 20 | 5]), (1 << 20 | 5) + 1));      // one position too far: refused
    }
    // 11d. append
    for s in if thorough { vec![vec![1usize << 20 | 5], vec![1031, 1033], vec![2, 131_073, 4], vec![3, 5, 7, 10007], vec![1_048_576], vec![524_289]] } else { vec![vec![1usize << 20 | 5], vec![1031, 1033]] } {
        out(format!("g append {} i3+5000000", g(&s)));
        if count(&s) <= 1_100_000 { out(format!("g append_self {}", g(&s))); }
    }
    // 11e. flat repeat: one count, and one count per position of the last axis
    {
        let mut plans: Vec<(Vec<usize>, Vec<usize>)> = vec![(vec![1 << 20 | 5], vec![2]), (vec![2, 131_073, 4], vec![1, 2, 0, 1])];
        if thorough { plans.extend([(vec![400_001, 3], vec![1, 0, 2]), (vec![2_097_153], vec![1]), (vec![2, 2, 65537, 4], vec![0, 3, 1, 0]), (vec![1031, 1033], vec![2]), (vec![5, 70_000, 4], vec![2, 0, 0, 1]), (vec![64, 4, 64, 65], vec![1]), (vec![524_289], vec![3]), (vec![1_048_576], vec![2]), (vec![1_048_577], vec![0])]); }
        for (s, c) in plans { out(format!("g repeat {} {} none", g(&s), show_list(&c))); }
    }
    // 11f. repeat along an axis (the crate splits into one part per axis position and clones the array for each: axes up to 16 long)
    {
        let mut plans: Vec<(Vec<usize>, usize, Vec<usize>)> = vec![(vec![3, 400_001], 0, vec![1, 0, 2]), (vec![2, 2, 65537, 4], 1, vec![2, 1]), (vec![2, 131_073, 4], 2, vec![1, 2, 0, 1])];
        if thorough { plans.extend([(vec![400_001, 3], 1, vec![2, 1, 0]), (vec![2, 131_073, 4], 0, vec![2, 1]), (vec![5, 70_000, 4], 0, vec![1, 0, 2, 1, 1]), (vec![5, 70_000, 4], 2, vec![0, 1, 2, 1]), (vec![2, 3, 174_763], 1, vec![1, 2, 1]), (vec![2, 3, 174_763], 0, vec![2]),
            (vec![2, 2, 65537, 4], 0, vec![1, 2]), (vec![2, 2, 65537, 4], 3, vec![1, 1, 0, 2]), (vec![64, 4, 64, 65], 1, vec![1, 0, 2, 1]), (vec![1, 1 << 20 | 5], 0, vec![2]), (vec![1_048_583, 1], 1, vec![2]), (vec![16, 65_600], 0, vec![1; 16]), (vec![4, 262_144], 0, vec![1, 0, 1, 2])]); }
        for (s, ax, c) in plans { out(format!("g repeat {} {} {ax}", g(&s), show_list(&c))); }
    }
    // 11g. trim_zeros
    for l in if thorough { vec!["zpad:1048581,300000,200000".to_string(), "zpad:2097153,5,0".into(), "zpad:1048577,0,1".into(), "zpad:1048576,1048570,3".into(), "zpad:524289,1,524280".into(), g(&[1_048_577]), g(&[2, 524_289])] } else { vec!["zpad:1048581,300000,200000".to_string(), g(&[1_048_577])] } {
        out(format!("g trim {l}"));
    }

    // ---- 13. values related in a way random data never is (trim_zeros is the only value-dependent operation; the structural
    // operations additionally run on an all-zero f64 image with +0.0 / -0.0 by parity and on long-stem strings, see exec)
    for len in [2usize, 3, 8, 31, 32, 33, 64, 65, 1024, 1025, 4100] {
        for r in 0..(if thorough { 4 } else { 2 }) {
            // all elements == 0 but not bit-identical (+0.0 / -0.0 mixed): everything goes
            let codes: Vec<usize> = (0..len).map(|_| rng.below(2)).collect(); out(trimc_line(&codes));
            // … and with one non-zero somewhere (first, last, interior)
            let mut c2 = codes.clone(); let at = match r { 0 => rng.below(len), 1 => 0, 2 => len - 1, _ => len / 2 }; c2[at] = 5; out(trimc_line(&c2));
        }
        let alt: Vec<usize> = (0..len).map(|i| i % 2).collect(); out(trimc_line(&alt));
    }
    // a constant lane: all elements equal (nothing to trim unless the constant is a zero)
    for code in [0usize, 1, 5, 6, 7, 10, 11, 12] { for len in [1usize, 2, 3, 7, 8, 64, 65, 300] { if len <= 8 || thorough || code >= 5 { out(trimc_line(&vec![code; len])); } } }
    // constant / paired receivers for the structural operations (a shortcut keyed on equal values, a value-based position lookup)
    for lit in ["6:5,5,5,5,5,5", "2,3:5,5,5,5,5,5", "6:0,0,0,0,0,0", "8:1,1,2,2,1,1,2,2", "2,2,2:3,3,3,3,3,3,3,3", "3,2:0,0,0,0,0,0", "7:0,0,4,4,4,0,0"] {
        let (s, e) = parse_arr_raw(lit); let nd = s.len(); let n = e.len();
        for ax in 0..nd {
            for sub in subsets(s[ax]) { out(format!("delete {lit} {} {ax}", show_list(&sub))); }
            if s[ax] <= 3 { for c in boxes(&vec![3; s[ax]]) { out(format!("repeat {lit} {} {ax}", show_list(&c))); } }
            else { for _ in 0..12 { let c: Vec<usize> = (0..s[ax]).map(|_| rng.below(3)).collect(); out(format!("repeat {lit} {} {ax}", show_list(&c))); } }
        }
        for sub in subsets(n) { if sub.len() <= 3 || sub.len() + 1 >= n || thorough { out(format!("delete {lit} {} none", show_list(&sub))); } }
        for p in 0..=n { for v in [e[0], 9] { out(format!("insert {lit} {p} 1:{v}")); out(format!("insert_delete {lit} {p},{} 2:{v},{v}", n - p)); } }
        out(format!("append {lit} 3:{0},{0},{0}", e[0])); out(format!("append_self {lit}")); out(format!("append {lit} {}", lit.replace("2,3:", "6:").replace("2,2,2:", "8:").replace("3,2:", "6:")));
        for c in 0..=3 { out(format!("repeat {lit} {c} none")); }
        out(format!("repeat {lit} {} none", show_list(&(0..*s.last().unwrap()).map(|q| q % 3).collect::<Vec<_>>())));
        out(format!("trim {lit}"));
    }

    // ---- 15. huge indices whose product with a stride (or with the element size) wraps modulo 2^64 back into range: must be refused
    for s in [vec![5usize], vec![300], vec![2, 3], vec![3, 4, 2], vec![4, 4, 4], vec![3, 5, 7], vec![2, 2, 2, 16]] {
        let a = tag(&s); let nd = s.len();
        let mut wraps: Vec<(Option<usize>, usize)> = vec![];
        let wrap = |k: u128, st: u128, c: u128| -> Option<usize> { let v = (k << 64).div_ceil(st) + c; if v < (1u128 << 64) { Some(v as usize) } else { None } };
        for ax in 0..nd {
            let st: usize = s[ax + 1..].iter().product();
            let strides: Vec<usize> = if st > 1 { vec![st, st * 8] } else { vec![8, 4, 16, 12, 3, 2] };
            for st in strides { for k in [1usize, 2, st - 1] { if k < st { for c in [0usize, 1, s[ax] - 1] { if let Some(v) = wrap(k as u128, st as u128, c as u128) { wraps.push((Some(ax), v)); } } } } }
        }
        for st in [8usize, 4, 2, 16, 12, 3, 24] { for k in [1usize, st - 1] { for c in [0usize, 1] { if let Some(v) = wrap(k as u128, st as u128, c as u128) { wraps.push((None, v)); } } } }
        wraps.push((None, usize::MAX)); wraps.push((None, usize::MAX - 1)); wraps.push((None, 1usize << 63)); wraps.push((Some(0), usize::MAX)); wraps.push((Some(nd - 1), (1usize << 63) + 1));
        wraps.sort(); wraps.dedup();
        for (ax, v) in wraps {
            match ax {
                Some(ax) => { out(format!("delete {a} {v} {ax}")); out(format!("delete {a} 0,{v} {ax}")); out(format!("repeat {a} 2 {v}")); out(format!("delete {a} 0 {v}")); }
                None => { out(format!("delete {a} {v} none")); out(format!("delete {a} {v},0 none")); out(format!("insert {a} {v} i1+100")); out(format!("insert {a} 0,{v} i2+100")); out(format!("insert_delete {a} {v} i1+100")); }
            }
        }
        // the refused index directly followed by the index it would alias
        out(seq(&[format!("delete {a} {} none", (1usize << 61) + 1), format!("delete {a} 1 none"), format!("insert {a} {} i1+100", (1usize << 62) + 1), format!("insert {a} 1 i1+100"), format!("delete {a} {} 0", (1usize << 63) + 1), format!("delete {a} 1 0")]));
    }
}

// ------------------------------------------------------------------------------------------------ executor

fn mk<T: ArrayElement>(s: &str, of: &dyn Fn(i64) -> T) -> Array<T> {
    let (sh, e) = parse_arr_raw(s);
    Array::new(e.into_iter().map(of).collect(), sh).expect("harness: malformed array literal in case line")
}

/// one real call on element type `T`; `chained` = on `Ok(array)` through the `Result` receiver.  `src` = the receiver's shape and
/// tags when the case line only NAMES the array (`iota:…`, giant cases), otherwise the receiver is parsed from `args[0]`
fn call<T: ArrayElement>(op: &str, args: &[&str], chained: bool, of: &dyn Fn(i64) -> T, src: Option<&Val>) -> Option<R<T>> {
    let a = match src { Some((sh, e)) => Array::new(e.iter().map(|&t| of(t)).collect(), sh.clone()).expect("harness: giant array"), None => mk(args[0], of) };
    let ra: R<T> = Ok(a.clone());
    Some(match op {
        "delete" => { let idx = parse_usize_list(args[1]); let ax: Option<usize> = parse_opt(args[2]);
            if chained { ra.delete(&idx, ax) } else { a.delete(&idx, ax) } }
        "insert" => { let idx = parse_usize_list(args[1]); let v = mk(args[2], of);
            if chained { ra.insert(&idx, &v, None) } else { a.insert(&idx, &v, None) } }
        "insert_delete" => { let idx = parse_usize_list(args[1]); let v = mk(args[2], of); let land = landing(&idx);
            if chained { ra.insert(&idx, &v, None).delete(&land, None) } else { match a.insert(&idx, &v, None) { Ok(x) => x.delete(&land, None), Err(e) => Err(e) } } }
        "append" => { let v = mk(args[1], of); if chained { ra.append(&v, None) } else { a.append(&v, None) } }
        // aliasing: the receiver itself is the `values` argument
        "append_self" => if chained { ra.append(&a, None) } else { a.append(&a, None) },
        "insert_self" => { let idx = parse_usize_list(args[1]); if chained { ra.insert(&idx, &a, None) } else { a.insert(&idx, &a, None) } }
        "repeat" => { let reps = parse_usize_list(args[1]); let ax: Option<usize> = parse_opt(args[2]);
            if chained { ra.repeat(&reps, ax) } else { a.repeat(&reps, ax) } }
        "trim" => if chained { ra.trim_zeros() } else { a.trim_zeros() },
        _ => return None,
    })
}

enum Out<T: ArrayElement> { Panic, Val(R<T>) }
fn attempt<T: ArrayElement>(op: &str, args: &[&str], chained: bool, of: &dyn Fn(i64) -> T) -> Option<Out<T>> { attempt_on(op, args, chained, of, None) }
fn attempt_on<T: ArrayElement>(op: &str, args: &[&str], chained: bool, of: &dyn Fn(i64) -> T, src: Option<&Val>) -> Option<Out<T>> {
    match catch_unwind(AssertUnwindSafe(|| call(op, args, chained, of, src))) { Ok(Some(r)) => Some(Out::Val(r)), Ok(None) => None, Err(_) => Some(Out::Panic) }
}
fn out_text<T: ArrayElement>(o: &Out<T>) -> String { match o { Out::Panic => "panic".into(), Out::Val(r) => truncate(&res_arr(r), 200) } }

/// `None` when the image run `img` is the image under `of` of the canonical i64 run
fn image_diff<T: ArrayElement>(canon: &Out<i64>, img: &Out<T>, of: &dyn Fn(i64) -> T, same: fn(&T, &T) -> bool) -> Option<String> {
    match (canon, img) {
        (Out::Panic, Out::Panic) => None,
        (Out::Val(Err(_)), Out::Val(Err(_))) => None,
        (Out::Val(Ok(c)), Out::Val(Ok(i))) => {
            if !consistent(i) { return Some("result violates shape/length consistency".into()); }
            if c.get_shape().unwrap() != i.get_shape().unwrap() { return Some(format!("shape {:?} instead of {:?}", i.get_shape().unwrap(), c.get_shape().unwrap())); }
            let (ce, ie) = (c.get_elements().unwrap(), i.get_elements().unwrap());
            for p in 0..ce.len() { let w = of(ce[p]); if !same(&w, &ie[p]) { return Some(format!("flat position {p} holds {:?} instead of {:?}", ie[p], w)); } }
            None
        }
        _ => Some(format!("outcome `{}`", out_text(img))),
    }
}

/// run both receivers on the image type; the first divergence from the canonical i64 run as text
fn images<T: ArrayElement>(canon: &Out<i64>, op: &str, args: &[&str], name: &str, of: &dyn Fn(i64) -> T, same: fn(&T, &T) -> bool) -> Option<Result<(), String>> {
    images_on(canon, op, args, name, of, same, &[false, true])
}
fn images_on<T: ArrayElement>(canon: &Out<i64>, op: &str, args: &[&str], name: &str, of: &dyn Fn(i64) -> T, same: fn(&T, &T) -> bool, receivers: &[bool]) -> Option<Result<(), String>> {
    for &chained in receivers {
        let o = attempt(op, args, chained, of)?;
        if let Some(d) = image_diff(canon, &o, of, same) {
            let kind = if chained { "RECEIVER-DIVERGENCE" } else { "TYPE-DIVERGENCE" };
            return Some(Err(format!("{kind} element type {name}, {} receiver: {d}; i64 plain run: {}", if chained { "Result" } else { "plain" }, out_text(canon))));
        }
    }
    Some(Ok(()))
}

fn eq<T: PartialEq>(a: &T, b: &T) -> bool { a == b }
fn bits64(a: &f64, b: &f64) -> bool { a.to_bits() == b.to_bits() }
fn bits32(a: &f32, b: &f32) -> bool { a.to_bits() == b.to_bits() }

/// structural operations (and `trim` on integer patterns): the i64 run and all its images
fn run_structural(op: &str, args: &[&str], lite: bool) -> Option<String> {
    let canon = attempt(op, args, false, &|t| t)?;
    if let Out::Val(Ok(a)) = &canon { if !consistent(a) { return Some(format!("INCONSISTENT result (shape/length): {}", out_text(&canon))); } }
    let text = match &canon { Out::Panic => "panic".to_string(), Out::Val(r) => res_arr(r) };
    // the same call a second time, on the Result receiver
    let again = attempt(op, args, true, &|t| t)?;
    if let Some(d) = image_diff(&canon, &again, &|t| t, eq) { return Some(format!("RECEIVER-DIVERGENCE element type i64, Result receiver: {d}; plain run: {}", out_text(&canon))); }
    let value_dep = op == "trim";       // images must then map 0 to the zero of the type and everything else to a non-zero
    macro_rules! img { ($name:expr, $of:expr, $same:expr) => { if let Err(d) = images(&canon, op, args, $name, &$of, $same)? { return Some(d); } } }
    // huge cases: the u8 image only (both receivers)
    if lite {
        if value_dep { img!("u8", |t: i64| if t == 0 { 0u8 } else { 255 - ((t - 1).rem_euclid(255)) as u8 }, eq); } else { img!("u8", tag_u8, eq); }
        // part 3: one odd layout per huge case as well (12 / 3 / 6 bytes in turn, plain or Result receiver in turn)
        let b = args.iter().map(|a| a.len()).sum::<usize>();
        let recv: &[bool] = if (b / 3) % 2 == 0 { &[false] } else { &[true] };
        let r = match b % 3 {
            0 => images_on(&canon, op, args, "Tuple3<i32,i32,i32> (12 bytes)", &zero_or(tag_t3), eq, recv)?,
            1 => images_on(&canon, op, args, "Tuple3<u8,u8,u8> (3 bytes)", &zero_or(tag_t3b), eq, recv)?,
            _ => images_on(&canon, op, args, "Tuple3<i16,i16,i16> (6 bytes)", &zero_or(tag_t6), eq, recv)?,
        };
        if let Err(d) = r { return Some(d.replacen("TYPE-DIVERGENCE", "LAYOUT-DIVERGENCE", 1)); }
        return Some(text);
    }
    if value_dep {
        img!("u8", |t: i64| if t == 0 { 0u8 } else { 255 - ((t - 1).rem_euclid(255)) as u8 }, eq);
        img!("i16", |t: i64| (-(t.rem_euclid(32000))) as i16, eq);
        img!("i64 beyond 2^53", |t: i64| if t == 0 { 0 } else { (1i64 << 62) - 7 * t }, eq);
    } else {
        img!("u8", tag_u8, eq);
        img!("i16", |t: i64| (t.rem_euclid(65521) - 32760) as i16, eq);
        img!("i64 beyond 2^53", |t: i64| (1i64 << 62) - 7 * t, eq);
        img!("bool", |t: i64| t % 2 != 0, eq);
    }
    img!("f64 (tag 0 = -0.0)", tag_f64z, bits64);
    img!("f32 (tag 0 = -0.0)", |t: i64| if t == 0 { -0.0f32 } else { t as f32 }, bits32);
    img!("String", |t: i64| t.to_string(), eq);
    // ---- part 3, class (12): element LAYOUT.  12-, 3-, 6-byte tuples (64 / size_of is not a power of two), the 32-byte non-Copy
    // Tuple2<String,i32> and a 40-byte tuple (size_of > 24): all five on every case of the small scope (receiver up to 100 elements,
    // case line up to 200 bytes) with the plain receiver, one of them in turn also through the Result receiver; on the larger cases one
    // layout and one receiver per case, in turn.
    // For the operations whose only array argument is the receiver the plain call goes through lib's `on_layouts_arr!`
    // in the small scope (its i64 answer must be the canonical text), the Result receiver through the image machinery of this bin; the operations
    // that take a second array of the same element type, and the value-dependent `trim`, use the image machinery for both receivers.
    let bytes = args.iter().map(|a| a.len()).sum::<usize>();
    let small = elems_of(args[0]) <= 100 && bytes <= 200;
    // small scope: the plain receiver on all five layouts, the Result receiver on one of them in turn; beyond the small scope ONE
    // layout per case, in turn, on the plain or the Result receiver in turn (the exec budget of the quick tier)
    let rot = bytes % 5;
    let via_macro = small && matches!(op, "delete" | "repeat" | "append_self" | "insert_self");
    if via_macro {
        let lt = on_layouts_arr!(args[0], |a| layout_call(&a, op, args));
        if lt != text { return Some(if lt.starts_with("LAYOUT-DIVERGENCE") { truncate(&lt, 1500) } else { format!("LAYOUT-DIVERGENCE the i64 run inside on_layouts_arr! answers `{}`", truncate(&lt, 300)) }); }
    }
    let recv_for = |k: usize, in_macro: bool| -> &'static [bool] {
        match (small, rot == k, via_macro && in_macro) {
            (true, true, false) => &[false, true], (true, true, true) => &[true], (true, false, false) => &[false],
            (false, true, _) => if (bytes / 5) % 2 == 0 { &[false] } else { &[true] },
            _ => &[] }
    };
    macro_rules! lay { ($k:expr, $in_macro:expr, $name:expr, $of:expr) => { if let Err(d) = images_on(&canon, op, args, $name, &$of, eq, recv_for($k, $in_macro))? { return Some(d.replacen("TYPE-DIVERGENCE", "LAYOUT-DIVERGENCE", 1)); } } }
    if value_dep {
        lay!(0, true, "Tuple3<i32,i32,i32> (12 bytes)", zero_or(tag_t3)); lay!(1, true, "Tuple3<u8,u8,u8> (3 bytes)", zero_or(tag_t3b)); lay!(2, true, "Tuple2<String,i32> (32 bytes, not Copy)", zero_or(tag_tw));
        lay!(3, false, "Tuple3<i16,i16,i16> (6 bytes)", zero_or(tag_t6)); lay!(4, false, "Tuple2<Tuple3<i64,i64,i64>,Tuple2<i64,i64>> (40 bytes)", zero_or(tag_t40));
    } else {
        lay!(0, true, "Tuple3<i32,i32,i32> (12 bytes)", tag_t3); lay!(1, true, "Tuple3<u8,u8,u8> (3 bytes)", tag_t3b); lay!(2, true, "Tuple2<String,i32> (32 bytes, not Copy)", tag_tw);
        // the two layouts lib.rs does not have
        lay!(3, false, "Tuple3<i16,i16,i16> (6 bytes)", tag_t6); lay!(4, false, "Tuple2<Tuple3<i64,i64,i64>,Tuple2<i64,i64>> (40 bytes)", tag_t40);
        // ---- part 3, class (13): values related in a way random data never is.  All elements `==` but not bit-identical
        // (+0.0 at even tags, -0.0 at odd tags; compared bit-wise), and strings sharing a stem of 40 bytes before the first difference
        if small || bytes % 4 == 0 {
            let recv: &[bool] = if bytes % 4 != 0 || !small { &[false] } else { &[false, true] };
            if let Err(d) = images_on(&canon, op, args, "f64 all-zero (+0.0 / -0.0 by tag parity: all elements ==, none identical to its neighbour)", &|t: i64| if t & 1 == 0 { 0.0f64 } else { -0.0f64 }, bits64, recv)? { return Some(d); }
        }
        if bytes % 4 == 1 { if let Err(d) = images_on(&canon, op, args, "String with a common stem of 40 bytes", &|t: i64| format!("{:0>48}", t), eq, if small { &[false, true] } else { &[false] })? { return Some(d); } }
    }
    Some(text)
}

/// the plain call of an operation whose only array argument is the receiver, generic in the element type (for `on_layouts_arr!`)
fn layout_call<T: ArrayElement>(a: &Array<T>, op: &str, args: &[&str]) -> R<T> {
    match op {
        "delete" => a.delete(&parse_usize_list(args[1]), parse_opt(args[2])),
        "repeat" => a.repeat(&parse_usize_list(args[1]), parse_opt(args[2])),
        "append_self" => a.append(a, None),
        "insert_self" => a.insert(&parse_usize_list(args[1]), a, None),
        _ => Err(ArrayError::NotImplemented),
    }
}
type T6 = Tuple3<i16, i16, i16>;
type T40 = Tuple2<Tuple3<i64, i64, i64>, Tuple2<i64, i64>>;
fn tag_t6(t: i64) -> T6 { Tuple3(t as i16, (t >> 3) as i16, !(t as i16)) }
fn tag_t40(t: i64) -> T40 { Tuple2(Tuple3(t, -t, t ^ 0x5555), Tuple2(t.wrapping_mul(3), 7 - t)) }
/// for the value-dependent `trim_zeros`: tag 0 is the zero of the type, every other tag a non-zero
fn zero_or<T: ArrayElement>(f: fn(i64) -> T) -> impl Fn(i64) -> T { move |t| if t == 0 { T::zero() } else { f(t) } }

// ---- trimc: value classes

const F64_CLASS: [f64; NCODES] = [0.0, -0.0, f64::NAN, 5e-324, -5e-324, 1.0, -1.0, f64::INFINITY, f64::NEG_INFINITY, f64::MIN_POSITIVE, f64::MAX, 9007199254740993.0, 1e-320];
const F32_CLASS: [f32; NCODES] = [0.0, -0.0, f32::NAN, 1e-45, -1e-45, 1.0, -1.0, f32::INFINITY, f32::NEG_INFINITY, f32::MIN_POSITIVE, f32::MAX, 16777217.0, 1e-40];
const I64_CLASS: [i64; NCODES] = [0, 0, 1, -1, i64::MAX, i64::MIN, 9007199254740993, -9007199254740993, 1 << 32, 1 << 53, 256, -256, 2];
const U8_CLASS: [u8; NCODES] = [0, 0, 1, 255, 254, 128, 127, 2, 16, 64, 200, 100, 3];
const I16_CLASS: [i16; NCODES] = [0, 0, 1, -1, i16::MAX, i16::MIN, 256, -256, 255, 128, -128, 2, -2];
const STR_CLASS: [&str; NCODES] = ["0", "0", "", "00", "0.0", "-0", " 0", "1", "nan", "0 ", "+0", "O", "zero"];

/// `trim_zeros` on the class-coded lane in element type `T`; the answer as the model would print it (surviving positions + 1, 0 for
/// a kept zero), found by locating the result as a contiguous slice of the input (bit-wise)
fn trimc_run<T: ArrayElement>(input: Vec<T>, ints: &[i64], chained: bool, same: fn(&T, &T) -> bool, hint: Option<usize>) -> String {
    let n_in = input.len();
    let a = Array::new(input.clone(), vec![n_in]).expect("harness: lane");
    let r = catch_unwind(AssertUnwindSafe(|| if chained { let ra: R<T> = Ok(a.clone()); ra.trim_zeros() } else { a.trim_zeros() }));
    let r = match r { Err(_) => return "panic".into(), Ok(Err(e)) => return format!("err {}", err_name(&e)), Ok(Ok(r)) => r };
    if !consistent(&r) { return "ok <shape/length inconsistent>".into(); }
    if r.get_shape().unwrap().len() != 1 { return format!("ok <rank {}>", r.get_shape().unwrap().len()); }
    let e = r.get_elements().unwrap(); let n = e.len();
    if n == 0 { return "ok 0:-".into(); }
    if n > n_in { return format!("ok <{} elements out of {}>", n, n_in); }
    let at = |lo: usize| (0..n).all(|k| same(&input[lo + k], &e[k]));
    let mut found = None;
    if let Some(h) = hint { if h + n <= n_in && at(h) { found = Some(h); } }
    if found.is_none() { found = (0..=(n_in - n)).find(|&lo| at(lo)); }
    match found { Some(lo) => format!("ok {}:{}", n, show_list(&ints[lo..lo + n])), None => format!("ok <{} elements that are no contiguous slice of the input; first {:?}>", n, e[0]) }
}

fn run_trimc(args: &[&str], expected: &str) -> Option<String> {
    let (shape, ints) = parse_arr_raw(args[0]);
    let codes = parse_usize_list(args[1]);
    if shape != vec![codes.len()] || ints.len() != codes.len() || codes.iter().any(|&c| c >= NCODES) { return None; }
    // the integers sent to the model must say exactly which positions are zeros
    for (i, &c) in codes.iter().enumerate() { if ints[i] != if c <= 1 { 0 } else { i as i64 + 1 } { return None; } }
    // where the model says the surviving slice starts (first surviving element is non-zero, = position + 1)
    let hint = expected.strip_prefix("ok ").and_then(|s| s.split_once(':')).and_then(|(_, e)| e.split(',').next().and_then(|x| x.parse::<usize>().ok())).and_then(|p| p.checked_sub(1));
    let mut answers: Vec<(String, String)> = vec![];
    macro_rules! ty { ($name:expr, $v:expr, $same:expr) => { for chained in [false, true] {
        answers.push((format!("{}{}", $name, if chained { ", Result receiver" } else { "" }), trimc_run($v, &ints, chained, $same, hint))); } } }
    ty!("f64", codes.iter().map(|&c| F64_CLASS[c]).collect::<Vec<f64>>(), bits64);
    ty!("f32", codes.iter().map(|&c| F32_CLASS[c]).collect::<Vec<f32>>(), bits32);
    ty!("i64", codes.iter().map(|&c| I64_CLASS[c]).collect::<Vec<i64>>(), eq);
    ty!("u8", codes.iter().map(|&c| U8_CLASS[c]).collect::<Vec<u8>>(), eq);
    ty!("i16", codes.iter().map(|&c| I16_CLASS[c]).collect::<Vec<i16>>(), eq);
    ty!("String", codes.iter().map(|&c| STR_CLASS[c].to_string()).collect::<Vec<String>>(), eq);
    ty!("bool", codes.iter().map(|&c| c > 1).collect::<Vec<bool>>(), eq);
    // all element types and receivers must tell the same story; report the first one that does not agree with the model
    let first = answers[0].1.clone();
    for (name, ans) in &answers { if ans != expected && !(class_of(ans) == "err" && class_of(expected) == "err") { return Some(format!("{} [element type {}]", ans, name)); } }
    Some(first)
}

// ---- harness-native reference (index filters and coordinate formulas)

use std::sync::atomic::{AtomicUsize, Ordering};
static ORACLE_CHECKED: AtomicUsize = AtomicUsize::new(0);
static ORACLE_SILENT: AtomicUsize = AtomicUsize::new(0);
static ORACLE_ONLY: AtomicUsize = AtomicUsize::new(0);
static ABA_RERUNS: AtomicUsize = AtomicUsize::new(0);
static SEQ_CALLS: AtomicUsize = AtomicUsize::new(0);

type Val = (Vec<usize>, Vec<i64>);

/// keep / repeat the positions of one axis: `count[i]` copies of index i of axis `ax` (0 = deleted), all other coordinates untouched
fn axis_counts(shape: &[usize], e: &[i64], ax: usize, count: &[usize]) -> Val {
    let inner: usize = shape[ax + 1..].iter().product(); let outer: usize = shape[..ax].iter().product(); let d = shape[ax];
    let mut out = Vec::new();
    for o in 0..outer { for i in 0..d { for _ in 0..count[i] { let at = (o * d + i) * inner; out.extend_from_slice(&e[at..at + inner]); } } }
    let mut s = shape.to_vec(); s[ax] = count.iter().sum();
    (s, out)
}
fn delete_ref(shape: &[usize], e: &[i64], idx: &[usize], ax: Option<usize>) -> Option<Val> {
    match ax {
        None => { if idx.iter().any(|&i| i >= e.len()) { return None; }
            let mut gone = vec![false; e.len()]; for &i in idx { gone[i] = true; }
            let out: Vec<i64> = (0..e.len()).filter(|&p| !gone[p]).map(|p| e[p]).collect(); Some((vec![out.len()], out)) }
        Some(ax) => { if ax >= shape.len() || idx.iter().any(|&i| i >= shape[ax]) { return None; }
            let mut count = vec![1usize; shape[ax]]; for &i in idx { count[i] = 0; }
            Some(axis_counts(shape, e, ax, &count)) }
    }
}
/// position p of the OLD flat array receives, before its old element, the values requested for p, in request order
fn insert_ref(e: &[i64], idx: &[usize], vals: &[i64]) -> Option<Vec<i64>> {
    let n = e.len();
    if idx.iter().any(|&i| i > n) { return None; }
    let k = if idx.len() == vals.len() { idx.len() } else if idx.len() == 1 { vals.len() } else if vals.len() == 1 { idx.len() } else { return None };
    let mut at: Vec<Vec<i64>> = vec![vec![]; n + 1];
    for q in 0..k { at[idx[if idx.len() == 1 { 0 } else { q }]].push(vals[if vals.len() == 1 { 0 } else { q }]); }
    let mut out = Vec::with_capacity(n + k);
    for p in 0..=n { out.extend_from_slice(&at[p]); if p < n { out.push(e[p]); } }
    Some(out)
}

/// The statement of C13 as direct index formulas.  `None` = no opinion (arrays with a zero-length axis, empty requests, value arrays
/// of rank other than 1, …: judged by the model only); `Some(None)` = the call must be refused.
fn oracle(op: &str, args: &[&str]) -> Option<Option<Val>> {
    let (shape, e) = parse_arr_raw(args.first()?);
    oracle_on(op, shape, e, args)
}
/// the same reference on a receiver that is already built (`args[0]` is not read): the giant cases of part 3 are judged by the very
/// code that is compared with the model on the ordinary cases
fn oracle_on(op: &str, shape: Vec<usize>, e: Vec<i64>, args: &[&str]) -> Option<Option<Val>> {
    let nd = shape.len(); let n = e.len();
    if n == 0 || nd == 0 || shape.iter().product::<usize>() != n { return None; }
    Some(match op {
        "delete" => { let idx = parse_usize_list(args[1]); let ax: Option<usize> = parse_opt(args[2]); delete_ref(&shape, &e, &idx, ax) }
        "insert" | "insert_delete" | "insert_self" => {
            let idx = parse_usize_list(args[1]);
            let (vs, ve) = if op == "insert_self" { (shape.clone(), e.clone()) } else { parse_arr_raw(args[2]) };
            if vs.len() != 1 || ve.is_empty() || idx.is_empty() { return None; }
            match insert_ref(&e, &idx, &ve) {
                None => None,
                Some(out) => if op == "insert_delete" { let l = out.len(); delete_ref(&[l], &out, &landing(&idx), None) } else { Some((vec![out.len()], out)) },
            }
        }
        "append" | "append_self" => { let ve = if op == "append_self" { e.clone() } else { parse_arr_raw(args[1]).1 }; let mut out = e.clone(); out.extend_from_slice(&ve); Some((vec![out.len()], out)) }
        "repeat" => { let reps = parse_usize_list(args[1]); let ax: Option<usize> = parse_opt(args[2]);
            if reps.is_empty() { return None; }
            match ax {
                // one count for every element (a single count, or one per position of the last axis, stretched over the array)
                None => { let last = shape[nd - 1];
                    if last == 1 && reps.len() != 1 { return None; }       // a unit last axis: the counts stretch the array instead
                    if reps.len() != 1 && reps.len() != last { return Some(None); }
                    let out: Vec<i64> = (0..n).flat_map(|p| std::iter::repeat(e[p]).take(if reps.len() == 1 { reps[0] } else { reps[p % last] })).collect();
                    Some((vec![out.len()], out)) }
                Some(ax) => { if ax >= nd { return Some(None); }
                    if reps.len() != 1 && reps.len() != shape[ax] { return Some(None); }
                    let count: Vec<usize> = (0..shape[ax]).map(|i| if reps.len() == 1 { reps[0] } else { reps[i] }).collect();
                    if count.iter().sum::<usize>() == 0 { return None; }
                    Some(axis_counts(&shape, &e, ax, &count)) }
            } }
        "trim" => { if nd != 1 { return Some(None); }
            let lo = e.iter().position(|&x| x != 0).unwrap_or(n); let hi = e.iter().rposition(|&x| x != 0).map_or(lo, |p| p + 1);
            let out = e[lo..hi.max(lo)].to_vec(); Some((vec![out.len()], out)) }
        _ => return None,
    })
}
fn oracle_text(o: &Option<Val>) -> String { match o { Some((s, e)) => format!("ok {}:{}", show_list(s), show_list(e)), None => "err".to_string() } }

/// where two `ok shape:elements` answers differ
fn diff_detail(obs: &str, want: &str) -> String {
    let parse = |t: &str| -> Option<(String, Vec<String>)> { let b = t.strip_prefix("ok ")?; let (s, e) = b.split_once(':')?; Some((s.to_string(), e.split(',').map(|x| x.to_string()).collect())) };
    match (parse(obs), parse(want)) {
        (Some((so, eo)), Some((sw, ew))) => {
            if so != sw { return format!("shape {so} instead of {sw}"); }
            if eo.len() != ew.len() { return format!("{} elements instead of {}", eo.len(), ew.len()); }
            let bad: Vec<usize> = (0..eo.len()).filter(|&p| eo[p] != ew[p]).collect();
            match bad.first() { Some(&p) => format!("shape {so}: {} of {} positions differ, the first at flat position {p}: {} instead of {}", bad.len(), eo.len(), eo[p], ew[p]), None => "equal".into() }
        }
        _ => format!("`{}` instead of `{}`", truncate(obs, 200), truncate(want, 200)),
    }
}

fn elems_of(s: &str) -> usize {
    if let Some(sh) = s.strip_prefix("iota:") { return parse_usize_list(sh).iter().product(); }
    if let Some(b) = s.strip_prefix("zpad:") { return parse_usize_list(b).first().copied().unwrap_or(0); }
    let body = s.strip_prefix('i').unwrap_or(s); let sh = body.split(|c| c == '+' || c == ':').next().unwrap_or("-"); parse_usize_list(sh).iter().product() }
fn is_structural(op: &str) -> bool { matches!(op, "delete" | "insert" | "insert_delete" | "append" | "repeat" | "trim" | "append_self" | "insert_self") }
/// huge cases run on i64 (both receivers) and the u8 image only
fn is_huge(args: &[&str]) -> bool { args.iter().map(|a| a.len()).sum::<usize>() > 60_000 || args.first().map_or(0, |a| elems_of(a)) > 20_000 }

/// one ordinary call line against the model's answer; on the way the native reference is compared with the model
fn exec_call(op: &str, args: &[&str], expected: &str) -> Option<Verdict> {
    if op == "trimc" { return Some(compare_default(run_trimc(args, expected)?, expected)); }
    if !is_structural(op) { return None; }
    let obs = run_structural(op, args, is_huge(args))?;
    match oracle(op, args) {
        None => { ORACLE_SILENT.fetch_add(1, Ordering::Relaxed); }
        Some(o) => {
            let ot = oracle_text(&o);
            let agree = if o.is_none() { class_of(expected) == "err" } else { ot == expected };
            if !agree { return Some(Verdict::Mismatch { observed: obs, detail: format!("ORACLE-VS-MODEL the harness-native reference gives `{}`, the model `{}` ({}) (harness defect: the reference is not usable)", truncate(&ot, 300), truncate(expected, 300), diff_detail(&ot, expected)) }); }
            ORACLE_CHECKED.fetch_add(1, Ordering::Relaxed);
        }
    }
    Some(compare_default(obs, expected))
}

/// `n call…`: a huge request; the driver answers `ok native`, the crate is judged by the native reference
fn exec_native(args: &[&str], expected: &str) -> Option<Verdict> {
    if expected != "ok native" { return Some(compare_default("harness: an `n` line expects the driver to answer `ok native`".into(), expected)); }
    let (op, rest) = (*args.first()?, &args[1..]);
    if !is_structural(op) { return None; }
    let want = oracle_text(&oracle(op, rest)?);      // `n` lines are only generated where the reference has an opinion
    ORACLE_ONLY.fetch_add(1, Ordering::Relaxed);
    let obs = run_structural(op, rest, true)?;
    if obs == want || (class_of(&obs) == "err" && want == "err") { return Some(Verdict::Match(format!("ok native ({} bytes as the harness-native reference)", obs.len()))); }
    Some(Verdict::Mismatch { detail: format!("differs from the harness-native index reference: {}; reference `{}`", diff_detail(&obs, &want), truncate(&want, 300)), observed: truncate(&obs, 1500) })
}

// ---- part 3: giant requests (class 11)

static GIANT_CALLS: AtomicUsize = AtomicUsize::new(0);

/// `iota:<shape>` = the tags 0, 1, 2, … in row-major order; `zpad:<n>,<l>,<r>` = a lane of n elements with l zeros in front, r zeros
/// at the end, non-zero border elements and a zero at every 7th interior position (for `trim_zeros`)
fn giant_src(spec: &str) -> Option<Val> {
    if let Some(sh) = spec.strip_prefix("iota:") { let shape = parse_usize_list(sh); let n: usize = shape.iter().product(); return Some((shape, (0..n as i64).collect())); }
    let v = parse_usize_list(spec.strip_prefix("zpad:")?);
    let (n, l, r) = (*v.first()?, *v.get(1)?, *v.get(2)?);
    if l + r + 2 > n { return None; }
    Some((vec![n], (0..n).map(|k| if k < l || k >= n - r { 0 } else if k % 7 == 3 && k != l && k != n - r - 1 { 0 } else { k as i64 + 1 }).collect()))
}
fn brief<T: ArrayElement>(o: &Out<T>) -> String {
    match o { Out::Panic => "panic".into(), Out::Val(Err(e)) => format!("err {}", err_name(e)), Out::Val(Ok(a)) => format!("ok <shape {}, {} elements>", show_list(&a.get_shape().unwrap()), a.get_elements().unwrap().len()) }
}

/// `g call…`: the driver answers `ok native`; the crate's answer is compared IN PLACE (never printed) with the native reference,
/// on `Array<i64>` and on one further element type (u8 / 12-byte / 3-byte / 6-byte tuple / f64 with -0.0, in turn; plain or Result
/// receiver in turn).  Only the first differing flat position is reported.
fn exec_giant(args: &[&str], expected: &str) -> Option<Verdict> {
    if expected != "ok native" { return Some(compare_default("harness: a `g` line expects the driver to answer `ok native`".into(), expected)); }
    let (op, rest) = (*args.first()?, &args[1..]);
    if !is_structural(op) { return None; }
    let src = giant_src(rest.first()?)?;
    let want = oracle_on(op, src.0.clone(), src.1.clone(), rest)?;      // `g` lines are only generated where the reference has an opinion
    GIANT_CALLS.fetch_add(1, Ordering::Relaxed);
    let shown = match &want { Some((sh, e)) => format!("ok native (giant: reference result has shape {} = {} elements, compared in place)", show_list(sh), e.len()), None => "ok native (giant: the reference refuses the call)".to_string() };
    let canon: Out<i64> = Out::Val(match want { Some((sh, e)) => Array::new(e, sh), None => Err(ArrayError::NotImplemented) });
    let value_dep = op == "trim";
    let key = args.iter().map(|a| a.len()).sum::<usize>() + src.1.len();
    // two runs per giant case: the plain call on Array<i64>, then one further element type, through the Result receiver for every
    // other case (the quick tier has ~10 s for all giant cases together)
    macro_rules! ty { ($name:expr, $of:expr, $same:expr, $recv:expr) => { for chained in $recv {
        let o = attempt_on(op, rest, chained, &$of, Some(&src))?;
        if let Some(d) = image_diff(&canon, &o, &$of, $same) {
            return Some(Verdict::Mismatch { observed: brief(&o), detail: format!("differs from the harness-native index reference (element type {}, {} receiver): {d}; the reference expects {}", $name, if chained { "Result" } else { "plain" }, brief(&canon)) });
        }
    } } }
    let second = [(key / 5) % 2 == 1];
    ty!("i64", |t: i64| t, eq, [false]);
    match key % 5 {
        0 => { if value_dep { ty!("u8", |t: i64| if t == 0 { 0u8 } else { 255 - ((t - 1).rem_euclid(255)) as u8 }, eq, second); } else { ty!("u8", tag_u8, eq, second); } }
        1 => ty!("Tuple3<i32,i32,i32> (12 bytes)", zero_or(tag_t3), eq, second),
        2 => ty!("Tuple3<u8,u8,u8> (3 bytes)", zero_or(tag_t3b), eq, second),
        3 => ty!("Tuple3<i16,i16,i16> (6 bytes)", zero_or(tag_t6), eq, second),
        _ => ty!("f64 (tag 0 = -0.0)", tag_f64z, bits64, second),
    }
    Some(Verdict::Match(shown))
}

thread_local! { static PREV: std::cell::RefCell<Option<(String, Vec<String>, String)>> = const { std::cell::RefCell::new(None) }; }
/// only the plain call on `Array<i64>` (the A–B–A re-run)
fn plain_i64(op: &str, args: &[&str]) -> Option<String> { match attempt(op, args, false, &|t| t)? { Out::Panic => Some("panic".into()), Out::Val(r) => Some(res_arr(&r)) } }

fn exec(op: &str, args: &[&str], expected: &str) -> Option<Verdict> {
    // VERIF_SLOW=<seconds>: name the case lines whose execution takes longer (tuning aid, no influence on the verdicts)
    let t0 = std::time::Instant::now();
    let v = exec_line(op, args, expected);
    if let Some(lim) = std::env::var("VERIF_SLOW").ok().and_then(|s| s.parse::<f64>().ok()) { let dt = t0.elapsed().as_secs_f64(); if dt > lim { eprintln!("slow {dt:.2}s {op} {}", truncate(&args.join(" "), 100)); } }
    v
}

fn exec_line(op: &str, args: &[&str], expected: &str) -> Option<Verdict> {
    match op {
        "oracle_report" => {
            let text = format!("ok report: so far the harness-native reference agreed with the full model answer on {} cases (no opinion on {}), {} huge and {} giant calls judged by the reference only, {} calls inside seq lines, {} implicit A-B-A re-runs",
                ORACLE_CHECKED.load(Ordering::Relaxed), ORACLE_SILENT.load(Ordering::Relaxed), ORACLE_ONLY.load(Ordering::Relaxed), GIANT_CALLS.load(Ordering::Relaxed), SEQ_CALLS.load(Ordering::Relaxed), ABA_RERUNS.load(Ordering::Relaxed));
            if expected != "ok report" { return Some(compare_default(text, expected)); }
            if args.first() == Some(&"final") && ORACLE_ONLY.load(Ordering::Relaxed) + GIANT_CALLS.load(Ordering::Relaxed) > 0 && ORACLE_CHECKED.load(Ordering::Relaxed) < 1000 {
                return Some(Verdict::Mismatch { observed: text, detail: "the native reference was relied upon without having been compared with the model on at least 1000 cases of this run".into() });
            }
            Some(Verdict::Match(text))
        }
        "n" => exec_native(args, expected),
        "g" => exec_giant(args, expected),
        "seq" => {
            let calls: Vec<&[&str]> = args.split(|t| *t == "/").collect();
            let exps: Vec<&str> = expected.split(" / ").collect();
            if calls.len() != exps.len() { return Some(compare_default(format!("harness: {} calls but {} model answers", calls.len(), exps.len()), expected)); }
            let mut texts = vec![]; let mut bad: Option<String> = None;
            for (q, (c, e)) in calls.iter().zip(&exps).enumerate() {
                SEQ_CALLS.fetch_add(1, Ordering::Relaxed);
                let v = if c.first() == Some(&"n") { exec_native(&c[1..], e)? } else { exec_call(c.first()?, &c[1..], e)? };
                match v {
                    Verdict::Match(o) | Verdict::Open(o) => texts.push(truncate(&o, 400)),
                    Verdict::Mismatch { observed, detail } => { if bad.is_none() { bad = Some(format!("call {} of the sequence (`{}`): {}", q + 1, truncate(&c.join(" "), 300), detail)); } texts.push(truncate(&observed, 400)); }
                }
            }
            let obs = texts.join(" / ");
            Some(match bad { Some(d) => Verdict::Mismatch { observed: obs, detail: d }, None => Verdict::Match(obs) })
        }
        _ => {
            let v = exec_call(op, args, expected)?;
            if !is_structural(op) { return Some(v); }
            // implicit A–B–A: after a share of the small cases the PREVIOUS case is run again and must repeat its answer
            let small = elems_of(args[0]) <= 600 && args.iter().map(|a| a.len()).sum::<usize>() <= 2000;
            if small && args.iter().map(|a| a.len()).sum::<usize>() % 4 == 1 {
                if let Some((pop, pargs, pans)) = PREV.with(|p| p.borrow().clone()) {
                    let pa: Vec<&str> = pargs.iter().map(|s| s.as_str()).collect();
                    if let Some(again) = plain_i64(&pop, &pa) {
                        ABA_RERUNS.fetch_add(1, Ordering::Relaxed);
                        if again != pans { if let Verdict::Match(o) = &v { return Some(Verdict::Mismatch { observed: o.clone(), detail: format!("A-B-A: after this call the previous case `{} {}` no longer repeats its answer: `{}` instead of `{}`", pop, pargs.join(" "), truncate(&again, 300), truncate(&pans, 300)) }); } }
                    }
                }
            }
            if small { if let Some(ans) = plain_i64(op, args) { PREV.with(|p| *p.borrow_mut() = Some((op.to_string(), args.iter().map(|s| s.to_string()).collect(), ans))); } }
            Some(v)
        }
    }
}

fn nontrivial(op: &str, args: &[&str]) -> bool {
    match op {
        "oracle_report" => return false,
        "seq" => return args.split(|t| *t == "/").any(|c| !c.is_empty() && nontrivial(c[0], &c[1..])),
        "n" | "g" => return args.len() >= 2 && nontrivial(args[0], &args[1..]),
        _ => {}
    }
    let n = elems_of(args[0]);
    match op { "trim" | "trimc" | "append_self" => n >= 2, _ => args[1] != "-" && n >= 2 }
}

fn main() {
    // hang watchdog: the slowest correct case (thorough: flat insert of 131 073 pairs, ~6 s under load; quick: `repeat i4100 … 0`, ~3.5 s;
    // every giant `g` case < 1 s) keeps a margin of more than 20x, also when all checks run in parallel on a loaded machine
    harness_main(Spec { prop: "C13", gen, exec, nontrivial, hang_secs: 150,
        rule: "every shape rank<=4 len<=3 (+ lengths 4-5): delete along every axis for EVERY subset of its indices (+ reversed / repeated requests, out-of-range index and axis), flat delete (every subset when <=6 elements, sampled multisets otherwise); flat insert of 1 value at every position 0..=n, 2-3 values at sampled (also repeated) positions, one value at several positions, several values at one position, malformed; insert-then-delete round trips; append of 0..3 values; repeat along every axis with EVERY count vector in {0,1,2}^d and single counts, flat repeat; trim_zeros on every zero/non-zero pattern up to length 7 (8); seeded random rank 5. Robustness streams: flat delete of 20..4100 DISTINCT positions (shuffled / ascending / descending / with repeats) from lanes of 24..4100 elements, delete along axes of length 65..1030, every operation on big_shapes() (axis lengths 7-17, > 256/1024/4096 elements), flat insert of 20..300 (index,value) pairs with many shared positions (request order observable), zero-length axes for every operation, trim_zeros value classes (+0, -0, NaN, subnormals, infinities, extreme integers, zero-looking strings; exhaustive over {+0,-0,NaN,1} to length 5 (7), random over all classes, lanes up to 4100). Every case runs on i64 tags and on u8 / i16 / i64>2^53 / f64(-0.0) / f32 / String / bool images, plain and Result receiver. Tag arrays.  Part 2: seq lines (calls back to back on one thread: a request followed by a different request of the same length / sum / xor / polynomial hash / 32-bit FNV fingerprint (birthday search), refused-then-valid, A-B-A), n lines (request size x lane length above 2^26, more than 65536 inserted pairs, lanes of 8200..70000 along an axis) judged by the harness-native index-filter reference, which is compared with the full model answer on every other structural case of the run (oracle_report lines); every axis length 1..300 in a non-leading position; indices c+2^8, c+2^16, c+2^32; append_self / insert_self (aliasing); ranks 5-8; implicit A-B-A re-runs in exec.  Part 3: g lines = giant requests (2^17..2.2e6 elements, receiver named iota:<shape> / zpad:<n>,<l>,<r> and built by the harness) for flat delete (2..100 distinct indices: both ends, adjacent around 2^20, unsorted with repeats, ascending, descending; ranks 1-4; ladder 200003..2^20+1), delete along first / middle / last axes (lanes above 2^20 and giant arrays with shorter lanes), flat insert + insert/delete round trip, append / append_self, flat repeat (one count, one count per last-axis position), repeat along an axis, trim_zeros, refused requests - judged in place by the same native reference on i64 and one further element type; element-layout images (12 / 3 / 6 / 32 non-Copy / 40 bytes) on every structural case (all five in the small scope); all-zero f64 image with +0.0 / -0.0 by parity, strings with a 40-byte common stem; +-0 and constant lanes for trim_zeros; constant / paired receivers; indices k*2^64/stride + c (stride of a non-last axis, element sizes) that wrap into range. non-trivial = >=2 elements and a non-empty request (seq / n / g lines: some call of the line)" });
}
