//! C13 — delete, insert, append, repeat, trim_zeros change exactly the addressed positions. Value protocol with tags.
use arrharness::*;

fn subsets(n: usize) -> Vec<Vec<usize>> { (0..(1usize << n)).map(|m| (0..n).filter(|k| (m >> k) & 1 == 1).collect()).collect() }

fn landing(idxs: &[usize]) -> Vec<usize> { let mut s = idxs.to_vec(); s.sort(); s.iter().enumerate().map(|(k, i)| i + k).collect() }

fn gen(tier: &str, seed: u64, out: &mut dyn FnMut(String)) {
    let thorough = tier == "thorough";
    let mut rng = Rng::new(seed);
    for l in ["delete i2,3,2,2 1 1", "repeat i2,3,2 1,2 2", "repeat i2,3,4 1,0,2 1", "insert i2,3 4 i1+100"] { out(l.to_string()); }
    let mut all = shapes(1, 4, 1, 3);
    all.extend(vec![vec![4], vec![5], vec![2, 4], vec![4, 2], vec![2, 3, 4]]);
    for s in &all {
        let a = tag(s); let nd = s.len(); let n: usize = s.iter().product();
        // delete along every axis: every subset of the axis' indices + permuted/repeated requests + out of range
        for ax in 0..nd {
            for sub in subsets(s[ax]) {
                out(format!("delete {a} {} {ax}", show_list(&sub)));
                if sub.len() >= 2 { let mut p = sub.clone(); p.reverse(); p.push(sub[0]); p.push(*sub.last().unwrap()); out(format!("delete {a} {} {ax}", show_list(&p))); }
            }
            out(format!("delete {a} {} {ax}", s[ax])); out(format!("delete {a} 0,{} {ax}", s[ax] + 3));
        }
        out(format!("delete {a} 0 {nd}")); out(format!("delete {a} 0 {}", nd + 1));
        // flat delete: every subset when small, sampled otherwise
        if n <= 6 { for sub in subsets(n) { out(format!("delete {a} {} none", show_list(&sub))); } }
        else { for _ in 0..(if thorough { 40 } else { 12 }) { let k = rng.below(n + 1); let idx: Vec<usize> = (0..k).map(|_| rng.below(n)).collect(); out(format!("delete {a} {} none", show_list(&idx))); } }
        out(format!("delete {a} {n} none")); out(format!("delete {a} 0,{},0 none", n + 5));
        // flat insert: 1..3 values at every position 0..=n (all positions for one value; pairs/triples sampled incl. repeated positions)
        for p in 0..=n { out(format!("insert {a} {p} i1+100")); out(format!("insert_delete {a} {p} i1+100")); }
        for _ in 0..(if thorough { 60 } else { 14 }) {
            let k = 2 + rng.below(2); let idx: Vec<usize> = (0..k).map(|_| rng.below(n + 1)).collect();
            out(format!("insert {a} {} {}", show_list(&idx), tag_off(&[k], 100)));
            out(format!("insert_delete {a} {} {}", show_list(&idx), tag_off(&[k], 100)));
            out(format!("insert {a} {} i1+100", show_list(&idx)));          // one value at several positions
            out(format!("insert {a} {} {}", idx[0], tag_off(&[k], 100)));   // several values at one position
        }
        out(format!("insert {a} {} i1+100", n + 1)); out(format!("insert {a} 0,1 i3+100")); out(format!("insert {a} 0 i1,1+100"));
        // append
        for k in 0..=3 { out(format!("append {a} {}", tag_off(&[k], 100))); }
        out(format!("append {a} {}", tag_off(&[2, 2], 100)));
        // repeat along every axis: every count vector in {0,1,2}^d, and a single count
        for ax in 0..nd {
            let d = s[ax];
            for c in boxes(&vec![3; d]) { out(format!("repeat {a} {} {ax}", show_list(&c))); }
            for c in 0..=3 { out(format!("repeat {a} {c} {ax}")); }
            out(format!("repeat {a} {} {ax}", show_list(&vec![1; d + 1])));
        }
        out(format!("repeat {a} 2 {nd}"));
        for c in 0..=3 { out(format!("repeat {a} {c} none")); }
        let last = *s.last().unwrap();
        for _ in 0..3 { let c: Vec<usize> = (0..last).map(|_| rng.below(3)).collect(); out(format!("repeat {a} {} none", show_list(&c))); }
        out(format!("repeat {a} {} none", show_list(&vec![1; last + 1])));
    }
    // trim_zeros: every 0/non-0 pattern up to length 7 (8 in thorough), plus rank-2 refusal
    for len in 0..=(if thorough { 8 } else { 7 }) { for m in 0..(1usize << len) {
        let e: Vec<i64> = (0..len).map(|k| if (m >> k) & 1 == 1 { (k + 1) as i64 } else { 0 }).collect();
        out(format!("trim {}:{}", len, show_list(&e)));
    } }
    out("trim 2,2:0,1,1,0".to_string());
    // random rank 5
    for _ in 0..(if thorough { 3000 } else { 300 }) {
        let s: Vec<usize> = (0..5).map(|_| 1 + rng.below(3)).collect(); let a = tag(&s); let ax = rng.below(5);
        if rng.below(2) == 0 { let k = rng.below(s[ax] + 1); let idx: Vec<usize> = (0..k).map(|_| rng.below(s[ax])).collect(); out(format!("delete {a} {} {ax}", show_list(&idx))); }
        else { let c: Vec<usize> = (0..s[ax]).map(|_| rng.below(3)).collect(); out(format!("repeat {a} {} {ax}", show_list(&c))); }
    }
}

fn exec(op: &str, args: &[&str], expected: &str) -> Option<Verdict> {
    let a = parse_arr_i64(args[0]);
    let obs = match op {
        "delete" => { let idx = parse_usize_list(args[1]); let ax: Option<usize> = parse_opt(args[2]); guarded(|| res_arr(&a.delete(&idx, ax))) }
        "insert" => { let idx = parse_usize_list(args[1]); let v = parse_arr_i64(args[2]); guarded(|| res_arr(&a.insert(&idx, &v, None))) }
        "insert_delete" => { let idx = parse_usize_list(args[1]); let v = parse_arr_i64(args[2]); let land = landing(&idx);
            guarded(|| res_arr(&a.insert(&idx, &v, None).delete(&land, None))) }
        "append" => { let v = parse_arr_i64(args[1]); guarded(|| res_arr(&a.append(&v, None))) }
        "repeat" => { let reps = parse_usize_list(args[1]); let ax: Option<usize> = parse_opt(args[2]); guarded(|| res_arr(&a.repeat(&reps, ax))) }
        "trim" => guarded(|| res_arr(&a.trim_zeros())),
        _ => return None,
    };
    Some(compare_default(obs, expected))
}

fn nontrivial(op: &str, args: &[&str]) -> bool {
    let s = parse_arr_raw(args[0]).0;
    match op { "trim" => s.iter().product::<usize>() >= 2, _ => args[1] != "-" && s.iter().product::<usize>() >= 2 }
}

fn main() {
    harness_main(Spec { prop: "C13", gen, exec, nontrivial, hang_secs: 20,
        rule: "every shape rank<=4 len<=3 (+ lengths 4-5): delete along every axis for EVERY subset of its indices (+ reversed / repeated requests, out-of-range index and axis), flat delete (every subset when <=6 elements, sampled multisets otherwise); flat insert of 1 value at every position 0..=n, 2-3 values at sampled (also repeated) positions, one value at several positions, several values at one position, malformed; insert-then-delete round trips; append of 0..3 values; repeat along every axis with EVERY count vector in {0,1,2}^d and single counts, flat repeat; trim_zeros on every zero/non-zero pattern up to length 7 (8); seeded random rank 5. Tag arrays. non-trivial = >=2 elements and a non-empty request" });
}
