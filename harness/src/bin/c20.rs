//! C20 — operator overloads equal the native scalar operators at every position.
//!
//! Index protocol: the Lean model runs on the free scalar algebra and answers, per output position, a term over
//! the operand elements (`o.a3.b3`, `g.a0.s`, `u.a2`).  This harness evaluates every term with the NATIVE Rust
//! operator of the element type and compares the result with what the crate's operator returned, bit for bit
//! (floats by bit pattern, NaN canonicalised; negation also with the NaN sign bit).  Comparison operators are additionally
//! checked against `Vec`.
//!
//! Robustness streams (FRAMEWORK.md): every form on `big_shapes()` and on element counts around 256 / 1024 / 4096 that are
//! not multiples of 8 (remainder handling of blocked paths), bool arrays above 32 elements, `zero_shapes()`; aliasing forms
//! (`a op a.clone()`, `a op= a.clone()`), comparison of an array with ITSELF (the same object on both sides; every `cmp`
//! case with textually equal operands is also run that way), value classes (-0.0 / NaN / infinities / subnormals grids,
//! integer limits inside the non-overflowing range, -0.0 against 0.0 in the orderings); every call is evaluated twice.
//! The operators have no `Result<Array<T>, ArrayError>` receiver impls, so there is no chained form to run.
//!
//! Integer VALUE lines (`ival`, `ishift`; see the section below): for the integer element types the Lean model contains the native
//! fixed-width operators themselves (ArrModel/C20Int.lean) and answers with values; the crate's result is compared with the
//! MODEL's values, a native checked_* / wrapping_* evaluation is the second judge, `ival_report` carries the counters.
//!
//! Part 2: the compact operand spelling `h<shape>~lo~m~o[~pos=tok;…]` for huge arrays (same integer formula in the Lean driver),
//! `seq a / b / c` lines (several cases on one thread: hidden state, colliding shapes, the same arguments through every element
//! type) and an A-B-A re-run of the previous case after every small case.
use arrharness::*;
use std::ops::{BitAnd, BitOr, BitXor};

// ------------------------------------------------------------------ element spellings

trait Elem: ArrayElement + Copy {
    fn parse_tok(s: &str) -> Option<Self>;
    fn tok(self) -> String;
    /// like `tok`, but a float NaN keeps its bits (sign, payload)
    fn raw(self) -> String { self.tok() }
}
macro_rules! elem_int { ($($t:ty),*) => { $(impl Elem for $t {
    fn parse_tok(s: &str) -> Option<Self> { s.parse().ok() }
    fn tok(self) -> String { self.to_string() }
})* } }
elem_int!(i8, i16, i32, i64, isize, u8, u16, u32, u64, usize);
macro_rules! elem_float { ($t:ty, $b:ty) => { impl Elem for $t {
    /// `x<hex bits>` | `nan` | a decimal integer (comparison cases)
    fn parse_tok(s: &str) -> Option<Self> {
        if s == "nan" { Some(<$t>::NAN) }
        else if s == "nz" { Some(-0.0) }
        else if let Some(h) = s.strip_prefix('x') { <$b>::from_str_radix(h, 16).ok().map(<$t>::from_bits) }
        else { s.parse::<i64>().ok().map(|v| v as $t) }
    }
    fn tok(self) -> String { if self.is_nan() { "nan".into() } else { format!("x{:x}", self.to_bits()) } }
    fn raw(self) -> String { format!("x{:x}", self.to_bits()) }
} } }
elem_float!(f32, u32);
elem_float!(f64, u64);
impl Elem for bool {
    fn parse_tok(s: &str) -> Option<Self> { match s { "0" => Some(false), "1" => Some(true), _ => None } }
    fn tok(self) -> String { if self { "1".into() } else { "0".into() } }
}

/// element `i` of the compact spelling `h<shape>~lo~m~o` (the Lean driver expands it with the same formula)
fn hval(lo: i64, m: u64, o: u64, i: usize) -> i64 { lo + (((((i as u64 + 1 + o * 7919) * 2654435761) % 4294967296) / 65536) % m) as i64 }
/// `h<shape>~lo~m~o[~pos=tok;pos=tok…]`
fn parse_h<T: Elem>(body: &str) -> Option<(Vec<usize>, Vec<T>)> {
    let f: Vec<&str> = body.split('~').collect();
    if f.len() < 4 || f.len() > 5 { return None; }
    let shape = parse_usize_list(f[0]);
    let (lo, m, o): (i64, u64, u64) = (f[1].parse().ok()?, f[2].parse().ok()?, f[3].parse().ok()?);
    if m == 0 { return None; }
    let n: usize = shape.iter().product();
    // at most m distinct values: parse each once
    let table: Vec<T> = (0..m as i64).map(|d| T::parse_tok(&(lo + d).to_string())).collect::<Option<Vec<T>>>()?;
    let mut elems: Vec<T> = (0..n).map(|i| table[(hval(lo, m, o, i) - lo) as usize]).collect();
    if f.len() == 5 {
        for e in f[4].split(';') { let (p, v) = e.split_once('=')?; let p: usize = p.parse().ok()?; if p >= n { return None; } elems[p] = T::parse_tok(v)?; }
    }
    Some((shape, elems))
}
fn shape_count_of(a: &str) -> Option<usize> {
    if let Some(body) = a.strip_prefix('h') { Some(parse_usize_list(body.split('~').next()?).iter().product()) }
    else { let (_, e) = a.split_once(':')?; Some(if e == "-" { 0 } else { e.split(',').count() }) }
}

fn parse_raw<T: Elem>(s: &str) -> Option<(Vec<usize>, Vec<T>)> {
    if let Some(body) = s.strip_prefix('h') { return parse_h::<T>(body); }
    let (sh, el) = s.split_once(':')?;
    let shape = parse_usize_list(sh);
    let elems = if el == "-" { vec![] } else { el.split(',').map(T::parse_tok).collect::<Option<Vec<T>>>()? };
    Some((shape, elems))
}
/// the operand is built through `Array::new` only
fn build<T: Elem>(s: &str) -> Option<Array<T>> {
    let (shape, elems) = parse_raw::<T>(s)?;
    Some(Array::new(elems, shape).expect("harness: malformed array literal in case line"))
}
fn show_t<T: Elem>(shape: &[usize], elems: &[T]) -> String {
    format!("{}:{}", show_list(shape), if elems.is_empty() { "-".to_string() } else { elems.iter().map(|x| x.tok()).collect::<Vec<_>>().join(",") })
}
fn show_a<T: Elem>(a: &Array<T>) -> String {
    if !consistent(a) { return format!("inconsistent shape={:?} elements={}", a.get_shape().unwrap(), a.get_elements().unwrap().len()); }
    format!("ok {}", show_t(&a.get_shape().unwrap(), &a.get_elements().unwrap()))
}
fn show_r<T: Elem>(r: &Result<Array<T>, ArrayError>) -> String {
    match r { Ok(a) => show_a(a), Err(e) => format!("err {}", err_name(e)) }
}

// ------------------------------------------------------------------ native scalar operators (the oracle)

fn nat_arith<T: NumericOps>(op: &str, x: T, y: T) -> T {
    match op { "add" => x + y, "sub" => x - y, "mul" => x * y, "div" => x / y, "rem" => x % y, _ => panic!("harness: op") }
}
fn nat_arith_assign<T: NumericOps>(op: &str, x: T, y: T) -> T {
    let mut z = x;
    match op { "add" => z += y, "sub" => z -= y, "mul" => z *= y, "div" => z /= y, "rem" => z %= y, _ => panic!("harness: op") }
    z
}
fn nat_bit<T: Copy + BitAnd<Output = T> + BitOr<Output = T> + BitXor<Output = T>>(op: &str, x: T, y: T) -> T {
    match op { "and" => x & y, "or" => x | y, "xor" => x ^ y, _ => panic!("harness: op") }
}

/// evaluate one model term (prefix notation, `.`-separated)
fn eval<T: Copy>(it: &mut std::str::Split<'_, char>, a: &[T], b: &[T], s: Option<T>,
                 f2: &dyn Fn(T, T) -> T, g2: &dyn Fn(T, T) -> T, f1: &dyn Fn(T) -> T) -> Option<T> {
    let t = it.next()?;
    match t {
        "o" => { let x = eval(it, a, b, s, f2, g2, f1)?; let y = eval(it, a, b, s, f2, g2, f1)?; Some(f2(x, y)) }
        "g" => { let x = eval(it, a, b, s, f2, g2, f1)?; let y = eval(it, a, b, s, f2, g2, f1)?; Some(g2(x, y)) }
        "u" => { let x = eval(it, a, b, s, f2, g2, f1)?; Some(f1(x)) }
        "s" => s,
        _ => {
            let i: usize = t[1..].parse().ok()?;
            match &t[..1] { "a" => a.get(i).copied(), "b" => b.get(i).copied(), _ => None }
        }
    }
}

/// turn the model's symbolic answer into the concrete answer the property demands
fn oracle<T: Elem>(expected: &str, a: &[T], b: &[T], s: Option<T>,
                   f2: &dyn Fn(T, T) -> T, g2: &dyn Fn(T, T) -> T, f1: &dyn Fn(T) -> T) -> Option<String> {
    let Some(body) = expected.strip_prefix("ok ") else { return Some(expected.to_string()) };
    let (sh, el) = body.split_once(':')?;
    let shape = parse_usize_list(sh);
    let mut vals = vec![];
    if el != "-" {
        for term in el.split(',') {
            let mut it = term.split('.');
            let v = eval(&mut it, a, b, s, f2, g2, f1)?;
            if it.next().is_some() { return None; }
            vals.push(v);
        }
    }
    Some(format!("ok {}", show_t(&shape, &vals)))
}

fn verdict(observed: String, want: String, expected: &str) -> Verdict {
    if observed == want { Verdict::Match(observed) }
    else if class_of(&observed) == "err" && class_of(&want) == "err" { Verdict::Match(observed) }
    else { Verdict::Mismatch { detail: format!("model says `{}`, natively evaluated `{}`", truncate(expected, 300), truncate(&want, 300)), observed } }
}

// ------------------------------------------------------------------ executors

/// evaluate twice; the second evaluation must give the same text
fn twice(f: impl Fn() -> String) -> String {
    let (o1, o2) = (guarded(&f), guarded(&f));
    if o1 == o2 { o1 } else { format!("DIVERGENCE the second evaluation gives `{}`, the first `{}`", truncate(&o2, 300), truncate(&o1, 300)) }
}

fn ex_arith<T: Elem + NumericOps>(form: &str, op: &str, a_s: &str, b_s: &str, expected: &str) -> Option<Verdict> {
    let a = build::<T>(a_s)?;
    let av = a.get_elements().unwrap();
    let f2 = |x: T, y: T| nat_arith(op, x, y);
    let g2 = |x: T, y: T| nat_arith_assign(op, x, y);
    let f1 = |x: T| x;
    macro_rules! arr_op { ($x:expr, $y:expr) => { match op { "add" => $x + $y, "sub" => $x - $y, "mul" => $x * $y, "div" => $x / $y, "rem" => $x % $y, _ => panic!("harness: op") } } }
    macro_rules! arr_assign { ($x:expr, $y:expr) => { match op { "add" => $x += $y, "sub" => $x -= $y, "mul" => $x *= $y, "div" => $x /= $y, "rem" => $x %= $y, _ => panic!("harness: op") } } }
    match form {
        "arr_self" | "assign_self" => {
            // aliasing: the right operand is a copy of the receiver itself
            let observed = if form == "arr_self" { twice(|| { let x = a.clone(); let y = x.clone(); let r: Array<T> = arr_op!(x, y); show_a(&r) }) }
                           else { twice(|| { let mut x = a.clone(); let y = x.clone(); arr_assign!(x, y); show_a(&x) }) };
            let want = oracle(expected, &av, &av, None, &f2, &g2, &f1)?;
            Some(verdict(observed, want, expected))
        }
        "arr_arr" | "assign_arr" | "assign_vs_plain" => {
            let b = build::<T>(b_s)?;
            let bv = b.get_elements().unwrap();
            let observed = match form {
                "arr_arr" => twice(|| { let r: Array<T> = arr_op!(a.clone(), b.clone()); show_a(&r) }),
                "assign_arr" => twice(|| { let mut x = a.clone(); arr_assign!(x, b.clone()); show_a(&x) }),
                _ => guarded(|| {
                    let p: Array<T> = arr_op!(a.clone(), b.clone());
                    let mut x = a.clone(); arr_assign!(x, b.clone());
                    if show_a(&p) == show_a(&x) { "ok same".into() } else { "ok differ".into() }
                }),
            };
            if form == "assign_vs_plain" { return Some(compare_default(observed, expected)); }
            let want = oracle(expected, &av, &bv, None, &f2, &g2, &f1)?;
            Some(verdict(observed, want, expected))
        }
        "arr_scalar" | "assign_scalar" => {
            let s = T::parse_tok(b_s)?;
            let observed = if form == "arr_scalar" {
                twice(|| { let r: Result<Array<T>, ArrayError> = arr_op!(a.clone(), s); show_r(&r) })
            } else {
                twice(|| { let mut x = a.clone(); arr_assign!(x, s); show_a(&x) })
            };
            let want = oracle(expected, &av, &[], Some(s), &f2, &g2, &f1)?;
            Some(verdict(observed, want, expected))
        }
        _ => None,
    }
}

fn ex_neg<T: Elem + SignedNumericOps>(a_s: &str, expected: &str) -> Option<Verdict> {
    let a = build::<T>(a_s)?;
    let av = a.get_elements().unwrap();
    let observed = twice(|| show_a(&(-a.clone())));
    let id2 = |x: T, _y: T| x;
    let want = oracle(expected, &av, &[], None, &id2, &id2, &|x: T| -x)?;
    // negation is a sign flip: also the sign bit of a NaN must be the native one
    if observed == want && class_of(&observed) == "ok" {
        let raw_obs = guarded(|| (-a.clone()).get_elements().unwrap().iter().map(|x| x.raw()).collect::<Vec<_>>().join(","));
        let raw_want = av.iter().map(|&x| (-x).raw()).collect::<Vec<_>>().join(",");
        if raw_obs != raw_want {
            return Some(Verdict::Mismatch { detail: format!("bit patterns (NaN sign included) differ from native negation `{}`; model says `{}`", truncate(&raw_want, 300), truncate(expected, 200)), observed: format!("ok raw {}", truncate(&raw_obs, 1500)) });
        }
    }
    Some(verdict(observed, want, expected))
}

fn ex_not(a_s: &str, expected: &str) -> Option<Verdict> {
    let a = build::<bool>(a_s)?;
    let av = a.get_elements().unwrap();
    let observed = twice(|| show_a(&(!a.clone())));
    let id2 = |x: bool, _y: bool| x;
    let want = oracle(expected, &av, &[], None, &id2, &id2, &|x: bool| !x)?;
    Some(verdict(observed, want, expected))
}

fn ex_bit<T>(form: &str, op: &str, a_s: &str, b_s: &str, expected: &str) -> Option<Verdict>
where T: Elem + Numeric + BitAnd<Output = T> + BitOr<Output = T> + BitXor<Output = T> {
    let a = build::<T>(a_s)?;
    let av = a.get_elements().unwrap();
    let f2 = |x: T, y: T| nat_bit(op, x, y);
    let f1 = |x: T| x;
    macro_rules! arr_op { ($x:expr, $y:expr) => { match op { "and" => $x & $y, "or" => $x | $y, "xor" => $x ^ $y, _ => panic!("harness: op") } } }
    macro_rules! arr_assign { ($x:expr, $y:expr) => { match op { "and" => $x &= $y, "or" => $x |= $y, "xor" => $x ^= $y, _ => panic!("harness: op") } } }
    match form {
        "bit_self" | "bit_assign_self" => {
            let observed = if form == "bit_self" { twice(|| { let x = a.clone(); let y = x.clone(); let r: Array<T> = arr_op!(x, y); show_a(&r) }) }
                           else { twice(|| { let mut x = a.clone(); let y = x.clone(); arr_assign!(x, y); show_a(&x) }) };
            let want = oracle(expected, &av, &av, None, &f2, &f2, &f1)?;
            Some(verdict(observed, want, expected))
        }
        "bit_arr" | "bit_assign_arr" | "bit_assign_vs_plain" => {
            let b = build::<T>(b_s)?;
            let bv = b.get_elements().unwrap();
            let observed = match form {
                "bit_arr" => twice(|| { let r: Array<T> = arr_op!(a.clone(), b.clone()); show_a(&r) }),
                "bit_assign_arr" => twice(|| { let mut x = a.clone(); arr_assign!(x, b.clone()); show_a(&x) }),
                _ => guarded(|| {
                    let p: Array<T> = arr_op!(a.clone(), b.clone());
                    let mut x = a.clone(); arr_assign!(x, b.clone());
                    if show_a(&p) == show_a(&x) { "ok same".into() } else { "ok differ".into() }
                }),
            };
            if form == "bit_assign_vs_plain" { return Some(compare_default(observed, expected)); }
            let want = oracle(expected, &av, &bv, None, &f2, &f2, &f1)?;
            Some(verdict(observed, want, expected))
        }
        "bit_scalar" | "bit_assign_scalar" => {
            let s = T::parse_tok(b_s)?;
            let observed = if form == "bit_scalar" {
                twice(|| { let r: Array<T> = arr_op!(a.clone(), s); show_a(&r) })
            } else {
                twice(|| { let mut x = a.clone(); arr_assign!(x, s); show_a(&x) })
            };
            let want = oracle(expected, &av, &[], Some(s), &f2, &f2, &f1)?;
            Some(verdict(observed, want, expected))
        }
        _ => None,
    }
}

/// `same` = the SAME object stands on both sides (`a == a`); otherwise two separately built arrays
fn ex_cmp<T: Elem>(rel: &str, a_s: &str, b_s: &str, same: bool, expected: &str) -> Option<Verdict> {
    let a = build::<T>(a_s)?;
    let b = build::<T>(b_s)?;
    let (av, bv) = (a.get_elements().unwrap(), b.get_elements().unwrap());
    let ord = |o: Option<std::cmp::Ordering>| match o { Some(std::cmp::Ordering::Less) => "lt", Some(std::cmp::Ordering::Equal) => "eq", Some(std::cmp::Ordering::Greater) => "gt", None => "none" }.to_string();
    let run = |l: &Array<T>, r: &Array<T>| twice(|| format!("ok {}", match rel {
        "eq" => (l == r).to_string(), "ne" => (l != r).to_string(),
        "lt" => (l < r).to_string(), "le" => (l <= r).to_string(), "gt" => (l > r).to_string(), "ge" => (l >= r).to_string(),
        "partial_cmp" => ord(l.partial_cmp(r)),
        _ => panic!("harness: rel"),
    }));
    let two_objects = run(&a, &b);
    let observed = if same { run(&a, &a) } else { two_objects.clone() };
    // identity must not matter: an array against itself answers like the array against an equal copy
    if same && observed != two_objects {
        return Some(Verdict::Mismatch { detail: format!("the same object on both sides answers differently from an equal copy (`{two_objects}`); model says `{expected}`"), observed });
    }
    if !same && a_s == b_s {
        let self_says = run(&a, &a);
        if self_says != observed {
            return Some(Verdict::Mismatch { detail: format!("two equal arrays give `{observed}` but the same object on both sides gives `{self_says}`; model says `{expected}`"), observed: self_says });
        }
    }
    // independent oracle: the same relation on the flat element vectors (only when the shapes agree)
    if a.get_shape().unwrap() == b.get_shape().unwrap() {
        let vec_says = format!("ok {}", match rel {
            "eq" => (av == bv).to_string(), "ne" => (av != bv).to_string(),
            "lt" => (av < bv).to_string(), "le" => (av <= bv).to_string(), "gt" => (av > bv).to_string(), "ge" => (av >= bv).to_string(),
            _ => ord(av.partial_cmp(&bv)),
        });
        if observed != vec_says {
            return Some(Verdict::Mismatch { detail: format!("Vec comparison of the flat elements says `{vec_says}`; model says `{expected}`"), observed });
        }
    } else if class_of(&observed) == "ok" {
        return Some(Verdict::Mismatch { detail: format!("differently shaped operands produced a value; model says `{expected}`"), observed });
    }
    Some(compare_default(observed, expected))
}

// ------------------------------------------------------------------ integer VALUE lines (`ival`, `ishift`)
//
// The Lean model (ArrModel/C20Int.lean) contains the native fixed-width operators themselves: wrap-around / panic on
// overflow depending on the build, panic on a zero divisor and on MIN / -1 in every build, truncating division, masked /
// refused shift amounts.  For these lines the driver answers with VALUES, `<harness build> ;; <plain release build>`.
// Three judgements per line:
//   1. the crate's result (this build: harness/Cargo.toml `[profile.release] overflow-checks = true`) against the model's
//      first answer — the tie proper;
//   2. a native `checked_*` evaluation against the model's first answer (second judge, counted in `ival_report`);
//   3. a native `wrapping_*` evaluation (division still `checked_*`: MIN / -1 and x / 0 panic in every build) against the
//      model's second answer — the only judge of the wrap-around model, because the crate cannot be built twice here.

trait IntNative: Elem + PartialEq {
    /// `checked` = overflow-checks on (None = panic); otherwise the plain release semantics
    fn nat_bin(op: &str, x: Self, y: Self, checked: bool) -> Option<Self>;
    fn nat_neg(x: Self, checked: bool) -> Option<Self>;
    fn nat_not(x: Self) -> Self;
}
macro_rules! int_native { ($($t:ty),*) => { $(impl IntNative for $t {
    fn nat_bin(op: &str, x: Self, y: Self, checked: bool) -> Option<Self> {
        match op {
            "add" => if checked { x.checked_add(y) } else { Some(x.wrapping_add(y)) },
            "sub" => if checked { x.checked_sub(y) } else { Some(x.wrapping_sub(y)) },
            "mul" => if checked { x.checked_mul(y) } else { Some(x.wrapping_mul(y)) },
            "div" => x.checked_div(y),
            "rem" => x.checked_rem(y),
            "and" => Some(x & y), "or" => Some(x | y), "xor" => Some(x ^ y),
            "shl" => if checked { u32::try_from(y).ok().and_then(|k| x.checked_shl(k)) } else { Some(x.wrapping_shl(y as u32)) },
            "shr" => if checked { u32::try_from(y).ok().and_then(|k| x.checked_shr(k)) } else { Some(x.wrapping_shr(y as u32)) },
            _ => panic!("harness: op"),
        }
    }
    fn nat_neg(x: Self, checked: bool) -> Option<Self> { if checked { x.checked_neg() } else { Some(x.wrapping_neg()) } }
    fn nat_not(x: Self) -> Self { !x }
})* } }
int_native!(i8, i16, i32, i64, isize, u8, u16, u32, u64, usize);
impl IntNative for bool {
    fn nat_bin(op: &str, x: bool, y: bool, _checked: bool) -> Option<bool> {
        match op { "and" => Some(x & y), "or" => Some(x | y), "xor" => Some(x ^ y),
                   "shl" => Some(((x as usize) << (y as usize)) == 1), "shr" => Some(((x as usize) >> (y as usize)) == 1), _ => panic!("harness: op") }
    }
    fn nat_neg(_x: bool, _checked: bool) -> Option<bool> { None }
    fn nat_not(x: bool) -> bool { !x }
}

static IVAL_CASES: std::sync::atomic::AtomicUsize = std::sync::atomic::AtomicUsize::new(0);
static IVAL_POSITIONS: std::sync::atomic::AtomicUsize = std::sync::atomic::AtomicUsize::new(0);
static IVAL_CHECKED_AGREE: std::sync::atomic::AtomicUsize = std::sync::atomic::AtomicUsize::new(0);
static IVAL_WRAP_AGREE: std::sync::atomic::AtomicUsize = std::sync::atomic::AtomicUsize::new(0);
static IVAL_PANICS: std::sync::atomic::AtomicUsize = std::sync::atomic::AtomicUsize::new(0);
static IVAL_DISAGREE: std::sync::atomic::AtomicUsize = std::sync::atomic::AtomicUsize::new(0);

/// native answer of a whole operator call: `x op y` at every position, one `None` makes the call panic
fn native_answer<T: IntNative>(shape: &[usize], n: usize, f: impl Fn(usize) -> Option<T>) -> String {
    let mut vals = Vec::with_capacity(n);
    for i in 0..n { match f(i) { Some(v) => vals.push(v), None => return "panic".into() } }
    format!("ok {}", show_t(shape, &vals))
}

/// the three judgements of an `ival` / `ishift` line
fn judge_ival(observed: String, expected: &str, nat_checked: String, nat_wrap: String, positions: usize) -> Option<Verdict> {
    use std::sync::atomic::Ordering::Relaxed;
    let (m_chk, m_wrap) = expected.split_once(" ;; ")?;
    IVAL_CASES.fetch_add(1, Relaxed);
    IVAL_POSITIONS.fetch_add(positions, Relaxed);
    if m_chk == "panic" { IVAL_PANICS.fetch_add(1, Relaxed); }
    if nat_checked == m_chk { IVAL_CHECKED_AGREE.fetch_add(1, Relaxed); }
    if nat_wrap == m_wrap { IVAL_WRAP_AGREE.fetch_add(1, Relaxed); }
    if nat_checked != m_chk {
        IVAL_DISAGREE.fetch_add(1, Relaxed);
        return Some(Verdict::Mismatch { detail: format!("MODEL-VS-NATIVE: the model (overflow-checks build) says `{}` but native checked_* evaluation gives `{}`", truncate(m_chk, 300), truncate(&nat_checked, 300)), observed });
    }
    if nat_wrap != m_wrap {
        IVAL_DISAGREE.fetch_add(1, Relaxed);
        return Some(Verdict::Mismatch { detail: format!("MODEL-VS-NATIVE: the model (plain release build) says `{}` but native wrapping_* evaluation gives `{}`", truncate(m_wrap, 300), truncate(&nat_wrap, 300)), observed });
    }
    if observed == m_chk { Some(Verdict::Match(observed)) }
    else { Some(Verdict::Mismatch { detail: format!("model (native operators in Lean, overflow-checks build) says `{}`", truncate(m_chk, 400)), observed }) }
}

/// `+ - * / %` on i8 i16 i32 i64 (the `NumericOps` integer types)
fn ex_ival_arith<T: IntNative + NumericOps>(form: &str, op: &str, a_s: &str, b_s: &str, expected: &str) -> Option<Verdict> {
    let a = build::<T>(a_s)?;
    let (sa, av) = (a.get_shape().unwrap(), a.get_elements().unwrap());
    macro_rules! arr_op { ($x:expr, $y:expr) => { match op { "add" => $x + $y, "sub" => $x - $y, "mul" => $x * $y, "div" => $x / $y, "rem" => $x % $y, _ => panic!("harness: op") } } }
    macro_rules! arr_assign { ($x:expr, $y:expr) => { match op { "add" => $x += $y, "sub" => $x -= $y, "mul" => $x *= $y, "div" => $x /= $y, "rem" => $x %= $y, _ => panic!("harness: op") } } }
    if !ARITH_OP.contains(&op) { return None; }
    match form {
        "arr_arr" | "assign_arr" | "arr_self" | "assign_self" => {
            let b = if form.ends_with("_self") { a.clone() } else { build::<T>(b_s)? };
            let (sb, bv) = (b.get_shape().unwrap(), b.get_elements().unwrap());
            let observed = if form.starts_with("arr_") { twice(|| { let r: Array<T> = arr_op!(a.clone(), b.clone()); show_a(&r) }) }
                           else { twice(|| { let mut x = a.clone(); arr_assign!(x, b.clone()); show_a(&x) }) };
            let nat = |checked: bool| if sa != sb { "panic".to_string() } else { native_answer(&sa, av.len(), |i| T::nat_bin(op, av[i], bv[i], checked)) };
            judge_ival(observed, expected, nat(true), nat(false), av.len())
        }
        "arr_scalar" | "assign_scalar" => {
            let s = T::parse_tok(b_s)?;
            let observed = if form == "arr_scalar" { twice(|| { let r: Result<Array<T>, ArrayError> = arr_op!(a.clone(), s); show_r(&r) }) }
                           else { twice(|| { let mut x = a.clone(); arr_assign!(x, s); show_a(&x) }) };
            let nat = |checked: bool| native_answer(&sa, av.len(), |i| T::nat_bin(op, av[i], s, checked));
            judge_ival(observed, expected, nat(true), nat(false), av.len())
        }
        _ => None,
    }
}

fn ex_ival_neg<T: IntNative + SignedNumericOps>(a_s: &str, expected: &str) -> Option<Verdict> {
    let a = build::<T>(a_s)?;
    let (sa, av) = (a.get_shape().unwrap(), a.get_elements().unwrap());
    let observed = twice(|| show_a(&(-a.clone())));
    let nat = |checked: bool| native_answer(&sa, av.len(), |i| T::nat_neg(av[i], checked));
    judge_ival(observed, expected, nat(true), nat(false), av.len())
}

/// `& | ^` on the ten integer types and bool
fn ex_ival_bit<T>(form: &str, op: &str, a_s: &str, b_s: &str, expected: &str) -> Option<Verdict>
where T: IntNative + Numeric + BitAnd<Output = T> + BitOr<Output = T> + BitXor<Output = T> {
    let a = build::<T>(a_s)?;
    let (sa, av) = (a.get_shape().unwrap(), a.get_elements().unwrap());
    macro_rules! arr_op { ($x:expr, $y:expr) => { match op { "and" => $x & $y, "or" => $x | $y, "xor" => $x ^ $y, _ => panic!("harness: op") } } }
    macro_rules! arr_assign { ($x:expr, $y:expr) => { match op { "and" => $x &= $y, "or" => $x |= $y, "xor" => $x ^= $y, _ => panic!("harness: op") } } }
    if !BIT_OP.contains(&op) { return None; }
    match form {
        "bit_arr" | "bit_assign_arr" | "bit_self" | "bit_assign_self" => {
            let b = if form.ends_with("_self") { a.clone() } else { build::<T>(b_s)? };
            let (sb, bv) = (b.get_shape().unwrap(), b.get_elements().unwrap());
            let observed = if form == "bit_arr" || form == "bit_self" { twice(|| { let r: Array<T> = arr_op!(a.clone(), b.clone()); show_a(&r) }) }
                           else { twice(|| { let mut x = a.clone(); arr_assign!(x, b.clone()); show_a(&x) }) };
            let nat = |checked: bool| if sa != sb { "panic".to_string() } else { native_answer(&sa, av.len(), |i| T::nat_bin(op, av[i], bv[i], checked)) };
            judge_ival(observed, expected, nat(true), nat(false), av.len())
        }
        "bit_scalar" | "bit_assign_scalar" => {
            let s = T::parse_tok(b_s)?;
            let observed = if form == "bit_scalar" { twice(|| { let r: Array<T> = arr_op!(a.clone(), s); show_a(&r) }) }
                           else { twice(|| { let mut x = a.clone(); arr_assign!(x, s); show_a(&x) }) };
            let nat = |checked: bool| native_answer(&sa, av.len(), |i| T::nat_bin(op, av[i], s, checked));
            judge_ival(observed, expected, nat(true), nat(false), av.len())
        }
        _ => None,
    }
}

fn ex_ival_not(a_s: &str, expected: &str) -> Option<Verdict> {
    let a = build::<bool>(a_s)?;
    let (sa, av) = (a.get_shape().unwrap(), a.get_elements().unwrap());
    let observed = twice(|| show_a(&(!a.clone())));
    let nat = |_c: bool| native_answer(&sa, av.len(), |i| Some(bool::nat_not(av[i])));
    judge_ival(observed, expected, nat(true), nat(false), av.len())
}

/// the scalar shifts, observed through the crate's `Numeric::left_shift` / `right_shift` (`self << other`, `self >> other`)
fn ex_ishift<T: IntNative + Numeric>(op: &str, x_s: &str, k_s: &str, expected: &str) -> Option<Verdict> {
    let (x, k) = (T::parse_tok(x_s)?, T::parse_tok(k_s)?);
    let observed = twice(|| format!("ok {}", match op { "shl" => x.left_shift(&k), "shr" => x.right_shift(&k), _ => panic!("harness: op") }.tok()));
    let nat = |checked: bool| match T::nat_bin(op, x, k, checked) { Some(v) => format!("ok {}", v.tok()), None => "panic".into() };
    judge_ival(observed, expected, nat(true), nat(false), 1)
}

fn exec_ival(args: &[&str], expected: &str) -> Option<Verdict> {
    let (form, ty) = (*args.first()?, *args.get(1)?);
    match form {
        "neg" => { let a = args.get(2)?; match ty { "i8" => ex_ival_neg::<i8>(a, expected), "i16" => ex_ival_neg::<i16>(a, expected), "i32" => ex_ival_neg::<i32>(a, expected), "i64" => ex_ival_neg::<i64>(a, expected), _ => None } }
        "not" => if ty == "bool" { ex_ival_not(args.get(2)?, expected) } else { None },
        "arr_arr" | "assign_arr" | "arr_scalar" | "assign_scalar" | "arr_self" | "assign_self" => {
            let (o, a, b) = (*args.get(2)?, *args.get(3)?, if form.ends_with("_self") { "" } else { *args.get(4)? });
            match ty { "i8" => ex_ival_arith::<i8>(form, o, a, b, expected), "i16" => ex_ival_arith::<i16>(form, o, a, b, expected),
                       "i32" => ex_ival_arith::<i32>(form, o, a, b, expected), "i64" => ex_ival_arith::<i64>(form, o, a, b, expected), _ => None }
        }
        "bit_arr" | "bit_assign_arr" | "bit_scalar" | "bit_assign_scalar" | "bit_self" | "bit_assign_self" => {
            let (o, a, b) = (*args.get(2)?, *args.get(3)?, if form.ends_with("_self") { "" } else { *args.get(4)? });
            match ty {
                "bool" => ex_ival_bit::<bool>(form, o, a, b, expected),
                "i8" => ex_ival_bit::<i8>(form, o, a, b, expected), "i16" => ex_ival_bit::<i16>(form, o, a, b, expected),
                "i32" => ex_ival_bit::<i32>(form, o, a, b, expected), "i64" => ex_ival_bit::<i64>(form, o, a, b, expected),
                "isize" => ex_ival_bit::<isize>(form, o, a, b, expected),
                "u8" => ex_ival_bit::<u8>(form, o, a, b, expected), "u16" => ex_ival_bit::<u16>(form, o, a, b, expected),
                "u32" => ex_ival_bit::<u32>(form, o, a, b, expected), "u64" => ex_ival_bit::<u64>(form, o, a, b, expected),
                "usize" => ex_ival_bit::<usize>(form, o, a, b, expected),
                _ => None,
            }
        }
        _ => None,
    }
}

fn exec_ishift(args: &[&str], expected: &str) -> Option<Verdict> {
    if args.len() != 4 { return None; }
    let (ty, o, x, k) = (args[0], args[1], args[2], args[3]);
    match ty {
        "bool" => ex_ishift::<bool>(o, x, k, expected),
        "i8" => ex_ishift::<i8>(o, x, k, expected), "i16" => ex_ishift::<i16>(o, x, k, expected), "i32" => ex_ishift::<i32>(o, x, k, expected),
        "i64" => ex_ishift::<i64>(o, x, k, expected), "isize" => ex_ishift::<isize>(o, x, k, expected),
        "u8" => ex_ishift::<u8>(o, x, k, expected), "u16" => ex_ishift::<u16>(o, x, k, expected), "u32" => ex_ishift::<u32>(o, x, k, expected),
        "u64" => ex_ishift::<u64>(o, x, k, expected), "usize" => ex_ishift::<usize>(o, x, k, expected),
        _ => None,
    }
}

thread_local! {
    /// the previous case of this worker thread: (op, args, model answer, what the crate answered)
    static PREV: std::cell::RefCell<Option<(String, Vec<String>, String, String)>> = const { std::cell::RefCell::new(None) };
}
static ABA_RERUNS: std::sync::atomic::AtomicUsize = std::sync::atomic::AtomicUsize::new(0);
static SEQ_MEMBERS: std::sync::atomic::AtomicUsize = std::sync::atomic::AtomicUsize::new(0);

fn observed_of(v: &Verdict) -> &str { match v { Verdict::Match(o) | Verdict::Open(o) => o, Verdict::Mismatch { observed, .. } => observed } }

/// `seq a / b / c`: the member cases run one after the other on this thread; every member is judged like a case of its own
fn exec_seq(args: &[&str], expected: &str) -> Option<Verdict> {
    let members: Vec<&[&str]> = args.split(|t| *t == "/").collect();
    let answers: Vec<&str> = expected.split(" / ").collect();
    if members.len() != answers.len() { return None; }
    let mut obs = vec![];
    let mut bad: Option<String> = None;
    for (k, (m, e)) in members.iter().zip(&answers).enumerate() {
        let v = exec_single(m[0], &m[1..], e)?;
        SEQ_MEMBERS.fetch_add(1, std::sync::atomic::Ordering::Relaxed);
        if let Verdict::Mismatch { observed, detail } = &v {
            if bad.is_none() { bad = Some(format!("member {k} (`{}`) answers `{}`: {detail}", truncate(&m.join(" "), 200), truncate(observed, 300))); }
        }
        obs.push(truncate(observed_of(&v), 400));
    }
    let observed = obs.join(" / ");
    Some(match bad { Some(detail) => Verdict::Mismatch { observed, detail }, None => Verdict::Match(observed) })
}

fn exec(op: &str, args: &[&str], expected: &str) -> Option<Verdict> {
    if op == "seq" { PREV.with(|p| *p.borrow_mut() = None); return exec_seq(args, expected); }
    if op == "state_report" {
        let text = format!("ok report: {} A-B-A re-runs and {} seq members executed so far", ABA_RERUNS.load(std::sync::atomic::Ordering::Relaxed), SEQ_MEMBERS.load(std::sync::atomic::Ordering::Relaxed));
        return Some(Verdict::Match(text));
    }
    if op == "ival_report" {
        use std::sync::atomic::Ordering::Relaxed;
        let text = format!("ok report: {} ival/ishift cases ({} positions, {} panic in this build): model = native checked_* on {}, model(plain release) = native wrapping_* on {}, disagreements {}",
            IVAL_CASES.load(Relaxed), IVAL_POSITIONS.load(Relaxed), IVAL_PANICS.load(Relaxed), IVAL_CHECKED_AGREE.load(Relaxed), IVAL_WRAP_AGREE.load(Relaxed), IVAL_DISAGREE.load(Relaxed));
        return Some(if IVAL_DISAGREE.load(Relaxed) == 0 { Verdict::Match(text) } else { Verdict::Mismatch { observed: text, detail: "the Lean integer model and the native evaluation disagree on some ival line (see that line)".into() } });
    }
    let mut v = exec_single(op, args, expected)?;
    // A-B-A: after this case (B) the previous case (A) is executed again and must answer what it answered before B
    let prev = PREV.with(|p| p.borrow_mut().take());
    if let Some((pop, pargs, pexp, ptext)) = prev {
        let pa: Vec<&str> = pargs.iter().map(String::as_str).collect();
        if let Some(again) = exec_single(&pop, &pa, &pexp) {
            ABA_RERUNS.fetch_add(1, std::sync::atomic::Ordering::Relaxed);
            if observed_of(&again) != ptext && !matches!(v, Verdict::Mismatch { .. }) {
                v = Verdict::Mismatch { observed: format!("STATE-DIVERGENCE `{pop} {}` executed again after this case gives `{}`", truncate(&pargs.join(" "), 300), truncate(observed_of(&again), 300)),
                                        detail: format!("before this case it gave `{}`; this case itself agrees with the model (`{}`)", truncate(&ptext, 300), truncate(expected, 200)) };
            }
        }
    }
    let len: usize = args.iter().map(|a| a.len()).sum();
    if len <= 1500 { PREV.with(|p| *p.borrow_mut() = Some((op.to_string(), args.iter().map(|s| s.to_string()).collect(), expected.to_string(), observed_of(&v).to_string()))); }
    Some(v)
}

fn exec_single(op: &str, args: &[&str], expected: &str) -> Option<Verdict> {
    match op {
        "ival" => exec_ival(args, expected),
        "ishift" => exec_ishift(args, expected),
        "arr_arr" | "arr_scalar" | "assign_arr" | "assign_scalar" | "assign_vs_plain" | "arr_self" | "assign_self" => {
            let (ty, o, a, b) = (args[0], args[1], args[2], if op.ends_with("_self") { "" } else { args[3] });
            match ty {
                "i8" => ex_arith::<i8>(op, o, a, b, expected), "i16" => ex_arith::<i16>(op, o, a, b, expected),
                "i32" => ex_arith::<i32>(op, o, a, b, expected), "i64" => ex_arith::<i64>(op, o, a, b, expected),
                "f32" => ex_arith::<f32>(op, o, a, b, expected), "f64" => ex_arith::<f64>(op, o, a, b, expected),
                _ => None,
            }
        }
        "neg" => match args[0] {
            "i8" => ex_neg::<i8>(args[1], expected), "i16" => ex_neg::<i16>(args[1], expected),
            "i32" => ex_neg::<i32>(args[1], expected), "i64" => ex_neg::<i64>(args[1], expected),
            "f32" => ex_neg::<f32>(args[1], expected), "f64" => ex_neg::<f64>(args[1], expected),
            _ => None,
        },
        "not" => if args[0] == "bool" { ex_not(args[1], expected) } else { None },
        "bit_arr" | "bit_scalar" | "bit_assign_arr" | "bit_assign_scalar" | "bit_assign_vs_plain" | "bit_self" | "bit_assign_self" => {
            let (ty, o, a, b) = (args[0], args[1], args[2], if op.ends_with("_self") { "" } else { args[3] });
            match ty {
                "bool" => ex_bit::<bool>(op, o, a, b, expected),
                "i8" => ex_bit::<i8>(op, o, a, b, expected), "i16" => ex_bit::<i16>(op, o, a, b, expected),
                "i32" => ex_bit::<i32>(op, o, a, b, expected), "i64" => ex_bit::<i64>(op, o, a, b, expected),
                "isize" => ex_bit::<isize>(op, o, a, b, expected),
                "u8" => ex_bit::<u8>(op, o, a, b, expected), "u16" => ex_bit::<u16>(op, o, a, b, expected),
                "u32" => ex_bit::<u32>(op, o, a, b, expected), "u64" => ex_bit::<u64>(op, o, a, b, expected),
                "usize" => ex_bit::<usize>(op, o, a, b, expected),
                _ => None,
            }
        }
        "cmp" | "cmp_self" => {
            let same = op == "cmp_self";
            let (ty, rel, a, b) = (args[0], args[1], args[2], if same { args[2] } else { args[3] });
            match ty {
                "i8" => ex_cmp::<i8>(rel, a, b, same, expected), "i16" => ex_cmp::<i16>(rel, a, b, same, expected),
                "i32" => ex_cmp::<i32>(rel, a, b, same, expected), "i64" => ex_cmp::<i64>(rel, a, b, same, expected),
                "f32" => ex_cmp::<f32>(rel, a, b, same, expected), "f64" => ex_cmp::<f64>(rel, a, b, same, expected),
                "u8" => ex_cmp::<u8>(rel, a, b, same, expected), "usize" => ex_cmp::<usize>(rel, a, b, same, expected),
                "bool" => ex_cmp::<bool>(rel, a, b, same, expected),
                _ => None,
            }
        }
        _ => None,
    }
}

// ------------------------------------------------------------------ generator

const ARITH_TY: [&str; 6] = ["i8", "i16", "i32", "i64", "f32", "f64"];
const ARITH_OP: [&str; 5] = ["add", "sub", "mul", "div", "rem"];
const BIT_TY: [&str; 11] = ["bool", "i8", "i16", "i32", "i64", "isize", "u8", "u16", "u32", "u64", "usize"];
const BIT_OP: [&str; 3] = ["and", "or", "xor"];
const CMP_TY: [&str; 9] = ["i8", "i16", "i32", "i64", "f32", "f64", "u8", "usize", "bool"];
const RELS: [&str; 7] = ["eq", "ne", "lt", "le", "gt", "ge", "partial_cmp"];

fn int_range(ty: &str) -> (i128, i128) {
    match ty {
        "bool" => (0, 1),
        "i8" => (i8::MIN as i128, i8::MAX as i128), "i16" => (i16::MIN as i128, i16::MAX as i128),
        "i32" => (i32::MIN as i128, i32::MAX as i128), "i64" | "isize" => (i64::MIN as i128, i64::MAX as i128),
        "u8" => (0, u8::MAX as i128), "u16" => (0, u16::MAX as i128), "u32" => (0, u32::MAX as i128),
        "u64" | "usize" => (0, u64::MAX as i128),
        _ => panic!("int_range {ty}"),
    }
}
fn is_float(ty: &str) -> bool { ty == "f32" || ty == "f64" }

fn int_val(rng: &mut Rng, lo: i128, hi: i128) -> i128 {
    let v = match rng.below(4) {
        0 | 1 => rng.range(-12, 12) as i128,
        2 => if rng.below(2) == 0 { lo + rng.below(4) as i128 } else { hi - rng.below(4) as i128 },
        _ => { let span = (hi - lo + 1) as u128; lo + ((((rng.next() as u128) << 64) | rng.next() as u128) % span) as i128 }
    };
    v.clamp(lo, hi)
}
/// does the native operator stay inside the type (no overflow, no zero divisor)?
fn int_ok(op: &str, x: i128, y: i128, lo: i128, hi: i128) -> bool {
    let r = match op {
        "add" => x + y, "sub" => x - y, "mul" => match x.checked_mul(y) { Some(r) => r, None => return false },
        "div" | "rem" => { if y == 0 || (x == lo && y == -1) { return false; } 0 }
        _ => 0,
    };
    lo <= r && r <= hi
}
fn float_tok(rng: &mut Rng, ty: &str) -> String {
    let v: f64 = match rng.below(8) {
        0 | 1 | 2 => rng.range(-9, 9) as f64,
        3 => rng.range(-40, 40) as f64 / 8.0,
        4 => rng.range(-1000, 1000) as f64 / 7.0,
        5 => *rng.pick(&[0.0, -0.0, 1.0, -1.0, 0.5, 0.1, f64::INFINITY, f64::NEG_INFINITY, f64::NAN, 1e30, -1e30, 1e-30]),
        6 => if ty == "f32" { *rng.pick(&[f32::MAX as f64, f32::MIN_POSITIVE as f64, f32::from_bits(1) as f64, f32::EPSILON as f64]) }
             else { *rng.pick(&[f64::MAX, f64::MIN_POSITIVE, f64::from_bits(1), f64::EPSILON]) },
        _ => return if ty == "f32" { format!("x{:x}", rng.next() as u32) } else { format!("x{:x}", rng.next()) },
    };
    if ty == "f32" { format!("x{:x}", (v as f32).to_bits()) } else { format!("x{:x}", v.to_bits()) }
}
/// operands for `x op y` at every position, never overflowing
fn pair_vals(rng: &mut Rng, ty: &str, op: &str, n: usize, m: usize) -> (Vec<String>, Vec<String>) {
    if is_float(ty) { return ((0..n).map(|_| float_tok(rng, ty)).collect(), (0..m).map(|_| float_tok(rng, ty)).collect()); }
    let (lo, hi) = int_range(ty);
    let (mut xs, mut ys) = (vec![], vec![]);
    for _ in 0..n.max(m) {
        let (mut x, mut y) = (int_val(rng, lo, hi), int_val(rng, lo, hi));
        let mut tries = 0;
        while !int_ok(op, x, y, lo, hi) {
            tries += 1;
            if tries > 20 { x = rng.range(-9, 9) as i128; y = rng.range(1, 9) as i128; } else { x = int_val(rng, lo, hi); y = int_val(rng, lo, hi); }
        }
        xs.push(x.to_string()); ys.push(y.to_string());
    }
    xs.truncate(n); ys.truncate(m);
    (xs, ys)
}
fn scalar_vals(rng: &mut Rng, ty: &str, op: &str, n: usize) -> (Vec<String>, String) {
    if is_float(ty) { return ((0..n).map(|_| float_tok(rng, ty)).collect(), float_tok(rng, ty)); }
    let (lo, hi) = int_range(ty);
    let mut s = int_val(rng, lo, hi);
    while (op == "div" || op == "rem") && (s == 0 || s == -1) { s = int_val(rng, lo, hi); }
    if op == "mul" && rng.below(3) > 0 { s = rng.range(-3, 3) as i128; }
    let mut xs = vec![];
    for _ in 0..n {
        let mut x = int_val(rng, lo, hi);
        let mut tries = 0;
        while !int_ok(op, x, s, lo, hi) { tries += 1; x = if tries > 20 { 0 } else { int_val(rng, lo, hi) }; }
        xs.push(x.to_string());
    }
    (xs, s.to_string())
}
fn neg_vals(rng: &mut Rng, ty: &str, n: usize) -> Vec<String> {
    if is_float(ty) { return (0..n).map(|_| float_tok(rng, ty)).collect(); }
    let (lo, hi) = int_range(ty);
    (0..n).map(|_| { let mut x = int_val(rng, lo, hi); while x == lo { x = int_val(rng, lo, hi); } x.to_string() }).collect()
}
fn bit_vals(rng: &mut Rng, ty: &str, n: usize) -> Vec<String> {
    let (lo, hi) = int_range(ty);
    (0..n).map(|_| int_val(rng, lo, hi).to_string()).collect()
}
fn cmp_tok(rng: &mut Rng, ty: &str) -> String {
    match ty {
        "bool" => rng.below(2).to_string(),
        "u8" | "usize" => rng.below(4).to_string(),
        "f32" | "f64" => if rng.below(8) == 0 { "nan".into() } else { rng.range(-2, 2).to_string() },
        _ => rng.range(-3, 3).to_string(),
    }
}
fn arr(shape: &[usize], vals: &[String]) -> String { format!("{}:{}", show_list(shape), if vals.is_empty() { "-".to_string() } else { vals.join(",") }) }
fn prod(s: &[usize]) -> usize { s.iter().product() }

/// every operator form of the property on one pair of shapes (equal or not)
fn all_forms(rng: &mut Rng, sa: &[usize], sb: &[usize], tys: &[&str], bit_tys: &[&str], cmp_tys: &[&str], out: &mut dyn FnMut(String)) {
    let (n, m) = (prod(sa), prod(sb));
    for ty in tys {
        for op in ARITH_OP {
            let (xs, ys) = pair_vals(rng, ty, op, n, m);
            let (a, b) = (arr(sa, &xs), arr(sb, &ys));
            out(format!("arr_arr {ty} {op} {a} {b}"));
            out(format!("assign_arr {ty} {op} {a} {b}"));
            out(format!("assign_vs_plain {ty} {op} {a} {b}"));
        }
    }
    for ty in bit_tys {
        for op in BIT_OP {
            let (a, b) = (arr(sa, &bit_vals(rng, ty, n)), arr(sb, &bit_vals(rng, ty, m)));
            out(format!("bit_arr {ty} {op} {a} {b}"));
            out(format!("bit_assign_arr {ty} {op} {a} {b}"));
            out(format!("bit_assign_vs_plain {ty} {op} {a} {b}"));
        }
    }
    for ty in cmp_tys {
        // equal / one position changed / unrelated
        let xs: Vec<String> = (0..n).map(|_| cmp_tok(rng, ty)).collect();
        let mut variants: Vec<Vec<String>> = vec![];
        if n == m {
            variants.push(xs.clone());
            if n > 0 { let mut ys = xs.clone(); let k = rng.below(n); ys[k] = cmp_tok(rng, ty); variants.push(ys); }
        }
        variants.push((0..m).map(|_| cmp_tok(rng, ty)).collect());
        for ys in variants {
            for rel in RELS { out(format!("cmp {ty} {rel} {} {}", arr(sa, &xs), arr(sb, &ys))); }
        }
    }
}

fn one_operand_forms(rng: &mut Rng, s: &[usize], out: &mut dyn FnMut(String)) { one_operand_forms_tys(rng, s, &ARITH_TY, &BIT_TY, out) }
fn one_operand_forms_tys(rng: &mut Rng, s: &[usize], arith_tys: &[&str], bit_tys: &[&str], out: &mut dyn FnMut(String)) {
    let n = prod(s);
    for ty in arith_tys {
        for op in ARITH_OP {
            let (xs, sc) = scalar_vals(rng, ty, op, n);
            out(format!("arr_scalar {ty} {op} {} {sc}", arr(s, &xs)));
            out(format!("assign_scalar {ty} {op} {} {sc}", arr(s, &xs)));
        }
        out(format!("neg {ty} {}", arr(s, &neg_vals(rng, ty, n))));
    }
    for ty in bit_tys {
        for op in BIT_OP {
            let xs = bit_vals(rng, ty, n);
            let sc = bit_vals(rng, ty, 1).pop().unwrap();
            out(format!("bit_scalar {ty} {op} {} {sc}", arr(s, &xs)));
            out(format!("bit_assign_scalar {ty} {op} {} {sc}", arr(s, &xs)));
        }
    }
    out(format!("not bool {}", arr(s, &bit_vals(rng, "bool", n))));
}

// ------------------------------------------------------------------ robustness streams

/// aliasing forms: both operands are the receiver (values for which `x op x` stays inside the type)
fn self_forms(rng: &mut Rng, s: &[usize], arith_tys: &[&str], bit_tys: &[&str], out: &mut dyn FnMut(String)) {
    let n = prod(s);
    for ty in arith_tys {
        for op in ARITH_OP {
            let xs: Vec<String> = if is_float(ty) { (0..n).map(|_| float_tok(rng, ty)).collect() } else {
                let (lo, hi) = int_range(ty);
                (0..n).map(|_| { let mut x = int_val(rng, lo, hi); let mut t = 0; while !int_ok(op, x, x, lo, hi) { t += 1; x = if t > 20 { rng.range(1, 9) as i128 } else { int_val(rng, lo, hi) }; } x.to_string() }).collect()
            };
            out(format!("arr_self {ty} {op} {}", arr(s, &xs)));
            out(format!("assign_self {ty} {op} {}", arr(s, &xs)));
        }
    }
    for ty in bit_tys {
        for op in BIT_OP {
            let xs = bit_vals(rng, ty, n);
            out(format!("bit_self {ty} {op} {}", arr(s, &xs)));
            out(format!("bit_assign_self {ty} {op} {}", arr(s, &xs)));
        }
    }
}

/// an array compared with ITSELF (same object), without and with values that are not equal to themselves
fn cmp_self_forms(rng: &mut Rng, s: &[usize], cmp_tys: &[&str], out: &mut dyn FnMut(String)) {
    let n = prod(s);
    for ty in cmp_tys {
        let base: Vec<String> = (0..n).map(|_| { let mut t = cmp_tok(rng, ty); while t == "nan" { t = cmp_tok(rng, ty); } t }).collect();
        let mut variants = vec![base.clone()];
        if is_float(ty) && n > 0 {
            for pos in [0, n - 1, n / 2, n.saturating_sub(2)] { let mut v = base.clone(); v[pos] = "nan".into(); variants.push(v); }
            variants.push(vec!["nan".to_string(); n]);
            let mut v = base.clone(); v[n - 1] = "nz".into(); if n > 1 { v[0] = "nan".into(); v[1] = "nz".into(); } variants.push(v);
            let mut v = base.clone(); v[0] = "nz".into(); variants.push(v);
        }
        variants.sort(); variants.dedup();
        for v in variants { for rel in RELS { out(format!("cmp_self {ty} {rel} {}", arr(s, &v))); } }
    }
}

/// comparisons on long arrays: the operands differ only at the first / last / last-but-remainder position, or not at all
fn cmp_edge_forms(rng: &mut Rng, s: &[usize], cmp_tys: &[&str], out: &mut dyn FnMut(String)) {
    let n = prod(s);
    if n == 0 { return; }
    for ty in cmp_tys {
        let xs: Vec<String> = (0..n).map(|_| { let mut t = cmp_tok(rng, ty); while t == "nan" { t = cmp_tok(rng, ty); } t }).collect();
        let mut positions = vec![0, n - 1, n / 2, n - 1 - (n - 1) % 8, n.saturating_sub(1 + n % 8), n.saturating_sub(1 + n % 64)];
        positions.sort(); positions.dedup();
        let mut variants: Vec<Vec<String>> = vec![xs.clone()];
        for &p in &positions {
            let other = |t: &str| match *ty { "bool" => if t == "0" { "1" } else { "0" }.to_string(), "u8" | "usize" => if t == "0" { "3".to_string() } else { "0".to_string() }, _ => if t == "2" { "-2".to_string() } else { "2".to_string() } };
            let mut v = xs.clone(); v[p] = other(&xs[p]); variants.push(v);
            if is_float(ty) { let mut v = xs.clone(); v[p] = "nan".into(); variants.push(v); }
            if is_float(ty) && xs[p] == "0" { let mut v = xs.clone(); v[p] = "nz".into(); variants.push(v); }
        }
        for ys in variants {
            for rel in RELS { out(format!("cmp {ty} {rel} {} {}", arr(s, &xs), arr(s, &ys))); }
            if ys != xs { for rel in ["eq", "lt", "partial_cmp"] { out(format!("cmp {ty} {rel} {} {}", arr(s, &ys), arr(s, &xs))); } }
        }
    }
}

fn special_floats(ty: &str) -> Vec<String> {
    let v64 = [0.0f64, -0.0, f64::NAN, -f64::NAN, f64::INFINITY, f64::NEG_INFINITY, f64::MIN_POSITIVE, -f64::MIN_POSITIVE, f64::from_bits(1), -f64::from_bits(1),
               f64::MAX, f64::MIN, 1.5, -1.5, 3.0, 10.0, 0.1, 1e300, 1e-300, 4503599627370497.0, 9007199254740993.0];
    let v32 = [0.0f32, -0.0, f32::NAN, -f32::NAN, f32::INFINITY, f32::NEG_INFINITY, f32::MIN_POSITIVE, -f32::MIN_POSITIVE, f32::from_bits(1), -f32::from_bits(1),
               f32::MAX, f32::MIN, 1.5, -1.5, 3.0, 10.0, 0.1, 1e38, 1e-38, 8388609.0, 16777217.0];
    if ty == "f32" { v32.iter().map(|x| format!("x{:x}", x.to_bits())).collect() } else { v64.iter().map(|x| format!("x{:x}", x.to_bits())).collect() }
}

/// operand pairs at the edge of the non-overflowing range
fn limit_pairs(op: &str, lo: i128, hi: i128) -> Vec<(i128, i128)> {
    let mut c: Vec<(i128, i128)> = vec![];
    let vals = [lo, lo + 1, lo + 2, lo / 2, lo / 2 - 1, lo / 2 + 1, -3, -2, -1, 0, 1, 2, 3, hi / 2, hi / 2 + 1, hi / 2 - 1, hi - 2, hi - 1, hi];
    for &x in &vals { for &y in &vals { if int_ok(op, x, y, lo, hi) { c.push((x, y)); } } }
    c
}

fn robustness(thorough: bool, seed: u64, out: &mut dyn FnMut(String)) {
    let mut fx = Rng::new(0xB20);
    // (R1) sizes: lib big_shapes + element counts around 32 / 256 / 1024 / 4096 that are not multiples of the usual block sizes
    let mut big = big_shapes();
    big.extend(vec![vec![31], vec![33], vec![65], vec![129], vec![255], vec![256], vec![257], vec![259], vec![263], vec![5, 7, 9], vec![3, 5, 17], vec![2, 3, 43],
                    vec![1023], vec![1025], vec![1031], vec![4095], vec![4097], vec![4103], vec![13, 79], vec![3, 1367], vec![3, 5, 7, 79]]);
    if thorough { big.extend(vec![vec![511], vec![513], vec![2049], vec![8191], vec![8193], vec![8195], vec![8199], vec![91, 91], vec![16385], vec![127, 33], vec![9, 9, 9, 9]]); }
    for (k, sh) in big.iter().enumerate() {
        let n = prod(sh);
        if n <= 300 || (thorough && n <= 1100) {
            all_forms(&mut fx, sh, sh, &ARITH_TY, &BIT_TY, &CMP_TY, out);
            one_operand_forms(&mut fx, sh, out);
            self_forms(&mut fx, sh, &ARITH_TY, &BIT_TY, out);
            cmp_edge_forms(&mut fx, sh, &CMP_TY, out);
            cmp_self_forms(&mut fx, sh, &CMP_TY, out);
        } else {
            // rotate through the types; bool (bit operators) and f64 (NaN) every time
            let at = [ARITH_TY[k % 6], ARITH_TY[(k + 3) % 6]];
            let bt = ["bool", BIT_TY[1 + k % 10]];
            let ct = ["f64", CMP_TY[k % 9]];
            all_forms(&mut fx, sh, sh, &at, &bt, &ct, out);
            one_operand_forms_tys(&mut fx, sh, &at, &bt, out);
            self_forms(&mut fx, sh, &at[..1], &bt, out);
            cmp_edge_forms(&mut fx, sh, &ct, out);
            cmp_self_forms(&mut fx, sh, &ct, out);
            // same element count, another shape: must be refused
            let t = vec![n];
            if &t != sh { all_forms(&mut fx, sh, &t, &at[..1], &bt[..1], &ct[..1], out); }
        }
    }
    // (R2) zero-length axes: every form; every ordered pair of different zero shapes (same element count 0, must be refused)
    let zs = zero_shapes();
    for (k, z) in zs.iter().enumerate() {
        all_forms(&mut fx, z, z, &ARITH_TY, &BIT_TY, &CMP_TY, out);
        one_operand_forms(&mut fx, z, out);
        self_forms(&mut fx, z, &ARITH_TY, &BIT_TY, out);
        cmp_self_forms(&mut fx, z, &CMP_TY, out);
        for (j, y) in zs.iter().enumerate() {
            if j != k { all_forms(&mut fx, z, y, &[ARITH_TY[(j + k) % 6]], &[BIT_TY[(j + k) % 11]], &[CMP_TY[(j + k) % 9]], out); }
        }
    }
    // (R3.a) aliasing and self comparison on the small scope
    let mut small = shapes(1, 3, 1, 3);
    small.extend(vec![vec![7], vec![8], vec![9], vec![2, 2, 2, 2], vec![3, 1, 1, 3]]);
    for sh in &small {
        self_forms(&mut fx, sh, &ARITH_TY, &BIT_TY, out);
        cmp_self_forms(&mut fx, sh, &CMP_TY, out);
    }
    // self comparison exhaustively over {0, -0.0, 1, NaN} (floats) and three letters (integers) on arrays of <= 3 elements
    for sh in [vec![1], vec![2], vec![1, 2], vec![3], vec![3, 1]] {
        let n = prod(&sh);
        for (ty, alpha) in [("f64", vec!["0", "nz", "1", "nan"]), ("f32", vec!["0", "nz", "1", "nan"]), ("i32", vec!["-1", "0", "2"]), ("u8", vec!["0", "1", "255"]), ("bool", vec!["0", "1"])] {
            for c in boxes(&vec![alpha.len(); n]) {
                let xs: Vec<String> = c.iter().map(|&i| alpha[i].to_string()).collect();
                for rel in RELS { out(format!("cmp_self {ty} {rel} {}", arr(&sh, &xs))); }
            }
        }
    }
    // (R3.b) -0.0 against 0.0 and NaN in equality and ordering: all pairs over {0, -0.0, 1, NaN} on arrays of <= 2 (thorough 3) elements
    for sh in if thorough { vec![vec![1], vec![2], vec![2, 1], vec![3]] } else { vec![vec![1], vec![2], vec![2, 1]] } {
        let n = prod(&sh);
        let alpha = ["0", "nz", "1", "nan"];
        for ty in ["f64", "f32"] {
            for ca in boxes(&vec![4; n]) { for cb in boxes(&vec![4; n]) {
                let xs: Vec<String> = ca.iter().map(|&i| alpha[i].to_string()).collect();
                let ys: Vec<String> = cb.iter().map(|&i| alpha[i].to_string()).collect();
                for rel in RELS { out(format!("cmp {ty} {rel} {} {}", arr(&sh, &xs), arr(&sh, &ys))); }
            } }
        }
    }
    // integer limits in equality and ordering
    for (ty, alpha) in [("i8", ["-128", "127", "0"]), ("u8", ["0", "255", "128"]), ("i16", ["-32768", "32767", "-1"]), ("i32", ["-2147483648", "2147483647", "0"]),
                        ("i64", ["-9223372036854775808", "9223372036854775807", "9007199254740993"]), ("usize", ["0", "18446744073709551615", "9223372036854775808"])] {
        for sh in [vec![1], vec![2]] {
            let n = prod(&sh);
            for ca in boxes(&vec![3; n]) { for cb in boxes(&vec![3; n]) {
                let xs: Vec<String> = ca.iter().map(|&i| alpha[i].to_string()).collect();
                let ys: Vec<String> = cb.iter().map(|&i| alpha[i].to_string()).collect();
                for rel in RELS { out(format!("cmp {ty} {rel} {} {}", arr(&sh, &xs), arr(&sh, &ys))); }
            } }
        }
    }
    // (R3.c) float value classes: the full grid special x special for every operator and form; negation of every special
    for ty in ["f32", "f64"] {
        let sp = special_floats(ty);
        let m = sp.len();
        let xs: Vec<String> = (0..m * m).map(|i| sp[i / m].clone()).collect();
        let ys: Vec<String> = (0..m * m).map(|i| sp[i % m].clone()).collect();
        for sh in [vec![m * m], vec![m, m]] {
            for op in ARITH_OP {
                out(format!("arr_arr {ty} {op} {} {}", arr(&sh, &xs), arr(&sh, &ys)));
                out(format!("assign_arr {ty} {op} {} {}", arr(&sh, &xs), arr(&sh, &ys)));
                out(format!("assign_vs_plain {ty} {op} {} {}", arr(&sh, &xs), arr(&sh, &ys)));
            }
        }
        for op in ARITH_OP { for sc in &sp {
            out(format!("arr_scalar {ty} {op} {} {sc}", arr(&[m], &sp)));
            out(format!("assign_scalar {ty} {op} {} {sc}", arr(&[m], &sp)));
        } }
        for op in ARITH_OP { out(format!("arr_self {ty} {op} {}", arr(&[m], &sp))); out(format!("assign_self {ty} {op} {}", arr(&[m], &sp))); }
        for sh in [vec![m], vec![3, 7], vec![7, 3]] { out(format!("neg {ty} {}", arr(&sh, &sp))); }
        for z in ["x0", if ty == "f32" { "x80000000" } else { "x8000000000000000" }] { out(format!("neg {ty} 1:{z}")); out(format!("neg {ty} 2,2:{z},{z},{z},{z}")); }
    }
    // (R3.d) integer types at the edge of the non-overflowing range (i8 / i16 / i32 / i64): array forms, scalar forms, negation
    for ty in ["i8", "i16", "i32", "i64"] {
        let (lo, hi) = int_range(ty);
        for op in ARITH_OP {
            let ps = limit_pairs(op, lo, hi);
            let xs: Vec<String> = ps.iter().map(|p| p.0.to_string()).collect();
            let ys: Vec<String> = ps.iter().map(|p| p.1.to_string()).collect();
            let sh = vec![ps.len()];
            out(format!("arr_arr {ty} {op} {} {}", arr(&sh, &xs), arr(&sh, &ys)));
            out(format!("assign_arr {ty} {op} {} {}", arr(&sh, &xs), arr(&sh, &ys)));
            out(format!("assign_vs_plain {ty} {op} {} {}", arr(&sh, &xs), arr(&sh, &ys)));
            // scalar forms: for every right operand, all the left operands that stay in range with it
            let mut scalars: Vec<i128> = ps.iter().map(|p| p.1).collect(); scalars.sort(); scalars.dedup();
            for sc in scalars {
                let xs: Vec<String> = ps.iter().filter(|p| p.1 == sc).map(|p| p.0.to_string()).collect();
                out(format!("arr_scalar {ty} {op} {} {sc}", arr(&[xs.len()], &xs)));
                out(format!("assign_scalar {ty} {op} {} {sc}", arr(&[xs.len()], &xs)));
            }
        }
        let ns: Vec<String> = [lo + 1, lo + 2, -2, -1, 0, 1, 2, hi - 1, hi, (1i128 << 53) + 1, -(1i128 << 53) - 1, 1234567890123456789].iter().filter(|v| lo < **v && **v <= hi).map(|v| v.to_string()).collect();
        out(format!("neg {ty} {}", arr(&[ns.len()], &ns)));
    }
    // bit operators at the limits of every integer type
    for ty in BIT_TY {
        if ty == "bool" { continue; }
        let (lo, hi) = int_range(ty);
        let vals = [lo, lo + 1, -1, 0, 1, hi / 2, hi / 2 + 1, hi - 1, hi, 0x55, 0xAA];
        let vals: Vec<i128> = vals.iter().copied().filter(|v| lo <= *v && *v <= hi).collect();
        let m = vals.len();
        let xs: Vec<String> = (0..m * m).map(|i| vals[i / m].to_string()).collect();
        let ys: Vec<String> = (0..m * m).map(|i| vals[i % m].to_string()).collect();
        for op in BIT_OP {
            out(format!("bit_arr {ty} {op} {} {}", arr(&[m * m], &xs), arr(&[m * m], &ys)));
            out(format!("bit_assign_arr {ty} {op} {} {}", arr(&[m, m], &xs), arr(&[m, m], &ys)));
            for sc in &vals { out(format!("bit_scalar {ty} {op} {} {sc}", arr(&[m * m], &xs))); out(format!("bit_assign_scalar {ty} {op} {} {sc}", arr(&[m * m], &xs))); }
        }
    }
    // (R-seeded) big shapes from the run's seed: one long axis and axes of 7..17
    let mut rng = Rng::new(seed ^ 0x5EED_B20);
    let n_big = if thorough { 40 } else { 8 };
    for i in 0..n_big {
        let sh = match rng.below(3) { 0 => vec![257 + rng.below(4000)], 1 => vec![7 + rng.below(11), 7 + rng.below(11), 1 + rng.below(9)], _ => vec![1 + rng.below(3), 100 + rng.below(900)] };
        let at = [ARITH_TY[i % 6]]; let bt = ["bool", BIT_TY[1 + i % 10]]; let ct = [CMP_TY[i % 9], "f32"];
        all_forms(&mut rng, &sh, &sh, &at, &bt, &ct, out);
        one_operand_forms_tys(&mut rng, &sh, &at, &bt, out);
        self_forms(&mut rng, &sh, &at, &bt[..1], out);
        cmp_edge_forms(&mut rng, &sh, &ct, out);
        cmp_self_forms(&mut rng, &sh, &ct[..1], out);
    }
}


// ------------------------------------------------------------------ robustness streams, part 2 (hidden state, huge sizes, colliding shapes)

fn harr(shape: &[usize], lo: i64, m: u64, o: u64) -> String { format!("h{}~{lo}~{m}~{o}", show_list(shape)) }
fn harr_ov(shape: &[usize], lo: i64, m: u64, o: u64, ov: &[(usize, String)]) -> String {
    if ov.is_empty() { harr(shape, lo, m, o) } else { format!("{}~{}", harr(shape, lo, m, o), ov.iter().map(|(p, t)| format!("{p}={t}")).collect::<Vec<_>>().join(";")) }
}
fn cmp_range(ty: &str) -> (i64, u64) { match ty { "bool" => (0, 2), "u8" | "usize" => (0, 4), _ => (-3, 7) } }

/// every array-by-array form on a pair of shapes (equal or not), operands in the compact `h` spelling (values 1..9 for the
/// arithmetic operators: no overflow, no zero divisor, on every type).  `full` = every operator in every form with the full
/// value answer; otherwise the forms rotate with `k` (every operator still occurs, in one form each).
fn forms_h(sa: &[usize], sb: &[usize], ty: &str, bit_ty: &str, cmp_ty: &str, k: usize, full: bool, out: &mut dyn FnMut(String)) {
    let differ = sa != sb;
    let (n, m) = (prod(sa), prod(sb));
    for (j, op) in ARITH_OP.iter().enumerate() {
        let (a, b) = (harr(sa, 1, 9, (k + j) as u64), harr(sb, 1, 9, (k + j + 1) as u64));
        if full { out(format!("arr_arr {ty} {op} {a} {b}")); out(format!("assign_arr {ty} {op} {a} {b}")); out(format!("assign_vs_plain {ty} {op} {a} {b}")); }
        else if differ { out(format!("{} {ty} {op} {a} {b}", ["arr_arr", "assign_arr"][(k + j) % 2])); if j == k % 5 { out(format!("assign_vs_plain {ty} {op} {a} {b}")); } }
        else {
            // a huge equal-shaped pair: one operator with the plain value, one with the compound value, two more compound against plain
            if j == k % 5 { out(format!("arr_arr {ty} {op} {a} {b}")); }
            if j == (k + 2) % 5 { out(format!("assign_arr {ty} {op} {a} {b}")); }
            if j == (k + 1) % 5 || j == (k + 3) % 5 { out(format!("assign_vs_plain {ty} {op} {a} {b}")); }
        }
    }
    for (j, op) in BIT_OP.iter().enumerate() {
        for (t, hi) in [("bool", 2u64), (bit_ty, 100)] {
            if t == "bool" && hi == 100 { continue; }
            let (a, b) = (harr(sa, 0, hi, (k + j) as u64), harr(sb, 0, hi, (k + j + 7) as u64));
            if full { out(format!("bit_arr {t} {op} {a} {b}")); out(format!("bit_assign_arr {t} {op} {a} {b}")); out(format!("bit_assign_vs_plain {t} {op} {a} {b}")); }
            else if differ { if t == "bool" || j == k % 3 { out(format!("{} {t} {op} {a} {b}", ["bit_arr", "bit_assign_arr"][(k + j) % 2])); } }
            else {
                if j == k % 3 && t != "bool" { out(format!("bit_arr {t} {op} {a} {b}")); }
                if j == (k + 1) % 3 && t == "bool" { out(format!("bit_assign_arr {t} {op} {a} {b}")); }
                if j == (k + 2) % 3 && t == "bool" { out(format!("bit_assign_vs_plain {t} {op} {a} {b}")); }
            }
        }
    }
    let (lo, md) = cmp_range(cmp_ty);
    let o = k as u64 + 3;
    let a = harr(sa, lo, md, o);
    let mut others: Vec<String> = vec![];
    if differ { others.push(harr(sb, lo, md, o)); if full { others.push(harr(sb, lo, md, o + 1)); } }
    else {
        others.push(a.clone());
        if n > 0 {
            let mut ps = if full { vec![n - 1, n - 1 - (n - 1) % 8, 0, n / 2] } else { vec![n - 1, n - 1 - (n - 1) % 8] };
            ps.dedup();
            for p in ps {
                let v = hval(lo, md, o, p);
                others.push(harr_ov(sb, lo, md, o, &[(p, (lo + (v - lo + 1) % md as i64).to_string())]));
                if is_float(cmp_ty) && (full || p == n - 1) { others.push(harr_ov(sb, lo, md, o, &[(p, "nan".into())])); }
            }
        }
        if full { others.push(harr(sb, lo, md, o + 1)); }
    }
    let _ = m;
    for (i, b) in others.iter().enumerate() {
        if full || (b == &a && !differ) { for rel in RELS { out(format!("cmp {cmp_ty} {rel} {a} {b}")); } }
        else { for rel in ["eq", "partial_cmp", ["lt", "le", "gt", "ge", "ne"][(k + i) % 5]] { out(format!("cmp {cmp_ty} {rel} {a} {b}")); } }
        if full && b != &a && !differ { for rel in ["eq", "lt", "partial_cmp"] { out(format!("cmp {cmp_ty} {rel} {b} {a}")); } }
    }
    if !differ && n > 0 { for rel in if full { vec!["eq", "le", "partial_cmp"] } else { vec!["partial_cmp"] } { out(format!("cmp_self {cmp_ty} {rel} {a}")); } }
}

/// groups of shapes with the SAME element count and the SAME rank in which an axis exceeds 65 535 (a shape test on a packed /
/// narrowed / hashed key confuses them); every ordered pair of different members must be refused by every operator form
fn wide_axis_groups(thorough: bool) -> Vec<Vec<Vec<usize>>> {
    let mut g = vec![
        vec![vec![1, 131072], vec![2, 65536], vec![65536, 2], vec![131072, 1], vec![4, 32768], vec![256, 512]],
        vec![vec![1, 65537], vec![65537, 1]],
        vec![vec![1, 1, 1, 65537], vec![1, 65537, 1, 1], vec![65537, 1, 1, 1]],
        vec![vec![2, 196608], vec![3, 131072]],
    ];
    if thorough {
        g.push(vec![vec![1, 1, 196608], vec![1, 3, 65536], vec![3, 1, 65536], vec![3, 65536, 1], vec![1, 65536, 3], vec![65536, 3, 1], vec![1, 2, 98304]]);
        g.push(vec![vec![1, 1, 1, 131072], vec![1, 1, 2, 65536], vec![1, 2, 1, 65536], vec![2, 1, 1, 65536], vec![1, 1, 65536, 2]]);
        g.push(vec![vec![2, 70000], vec![70000, 2], vec![1, 140000], vec![140000, 1]]);
        g.push(vec![vec![1, 1, 1, 1, 131072], vec![1, 1, 1, 2, 65536], vec![2, 1, 1, 1, 65536]]);
    } else {
        g.push(vec![vec![1, 1, 196608], vec![1, 3, 65536], vec![3, 1, 65536], vec![3, 65536, 1]]);
        g.push(vec![vec![1, 1, 1, 131072], vec![1, 1, 2, 65536], vec![2, 1, 1, 65536]]);
        g.push(vec![vec![2, 70000], vec![1, 140000]]);
    }
    g
}

/// pairs with the same element count, the same rank and the same polynomial key `h = h*m + dim`
/// (`m = 65536` is the packing of the axes into 16-bit fields, `m = 256` into bytes)
fn equal_count_collisions() -> Vec<(Vec<usize>, Vec<usize>)> {
    let mut v = vec![];
    for m in [31usize, 33, 37, 131, 257, 256, 65599, 65536] {
        v.push((vec![2, m], vec![1, 2 * m]));
        if m < 60000 { v.push((vec![3, 2 * m], vec![2, 3 * m])); v.push((vec![2, m, 1], vec![1, 2 * m, 1])); }
        v.push((vec![1, 2, m], vec![1, 1, 2 * m]));
    }
    v
}

fn robustness2(thorough: bool, seed: u64, out: &mut dyn FnMut(String)) {
    // (7) element counts 8 192 .. 393 216: every residue modulo 8 just above 2^13, counts around 2^14 / 2^15 / 2^16 / 2^17, lib
    //     huge_shapes(); the same shape on both sides, every compound assignment against its plain form
    let mut shapes7: Vec<Vec<usize>> = (8192..=8200).map(|n| vec![n]).collect();
    shapes7.extend(vec![vec![3, 5, 7, 79], vec![91, 91], vec![2, 4099], vec![4099, 2], vec![8212], vec![12289], vec![16384], vec![16385], vec![16387], vec![16391],
                        vec![32773], vec![65536], vec![65537], vec![65543], vec![70003], vec![131073]]);
    shapes7.extend(huge_shapes().into_iter().filter(|s| thorough || (s != &vec![300, 300] && s != &vec![2, 70000])));
    if thorough { shapes7.extend(vec![vec![8191], vec![8216], vec![8224], vec![8256], vec![16400], vec![32767], vec![32769], vec![65535], vec![131071], vec![3, 43691], vec![43691, 3], vec![7, 11, 13, 17, 19]]); }
    for (k, sh) in shapes7.iter().enumerate() {
        let n = prod(sh);
        let full = n < 9000 || (thorough && n < 40000);
        forms_h(sh, sh, ARITH_TY[k % 6], BIT_TY[1 + k % 10], CMP_TY[k % 9], k, full, out);
        if thorough { forms_h(sh, sh, ARITH_TY[(k + 3) % 6], BIT_TY[1 + (k + 5) % 10], CMP_TY[(k + 4) % 9], k + 1, false, out); }
    }
    // (7 / 6) an axis above 65 535: every ordered pair of different shapes with equal element count and equal rank must be refused
    let mut k = 0usize;
    for g in wide_axis_groups(thorough) {
        for sa in &g { for sb in &g {
            if sa == sb || (sa.iter().all(|&d| d < 65536) && sb.iter().all(|&d| d < 65536)) { continue; }
            k += 1;
            forms_h(sa, sb, ARITH_TY[k % 6], BIT_TY[k % 11], CMP_TY[k % 9], k, thorough && prod(sa) < 70000, out);
        } }
    }
    for (sa, sb) in equal_count_collisions() {
        for (x, y) in [(&sa, &sb), (&sb, &sa)] {
            k += 1;
            forms_h(x, y, ARITH_TY[k % 6], BIT_TY[k % 11], CMP_TY[k % 9], k, prod(x) < 3000, out);
            if thorough { forms_h(x, y, ARITH_TY[(k + 1) % 6], BIT_TY[(k + 1) % 11], CMP_TY[(k + 1) % 9], k + 1, prod(x) < 3000, out); }
        }
        // and the accepted calls on either shape directly afterwards
        if prod(&sa) < 2000 { forms_h(&sa, &sa, ARITH_TY[k % 6], BIT_TY[k % 11], CMP_TY[k % 9], k, true, out); }
    }
    // (6) hidden state: shapes that collide under h*m+dim, back to back in both orders on one thread — accepted call on A, refused
    //     mixed call, accepted call on B, refused mixed call the other way round, A again
    let forms: [(&str, &str, &str, i64, u64); 8] = [("arr_arr", "i32", "add", 1, 9), ("assign_arr", "i8", "mul", 1, 9), ("bit_arr", "bool", "xor", 0, 2), ("cmp", "f64", "eq", -3, 7),
        ("assign_arr", "f64", "div", 1, 9), ("bit_assign_arr", "u8", "or", 0, 100), ("cmp", "i64", "partial_cmp", -3, 7), ("arr_arr", "f32", "rem", 1, 9)];
    let mut pairs = collision_shape_pairs();
    for (sa, sb) in equal_count_collisions() { if prod(&sa) < 3000 { pairs.push((sa, sb)); } }
    for (i, (sa, sb)) in pairs.iter().enumerate() {
        let picks: Vec<usize> = if thorough { (0..8).collect() } else { vec![i % 8, (i + 3) % 8] };
        for f in picks {
            let (form, ty, op, lo, md) = forms[f];
            let c = |x: &Vec<usize>, y: &Vec<usize>, o: u64| format!("{form} {ty} {op} {} {}", harr(x, lo, md, o), harr(y, lo, md, o + 1));
            out(format!("seq {} / {} / {} / {} / {}", c(sa, sa, 1), c(sa, sb, 2), c(sb, sb, 3), c(sb, sa, 4), c(sa, sa, 1)));
        }
    }
    // (6d) the same arguments through every element type back to back (a cache in a generic function is shared by all instances)
    for (i, sh) in [vec![3], vec![2, 2], vec![9], vec![4, 5], vec![17], vec![2, 3, 4], vec![300]].iter().enumerate() {
        let (a, b) = (harr(sh, 1, 9, i as u64), harr(sh, 1, 9, i as u64 + 1));
        for op in ARITH_OP {
            for form in ["arr_arr", "assign_arr"] {
                let members: Vec<String> = ARITH_TY.iter().map(|ty| format!("{form} {ty} {op} {a} {b}")).collect();
                out(format!("seq {}", members.join(" / ")));
            }
            let members: Vec<String> = ARITH_TY.iter().rev().map(|ty| format!("arr_scalar {ty} {op} {a} 3")).collect();
            out(format!("seq {}", members.join(" / ")));
        }
        let (a, b) = (harr(sh, 0, 100, i as u64), harr(sh, 0, 100, i as u64 + 1));
        for op in BIT_OP {
            let members: Vec<String> = BIT_TY.iter().filter(|t| **t != "bool").map(|ty| format!("bit_arr {ty} {op} {a} {b}")).collect();
            out(format!("seq {}", members.join(" / ")));
        }
        let (a, b) = (harr(sh, 0, 2, i as u64), harr(sh, 0, 2, i as u64 + 1));
        for rel in RELS {
            let members: Vec<String> = CMP_TY.iter().map(|ty| format!("cmp {ty} {rel} {a} {b}")).collect();
            out(format!("seq {} / {}", members.join(" / "), CMP_TY.iter().map(|ty| format!("cmp_self {ty} {rel} {a}")).collect::<Vec<_>>().join(" / ")));
        }
    }
    // seeded: interleaved accepted / refused calls on random shapes of one element count
    let mut rng = Rng::new(seed ^ 0x5EED_C20);
    for i in 0..(if thorough { 400 } else { 60 }) {
        let s = rng.shape(1, 4, 6);
        let t = { let p = rng.perm(s.len()); let t: Vec<usize> = p.iter().map(|&j| s[j]).collect(); if t == s { vec![prod(&s)] } else { t } };
        let (form, ty, op, lo, md) = forms[rng.below(8)];
        let c = |x: &Vec<usize>, y: &Vec<usize>, o: u64| format!("{form} {ty} {op} {} {}", harr(x, lo, md, o), harr(y, lo, md, o + 1));
        let mut members = vec![];
        for _ in 0..(3 + rng.below(4)) { let (x, y) = match rng.below(4) { 0 => (&s, &s), 1 => (&t, &t), 2 => (&s, &t), _ => (&t, &s) }; members.push(c(x, y, (i % 50) as u64)); }
        out(format!("seq {}", members.join(" / ")));
    }
    out("state_report".into());
}

// ------------------------------------------------------------------ integer VALUE stream (`ival`, `ishift`)

const IARITH_TY: [&str; 4] = ["i8", "i16", "i32", "i64"];
const INT_TY: [&str; 10] = ["i8", "i16", "i32", "i64", "isize", "u8", "u16", "u32", "u64", "usize"];
fn bits_of(ty: &str) -> i128 { match ty { "bool" => 1, "i8" | "u8" => 8, "i16" | "u16" => 16, "i32" | "u32" => 32, _ => 64 } }

/// operands for an arithmetic `ival` line: non-overflowing everywhere, then (two lines in three) ONE position replaced by an
/// unfiltered pair — it may overflow, have a zero divisor, or be MIN / -1 (the model must then say `panic` for this build)
fn ival_pair_vals(rng: &mut Rng, ty: &str, op: &str, n: usize, m: usize) -> (Vec<String>, Vec<String>) {
    let (mut xs, mut ys) = pair_vals(rng, ty, op, n, m);
    let (lo, hi) = int_range(ty);
    if n > 0 && n == m && rng.below(3) > 0 {
        let k = rng.below(n);
        let (x, y) = match rng.below(4) {
            0 => (int_val(rng, lo, hi), int_val(rng, lo, hi)),
            1 => (if rng.below(2) == 0 { lo } else { hi }, *rng.pick(&[-1i128, 1, 0, 2, lo, hi])),
            2 => (*rng.pick(&[lo, hi, lo + 1, hi - 1, lo / 2, hi / 2 + 1]), *rng.pick(&[lo, hi, -1, 0, 1, 2, -2, lo / 2, hi / 2 + 1])),
            _ => (int_val(rng, lo, hi), *rng.pick(&[0i128, -1, 1])),
        };
        xs[k] = x.to_string(); ys[k] = y.to_string();
    }
    (xs, ys)
}

/// every integer-valued form on one pair of shapes
fn ival_forms(rng: &mut Rng, sa: &[usize], sb: &[usize], tys: &[&str], bit_tys: &[&str], out: &mut dyn FnMut(String)) { ival_forms_l(rng, sa, sb, tys, bit_tys, None, out) }
/// `light = Some(k)`: only two arithmetic operators and one bit operator, rotating with `k` (large operands)
fn ival_forms_l(rng: &mut Rng, sa: &[usize], sb: &[usize], tys: &[&str], bit_tys: &[&str], light: Option<usize>, out: &mut dyn FnMut(String)) {
    let (n, m) = (prod(sa), prod(sb));
    for ty in tys {
        let (lo, hi) = int_range(ty);
        for (j, op) in ARITH_OP.iter().enumerate() {
            if let Some(k) = light { if j != k % 5 && j != (k + 2) % 5 { continue; } }
            let (xs, ys) = ival_pair_vals(rng, ty, op, n, m);
            let (a, b) = (arr(sa, &xs), arr(sb, &ys));
            out(format!("ival arr_arr {ty} {op} {a} {b}"));
            out(format!("ival assign_arr {ty} {op} {a} {b}"));
            if sa == sb {
                // scalar forms: the scalar is one of the right operands (so the line inherits the overflow / zero-divisor mix)
                let sc = if ys.is_empty() { int_val(rng, lo, hi).to_string() } else { ys[rng.below(ys.len())].clone() };
                out(format!("ival arr_scalar {ty} {op} {a} {sc}"));
                out(format!("ival assign_scalar {ty} {op} {a} {sc}"));
                if rng.below(4) == 0 { out(format!("ival arr_self {ty} {op} {a}")); out(format!("ival assign_self {ty} {op} {a}")); }
            }
        }
        if sa == sb {
            let ns: Vec<String> = (0..n).map(|_| int_val(rng, lo, hi).to_string()).collect();
            out(format!("ival neg {ty} {}", arr(sa, &ns)));
            out(format!("ival neg {ty} {}", arr(sa, &neg_vals(rng, ty, n))));
        }
    }
    for ty in bit_tys {
        for (j, op) in BIT_OP.iter().enumerate() {
            if let Some(k) = light { if j != k % 3 { continue; } }
            let (xs, ys) = (bit_vals(rng, ty, n), bit_vals(rng, ty, m));
            let (a, b) = (arr(sa, &xs), arr(sb, &ys));
            out(format!("ival bit_arr {ty} {op} {a} {b}"));
            out(format!("ival bit_assign_arr {ty} {op} {a} {b}"));
            if sa == sb {
                let sc = bit_vals(rng, ty, 1).pop().unwrap();
                out(format!("ival bit_scalar {ty} {op} {a} {sc}"));
                out(format!("ival bit_assign_scalar {ty} {op} {a} {sc}"));
                if rng.below(4) == 0 { out(format!("ival bit_self {ty} {op} {a}")); out(format!("ival bit_assign_self {ty} {op} {a}")); }
            }
        }
        if *ty == "bool" && sa == sb { out(format!("ival not bool {}", arr(sa, &bit_vals(rng, "bool", n)))); }
    }
}

fn ival_stream(thorough: bool, seed: u64, out: &mut dyn FnMut(String)) {
    let mut fx = Rng::new(0x1A7);
    // corpus: the observations made on the real crate when the model was written
    for l in [
        "ival arr_arr i8 add 2:127,1 2:1,1", "ival assign_arr i8 add 2:127,1 2:1,1", "ival arr_scalar i8 add 2:127,1 1", "ival assign_scalar i8 add 2:127,1 1",
        "ival arr_arr i8 sub 2:-128,1 2:1,1", "ival arr_arr i8 mul 2:64,1 2:2,1", "ival arr_arr i8 div 2:64,1 2:0,1", "ival arr_arr i8 div 2:-128,1 2:-1,1",
        "ival arr_arr i8 rem 2:64,1 2:0,1", "ival arr_arr i8 rem 2:-128,1 2:-1,1", "ival neg i8 2:-128,1",
        "ival arr_arr i8 div 4:-7,7,-7,7 4:2,-2,-2,2", "ival arr_arr i8 rem 4:-7,7,-7,7 4:2,-2,-2,2",
        "ival bit_arr u8 and 2:200,15 2:100,9", "ival not bool 2:1,0",
        "ishift i8 shl 1 8", "ishift i8 shl 1 -1", "ishift i8 shl 1 7", "ishift i8 shl 127 3", "ishift i8 shr 1 8", "ishift i8 shr -128 2",
        "ishift u8 shr 200 2", "ishift u8 shl 200 9", "ishift u64 shl 1 64",
    ] { out(l.to_string()); }

    // (I1) exhaustive small scope: every shape of rank <= 4, len <= 3 (+ zero-length); all types up to rank 2, rotating above
    let mut base = shapes(1, 4, 1, 3);
    base.extend(zero_shapes());
    if thorough { base.extend(shapes(1, 3, 4, 4)); }
    let bit_all: Vec<&str> = BIT_TY.to_vec();
    for (k, s) in base.iter().enumerate() {
        if s.len() <= 2 || thorough { ival_forms(&mut fx, s, s, &IARITH_TY, &bit_all, out); }
        else { ival_forms(&mut fx, s, s, &[IARITH_TY[k % 4], IARITH_TY[(k + 1) % 4]], &[BIT_TY[k % 11], BIT_TY[(k + 4) % 11], "bool"], out); }
    }
    // differently shaped operands: refused whatever the values (same element count and not)
    for (k, (sa, sb)) in [(vec![2, 3], vec![3, 2]), (vec![6], vec![2, 3]), (vec![2], vec![3]), (vec![1, 2], vec![2]), (vec![0], vec![0, 0]), (vec![2, 0], vec![0, 2]), (vec![2, 2, 2], vec![2, 4]), (vec![3], vec![1])].iter().enumerate() {
        ival_forms(&mut fx, sa, sb, &[IARITH_TY[k % 4]], &[BIT_TY[k % 11]], out);
        ival_forms(&mut fx, sb, sa, &[IARITH_TY[(k + 1) % 4]], &[BIT_TY[(k + 5) % 11]], out);
    }

    // (I2) the limits of every type: ALL pairs over 19 values (overflowing ones included), one pair per line so that every pair is
    // judged in the overflow-checks build too; the form rotates.  Then the whole grid as one array (wrap-around answer of the model
    // against native wrapping_*; in this build it panics as soon as one pair overflows).
    for ty in IARITH_TY {
        let (lo, hi) = int_range(ty);
        let vals = [lo, lo + 1, lo + 2, lo / 2, lo / 2 - 1, lo / 2 + 1, -3, -2, -1, 0, 1, 2, 3, hi / 2, hi / 2 + 1, hi / 2 - 1, hi - 2, hi - 1, hi];
        for op in ARITH_OP {
            let mut k = 0usize;
            for &x in &vals { for &y in &vals {
                k += 1;
                let form = ["arr_arr", "assign_arr", "arr_scalar", "assign_scalar"][k % 4];
                if form.ends_with("scalar") { out(format!("ival {form} {ty} {op} 1:{x} {y}")); } else { out(format!("ival {form} {ty} {op} 1:{x} 1:{y}")); }
            } }
            let m = vals.len();
            let xs: Vec<String> = (0..m * m).map(|i| vals[i / m].to_string()).collect();
            let ys: Vec<String> = (0..m * m).map(|i| vals[i % m].to_string()).collect();
            out(format!("ival arr_arr {ty} {op} {} {}", arr(&[m, m], &xs), arr(&[m, m], &ys)));
            out(format!("ival assign_arr {ty} {op} {} {}", arr(&[m * m], &xs), arr(&[m * m], &ys)));
            // per right operand: exactly the left operands that stay in range with it (a value in this build), in scalar form
            for &y in &vals {
                let ok: Vec<String> = vals.iter().filter(|&&x| int_ok(op, x, y, lo, hi)).map(|x| x.to_string()).collect();
                out(format!("ival arr_scalar {ty} {op} {} {y}", arr(&[ok.len()], &ok)));
                let ys: Vec<String> = ok.iter().map(|_| y.to_string()).collect();
                out(format!("ival assign_arr {ty} {op} {} {}", arr(&[ok.len()], &ok), arr(&[ok.len()], &ys)));
            }
        }
        let ns: Vec<String> = vals.iter().map(|v| v.to_string()).collect();
        for x in &ns { out(format!("ival neg {ty} 1:{x}")); }
        out(format!("ival neg {ty} {}", arr(&[ns.len()], &ns)));
        out(format!("ival neg {ty} {}", arr(&[ns.len() - 1], &ns[1..])));
    }
    // (I2b) i8 EXHAUSTIVELY: all 65 536 operand pairs of every operator.  Per right operand y: the 256 left operands as one array
    // (wrap-around model against native; panic in this build unless nothing overflows), the left operands that stay in range as
    // one array (values in this build), and the first overflowing left operand on either side alone.
    {
        let (lo, hi) = int_range("i8");
        let ys: Vec<i128> = if thorough { (lo..=hi).collect() } else { (lo..=hi).filter(|y| y.rem_euclid(4) == ((seed % 4) as i128) || y.abs() <= 3 || *y <= lo + 2 || *y >= hi - 2).collect() };
        let all: Vec<String> = (lo..=hi).map(|x| x.to_string()).collect();
        for op in ARITH_OP {
            for &y in &ys {
                out(format!("ival arr_scalar i8 {op} {} {y}", arr(&[256], &all)));
                let ok: Vec<i128> = (lo..=hi).filter(|&x| int_ok(op, x, y, lo, hi)).collect();
                let oks: Vec<String> = ok.iter().map(|x| x.to_string()).collect();
                let yv: Vec<String> = ok.iter().map(|_| y.to_string()).collect();
                out(format!("ival arr_arr i8 {op} {} {}", arr(&[ok.len()], &oks), arr(&[ok.len()], &yv)));
                out(format!("ival assign_scalar i8 {op} {} {y}", arr(&[ok.len()], &oks)));
                if let (Some(&first), Some(&last)) = (ok.first(), ok.last()) {
                    if first > lo { out(format!("ival arr_arr i8 {op} 1:{} 1:{y}", first - 1)); }
                    if last < hi { out(format!("ival assign_arr i8 {op} 1:{} 1:{y}", last + 1)); }
                }
            }
        }
        out(format!("ival neg i8 {}", arr(&[256], &all)));
        out(format!("ival neg i8 {}", arr(&[255], &all[1..])));
        // & | ^ on i8, u8: every pair (16 x 16 blocks of 256)
        for ty in ["i8", "u8"] {
            let (lo, hi) = int_range(ty);
            let all: Vec<String> = (lo..=hi).map(|x| x.to_string()).collect();
            for op in BIT_OP {
                for y in (lo..=hi).filter(|y| thorough || y.rem_euclid(8) == ((seed % 8) as i128) || *y <= lo + 1 || *y >= hi - 1 || *y == 0 || *y == -1) {
                    out(format!("ival {} {ty} {op} {} {y}", if y % 2 == 0 { "bit_scalar" } else { "bit_assign_scalar" }, arr(&[16, 16], &all)));
                }
            }
        }
        for op in BIT_OP { for x in 0..2 { for y in 0..2 { out(format!("ival bit_arr bool {op} 1:{x} 1:{y}")); out(format!("ival bit_assign_scalar bool {op} 1:{x} {y}")); } } }
        out("ival not bool 1:0".into()); out("ival not bool 1:1".into());
    }
    // bit operators at the limits of every integer type (full grid as one array; they never panic)
    for ty in INT_TY {
        let (lo, hi) = int_range(ty);
        let vals: Vec<i128> = [lo, lo + 1, -1, 0, 1, hi / 2, hi / 2 + 1, hi - 1, hi, 0x55, 0xAA, -86].iter().copied().filter(|v| lo <= *v && *v <= hi).collect();
        let m = vals.len();
        let xs: Vec<String> = (0..m * m).map(|i| vals[i / m].to_string()).collect();
        let ys: Vec<String> = (0..m * m).map(|i| vals[i % m].to_string()).collect();
        for op in BIT_OP {
            out(format!("ival bit_arr {ty} {op} {} {}", arr(&[m, m], &xs), arr(&[m, m], &ys)));
            out(format!("ival bit_assign_arr {ty} {op} {} {}", arr(&[m * m], &xs), arr(&[m * m], &ys)));
            out(format!("ival bit_self {ty} {op} {}", arr(&[m * m], &xs)));
        }
    }

    // (I3) shifts (scalar; `Numeric::left_shift` / `right_shift`): every amount -3 ..= w+2 and the extremes of the type, on the limits
    for ty in INT_TY {
        let (lo, hi) = int_range(ty);
        let w = bits_of(ty);
        let xs: Vec<i128> = [lo, lo + 1, -2, -1, 0, 1, 2, 3, 5, hi / 2, hi / 2 + 1, hi - 1, hi, 0x55, -86].iter().copied().filter(|v| lo <= *v && *v <= hi).collect();
        let mut ks: Vec<i128> = (-3..=w + 2).collect();
        ks.extend([lo, lo + 1, hi, hi - 1, 2 * w, 2 * w - 1, 255, 256, 65535, 65536, 1 << 32, (1i128 << 32) + 1, -w, -w + 1]);
        ks.retain(|k| lo <= *k && *k <= hi); ks.sort(); ks.dedup();
        for (i, &x) in xs.iter().enumerate() { for &k in &ks {
            if !thorough && w == 64 && i % 3 != 0 && k > 3 && k < w - 2 { continue; }
            out(format!("ishift {ty} shl {x} {k}")); out(format!("ishift {ty} shr {x} {k}"));
        } }
    }
    for x in 0..2 { for k in 0..2 { out(format!("ishift bool shl {x} {k}")); out(format!("ishift bool shr {x} {k}")); } }
    if thorough {
        // i8, u8: every value by every amount
        for ty in ["i8", "u8"] { let (lo, hi) = int_range(ty); for x in lo..=hi { for k in (lo..=hi).filter(|k| k.abs() <= 10 || k % 16 == 0 || *k == lo || *k == hi) { out(format!("ishift {ty} shl {x} {k}")); out(format!("ishift {ty} shr {x} {k}")); } } }
    }

    // (I4) sizes: lib big_shapes and the not-a-multiple-of-8 counts; huge operands in the compact spelling
    let mut big = big_shapes();
    big.extend(vec![vec![31], vec![33], vec![257], vec![1025], vec![4097], vec![3, 5, 7, 79]]);
    for (k, sh) in big.iter().enumerate() {
        if prod(sh) <= 300 { ival_forms(&mut fx, sh, sh, &IARITH_TY, &[BIT_TY[k % 11], "bool"], out); }
        else { ival_forms_l(&mut fx, sh, sh, &[IARITH_TY[k % 4]], &[BIT_TY[k % 11]], if thorough { None } else { Some(k) }, out); }
    }
    let mut hs: Vec<Vec<usize>> = vec![vec![8195], vec![65537], vec![2, 4099]];
    if thorough { hs.extend(vec![vec![16385], vec![131073]]); hs.extend(huge_shapes()); }
    for (k, sh) in hs.iter().enumerate() {
        let ty = IARITH_TY[k % 4];
        for (j, op) in ARITH_OP.iter().enumerate() {
            // values 1..9: no overflow on any type (a value in both builds)
            let (a, b) = (harr(sh, 1, 9, (k + j) as u64), harr(sh, 1, 9, (k + j + 1) as u64));
            if j == k % 5 || thorough { out(format!("ival {} {ty} {op} {a} {b}", ["arr_arr", "assign_arr"][(k + j) % 2])); }
            // the full range of i8 on both sides: wraps / panics
            if j == (k + 1) % 5 { out(format!("ival arr_arr i8 {op} {} {}", harr(sh, -128, 256, k as u64), harr(sh, -128, 256, k as u64 + 1))); }
            // one overflowing position at the very end of a huge non-overflowing operand
            if j == (k + 2) % 5 && *op != "div" && *op != "rem" {
                let n = prod(sh);
                let (lo, hi) = int_range(ty);
                let bad = if *op == "sub" { lo } else { hi };
                out(format!("ival arr_arr {ty} {op} {} {b}", harr_ov(sh, 1, 9, (k + j) as u64, &[(n - 1, bad.to_string())])));
                out(format!("ival assign_arr {ty} {op} {} {b}", harr_ov(sh, 1, 9, (k + j) as u64, &[(n - 1 - (n - 1) % 8, bad.to_string())])));
            }
            if j == (k + 3) % 5 && (*op == "div" || *op == "rem") {
                let n = prod(sh);
                out(format!("ival arr_arr {ty} {op} {a} {}", harr_ov(sh, 1, 9, (k + j + 1) as u64, &[(n - 1, "0".into())])));
            }
        }
        let bt = BIT_TY[1 + k % 10];
        let (lo, _) = int_range(bt);
        let op = BIT_OP[k % 3];
        let (blo, bm): (i64, u64) = match (bits_of(bt) == 8, lo < 0) { (true, true) => (-128, 256), (true, false) => (0, 256), (false, true) => (-30000, 60000), (false, false) => (0, 60000) };
        out(format!("ival bit_arr {bt} {op} {} {}", harr(sh, blo, bm, k as u64), harr(sh, 0, 100, k as u64 + 1)));
        out(format!("ival bit_assign_arr bool {op} {} {}", harr(sh, 0, 2, k as u64), harr(sh, 0, 2, k as u64 + 1)));
    }
    // (I5) the same operands through every integer type back to back on one thread
    for (i, sh) in [vec![3], vec![2, 2], vec![17]].iter().enumerate() {
        let (a, b) = (harr(sh, 100, 28, i as u64), harr(sh, 1, 9, i as u64 + 1));
        for op in ARITH_OP {
            out(format!("seq {}", IARITH_TY.iter().map(|ty| format!("ival arr_arr {ty} {op} {a} {b}")).collect::<Vec<_>>().join(" / ")));
            out(format!("seq {}", IARITH_TY.iter().rev().map(|ty| format!("ival assign_scalar {ty} {op} {a} 2")).collect::<Vec<_>>().join(" / ")));
        }
        for op in BIT_OP { out(format!("seq {}", INT_TY.iter().map(|ty| format!("ival bit_arr {ty} {op} {a} {b}")).collect::<Vec<_>>().join(" / "))); }
    }
    out("ival_report".into());

    // (I6) seeded: random shapes of rank <= 5, full-range values (overflow, zero divisors and MIN / -1 occur)
    let mut rng = Rng::new(seed ^ 0x1A7_5EED);
    let cap = if thorough { 600 } else { 300 };
    for i in 0..(if thorough { 1200 } else { 160 }) {
        let mut s = rng.shape(1, 5, 6);
        while prod(&s) > cap { s = rng.shape(1, 5, 6); }
        ival_forms(&mut rng, &s, &s, &[IARITH_TY[i % 4]], &[BIT_TY[i % 11]], out);
        if i % 8 == 0 { let t = vec![prod(&s), 1]; ival_forms(&mut rng, &s, &t, &[IARITH_TY[(i / 8) % 4]], &[BIT_TY[(i / 8) % 11]], out); }
        // random scalar shifts
        let ty = INT_TY[i % 10]; let (lo, hi) = int_range(ty); let w = bits_of(ty);
        let x = int_val(&mut rng, lo, hi);
        let k = match rng.below(3) { 0 => rng.below(w as usize) as i128, 1 => int_val(&mut rng, lo, hi), _ => w - 2 + rng.below(5) as i128 }.clamp(lo, hi);
        out(format!("ishift {ty} shl {x} {k}")); out(format!("ishift {ty} shr {x} {k}"));
    }
    out("ival_report final".into());
}

fn gen(tier: &str, seed: u64, out: &mut dyn FnMut(String)) {
    let thorough = tier == "thorough";
    // (i) corpus: the classic confusions — same element count, different shape
    for l in [
        "arr_arr f64 add 2,2:x3ff0000000000000,x4000000000000000,x4008000000000000,x4010000000000000 4:x4000000000000000,x4000000000000000,x4000000000000000,x4000000000000000",
        "assign_arr i32 sub 2,3:1,2,3,4,5,6 3,2:1,1,1,1,1,1",
        "cmp i32 eq 4:1,2,3,4 2,2:1,2,3,4",
        "cmp f64 le 2:1,nan 2:1,nan",
        "bit_arr bool xor 2,2:1,0,1,0 4:1,1,0,0",
        "assign_arr i32 sub h8195~1~9~0 h8195~1~9~1",
        "cmp i64 eq h1,131072~-3~7~0 h2,65536~-3~7~0",
        "arr_arr f64 add h2,65536~1~9~0 h1,131072~1~9~1",
    ] { out(l.to_string()); }

    // (ii) exhaustive small scope; the values of this part come from a fixed stream, not from the seed
    let mut fx = Rng::new(0xC20);
    let mut base = shapes(1, 4, 1, 3);
    base.extend(vec![vec![0], vec![0, 2], vec![2, 0]]);
    if thorough { base.extend(shapes(1, 3, 4, 4)); base.extend(vec![vec![4, 1, 2], vec![1, 4, 4, 1], vec![2, 4, 3, 2], vec![4, 4, 4, 4]]); }
    for s in &base {
        all_forms(&mut fx, s, s, &ARITH_TY, &BIT_TY, &CMP_TY, out);
        one_operand_forms(&mut fx, s, out);
    }
    // comparison operators, exhaustively over a 3-letter alphabet on every array of <= 3 elements (rank <= 2)
    for s in [vec![1], vec![1, 1], vec![2], vec![1, 2], vec![2, 1], vec![3], vec![1, 3], vec![3, 1]] {
        let n = prod(&s);
        for (ty, alpha) in [("i32", ["-1", "0", "2"]), ("f64", ["0", "1", "nan"]), ("u8", ["0", "1", "200"])] {
            for ca in boxes(&vec![3; n]) { for cb in boxes(&vec![3; n]) {
                let xs: Vec<String> = ca.iter().map(|&i| alpha[i].to_string()).collect();
                let ys: Vec<String> = cb.iter().map(|&i| alpha[i].to_string()).collect();
                for rel in RELS { out(format!("cmp {ty} {rel} {} {}", arr(&s, &xs), arr(&s, &ys))); }
            } }
        }
    }
    // (iv, enumerated) malformed: every ordered pair of different shapes.  Pairs with the same element count get
    // every form on every type; the others rotate through types.
    let mut k = 0usize;
    for sa in &base { for sb in &base {
        if sa == sb { continue; }
        k += 1;
        let (ty, bt, ct) = ([ARITH_TY[k % 6]], [BIT_TY[k % 11]], [CMP_TY[k % 9]]);
        if prod(sa) == prod(sb) {
            if thorough { all_forms(&mut fx, sa, sb, &ARITH_TY, &BIT_TY, &CMP_TY, out); }
            else { all_forms(&mut fx, sa, sb, &ty, &bt, &ct, out); }
        } else if thorough || k % 4 == 0 {
            all_forms(&mut fx, sa, sb, &ty, &bt, &ct, out);
        }
    } }

    robustness(thorough, seed, out);
    robustness2(thorough, seed, out);
    ival_stream(thorough, seed, out);

    // (iii) seeded random stream beyond the scope: rank <= 5, length <= 6, full-range values
    let mut rng = Rng::new(seed);
    let n_rand = if thorough { 4000 } else { 500 };
    for i in 0..n_rand {
        let mut s = rng.shape(1, 5, 6);
        while prod(&s) > 1500 { s = rng.shape(1, 5, 6); }
        let ty = [ARITH_TY[i % 6]]; let bt = [BIT_TY[i % 11]]; let ct = [CMP_TY[i % 9]];
        all_forms(&mut rng, &s, &s, &ty, &bt, &ct, out);
        if i % 4 == 0 { one_operand_forms(&mut rng, &s, out); }
        // a random different shape: permuted, reshaped to the same count, or unrelated
        let mut t = match rng.below(3) {
            0 => { let p = rng.perm(s.len()); p.iter().map(|&j| s[j]).collect::<Vec<_>>() }
            1 => vec![prod(&s)],
            _ => rng.shape(1, 5, 6),
        };
        if t == s { t.push(1); }
        if prod(&t) <= 1500 { all_forms(&mut rng, &s, &t, &ty, &bt, &ct, out); }
    }
}

/// non-trivial: the receiver has at least two elements
fn nontrivial(op: &str, args: &[&str]) -> bool {
    if op == "state_report" || op == "ival_report" { return false; }
    args.iter().find(|a| a.contains(':') || a.starts_with('h')).map_or(false, |a| shape_count_of(a).map_or(false, |n| n >= 2))
}

fn main() {
    harness_main(Spec { prop: "C20", gen, exec, nontrivial, hang_secs: 20,
        rule: "exhaustive: every shape of rank<=4 len<=3 (+ zero-length shapes; thorough adds len 4) x {a op b, a op= b, a op s, a op= s, plain-vs-compound} x {add,sub,mul,div,rem} x {i8,i16,i32,i64,f32,f64}, neg, {and,or,xor} x {bool + 10 integer types}, not(bool), {==,!=,<,<=,>,>=,partial_cmp} x 9 types (equal / one position changed / unrelated; all pairs over a 3-letter alphabet incl. NaN on arrays of <=3 elements); every ordered pair of different shapes (all forms when the element counts agree); + seeded random shapes rank<=5 len<=6 with full-range non-overflowing values and special floats. ROBUSTNESS STREAMS: every form on lib big_shapes() and on element counts 31..4103 around 32/256/1024/4096 that are not multiples of 8 (thorough ..16385): all types up to 300 elements (thorough 1100), above that two arithmetic types, bool + one integer type for the bit operators, f64 + one type for the comparisons, rotating; comparisons of long arrays that differ only at the first / middle / last / last-block position (value, NaN, -0.0); lib zero_shapes() in every form and every ordered pair of different zero shapes; ALIASING forms a op a.clone() and a op= a.clone() (arr_self, assign_self, bit_self, bit_assign_self); cmp_self = the SAME object on both sides for ==, !=, <, <=, >, >=, partial_cmp with NaN at the first/middle/last position, all NaN, -0.0, exhaustively over {0,-0.0,1,NaN} on <=3 elements (also every cmp case with textually equal operands is repeated on one object; identity must not change the answer); all pairs over {0,-0.0,1,NaN} on <=2 (thorough 3) elements and over {min,max,other} of i8,u8,i16,i32,i64,usize; the full 21x21 grid of special floats (+-0, +-NaN, +-inf, subnormal, min positive, max, 2^52+1, 2^53+1, 0.1, 3, 10) for all five operators in array, compound, scalar, compound-scalar and aliasing form on f32 and f64; negation of every special with the NaN sign bit compared; all in-range operand pairs over 19 values at the limits of i8,i16,i32,i64 for every operator in all forms; bit operators on the limits of ten integer types; seeded big shapes. Every call is evaluated twice. (The operators have no Result<Array<T>,ArrayError> receiver impls.) Every output position is compared with the native Rust operator bit-exactly. PART 2: element counts 8192..8200 (every residue mod 8), 8212, 12289, 16384..16391, 32773, 65536..65543, 70003, 131073, [3,5,7,79], [91,91], [2,4099] and lib huge_shapes (..140 000) in every array-by-array form (all operators in all forms up to 9000 elements, thorough 40 000; above that every operator in one rotating form, compound against plain, bool + one integer type, comparisons equal / last / last-block / NaN), operands in the compact spelling h<shape>~lo~m~o expanded by the same integer formula on both sides; every ordered pair of DIFFERENT shapes with equal element count and equal rank where an axis exceeds 65 535 ([1,131072] / [2,65536] / [65536,2] / [131072,1] ..., ranks 2..4, thorough 5) and every equal-count pair colliding under h*m+dim for m = 31, 33, 37, 131, 256, 257, 65536, 65599, for all five arithmetic operators plain and compound, &,|,^ plain and compound on bool and integers, ==, partial_cmp and one rotating ordering operator (must be refused); hidden state: `seq` lines (several calls on one thread, each judged like its own case) - lib collision_shape_pairs and the equal-count collisions as accepted / refused / accepted / refused reversed / accepted, the same arguments through every element type back to back, seeded interleavings - and an A-B-A re-run of the previous case after EVERY case shorter than 1500 bytes (STATE-DIVERGENCE). INTEGER VALUES (`ival`, `ishift`): the Lean model contains the native fixed-width operators (ArrModel/C20Int.lean) and answers with values `<overflow-checks build> ;; <plain release build>`; the crate (built with overflow-checks = true) is compared with the first answer, native checked_* with the first and native wrapping_* with the second (`ival_report` counts; a model-vs-native disagreement fails the run): every shape of rank<=4 len<=3 + zero shapes x {a op b, a op= b, a op s, a op= s, a op a, -a} x {add,sub,mul,div,rem} x {i8,i16,i32,i64} and {and,or,xor} x six forms x {bool + 10 integer types}, not(bool), with one possibly overflowing / zero-divisor / MIN,-1 position in two lines of three; all pairs over 19 limit values of i8..i64 per operator, one pair per line and as one grid; i8 exhaustively (all 65 536 pairs of every arithmetic operator: full column, in-range part, first overflowing operand; thorough every right operand, quick a seeded quarter + limits), all 256 negations, all pairs of and/or/xor on i8 and u8; bit operators on the limits of ten types; big_shapes and counts 31..4097; huge operands with the offending element last / in the last block; differently shaped operands; the same operands through every integer type (seq); scalar shifts through Numeric::left_shift / right_shift for every amount -3..w+2 and the extremes on ten types and bool; seeded random shapes with full-range values. distinct = distinct case lines; non-trivial = receiver has >= 2 elements" });
}
