//! C12 — flip, roll, rot90 as exact coordinate maps. Value protocol with tags.
//!
//! Every case is executed on the plain `Array<i64>` tag array (the answer compared with the model), on its `u8` and `f64`
//! (tag 0 = -0.0, bit-wise) images, for a share of the small cases also on `i8`, `bool`, `String`, `f32` (-0.0), every time on BOTH
//! receivers (`a.op(..)` and `Ok(a).op(..)` through `impl ArrayReorder for Result<Array<T>, ArrayError>`), and the i64 call is
//! repeated (same call twice).  Any divergence between element types / receivers / repetitions fails the case.
//!
//! Robustness streams, part 2: `seq call / call / …` lines run several calls back to back on the executing thread (hidden state:
//! shapes that collide under weak hashes with EQUAL element counts, permuted / regrouped shapes, all axis pairs of one shape, a
//! refused call followed by a valid one, A–B–A); `n call…` lines are huge arrays (16 384 … 140 000 elements) judged by the
//! harness-native coordinate-formula reference `oracle`, which is compared with the full model answer on EVERY other case of the
//! run (counted in the `oracle_report` lines); `exec` additionally re-runs the previous case after a share of the cases (implicit
//! A–B–A) and demands the identical answer.
use arrharness::*;
use std::cell::RefCell;

// ---------------------------------------------------------------- cross-type / both-receiver plumbing (local copy, lib.rs is shared)

thread_local! { static NOTE: RefCell<Option<String>> = const { RefCell::new(None) }; }
fn note(s: String) { NOTE.with(|n| { let mut n = n.borrow_mut(); if n.is_none() { *n = Some(s); } }); }
fn take_note() -> Option<String> { NOTE.with(|n| n.borrow_mut().take()) }

/// tag -> element of every swept type (i64 / u8 / f64 agree with lib.rs `tag_u8`, `tag_f64z`)
trait Tagged: ArrayElement {
    const NAME: &'static str;
    fn of(t: i64) -> Self;
    fn same(a: &Self, b: &Self) -> bool { a == b }
}
impl Tagged for i64 { const NAME: &'static str = "i64"; fn of(t: i64) -> Self { t } }
impl Tagged for u8 { const NAME: &'static str = "u8"; fn of(t: i64) -> Self { tag_u8(t) } }
impl Tagged for i8 { const NAME: &'static str = "i8"; fn of(t: i64) -> Self { tag_i8(t) } }
impl Tagged for bool { const NAME: &'static str = "bool"; fn of(t: i64) -> Self { t % 2 != 0 } }
impl Tagged for String { const NAME: &'static str = "String"; fn of(t: i64) -> Self { format!("s{t}") } }
impl Tagged for f64 { const NAME: &'static str = "f64"; fn of(t: i64) -> Self { tag_f64z(t) } fn same(a: &Self, b: &Self) -> bool { a.to_bits() == b.to_bits() } }
impl Tagged for f32 { const NAME: &'static str = "f32"; fn of(t: i64) -> Self { if t == 0 { -0.0 } else { t as f32 } } fn same(a: &Self, b: &Self) -> bool { a.to_bits() == b.to_bits() } }

fn arr_of<T: Tagged>(s: &str) -> Array<T> { let (sh, e) = parse_arr_raw(s); Array::new(e.into_iter().map(T::of).collect(), sh).expect("harness: array literal") }

fn same_res<T: Tagged>(a: &Result<Array<T>, ArrayError>, b: &Result<Array<T>, ArrayError>) -> bool {
    match (a, b) {
        (Ok(a), Ok(b)) => a.get_shape().unwrap() == b.get_shape().unwrap() && { let (x, y) = (a.get_elements().unwrap(), b.get_elements().unwrap()); x.len() == y.len() && x.iter().zip(y.iter()).all(|(p, q)| T::same(p, q)) },
        (Err(a), Err(b)) => err_name(a) == err_name(b),
        _ => false,
    }
}
fn brief<T: Tagged>(r: &Result<Array<T>, ArrayError>) -> String { truncate(&res_arr(r), 200) }

/// plain receiver, then the same call on `Ok(array)`, then (i64 only) the plain call again; the plain answer is returned,
/// a divergence is left in NOTE (and fails the case)
fn rx<T: Tagged>(plain: impl Fn() -> Result<Array<T>, ArrayError>, chained: impl Fn() -> Result<Array<T>, ArrayError>) -> Result<Array<T>, ArrayError> {
    let p = plain();
    if let Ok(a) = &p { if !consistent(a) { note(format!("INCONSISTENT result on {}: {}", T::NAME, brief(&p))); } }
    match std::panic::catch_unwind(std::panic::AssertUnwindSafe(&chained)) {
        Ok(c) => if !same_res(&p, &c) { note(format!("RECEIVER-DIVERGENCE ({}) the call on Ok(array) gives `{}`, the plain call `{}`", T::NAME, brief(&c), brief(&p))); },
        Err(_) => note(format!("RECEIVER-DIVERGENCE ({}) the call on Ok(array) panics, the plain call gives `{}`", T::NAME, brief(&p))),
    }
    if T::NAME == "i64" { let p2 = plain(); if !same_res(&p, &p2) { note(format!("REPEAT-DIVERGENCE the same call twice: `{}` then `{}`", brief(&p), brief(&p2))); } }
    p
}

fn extra_arr<T: Tagged>(ri: &Result<Array<i64>, ArrayError>, rt: std::thread::Result<Result<Array<T>, ArrayError>>) -> Option<String> {
    let rt = match rt { Ok(r) => r, Err(_) => return Some(format!("the {} run panics", T::NAME)) };
    if ri.is_ok() != rt.is_ok() { return Some(format!("element type {} gives a different outcome class ({})", T::NAME, brief(&rt))); }
    if let (Ok(i), Ok(t)) = (ri, &rt) {
        let (ei, et) = (i.get_elements().unwrap(), t.get_elements().unwrap());
        if i.get_shape().unwrap() != t.get_shape().unwrap() || ei.len() != et.len() { return Some(format!("{} result has another shape: {}", T::NAME, brief(&rt))); }
        for p in 0..ei.len() { if !T::same(&et[p], &T::of(ei[p])) { return Some(format!("{} run differs at flat position {p}: {:?} instead of {:?}", T::NAME, et[p], T::of(ei[p]))); } }
    }
    None
}

macro_rules! at_type { ($T:ident, $ty:ty, $body:expr) => {{ #[allow(dead_code, non_camel_case_types)] type $T = $ty; std::panic::catch_unwind(std::panic::AssertUnwindSafe(|| $body)) }} }
/// `$body` (an expression in the element type alias `$T`, giving `Result<Array<$T>, ArrayError>`) on i64 / u8 / f64(-0.0) — the
/// comparison of lib.rs `cross_type_arr`, i.e. what `on_types_arr!` does — and, when `$more`, on i8 / bool / String / f32 too
macro_rules! sweep_arr { ($more:expr, |$T:ident| $body:expr) => {{
    let _ = take_note();
    let mut obs = match (at_type!($T, i64, $body), at_type!($T, u8, $body), at_type!($T, f64, $body)) {
        (Ok(ri), Ok(ru), Ok(rf)) => {
            let mut d = cross_type_arr(&ri, &ru, &rf);
            if d.is_none() && $more {
                d = extra_arr::<i8>(&ri, at_type!($T, i8, $body));
                if d.is_none() { d = extra_arr::<bool>(&ri, at_type!($T, bool, $body)); }
                if d.is_none() { d = extra_arr::<String>(&ri, at_type!($T, String, $body)); }
                if d.is_none() { d = extra_arr::<f32>(&ri, at_type!($T, f32, $body)); }
            }
            match d { None => res_arr(&ri), Some(d) => format!("TYPE-DIVERGENCE {d}; i64 run: {}", truncate(&res_arr(&ri), 300)) }
        }
        (Err(_), Err(_), Err(_)) => "panic".to_string(),
        (ri, ru, rf) => format!("TYPE-DIVERGENCE panic only for some element types (i64 {}, u8 {}, f64 {})", ri.is_err(), ru.is_err(), rf.is_err()),
    };
    if let Some(n) = take_note() { obs = format!("{n}; answer: {}", truncate(&obs, 300)); }
    obs
}} }

// ---------------------------------------------------------------- generator

fn spell(ax: usize, nd: usize, neg: bool) -> isize { if neg { ax as isize - nd as isize } else { ax as isize } }

/// shapes of the size stream: lib `big_shapes()` + matrices with both axes >= 8 (square, off by one, far from square, around the
/// 256 / 1024 / 4096 element marks) + the same lengths at rank 3 / 4 in every position + unit axes next to long ones
fn c12_big_shapes(thorough: bool) -> Vec<Vec<usize>> {
    let mut v = big_shapes();
    let more: Vec<Vec<usize>> = vec![
        vec![8, 8], vec![8, 9], vec![9, 8], vec![7, 8], vec![8, 7], vec![7, 9], vec![10, 13], vec![13, 10], vec![8, 16], vec![16, 8], vec![8, 17], vec![17, 8],
        vec![15, 16], vec![16, 15], vec![16, 16], vec![24, 9], vec![9, 24], vec![33, 8], vec![8, 33], vec![100, 9], vec![9, 100], vec![32, 32], vec![31, 33],
        vec![64, 64], vec![63, 65], vec![64, 65], vec![65, 64], vec![128, 33], vec![1, 300], vec![300, 1], vec![2, 2050], vec![2050, 2],
        vec![8, 9, 2], vec![2, 8, 9], vec![8, 2, 9], vec![9, 8, 10], vec![16, 17, 3], vec![3, 16, 17], vec![17, 3, 16], vec![8, 9, 1], vec![1, 8, 9], vec![8, 1, 9],
        vec![8, 8, 8, 8], vec![2, 9, 8, 2], vec![1, 9, 1, 8], vec![16, 17, 16], vec![2, 2, 2, 2, 2, 2, 2, 2, 2]];
    for s in more { if !v.contains(&s) { v.push(s); } }
    if thorough { for a in 7..=17usize { for b in 7..=17usize { let s = vec![a, b]; if !v.contains(&s) { v.push(s); } } }
        for s in [vec![70, 71], vec![71, 70], vec![9, 10, 11, 5], vec![4, 33, 32], vec![12, 12, 12, 3], vec![5000, 1], vec![1, 5000], vec![3, 1400], vec![100, 101], vec![20, 21, 22], vec![129, 64], vec![10000]] { if !v.contains(&s) { v.push(s); } } }
    v
}

/// array text with MANY zero tags (so the f64 image holds -0.0 in many places, the u8 image 0, bool false): every third tag kept
fn zeros_arr(s: &[usize]) -> String {
    let n: usize = s.iter().product();
    format!("{}:{}", show_list(s), show_list(&(0..n as i64).map(|i| if (i * 7 + 1) % 3 == 0 { i } else { 0 }).collect::<Vec<_>>()))
}

fn axis_pairs(nd: usize, heavy: bool) -> Vec<(usize, usize)> {
    let mut v = vec![];
    if nd < 2 { return vec![(0, 0)]; }
    if heavy { v.push((0, nd - 1)); v.push((nd - 1, 0)); if nd > 2 { v.push((1, 2)); v.push((nd - 1, 1)); } return v; }
    for i in 0..nd { for j in 0..nd { if i != j || i == 0 { v.push((i, j)); } } }
    v
}

fn gen_robust(a: &str, s: &[usize], heavy: bool, rng: &mut Rng, out: &mut dyn FnMut(String)) {
    let nd = s.len(); let n: usize = s.iter().product(); let ni = n as isize;
    out(format!("flip {a} none")); out(format!("flipud {a}")); out(format!("fliplr {a}"));
    for i in 0..nd { out(format!("flip {a} {}", spell(i, nd, i % 2 == 1))); }
    if nd >= 2 { out(format!("flip {a} {},{}", spell(nd - 1, nd, true), 0)); out(format!("flip {a} {}", show_list(&(0..nd as isize).collect::<Vec<_>>()))); out(format!("flip {a} 0,{}", -(nd as isize))); }
    for sh in [0, 1, -1, ni / 2, ni - 1, ni, ni + 1, -(ni + 3), 7, 1_000_003] { out(format!("roll {a} {sh} none")); }
    for i in 0..nd { let d = s[i] as isize;
        for (q, sh) in [1, -1, d - 1, d, d + 1, d / 2, -3 * d - 1, 7].into_iter().enumerate() { out(format!("roll {a} {sh} {}", spell(i, nd, q % 2 == 1))); } }
    if nd >= 2 {
        out(format!("roll {a} {},{} 0,{}", rng.range(-20, 20), rng.range(-20, 20), spell(nd - 1, nd, true)));
        out(format!("roll {a} {},{} {},{}", rng.range(-20, 20), rng.range(-20, 20), spell(1, nd, false), spell(1, nd, true)));
        out(format!("roll {a} {} {},0", rng.range(-20, 20), spell(nd - 1, nd, false)));
        out(format!("roll {a} 3,-5,9 {},{},{}", spell(0, nd, true), spell(nd - 1, nd, false), spell(0, nd, false)));
    }
    out(format!("roll {a} 2,3 none")); out(format!("roll {a} 1 {nd}")); out(format!("flip {a} {}", -(nd as isize) - 1));
    // rot90: every k = 0..7 for the ordered axis pairs (all of them below ~2000 elements, four of them above), both spellings
    let ks: Vec<usize> = if heavy { vec![1, 2, 3] } else { (0..8).collect() };
    for (q, (i, j)) in axis_pairs(nd, heavy).into_iter().enumerate() { for &k in &ks {
        out(format!("rot90 {a} {k} {},{}", spell(i, nd, (q + k) % 3 == 1), spell(j, nd, (q + k) % 2 == 1)));
    } }
    out(format!("rot90 {a} 1 0")); out(format!("rot90 {a} 1 0,{nd}")); out(format!("rot90 {a} 3 0,1,0"));
}

fn gen(tier: &str, seed: u64, out: &mut dyn FnMut(String)) {
    let thorough = tier == "thorough";
    let mut rng = Rng::new(seed);
    for l in ["flip i1,3,3 1", "flip i2,3,4 1", "roll i3 7 none", "roll i2,3,2 1 1", "roll i3 -7 0",
              // round-2 corpus: one axis under two spellings; -0.0 through an odd quarter turn; non-square matrices with both axes >= 8
              "roll i3 5 0,-1", "roll i2,5 1,2 1,-1", "rot90 2,3:0,1,0,2,0,3 1 0,1", "rot90 i8,9 1 0,1", "rot90 i9,8 1 0,1", "rot90 i10,13 3 1,0", "rot90 i13,10 1 -2,-1"] { out(l.to_string()); }
    let mut all = shapes(1, 4, 1, 3);
    all.extend(vec![vec![4], vec![2, 4], vec![5, 2], vec![2, 2, 4], vec![1, 4, 2, 2]]);
    for s in &all {
        let a = tag(s); let nd = s.len(); let n: usize = s.iter().product(); let ndi = nd as isize;
        out(format!("flip {a} none")); out(format!("flipud {a}")); out(format!("fliplr {a}"));
        for i in 0..nd { for neg in [false, true] { out(format!("flip {a} {}", spell(i, nd, neg))); } }
        for i in 0..nd { for j in 0..nd { out(format!("flip {a} {},{}", spell(i, nd, rng.below(2) == 0), spell(j, nd, rng.below(2) == 0))); } }
        if nd >= 3 { out(format!("flip {a} 0,1,2")); out(format!("flip {a} -1,0,1")); }
        for bad in [ndi, ndi + 1, -ndi - 1] { out(format!("flip {a} {bad}")); out(format!("roll {a} 1 {bad}")); }
        // roll along the flattened order: every shift in [-3n, 3n]
        let n3 = 3 * n as isize;
        let step = if thorough || n <= 9 { 1 } else { 1 + (n as isize) / 6 };
        let mut sh = -n3; while sh <= n3 { out(format!("roll {a} {sh} none")); sh += step; }
        out(format!("roll {a} {} none", n3 + 1000)); out(format!("roll {a} {} none", -n3 - 1001));
        // roll along every axis (both spellings): every shift in [-3d, 3d]
        for i in 0..nd { let d = s[i] as isize; for sh in (-3 * d)..=(3 * d) { for neg in [false, true] {
            if neg && !thorough && sh % 2 == 0 { continue; }
            out(format!("roll {a} {sh} {}", spell(i, nd, neg)));
        } } out(format!("roll {a} {} {i}", 3 * d + 100)); out(format!("roll {a} {} {i}", -3 * d - 101)); }
        // lists of several axes / shifts, incl. a repeated axis (shifts add up) and one shift for several axes
        for i in 0..nd { for j in 0..nd {
            out(format!("roll {a} {},{} {},{}", rng.range(-7, 7), rng.range(-7, 7), spell(i, nd, rng.below(2) == 0), spell(j, nd, rng.below(2) == 0)));
            out(format!("roll {a} {} {},{}", rng.range(-7, 7), i, spell(j, nd, true)));
        } }
        out(format!("roll {a} 1,2 none")); out(format!("roll {a} 1,2,3 0,0")); out(format!("roll {a} - 0"));
        // rot90: k = 0..7, every ordered pair of axes in both spellings
        for k in 0..8 { for i in 0..nd { for j in 0..nd { for m in 0..(if thorough { 4 } else { 2 }) {
            let (ni, nj) = if thorough { (m & 1 == 1, m & 2 == 2) } else { (m == 1, m == 1 && (i + j) % 2 == 0) };
            out(format!("rot90 {a} {k} {},{}", spell(i, nd, ni), spell(j, nd, nj)));
        } } } }
        out(format!("rot90 {a} 1 0")); out(format!("rot90 {a} 1 0,1,2")); out(format!("rot90 {a} 1 0,{ndi}")); out(format!("rot90 {a} 1 {},0", -ndi - 1));
    }
    // random beyond the scope: rank 5, lengths to 4
    for _ in 0..(if thorough { 4000 } else { 400 }) {
        let nd = 5; let s: Vec<usize> = (0..nd).map(|_| 1 + rng.below(4)).collect(); let a = tag(&s);
        let (i, j) = (rng.below(nd), rng.below(nd));
        match rng.below(3) {
            0 => out(format!("flip {a} {},{}", spell(i, nd, rng.below(2) == 0), spell(j, nd, rng.below(2) == 0))),
            1 => out(format!("roll {a} {},{} {},{}", rng.range(-15, 15), rng.range(-15, 15), spell(i, nd, rng.below(2) == 0), spell(j, nd, rng.below(2) == 0))),
            _ => out(format!("rot90 {a} {} {},{}", rng.below(8), spell(i, nd, rng.below(2) == 0), spell(j, nd, rng.below(2) == 0))),
        }
    }
    // ---- robustness streams (FRAMEWORK.md)
    // 1. sizes: axis lengths 7..17 in every position, matrices with both axes >= 8, element counts beyond 256 / 1024 / 4096
    for s in c12_big_shapes(thorough) { let n: usize = s.iter().product(); gen_robust(&tag(&s), &s, n >= 2000, &mut rng, out); }
    // 2. zero-length axes
    let mut zs = zero_shapes(); zs.extend([vec![3, 0, 2], vec![1, 0, 1], vec![0, 3, 1], vec![2, 2, 0, 2]]);
    for s in &zs { gen_robust(&tag(s), s, false, &mut rng, out); }
    // 3. value classes for the f64 / f32 / u8 / bool images: arrays holding the zero tag (-0.0, 0u8, false) in many positions
    let mut vs = shapes(1, 3, 1, 3); vs.extend([vec![4, 2], vec![8, 9], vec![9, 8], vec![10, 13], vec![2, 3, 4], vec![8, 8], vec![7, 1, 9]]);
    for s in &vs { gen_robust(&zeros_arr(s), s, false, &mut rng, out); }
    // 4./5. both receivers, the repeated call and the element types are applied by `exec` to EVERY case above
    // seeded random shapes with axis lengths up to 17 (thorough: up to 40), rank 2..4, at most ~3000 elements
    for _ in 0..(if thorough { 1200 } else { 120 }) {
        let nd = 2 + rng.below(3); let hi = if thorough && rng.below(4) == 0 { 40 } else { 17 };
        let mut s: Vec<usize> = (0..nd).map(|_| 1 + rng.below(hi)).collect();
        while s.iter().product::<usize>() > 3000 { let p = rng.below(nd); s[p] = 1 + s[p] / 2; }
        let a = tag(&s); let (i, j) = (rng.below(nd), rng.below(nd));
        match rng.below(4) {
            0 => out(format!("flip {a} {},{}", spell(i, nd, rng.below(2) == 0), spell(j, nd, rng.below(2) == 0))),
            1 => out(format!("roll {a} {},{} {},{}", rng.range(-50, 50), rng.range(-50, 50), spell(i, nd, rng.below(2) == 0), spell(j, nd, rng.below(2) == 0))),
            _ => out(format!("rot90 {a} {} {},{}", rng.below(8), spell(i, nd, rng.below(2) == 0), spell(j, nd, rng.below(2) == 0))),
        }
    }
    // ---- robustness streams, part 2: hidden state, huge sizes, exact lengths and values, long lists and high ranks
    gen_part2(thorough, &mut rng, out);
}


// ---------------------------------------------------------------- robustness streams, part 2 (generator)

fn seq(calls: &[String]) -> String { format!("seq {}", calls.join(" / ")) }

/// pairs of DIFFERENT shapes with the SAME element count that collide under `h = h*m + dim` (any start value, also when the rank is
/// hashed first and an axis list afterwards): [a, m(a+t)] and [a+t, m*a]; with a common leading / trailing axis for rank 3
fn equal_count_collisions(thorough: bool) -> Vec<(Vec<usize>, Vec<usize>, usize)> {
    let mut v = vec![];
    for &m in &[31usize, 33, 37, 131, 257] {
        for (a, t) in [(1usize, 1usize), (2, 1), (1, 2), (3, 1), (2, 3)] {
            if m * a * (a + t) > (if thorough { 8000 } else { 2400 }) { continue; }
            v.push((vec![a, m * (a + t)], vec![a + t, m * a], 0));
            if m <= 37 || thorough {
                v.push((vec![2, a, m * (a + t)], vec![2, a + t, m * a], 1));
                v.push((vec![a, m * (a + t), 2], vec![a + t, m * a, 2], 0));
            }
        }
        // the rank-3 family of the other neighbouring pair: [p, 2, m] and [p, 1, 2m]
        v.push((vec![3, 2, m], vec![3, 1, 2 * m], 1));
    }
    v
}

fn gen_part2(thorough: bool, rng: &mut Rng, out: &mut dyn FnMut(String)) {
    out("oracle_report".to_string());
    // ---- 6a. hidden state: colliding shapes with equal element counts, back to back, both orders, through every operation that could
    // memoise a plan per shape (the odd quarter turns transpose; flip / roll cut the flat vector by the shape)
    for (sa, sb, i) in equal_count_collisions(thorough) {
        let (a, b, j) = (tag(&sa), tag(&sb), i + 1);
        for (x, y) in [(&a, &b), (&b, &a)] {
            out(seq(&[format!("rot90 {x} 1 {i},{j}"), format!("rot90 {y} 1 {i},{j}"), format!("rot90 {x} 1 {i},{j}")]));
            out(seq(&[format!("rot90 {x} 3 {j},{i}"), format!("rot90 {y} 3 {j},{i}"), format!("rot90 {y} 2 {i},{j}"), format!("rot90 {x} 2 {i},{j}")]));
            out(seq(&[format!("flip {x} {j}"), format!("flip {y} {j}"), format!("roll {x} 3 {j}"), format!("roll {y} 3 {j}"), format!("flip {x} {i}"), format!("flip {y} {i}"), format!("roll {x} 1 {i}"), format!("roll {y} 1 {i}")]));
        }
    }
    // lib pairs (different element counts, multipliers 31, 33, 37, 131, 257): the order alternates (thorough: both orders)
    for (q, (sa, sb)) in collision_shape_pairs().into_iter().enumerate() {
        let i = if sa.len() == 3 && sa[0] == 2 && sb[0] == 2 && sa[2] != 2 { 1 } else { 0 }; let j = i + 1;
        let (a, b) = (tag(&sa), tag(&sb));
        let orders: Vec<(&String, &String)> = if thorough { vec![(&a, &b), (&b, &a)] } else if q % 2 == 0 { vec![(&a, &b)] } else { vec![(&b, &a)] };
        for (x, y) in orders {
            out(seq(&[format!("rot90 {x} 1 {i},{j}"), format!("rot90 {y} 1 {i},{j}"), format!("rot90 {x} 3 {i},{j}")]));
            if q % 3 == 0 || thorough { out(seq(&[format!("flip {x} {j}"), format!("flip {y} {j}"), format!("roll {x} 2 {j}"), format!("roll {y} 2 {j}"), format!("roll {x} 1 {i}"), format!("roll {y} 1 {i}")])); }
        }
    }
    // ---- 6b. permuted and regrouped shapes with equal element counts in ONE sequence (keys that only hash the element count, the sum,
    // the product or the xor of the extents), forwards and backwards; all ordered axis pairs of one shape (keys that ignore the axes)
    for group in [vec![vec![2usize, 6], vec![3, 4], vec![4, 3], vec![6, 2], vec![12, 1], vec![1, 12]], vec![vec![8, 9], vec![9, 8], vec![6, 12], vec![12, 6], vec![3, 24], vec![72, 1]],
                  vec![vec![2, 3, 4], vec![4, 3, 2], vec![3, 2, 4], vec![2, 4, 3], vec![4, 2, 3], vec![3, 4, 2], vec![2, 2, 6], vec![6, 2, 2]], vec![vec![16, 17], vec![17, 16], vec![8, 34], vec![34, 8], vec![4, 68], vec![2, 136]],
                  vec![vec![1, 2, 3, 4], vec![4, 3, 2, 1], vec![2, 1, 4, 3], vec![3, 4, 1, 2], vec![2, 2, 2, 3]]] {
        for rev in [false, true] {
            let mut g = group.clone(); if rev { g.reverse(); }
            let nd = g[0].len();
            for k in [1usize, 3] { out(seq(&g.iter().map(|s| format!("rot90 {} {k} {},{}", tag(s), nd - 2, nd - 1)).collect::<Vec<_>>())); }
            out(seq(&g.iter().map(|s| format!("rot90 {} 1 {},0", tag(s), nd - 1)).collect::<Vec<_>>()));
            out(seq(&g.iter().map(|s| format!("flip {} {}", tag(s), nd - 1)).collect::<Vec<_>>()));
            out(seq(&g.iter().map(|s| format!("roll {} 5 {}", tag(s), nd - 2)).collect::<Vec<_>>()));
            out(seq(&g.iter().map(|s| format!("roll {} 5 none", tag(s))).collect::<Vec<_>>()));
        }
    }
    for s in [vec![3usize, 3, 3], vec![2, 2, 2, 2], vec![4, 4], vec![2, 3, 2, 3], vec![5, 5, 5], vec![2, 2, 2, 2, 2]] {
        let nd = s.len(); let a = tag(&s);
        let pairs: Vec<(usize, usize)> = (0..nd).flat_map(|i| (0..nd).map(move |j| (i, j))).filter(|(i, j)| i != j).collect();
        for k in [1usize, 3] {
            out(seq(&pairs.iter().map(|(i, j)| format!("rot90 {a} {k} {i},{j}")).collect::<Vec<_>>()));
            out(seq(&pairs.iter().rev().map(|(i, j)| format!("rot90 {a} {k} {},{}", spell(*i, nd, true), j)).collect::<Vec<_>>()));
        }
        out(seq(&(0..nd).map(|i| format!("flip {a} {i}")).chain((0..nd).rev().map(|i| format!("roll {a} 1 {i}"))).collect::<Vec<_>>()));
    }
    // ---- 6c. a refused call directly followed by valid calls on the same thread: the invalid entry of the list first / in the middle /
    // last (an accumulator filled before the failing entry must not leak into the next call)
    {
        let mut ss = shapes(1, 3, 2, 3); ss.extend([vec![1, 4], vec![5, 2, 1], vec![2, 2, 2, 2], vec![7, 9]]);
        for s in &ss {
            let nd = s.len(); let a = tag(s); let (ndi, last) = (nd as isize, nd as isize - 1);
            let bads: Vec<String> = vec![
                format!("roll {a} 1,1 0,{}", ndi + 3), format!("roll {a} 1,1 {},0", ndi), format!("roll {a} 2,1,1 {last},{},0", -ndi - 1), format!("roll {a} 1,2,3 0,{last}"),
                format!("roll {a} 1 0,{last},{}", ndi + 1), format!("roll {a} 4,5 none"), format!("flip {a} 0,{}", ndi), format!("flip {a} {last},0,{}", -ndi - 1), format!("flip {a} {},0", ndi + 2),
                format!("rot90 {a} 1 0,{}", ndi), format!("rot90 {a} 3 {},{last}", -ndi - 1), format!("rot90 {a} 1 0,{last},0"), format!("rot90 {a} 2 0,{}", ndi + 1)];
            let goods: Vec<String> = vec![format!("roll {a} 1 {last}"), format!("roll {a} 1 0"), format!("roll {a} 1 none"), format!("flip {a} {last}"), format!("flip {a} 0"), format!("flip {a} none"),
                format!("rot90 {a} 1 0,{last}"), format!("rot90 {a} 2 {last},0"), format!("roll {a} 1,2 0,{}", -1), format!("fliplr {a}"), format!("flipud {a}")];
            for (q, bad) in bads.iter().enumerate() {
                let g1 = &goods[q % goods.len()]; let g2 = &goods[(q * 5 + 3) % goods.len()];
                out(seq(&[bad.clone(), g1.clone(), g2.clone()]));
                if thorough || s.len() == 2 { for g in goods.iter().take(3) { out(seq(&[bad.clone(), g.clone()])); } }
            }
            // two refused calls, then the valid one; a valid call between two refused ones
            out(seq(&[bads[0].clone(), bads[6].clone(), goods[0].clone(), bads[1].clone(), goods[3].clone(), goods[1].clone()]));
        }
    }
    // ---- 6d. A–B–A: a call, a different call, the first call again (seeded, small scope and axis lengths up to 17)
    {
        let mk = |rng: &mut Rng| -> String {
            let nd = 1 + rng.below(4); let hi = if rng.below(3) == 0 { 17 } else { 4 };
            let mut s: Vec<usize> = (0..nd).map(|_| 1 + rng.below(hi)).collect();
            while s.iter().product::<usize>() > 800 { let p = rng.below(nd); s[p] = 1 + s[p] / 2; }
            let a = tag(&s); let (i, j) = (rng.below(nd), rng.below(nd));
            match rng.below(4) {
                0 => format!("flip {a} {},{}", spell(i, nd, rng.below(2) == 0), spell(j, nd, rng.below(2) == 0)),
                1 => format!("roll {a} {},{} {},{}", rng.range(-9, 9), rng.range(-9, 9), spell(i, nd, rng.below(2) == 0), spell(j, nd, rng.below(2) == 0)),
                2 => format!("roll {a} {} none", rng.range(-30, 30)),
                _ => format!("rot90 {a} {} {},{}", rng.below(8), spell(i, nd, rng.below(2) == 0), spell(j, nd, rng.below(2) == 0)),
            }
        };
        for _ in 0..(if thorough { 1500 } else { 250 }) { let (a, b) = (mk(rng), mk(rng)); out(seq(&[a.clone(), b, a])); }
    }
    // ---- 7. huge sizes (16 384 … 140 000 elements, an axis above 65 536, extents that are no multiples of 32): every operation through
    // the native reference (`n` lines); the operations whose model is linear (flip none, the last axis, the flat roll) also directly
    let mut huge = huge_shapes();
    huge.extend([vec![1024, 10], vec![4, 25, 100], vec![3, 8200], vec![8193, 2], vec![2, 2, 4099], vec![191, 193], vec![65537], vec![1, 65600], vec![257, 64]]);
    if thorough { huge.extend([vec![65, 257], vec![1000, 131], vec![7, 9, 11, 13, 2], vec![2, 3, 2, 3, 2, 3, 2, 37], vec![131072], vec![3, 40000], vec![40000, 3], vec![127, 129, 3]]); }
    // the crate's own `split` is quadratic in the number of blocks (0.2 s per call for 16 000 blocks, 3 s for 70 000; seven calls per
    // line): flips / rolls that cut the flat vector into more than 3000 blocks are left out at these sizes (the long axis is then
    // exercised as the lane: [2,70000] axis 1, the flat roll, flip none, the quarter turns that flip before they transpose)
    let cuts = |s: &[usize], ax: usize| -> usize { if ax + 1 == s.len() && ax > 0 { s[..ax].iter().product() } else { s[0] } };
    let light = |s: &[usize], ax: usize| cuts(s, ax) <= 3000;
    for (q, s) in huge.iter().enumerate() {
        let a = tag(s); let nd = s.len(); let n: usize = s.iter().product(); let ni = n as isize;
        out(format!("n flip {a} none")); if light(s, 0) { out(format!("n flipud {a}")); } if nd >= 2 && light(s, 1) { out(format!("n fliplr {a}")); }
        for i in 0..nd { if light(s, i) { out(format!("n flip {a} {}", spell(i, nd, (i + q) % 2 == 1))); } }
        if nd >= 2 && (0..nd).all(|i| light(s, i)) { out(format!("n flip {a} {},0", spell(nd - 1, nd, true))); out(format!("n flip {a} {}", show_list(&(0..nd as isize).rev().collect::<Vec<_>>()))); }
        for sh in [1, -1, ni / 2 + 1, ni + 7, -(3 * ni + 5), 8191, 65537] { out(format!("n roll {a} {sh} none")); }
        for i in 0..nd { if !(light(s, i) || nd == 1) { continue; } let d = s[i] as isize; for (r, sh) in [1, -1, d / 2, d + 1, -2 * d - 3, 63, 4097].into_iter().enumerate() { if r < 3 || (r + q + i) % 2 == 0 || thorough { out(format!("n roll {a} {sh} {}", spell(i, nd, (r + i) % 2 == 1))); } } }
        if nd >= 2 && (0..nd).all(|i| light(s, i)) { out(format!("n roll {a} 3,-5,9 {},{},0", spell(nd - 1, nd, true), spell(1, nd, false))); out(format!("n roll {a} 7 0,{}", spell(nd - 1, nd, false))); }
        if nd >= 2 {
            let mut pairs = vec![(0, nd - 1), (nd - 1, 0)]; if nd > 2 { pairs.extend([(0, 1), (1, 2), (nd - 1, nd - 2), (2, 0)]); }
            for (r, (i, j)) in pairs.into_iter().enumerate() { for k in [1usize, 2, 3] {
                if r >= 2 && !thorough && (k + r + q) % 3 != 0 { continue; }
                // the flips behind this turn: k = 1 flips axis j of the array, k = 3 axis j of the exchanged array, k = 2 both axes
                let mut t = s.clone(); t.swap(i, j);
                let ok = match k { 1 => light(s, j), 3 => light(&t, j), _ => light(s, i) && light(s, j) };
                if !ok { continue; }
                out(format!("n rot90 {a} {} {},{}", if (r + q) % 4 == 3 { k + 4 } else { k }, spell(i, nd, (q + k) % 3 == 1), spell(j, nd, (r + k) % 2 == 1)));
            } }
            if light(s, nd - 1) { out(format!("n rot90 {a} 1 {},{}", nd - 1, nd - 1)); }
        }
        // the direct comparison with the model where it is linear
        out(format!("flip {a} none")); if light(s, nd - 1) { out(format!("flip {a} {}", spell(nd - 1, nd, q % 2 == 0))); }
        out(format!("roll {a} {} none", ni / 3 + 1)); if light(s, nd - 1) || nd == 1 { out(format!("roll {a} {} {}", -(s[nd - 1] as isize) / 2 - 1, nd - 1)); }
        if thorough && s[0] <= 300 { out(format!("flip {a} 0")); out(format!("roll {a} 1 0")); if nd >= 2 && n <= 17000 { out(format!("rot90 {a} 1 0,{}", nd - 1)); } }
    }
    // hidden state at huge sizes: shapes with equal element counts back to back through the reference
    out(seq(&[format!("n rot90 {} 1 0,1", tag(&[130, 130])), format!("n rot90 {} 1 0,1", tag(&[65, 260])), format!("n rot90 {} 1 0,1", tag(&[260, 65])), format!("n rot90 {} 3 1,0", tag(&[130, 130]))]));
    out(seq(&[format!("n rot90 {} 1 0,1", tag(&[2, 31 * 300])), format!("n rot90 {} 1 0,1", tag(&[3, 31 * 200])), format!("n rot90 {} 1 0,1", tag(&[2, 31 * 300]))]));
    out(seq(&[format!("n flip {} 1", tag(&[1024, 10])), format!("n flip {} 1", tag(&[10, 1024])), format!("n flip {} 1", tag(&[1024, 10])), format!("n roll {} 3 1", tag(&[10, 1024]))]));
    // ---- 8. exact lengths and values: every axis length 1..300 in a non-leading position; shifts and turn counts c + 2^8, c + 2^16, c + 2^32
    for l in 1..=300usize {
        let a = tag(&[2, l]);
        out(format!("flip {a} 1")); out(format!("roll {a} 1 -1")); out(format!("rot90 {a} 1 0,1"));
        match l % 3 { 0 => out(format!("roll {a} -1 1")), 1 => out(format!("rot90 {a} 3 1,0")), _ => out(format!("roll {a} {} none", l as isize + 1)) }
        if l % 2 == 1 || thorough { let b = tag(&[3, l, 2]); out(format!("flip {b} 1")); out(format!("roll {b} {} 1", 1 + (l as isize) / 2)); if l % 4 == 1 || thorough { out(format!("rot90 {b} 1 1,2")); } }
    }
    for &p in &[19usize, 23, 29, 31, 37, 41, 43, 47, 49, 53, 97, 101, 127, 131, 251, 257, 1000, 1001] {
        let a = tag(&[p]); out(format!("flip {a} 0")); out(format!("roll {a} {} 0", p / 2)); out(format!("roll {a} -1 none"));
        if p <= 60 { let b = tag(&[p, p]); out(format!("rot90 {b} 1 0,1")); out(format!("flip {b} 1")); out(format!("roll {b} 1 1")); out(format!("flip {b} 0")); }
    }
    for s in [vec![5usize], vec![2, 3], vec![3, 4, 2], vec![7, 9]] {
        let a = tag(&s); let nd = s.len();
        for c in [0usize, 1, 2, 3] { for v in narrowing_images(c) {
            out(format!("roll {a} {v} none")); out(format!("roll {a} -{v} {}", nd - 1)); out(format!("roll {a} {v},-{v},1 0,{},0", nd as isize - 1));
            if nd >= 2 { out(format!("rot90 {a} {v} 0,{}", nd - 1)); }
        } }
        // axis numbers that are valid only after a narrowing cast must be refused
        for v in narrowing_images(0) { out(format!("flip {a} {v}")); out(format!("roll {a} 1 {v}")); out(format!("flip {a} -{v}")); if nd >= 2 { out(format!("rot90 {a} 1 {v},1")); out(format!("rot90 {a} 1 0,-{v}")); } }
        out(format!("roll {a} {} none", i64::MAX)); out(format!("roll {a} {} 0", i64::MIN + 1)); out(format!("roll {a} {} 0", i64::MIN));
    }
    // ---- 10. long argument lists and ranks 5..8: axis / shift lists with 3..6 entries in unsorted order and mixed spellings
    for s in [vec![2usize, 3, 2, 2, 3], vec![2, 1, 2, 2, 1, 2], vec![3, 2, 2, 1, 2, 2], vec![2, 2, 2, 2, 2, 2, 2], vec![1, 2, 1, 2, 2, 1, 2, 3], vec![2, 2, 1, 3, 1, 2, 2, 2], vec![3, 4, 5], vec![4, 3, 2, 5]] {
        let a = tag(&s); let nd = s.len();
        for len in 3..=6usize { for _ in 0..(if thorough { 4 } else { 2 }) {
            let axes: Vec<isize> = (0..len).map(|_| spell(rng.below(nd), nd, rng.below(2) == 0)).collect();
            let shifts: Vec<i64> = (0..len).map(|_| rng.range(-9, 9)).collect();
            out(format!("flip {a} {}", show_list(&axes)));
            out(format!("roll {a} {} {}", show_list(&shifts), show_list(&axes)));
            out(format!("roll {a} {} {}", shifts[0], show_list(&axes)));
            out(format!("roll {a} {} {}", show_list(&shifts), axes[0]));
            let p = rng.perm(nd); let dist: Vec<isize> = p.iter().take(len.min(nd)).enumerate().map(|(q, &x)| spell(x, nd, q % 2 == 0)).collect();
            out(format!("flip {a} {}", show_list(&dist)));
            out(format!("roll {a} {} {}", show_list(&shifts[..dist.len()]), show_list(&dist)));
        } }
        for _ in 0..(if thorough { 40 } else { 12 }) { let (i, j) = (rng.below(nd), rng.below(nd)); out(format!("rot90 {a} {} {},{}", rng.below(8), spell(i, nd, rng.below(2) == 0), spell(j, nd, rng.below(2) == 0))); }
        out(format!("rot90 {a} 1 0,{}", nd - 1)); out(format!("rot90 {a} 3 {},0", nd - 1)); out(format!("rot90 {a} 1 {},{}", nd - 2, nd - 1)); out(format!("flip {a} none")); out(format!("fliplr {a}")); out(format!("flipud {a}"));
    }
    out("oracle_report final".to_string());
}

// ---------------------------------------------------------------- harness-native reference (coordinate formulas)

use std::sync::atomic::{AtomicUsize, Ordering};
static ORACLE_CHECKED: AtomicUsize = AtomicUsize::new(0);
static ORACLE_SILENT: AtomicUsize = AtomicUsize::new(0);
static ORACLE_ONLY: AtomicUsize = AtomicUsize::new(0);
static ABA_RERUNS: AtomicUsize = AtomicUsize::new(0);
static SEQ_CALLS: AtomicUsize = AtomicUsize::new(0);

fn coords(mut p: usize, shape: &[usize], c: &mut [usize]) { for k in (0..shape.len()).rev() { c[k] = p % shape[k]; p /= shape[k]; } }
fn flat_of(c: &[usize], shape: &[usize]) -> usize { c.iter().zip(shape).fold(0, |acc, (x, d)| acc * d + x) }
/// `axis` spelled from either end -> axis number, `None` when it is outside [-rank, rank)
fn norm_axis(ax: isize, nd: usize) -> Option<usize> { let n = nd as isize; if ax >= n || ax < -n { None } else { Some(if ax < 0 { (ax + n) as usize } else { ax as usize }) } }

/// out[c] = in[src(c)] over the output shape `oshape`
fn gather(oshape: &[usize], ishape: &[usize], e: &[i64], src: impl Fn(&mut Vec<usize>)) -> (Vec<usize>, Vec<i64>) {
    let n: usize = oshape.iter().product();
    let mut c = vec![0usize; oshape.len()];
    let out = (0..n).map(|p| { coords(p, oshape, &mut c); src(&mut c); e[flat_of(&c, ishape)] }).collect();
    (oshape.to_vec(), out)
}
fn flip_axes(shape: &[usize], e: &[i64], axes: &[usize]) -> (Vec<usize>, Vec<i64>) {
    gather(shape, shape, e, |c| for &ax in axes { c[ax] = shape[ax] - 1 - c[ax]; })
}
fn swap_axes(shape: &[usize], e: &[i64], i: usize, j: usize) -> (Vec<usize>, Vec<i64>) {
    let mut os = shape.to_vec(); os.swap(i, j);
    gather(&os, shape, e, |c| c.swap(i, j))
}

/// The statement of C12 as direct coordinate formulas: flip sends index i of the axis to n-1-i, roll sends i to (i + shift) mod n
/// (flat order without axes), one quarter turn = flip of the second axis followed by the exchange of the two axes.
/// `None` = no opinion (arrays with a zero-length axis, empty shift lists, anything unusual): those cases are judged by the model only.
/// `Some(None)` = the call must be refused.
fn oracle(op: &str, args: &[&str]) -> Option<Option<(Vec<usize>, Vec<i64>)>> {
    let (shape, e) = parse_arr_raw(args.first()?);
    let nd = shape.len(); let n = e.len();
    if n == 0 || nd == 0 || shape.iter().product::<usize>() != n { return None; }
    let axes_of = |s: &str| -> Option<Vec<usize>> { parse_isize_list(s).into_iter().map(|a| norm_axis(a, nd)).collect() };
    Some(match op {
        "flip" => if args[1] == "none" { Some((shape.clone(), e.iter().rev().copied().collect())) } else { axes_of(args[1]).map(|ax| flip_axes(&shape, &e, &ax)) },
        "flipud" => Some(flip_axes(&shape, &e, &[0])),
        "fliplr" => if nd < 2 { None } else { Some(flip_axes(&shape, &e, &[1])) },
        "roll" => {
            let sh: Vec<i128> = parse_i64_list(args[1]).into_iter().map(|x| x as i128).collect();
            if sh.is_empty() { return None; }
            if args[2] == "none" {
                // the shift list pairs with the single default axis: the shifts add up, along the flattened order
                let total = sh.iter().sum::<i128>().rem_euclid(n as i128) as usize;
                let mut out = vec![0i64; n];
                for p in 0..n { out[(p + total) % n] = e[p]; }
                Some((shape.clone(), out))
            } else {
                let raw = parse_isize_list(args[2]);
                if raw.is_empty() { return None; }
                let k = if sh.len() == raw.len() { sh.len() } else if sh.len() == 1 { raw.len() } else if raw.len() == 1 { sh.len() } else { return Some(None) };
                let mut total = vec![0i128; nd];
                for q in 0..k { match norm_axis(raw[if raw.len() == 1 { 0 } else { q }], nd) { Some(ax) => total[ax] += sh[if sh.len() == 1 { 0 } else { q }], None => return Some(None) } }
                let back: Vec<usize> = (0..nd).map(|ax| (-total[ax]).rem_euclid(shape[ax] as i128) as usize).collect();
                // the element now at coordinate c comes from c - shift (mod n) on every rolled axis
                Some(gather(&shape, &shape, &e, |c| for ax in 0..nd { c[ax] = (c[ax] + back[ax]) % shape[ax]; }))
            }
        }
        "rot90" => {
            let k: usize = args[1].parse().ok()?;
            let raw = parse_isize_list(args[2]);
            if nd < 2 || raw.len() != 2 { return Some(None); }
            let (i, j) = match (norm_axis(raw[0], nd), norm_axis(raw[1], nd)) { (Some(i), Some(j)) => (i, j), _ => return Some(None) };
            // k successive single turns: flip the second axis, then exchange the two axes
            let mut cur = (shape.clone(), e.clone());
            for _ in 0..(k % 4) { let f = flip_axes(&cur.0, &cur.1, &[j]); cur = swap_axes(&f.0, &f.1, i, j); }
            Some(cur)
        }
        _ => return None,
    })
}
fn oracle_text(o: &Option<(Vec<usize>, Vec<i64>)>) -> String { match o { Some((s, e)) => format!("ok {}:{}", show_list(s), show_list(e)), None => "err".to_string() } }

/// where two `ok shape:elements` answers differ
fn diff_detail(obs: &str, want: &str) -> String {
    let parse = |t: &str| -> Option<(String, Vec<String>)> { let b = t.strip_prefix("ok ")?; let (s, e) = b.split_once(':')?; Some((s.to_string(), e.split(',').map(|x| x.to_string()).collect())) };
    match (parse(obs), parse(want)) {
        (Some((so, eo)), Some((sw, ew))) => {
            if so != sw { return format!("shape {so} instead of {sw}"); }
            if eo.len() != ew.len() { return format!("{} elements instead of {}", eo.len(), ew.len()); }
            let bad: Vec<usize> = (0..eo.len()).filter(|&p| eo[p] != ew[p]).collect();
            match bad.first() { Some(&p) => format!("shape {so}: {} of {} positions differ, the first at flat position {p}: {} instead of {}", bad.len(), eo.len(), eo[p], ew[p]), None => "equal".into() }
        }
        _ => format!("`{}` instead of `{}`", truncate(obs, 200), truncate(want, 200)),
    }
}

// ---------------------------------------------------------------- executor

/// the real call: i64 / u8 / f64 (+ i8 / bool / String / f32 when `more`), both receivers, the i64 call twice
fn run_call(op: &str, args: &[&str], more: bool) -> Option<String> {
    let src = *args.first()?;
    let optl = |s: &str| -> Option<Vec<isize>> { if s == "none" { None } else { Some(parse_isize_list(s)) } };
    Some(match op {
        "flip" => { let ax = optl(args[1]); sweep_arr!(more, |T| { let a = arr_of::<T>(src); rx(|| a.flip(ax.clone()), || Ok(a.clone()).flip(ax.clone())) }) }
        "flipud" => sweep_arr!(more, |T| { let a = arr_of::<T>(src); rx(|| a.flipud(), || Ok(a.clone()).flipud()) }),
        "fliplr" => sweep_arr!(more, |T| { let a = arr_of::<T>(src); rx(|| a.fliplr(), || Ok(a.clone()).fliplr()) }),
        "roll" => { let sh = parse_isize_list(args[1]); let ax = optl(args[2]);
            sweep_arr!(more, |T| { let a = arr_of::<T>(src); rx(|| a.roll(sh.clone(), ax.clone()), || Ok(a.clone()).roll(sh.clone(), ax.clone())) }) }
        "rot90" => { let k: usize = args[1].parse().ok()?; let ax = parse_isize_list(args[2]);
            sweep_arr!(more, |T| { let a = arr_of::<T>(src); rx(|| a.rot90(k, ax.clone()), || Ok(a.clone()).rot90(k, ax.clone())) }) }
        _ => return None,
    })
}

/// only the plain call on `Array<i64>` (the A–B–A re-run)
fn plain_i64(op: &str, args: &[&str]) -> Option<String> {
    let a = parse_arr_i64(args.first()?);
    let optl = |s: &str| -> Option<Vec<isize>> { if s == "none" { None } else { Some(parse_isize_list(s)) } };
    Some(match op {
        "flip" => { let ax = optl(args[1]); guarded(|| res_arr(&a.flip(ax))) }
        "flipud" => guarded(|| res_arr(&a.flipud())),
        "fliplr" => guarded(|| res_arr(&a.fliplr())),
        "roll" => { let sh = parse_isize_list(args[1]); let ax = optl(args[2]); guarded(|| res_arr(&a.roll(sh, ax))) }
        "rot90" => { let k: usize = args[1].parse().ok()?; let ax = parse_isize_list(args[2]); guarded(|| res_arr(&a.rot90(k, ax))) }
        _ => return None,
    })
}

fn elems_of(args: &[&str]) -> usize { args.first().map_or(0, |s| { let body = s.strip_prefix('i').unwrap_or(s); let sh = body.split(|c| c == '+' || c == ':').next().unwrap_or("-"); parse_usize_list(sh).iter().product() }) }

/// one ordinary call line against the model's answer; on the way the native reference is compared with the model
fn exec_call(op: &str, args: &[&str], expected: &str) -> Option<Verdict> {
    // the four further element types: arrays of at most 600 elements, one case line in three
    let more = elems_of(args) <= 600 && args.iter().map(|a| a.len()).sum::<usize>() % 3 == 0;
    let obs = run_call(op, args, more)?;
    match oracle(op, args) {
        None => { ORACLE_SILENT.fetch_add(1, Ordering::Relaxed); }
        Some(o) => {
            let ot = oracle_text(&o);
            let agree = if o.is_none() { class_of(expected) == "err" } else { ot == expected };
            if !agree { return Some(Verdict::Mismatch { observed: obs, detail: format!("ORACLE-VS-MODEL the harness-native reference gives `{}`, the model `{}` ({}) (harness defect: the reference is not usable)", truncate(&ot, 300), truncate(expected, 300), diff_detail(&ot, expected)) }); }
            ORACLE_CHECKED.fetch_add(1, Ordering::Relaxed);
        }
    }
    Some(compare_default(obs, expected))
}

/// `n call…`: a huge array; the driver answers `ok native`, the crate is judged by the native reference
fn exec_native(args: &[&str], expected: &str) -> Option<Verdict> {
    if expected != "ok native" { return Some(compare_default("harness: an `n` line expects the driver to answer `ok native`".into(), expected)); }
    let (op, rest) = (*args.first()?, &args[1..]);
    let want = oracle_text(&oracle(op, rest)?);      // `n` lines are only generated where the reference has an opinion
    ORACLE_ONLY.fetch_add(1, Ordering::Relaxed);
    let obs = run_call(op, rest, false)?;
    if obs == want || (class_of(&obs) == "err" && want == "err") { return Some(Verdict::Match(format!("ok native ({} bytes as the harness-native reference)", obs.len()))); }
    Some(Verdict::Mismatch { detail: format!("differs from the harness-native coordinate reference: {}; reference `{}`", diff_detail(&obs, &want), truncate(&want, 300)), observed: truncate(&obs, 1500) })
}

thread_local! { static PREV: RefCell<Option<(String, Vec<String>, String)>> = const { RefCell::new(None) }; }

fn exec(op: &str, args: &[&str], expected: &str) -> Option<Verdict> {
    // VERIF_SLOW=<seconds>: name the case lines whose execution takes longer (tuning aid, no influence on the verdicts)
    let t0 = std::time::Instant::now();
    let v = exec_line(op, args, expected);
    if let Some(lim) = std::env::var("VERIF_SLOW").ok().and_then(|s| s.parse::<f64>().ok()) { let dt = t0.elapsed().as_secs_f64(); if dt > lim { eprintln!("slow {dt:.2}s {op} {}", truncate(&args.join(" "), 150)); } }
    v
}

fn exec_line(op: &str, args: &[&str], expected: &str) -> Option<Verdict> {
    match op {
        "oracle_report" => {
            let text = format!("ok report: so far the harness-native reference agreed with the full model answer on {} cases (no opinion on {}), {} huge calls judged by the reference only, {} calls inside seq lines, {} implicit A-B-A re-runs",
                ORACLE_CHECKED.load(Ordering::Relaxed), ORACLE_SILENT.load(Ordering::Relaxed), ORACLE_ONLY.load(Ordering::Relaxed), SEQ_CALLS.load(Ordering::Relaxed), ABA_RERUNS.load(Ordering::Relaxed));
            if expected != "ok report" { return Some(compare_default(text, expected)); }
            // the final report fails when the reference was (almost) never validated although it was relied upon
            if args.first() == Some(&"final") && ORACLE_ONLY.load(Ordering::Relaxed) > 0 && ORACLE_CHECKED.load(Ordering::Relaxed) < 1000 {
                return Some(Verdict::Mismatch { observed: text, detail: "the native reference was relied upon without having been compared with the model on at least 1000 cases of this run".into() });
            }
            Some(Verdict::Match(text))
        }
        "n" => exec_native(args, expected),
        "seq" => {
            let calls: Vec<&[&str]> = args.split(|t| *t == "/").collect();
            let exps: Vec<&str> = expected.split(" / ").collect();
            if calls.len() != exps.len() { return Some(compare_default(format!("harness: {} calls but {} model answers", calls.len(), exps.len()), expected)); }
            let mut texts = vec![]; let mut bad: Option<String> = None;
            for (q, (c, e)) in calls.iter().zip(&exps).enumerate() {
                SEQ_CALLS.fetch_add(1, Ordering::Relaxed);
                let v = if c.first() == Some(&"n") { exec_native(&c[1..], e)? } else { exec_call(c.first()?, &c[1..], e)? };
                match v {
                    Verdict::Match(o) | Verdict::Open(o) => texts.push(truncate(&o, 400)),
                    Verdict::Mismatch { observed, detail } => { if bad.is_none() { bad = Some(format!("call {} of the sequence (`{}`): {}", q + 1, c.join(" "), detail)); } texts.push(truncate(&observed, 400)); }
                }
            }
            let obs = texts.join(" / ");
            Some(match bad { Some(d) => Verdict::Mismatch { observed: obs, detail: d }, None => Verdict::Match(obs) })
        }
        _ => {
            let v = exec_call(op, args, expected)?;
            // implicit A–B–A: after a share of the small cases the PREVIOUS case is run again and must repeat its answer
            let small = elems_of(args) <= 600;
            if small && args.iter().map(|a| a.len()).sum::<usize>() % 4 == 1 {
                if let Some((pop, pargs, pans)) = PREV.with(|p| p.borrow().clone()) {
                    let pa: Vec<&str> = pargs.iter().map(|s| s.as_str()).collect();
                    if let Some(again) = plain_i64(&pop, &pa) {
                        ABA_RERUNS.fetch_add(1, Ordering::Relaxed);
                        if again != pans { if let Verdict::Match(o) = &v { return Some(Verdict::Mismatch { observed: o.clone(), detail: format!("A-B-A: after this call the previous case `{} {}` no longer repeats its answer: `{}` instead of `{}`", pop, pargs.join(" "), truncate(&again, 300), truncate(&pans, 300)) }); } }
                    }
                }
            }
            if small { if let Some(ans) = plain_i64(op, args) { PREV.with(|p| *p.borrow_mut() = Some((op.to_string(), args.iter().map(|s| s.to_string()).collect(), ans))); } }
            Some(v)
        }
    }
}

fn nontrivial(op: &str, args: &[&str]) -> bool {
    match op {
        "oracle_report" => false,
        "seq" => args.split(|t| *t == "/").any(|c| !c.is_empty() && nontrivial(c[0], &c[1..])),
        "n" => args.len() >= 2 && nontrivial(args[0], &args[1..]),
        _ => { let s = args[0]; let body = s.strip_prefix('i').unwrap_or(s); let sh = body.split(|c| c == '+' || c == ':').next().unwrap_or("-"); parse_usize_list(sh).iter().filter(|&&d| d > 1).count() >= 2 }
    }
}

fn main() {
    harness_main(Spec { prop: "C12", gen, exec, nontrivial, hang_secs: 20,
        rule: "every shape rank<=4 len<=3 (+ lengths 4-5): flip none / every axis +- / every ordered pair / triples; flipud, fliplr; roll along the flat order for shifts in [-3n,3n] (+ far beyond), along every axis +- for every shift in [-3d,3d] (+ far beyond), 2-element axis/shift lists incl. repeated axes and one shift for two axes; rot90 k=0..7 x every ordered axis pair in several spellings (incl. equal axes); out-of-range axes and malformed lists; seeded random rank 5 len<=4. Robustness streams: sizes (lib big_shapes + matrices with both axes >= 8: square, off by one, far from square, around 256/1024/4096 elements, up to [70,70]/[128,33]/[8,8,8,8]; the same lengths at rank 3-4 in every position; unit axes next to long ones; rank 9; thorough: every [a,b] with 7<=a,b<=17): flip none/every axis/lists, flipud/fliplr, roll flat and per axis for shifts around 0, d/2, d, beyond, lists with one axis under two spellings, rot90 k=0..7 x every ordered axis pair (>= 2000 elements: k=1,2,3 x four pairs), malformed; zero-length shapes (lib zero_shapes + [3,0,2],[1,0,1],[0,3,1],[2,2,0,2]) through every op; arrays holding the zero tag in most positions (f64/f32 image -0.0, compared bit-wise); seeded random rank 2-4 with axis lengths <= 17 (thorough <= 40). EVERY case runs on Array<i64> (the compared answer), on the u8 and f64 (tag 0 = -0.0, bit-wise) images, one small case in three also on i8 / bool / String / f32, each on the plain receiver AND on Ok(array) through the Result-receiver impl, and the i64 call twice; any divergence fails the case. Tag arrays: shape and every element compared.  Part 2: seq lines (calls back to back on one thread: shapes colliding under weak hashes with equal element counts, permuted / regrouped shapes, all axis pairs of one shape, refused-then-valid, A-B-A), n lines (16384..140000 elements, axes above 65536) judged by the harness-native coordinate-formula reference, which is compared with the full model answer on every other case of the run (oracle_report lines); every axis length 1..300 in a non-leading position; shifts / turn counts / axes c+2^8, c+2^16, c+2^32; ranks 5-8 with axis / shift lists of 3-6 entries; implicit A-B-A re-runs in exec. non-trivial = >=2 axes longer than 1 (seq / n lines: some call of the line)" });
}
