//! C12 — flip, roll, rot90 as exact coordinate maps. Value protocol with tags.
//!
//! Every case is executed on the plain `Array<i64>` tag array (the answer compared with the model), on its `u8` and `f64`
//! (tag 0 = -0.0, bit-wise) images, for a share of the small cases also on `i8`, `bool`, `String`, `f32` (-0.0), every time on BOTH
//! receivers (`a.op(..)` and `Ok(a).op(..)` through `impl ArrayReorder for Result<Array<T>, ArrayError>`), and the i64 call is
//! repeated (same call twice).  Any divergence between element types / receivers / repetitions fails the case.
use arrharness::*;
use std::cell::RefCell;

// ---------------------------------------------------------------- cross-type / both-receiver plumbing (local copy, lib.rs is shared)

thread_local! { static NOTE: RefCell<Option<String>> = const { RefCell::new(None) }; }
fn note(s: String) { NOTE.with(|n| { let mut n = n.borrow_mut(); if n.is_none() { *n = Some(s); } }); }
fn take_note() -> Option<String> { NOTE.with(|n| n.borrow_mut().take()) }

/// tag -> element of every swept type (i64 / u8 / f64 agree with lib.rs `tag_u8`, `tag_f64z`)
trait Tagged: ArrayElement {
    const NAME: &'static str;
    fn of(t: i64) -> Self;
    fn same(a: &Self, b: &Self) -> bool { a == b }
}
impl Tagged for i64 { const NAME: &'static str = "i64"; fn of(t: i64) -> Self { t } }
impl Tagged for u8 { const NAME: &'static str = "u8"; fn of(t: i64) -> Self { tag_u8(t) } }
impl Tagged for i8 { const NAME: &'static str = "i8"; fn of(t: i64) -> Self { tag_i8(t) } }
impl Tagged for bool { const NAME: &'static str = "bool"; fn of(t: i64) -> Self { t % 2 != 0 } }
impl Tagged for String { const NAME: &'static str = "String"; fn of(t: i64) -> Self { format!("s{t}") } }
impl Tagged for f64 { const NAME: &'static str = "f64"; fn of(t: i64) -> Self { tag_f64z(t) } fn same(a: &Self, b: &Self) -> bool { a.to_bits() == b.to_bits() } }
impl Tagged for f32 { const NAME: &'static str = "f32"; fn of(t: i64) -> Self { if t == 0 { -0.0 } else { t as f32 } } fn same(a: &Self, b: &Self) -> bool { a.to_bits() == b.to_bits() } }

fn arr_of<T: Tagged>(s: &str) -> Array<T> { let (sh, e) = parse_arr_raw(s); Array::new(e.into_iter().map(T::of).collect(), sh).expect("harness: array literal") }

fn same_res<T: Tagged>(a: &Result<Array<T>, ArrayError>, b: &Result<Array<T>, ArrayError>) -> bool {
    match (a, b) {
        (Ok(a), Ok(b)) => a.get_shape().unwrap() == b.get_shape().unwrap() && { let (x, y) = (a.get_elements().unwrap(), b.get_elements().unwrap()); x.len() == y.len() && x.iter().zip(y.iter()).all(|(p, q)| T::same(p, q)) },
        (Err(a), Err(b)) => err_name(a) == err_name(b),
        _ => false,
    }
}
fn brief<T: Tagged>(r: &Result<Array<T>, ArrayError>) -> String { truncate(&res_arr(r), 200) }

/// plain receiver, then the same call on `Ok(array)`, then (i64 only) the plain call again; the plain answer is returned,
/// a divergence is left in NOTE (and fails the case)
fn rx<T: Tagged>(plain: impl Fn() -> Result<Array<T>, ArrayError>, chained: impl Fn() -> Result<Array<T>, ArrayError>) -> Result<Array<T>, ArrayError> {
    let p = plain();
    if let Ok(a) = &p { if !consistent(a) { note(format!("INCONSISTENT result on {}: {}", T::NAME, brief(&p))); } }
    match std::panic::catch_unwind(std::panic::AssertUnwindSafe(&chained)) {
        Ok(c) => if !same_res(&p, &c) { note(format!("RECEIVER-DIVERGENCE ({}) the call on Ok(array) gives `{}`, the plain call `{}`", T::NAME, brief(&c), brief(&p))); },
        Err(_) => note(format!("RECEIVER-DIVERGENCE ({}) the call on Ok(array) panics, the plain call gives `{}`", T::NAME, brief(&p))),
    }
    if T::NAME == "i64" { let p2 = plain(); if !same_res(&p, &p2) { note(format!("REPEAT-DIVERGENCE the same call twice: `{}` then `{}`", brief(&p), brief(&p2))); } }
    p
}

fn extra_arr<T: Tagged>(ri: &Result<Array<i64>, ArrayError>, rt: std::thread::Result<Result<Array<T>, ArrayError>>) -> Option<String> {
    let rt = match rt { Ok(r) => r, Err(_) => return Some(format!("the {} run panics", T::NAME)) };
    if ri.is_ok() != rt.is_ok() { return Some(format!("element type {} gives a different outcome class ({})", T::NAME, brief(&rt))); }
    if let (Ok(i), Ok(t)) = (ri, &rt) {
        let (ei, et) = (i.get_elements().unwrap(), t.get_elements().unwrap());
        if i.get_shape().unwrap() != t.get_shape().unwrap() || ei.len() != et.len() { return Some(format!("{} result has another shape: {}", T::NAME, brief(&rt))); }
        for p in 0..ei.len() { if !T::same(&et[p], &T::of(ei[p])) { return Some(format!("{} run differs at flat position {p}: {:?} instead of {:?}", T::NAME, et[p], T::of(ei[p]))); } }
    }
    None
}

macro_rules! at_type { ($T:ident, $ty:ty, $body:expr) => {{ #[allow(dead_code, non_camel_case_types)] type $T = $ty; std::panic::catch_unwind(std::panic::AssertUnwindSafe(|| $body)) }} }
/// `$body` (an expression in the element type alias `$T`, giving `Result<Array<$T>, ArrayError>`) on i64 / u8 / f64(-0.0) — the
/// comparison of lib.rs `cross_type_arr`, i.e. what `on_types_arr!` does — and, when `$more`, on i8 / bool / String / f32 too
macro_rules! sweep_arr { ($more:expr, |$T:ident| $body:expr) => {{
    let _ = take_note();
    let mut obs = match (at_type!($T, i64, $body), at_type!($T, u8, $body), at_type!($T, f64, $body)) {
        (Ok(ri), Ok(ru), Ok(rf)) => {
            let mut d = cross_type_arr(&ri, &ru, &rf);
            if d.is_none() && $more {
                d = extra_arr::<i8>(&ri, at_type!($T, i8, $body));
                if d.is_none() { d = extra_arr::<bool>(&ri, at_type!($T, bool, $body)); }
                if d.is_none() { d = extra_arr::<String>(&ri, at_type!($T, String, $body)); }
                if d.is_none() { d = extra_arr::<f32>(&ri, at_type!($T, f32, $body)); }
            }
            match d { None => res_arr(&ri), Some(d) => format!("TYPE-DIVERGENCE {d}; i64 run: {}", truncate(&res_arr(&ri), 300)) }
        }
        (Err(_), Err(_), Err(_)) => "panic".to_string(),
        (ri, ru, rf) => format!("TYPE-DIVERGENCE panic only for some element types (i64 {}, u8 {}, f64 {})", ri.is_err(), ru.is_err(), rf.is_err()),
    };
    if let Some(n) = take_note() { obs = format!("{n}; answer: {}", truncate(&obs, 300)); }
    obs
}} }

// ---------------------------------------------------------------- generator

fn spell(ax: usize, nd: usize, neg: bool) -> isize { if neg { ax as isize - nd as isize } else { ax as isize } }

/// shapes of the size stream: lib `big_shapes()` + matrices with both axes >= 8 (square, off by one, far from square, around the
/// 256 / 1024 / 4096 element marks) + the same lengths at rank 3 / 4 in every position + unit axes next to long ones
fn c12_big_shapes(thorough: bool) -> Vec<Vec<usize>> {
    let mut v = big_shapes();
    let more: Vec<Vec<usize>> = vec![
        vec![8, 8], vec![8, 9], vec![9, 8], vec![7, 8], vec![8, 7], vec![7, 9], vec![10, 13], vec![13, 10], vec![8, 16], vec![16, 8], vec![8, 17], vec![17, 8],
        vec![15, 16], vec![16, 15], vec![16, 16], vec![24, 9], vec![9, 24], vec![33, 8], vec![8, 33], vec![100, 9], vec![9, 100], vec![32, 32], vec![31, 33],
        vec![64, 64], vec![63, 65], vec![64, 65], vec![65, 64], vec![128, 33], vec![1, 300], vec![300, 1], vec![2, 2050], vec![2050, 2],
        vec![8, 9, 2], vec![2, 8, 9], vec![8, 2, 9], vec![9, 8, 10], vec![16, 17, 3], vec![3, 16, 17], vec![17, 3, 16], vec![8, 9, 1], vec![1, 8, 9], vec![8, 1, 9],
        vec![8, 8, 8, 8], vec![2, 9, 8, 2], vec![1, 9, 1, 8], vec![16, 17, 16], vec![2, 2, 2, 2, 2, 2, 2, 2, 2]];
    for s in more { if !v.contains(&s) { v.push(s); } }
    if thorough { for a in 7..=17usize { for b in 7..=17usize { let s = vec![a, b]; if !v.contains(&s) { v.push(s); } } }
        for s in [vec![70, 71], vec![71, 70], vec![9, 10, 11, 5], vec![4, 33, 32], vec![12, 12, 12, 3], vec![5000, 1], vec![1, 5000], vec![3, 1400], vec![100, 101], vec![20, 21, 22], vec![129, 64], vec![10000]] { if !v.contains(&s) { v.push(s); } } }
    v
}

/// array text with MANY zero tags (so the f64 image holds -0.0 in many places, the u8 image 0, bool false): every third tag kept
fn zeros_arr(s: &[usize]) -> String {
    let n: usize = s.iter().product();
    format!("{}:{}", show_list(s), show_list(&(0..n as i64).map(|i| if (i * 7 + 1) % 3 == 0 { i } else { 0 }).collect::<Vec<_>>()))
}

fn axis_pairs(nd: usize, heavy: bool) -> Vec<(usize, usize)> {
    let mut v = vec![];
    if nd < 2 { return vec![(0, 0)]; }
    if heavy { v.push((0, nd - 1)); v.push((nd - 1, 0)); if nd > 2 { v.push((1, 2)); v.push((nd - 1, 1)); } return v; }
    for i in 0..nd { for j in 0..nd { if i != j || i == 0 { v.push((i, j)); } } }
    v
}

fn gen_robust(a: &str, s: &[usize], heavy: bool, rng: &mut Rng, out: &mut dyn FnMut(String)) {
    let nd = s.len(); let n: usize = s.iter().product(); let ni = n as isize;
    out(format!("flip {a} none")); out(format!("flipud {a}")); out(format!("fliplr {a}"));
    for i in 0..nd { out(format!("flip {a} {}", spell(i, nd, i % 2 == 1))); }
    if nd >= 2 { out(format!("flip {a} {},{}", spell(nd - 1, nd, true), 0)); out(format!("flip {a} {}", show_list(&(0..nd as isize).collect::<Vec<_>>()))); out(format!("flip {a} 0,{}", -(nd as isize))); }
    for sh in [0, 1, -1, ni / 2, ni - 1, ni, ni + 1, -(ni + 3), 7, 1_000_003] { out(format!("roll {a} {sh} none")); }
    for i in 0..nd { let d = s[i] as isize;
        for (q, sh) in [1, -1, d - 1, d, d + 1, d / 2, -3 * d - 1, 7].into_iter().enumerate() { out(format!("roll {a} {sh} {}", spell(i, nd, q % 2 == 1))); } }
    if nd >= 2 {
        out(format!("roll {a} {},{} 0,{}", rng.range(-20, 20), rng.range(-20, 20), spell(nd - 1, nd, true)));
        out(format!("roll {a} {},{} {},{}", rng.range(-20, 20), rng.range(-20, 20), spell(1, nd, false), spell(1, nd, true)));
        out(format!("roll {a} {} {},0", rng.range(-20, 20), spell(nd - 1, nd, false)));
        out(format!("roll {a} 3,-5,9 {},{},{}", spell(0, nd, true), spell(nd - 1, nd, false), spell(0, nd, false)));
    }
    out(format!("roll {a} 2,3 none")); out(format!("roll {a} 1 {nd}")); out(format!("flip {a} {}", -(nd as isize) - 1));
    // rot90: every k = 0..7 for the ordered axis pairs (all of them below ~2000 elements, four of them above), both spellings
    let ks: Vec<usize> = if heavy { vec![1, 2, 3] } else { (0..8).collect() };
    for (q, (i, j)) in axis_pairs(nd, heavy).into_iter().enumerate() { for &k in &ks {
        out(format!("rot90 {a} {k} {},{}", spell(i, nd, (q + k) % 3 == 1), spell(j, nd, (q + k) % 2 == 1)));
    } }
    out(format!("rot90 {a} 1 0")); out(format!("rot90 {a} 1 0,{nd}")); out(format!("rot90 {a} 3 0,1,0"));
}

fn gen(tier: &str, seed: u64, out: &mut dyn FnMut(String)) {
    let thorough = tier == "thorough";
    let mut rng = Rng::new(seed);
    for l in ["flip i1,3,3 1", "flip i2,3,4 1", "roll i3 7 none", "roll i2,3,2 1 1", "roll i3 -7 0",
              // round-2 corpus: one axis under two spellings; -0.0 through an odd quarter turn; non-square matrices with both axes >= 8
              "roll i3 5 0,-1", "roll i2,5 1,2 1,-1", "rot90 2,3:0,1,0,2,0,3 1 0,1", "rot90 i8,9 1 0,1", "rot90 i9,8 1 0,1", "rot90 i10,13 3 1,0", "rot90 i13,10 1 -2,-1"] { out(l.to_string()); }
    let mut all = shapes(1, 4, 1, 3);
    all.extend(vec![vec![4], vec![2, 4], vec![5, 2], vec![2, 2, 4], vec![1, 4, 2, 2]]);
    for s in &all {
        let a = tag(s); let nd = s.len(); let n: usize = s.iter().product(); let ndi = nd as isize;
        out(format!("flip {a} none")); out(format!("flipud {a}")); out(format!("fliplr {a}"));
        for i in 0..nd { for neg in [false, true] { out(format!("flip {a} {}", spell(i, nd, neg))); } }
        for i in 0..nd { for j in 0..nd { out(format!("flip {a} {},{}", spell(i, nd, rng.below(2) == 0), spell(j, nd, rng.below(2) == 0))); } }
        if nd >= 3 { out(format!("flip {a} 0,1,2")); out(format!("flip {a} -1,0,1")); }
        for bad in [ndi, ndi + 1, -ndi - 1] { out(format!("flip {a} {bad}")); out(format!("roll {a} 1 {bad}")); }
        // roll along the flattened order: every shift in [-3n, 3n]
        let n3 = 3 * n as isize;
        let step = if thorough || n <= 9 { 1 } else { 1 + (n as isize) / 6 };
        let mut sh = -n3; while sh <= n3 { out(format!("roll {a} {sh} none")); sh += step; }
        out(format!("roll {a} {} none", n3 + 1000)); out(format!("roll {a} {} none", -n3 - 1001));
        // roll along every axis (both spellings): every shift in [-3d, 3d]
        for i in 0..nd { let d = s[i] as isize; for sh in (-3 * d)..=(3 * d) { for neg in [false, true] {
            if neg && !thorough && sh % 2 == 0 { continue; }
            out(format!("roll {a} {sh} {}", spell(i, nd, neg)));
        } } out(format!("roll {a} {} {i}", 3 * d + 100)); out(format!("roll {a} {} {i}", -3 * d - 101)); }
        // lists of several axes / shifts, incl. a repeated axis (shifts add up) and one shift for several axes
        for i in 0..nd { for j in 0..nd {
            out(format!("roll {a} {},{} {},{}", rng.range(-7, 7), rng.range(-7, 7), spell(i, nd, rng.below(2) == 0), spell(j, nd, rng.below(2) == 0)));
            out(format!("roll {a} {} {},{}", rng.range(-7, 7), i, spell(j, nd, true)));
        } }
        out(format!("roll {a} 1,2 none")); out(format!("roll {a} 1,2,3 0,0")); out(format!("roll {a} - 0"));
        // rot90: k = 0..7, every ordered pair of axes in both spellings
        for k in 0..8 { for i in 0..nd { for j in 0..nd { for m in 0..(if thorough { 4 } else { 2 }) {
            let (ni, nj) = if thorough { (m & 1 == 1, m & 2 == 2) } else { (m == 1, m == 1 && (i + j) % 2 == 0) };
            out(format!("rot90 {a} {k} {},{}", spell(i, nd, ni), spell(j, nd, nj)));
        } } } }
        out(format!("rot90 {a} 1 0")); out(format!("rot90 {a} 1 0,1,2")); out(format!("rot90 {a} 1 0,{ndi}")); out(format!("rot90 {a} 1 {},0", -ndi - 1));
    }
    // random beyond the scope: rank 5, lengths to 4
    for _ in 0..(if thorough { 4000 } else { 400 }) {
        let nd = 5; let s: Vec<usize> = (0..nd).map(|_| 1 + rng.below(4)).collect(); let a = tag(&s);
        let (i, j) = (rng.below(nd), rng.below(nd));
        match rng.below(3) {
            0 => out(format!("flip {a} {},{}", spell(i, nd, rng.below(2) == 0), spell(j, nd, rng.below(2) == 0))),
            1 => out(format!("roll {a} {},{} {},{}", rng.range(-15, 15), rng.range(-15, 15), spell(i, nd, rng.below(2) == 0), spell(j, nd, rng.below(2) == 0))),
            _ => out(format!("rot90 {a} {} {},{}", rng.below(8), spell(i, nd, rng.below(2) == 0), spell(j, nd, rng.below(2) == 0))),
        }
    }
    // ---- robustness streams (FRAMEWORK.md)
    // 1. sizes: axis lengths 7..17 in every position, matrices with both axes >= 8, element counts beyond 256 / 1024 / 4096
    for s in c12_big_shapes(thorough) { let n: usize = s.iter().product(); gen_robust(&tag(&s), &s, n >= 2000, &mut rng, out); }
    // 2. zero-length axes
    let mut zs = zero_shapes(); zs.extend([vec![3, 0, 2], vec![1, 0, 1], vec![0, 3, 1], vec![2, 2, 0, 2]]);
    for s in &zs { gen_robust(&tag(s), s, false, &mut rng, out); }
    // 3. value classes for the f64 / f32 / u8 / bool images: arrays holding the zero tag (-0.0, 0u8, false) in many positions
    let mut vs = shapes(1, 3, 1, 3); vs.extend([vec![4, 2], vec![8, 9], vec![9, 8], vec![10, 13], vec![2, 3, 4], vec![8, 8], vec![7, 1, 9]]);
    for s in &vs { gen_robust(&zeros_arr(s), s, false, &mut rng, out); }
    // 4./5. both receivers, the repeated call and the element types are applied by `exec` to EVERY case above
    // seeded random shapes with axis lengths up to 17 (thorough: up to 40), rank 2..4, at most ~3000 elements
    for _ in 0..(if thorough { 1200 } else { 120 }) {
        let nd = 2 + rng.below(3); let hi = if thorough && rng.below(4) == 0 { 40 } else { 17 };
        let mut s: Vec<usize> = (0..nd).map(|_| 1 + rng.below(hi)).collect();
        while s.iter().product::<usize>() > 3000 { let p = rng.below(nd); s[p] = 1 + s[p] / 2; }
        let a = tag(&s); let (i, j) = (rng.below(nd), rng.below(nd));
        match rng.below(4) {
            0 => out(format!("flip {a} {},{}", spell(i, nd, rng.below(2) == 0), spell(j, nd, rng.below(2) == 0))),
            1 => out(format!("roll {a} {},{} {},{}", rng.range(-50, 50), rng.range(-50, 50), spell(i, nd, rng.below(2) == 0), spell(j, nd, rng.below(2) == 0))),
            _ => out(format!("rot90 {a} {} {},{}", rng.below(8), spell(i, nd, rng.below(2) == 0), spell(j, nd, rng.below(2) == 0))),
        }
    }
}

// ---------------------------------------------------------------- executor

fn exec(op: &str, args: &[&str], expected: &str) -> Option<Verdict> {
    let src = *args.first()?;
    let optl = |s: &str| -> Option<Vec<isize>> { if s == "none" { None } else { Some(parse_isize_list(s)) } };
    // the four further element types: arrays of at most 600 elements, one case line in three
    let more = { let (sh, _) = parse_arr_raw(src); sh.iter().product::<usize>() <= 600 && args.iter().map(|a| a.len()).sum::<usize>() % 3 == 0 };
    let obs = match op {
        "flip" => { let ax = optl(args[1]); sweep_arr!(more, |T| { let a = arr_of::<T>(src); rx(|| a.flip(ax.clone()), || Ok(a.clone()).flip(ax.clone())) }) }
        "flipud" => sweep_arr!(more, |T| { let a = arr_of::<T>(src); rx(|| a.flipud(), || Ok(a.clone()).flipud()) }),
        "fliplr" => sweep_arr!(more, |T| { let a = arr_of::<T>(src); rx(|| a.fliplr(), || Ok(a.clone()).fliplr()) }),
        "roll" => { let sh = parse_isize_list(args[1]); let ax = optl(args[2]);
            sweep_arr!(more, |T| { let a = arr_of::<T>(src); rx(|| a.roll(sh.clone(), ax.clone()), || Ok(a.clone()).roll(sh.clone(), ax.clone())) }) }
        "rot90" => { let k: usize = args[1].parse().ok()?; let ax = parse_isize_list(args[2]);
            sweep_arr!(more, |T| { let a = arr_of::<T>(src); rx(|| a.rot90(k, ax.clone()), || Ok(a.clone()).rot90(k, ax.clone())) }) }
        _ => return None,
    };
    Some(compare_default(obs, expected))
}

fn nontrivial(_op: &str, args: &[&str]) -> bool { parse_arr_raw(args[0]).0.iter().filter(|&&d| d > 1).count() >= 2 }

fn main() {
    harness_main(Spec { prop: "C12", gen, exec, nontrivial, hang_secs: 20,
        rule: "every shape rank<=4 len<=3 (+ lengths 4-5): flip none / every axis +- / every ordered pair / triples; flipud, fliplr; roll along the flat order for shifts in [-3n,3n] (+ far beyond), along every axis +- for every shift in [-3d,3d] (+ far beyond), 2-element axis/shift lists incl. repeated axes and one shift for two axes; rot90 k=0..7 x every ordered axis pair in several spellings (incl. equal axes); out-of-range axes and malformed lists; seeded random rank 5 len<=4. Robustness streams: sizes (lib big_shapes + matrices with both axes >= 8: square, off by one, far from square, around 256/1024/4096 elements, up to [70,70]/[128,33]/[8,8,8,8]; the same lengths at rank 3-4 in every position; unit axes next to long ones; rank 9; thorough: every [a,b] with 7<=a,b<=17): flip none/every axis/lists, flipud/fliplr, roll flat and per axis for shifts around 0, d/2, d, beyond, lists with one axis under two spellings, rot90 k=0..7 x every ordered axis pair (>= 2000 elements: k=1,2,3 x four pairs), malformed; zero-length shapes (lib zero_shapes + [3,0,2],[1,0,1],[0,3,1],[2,2,0,2]) through every op; arrays holding the zero tag in most positions (f64/f32 image -0.0, compared bit-wise); seeded random rank 2-4 with axis lengths <= 17 (thorough <= 40). EVERY case runs on Array<i64> (the compared answer), on the u8 and f64 (tag 0 = -0.0, bit-wise) images, one small case in three also on i8 / bool / String / f32, each on the plain receiver AND on Ok(array) through the Result-receiver impl, and the i64 call twice; any divergence fails the case. Tag arrays: shape and every element compared. non-trivial = >=2 axes longer than 1" });
}
