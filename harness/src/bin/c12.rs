//! C12 — flip, roll, rot90 as exact coordinate maps. Value protocol with tags.
use arrharness::*;

fn spell(ax: usize, nd: usize, neg: bool) -> isize { if neg { ax as isize - nd as isize } else { ax as isize } }

fn gen(tier: &str, seed: u64, out: &mut dyn FnMut(String)) {
    let thorough = tier == "thorough";
    let mut rng = Rng::new(seed);
    for l in ["flip i1,3,3 1", "flip i2,3,4 1", "roll i3 7 none", "roll i2,3,2 1 1", "roll i3 -7 0"] { out(l.to_string()); }
    let mut all = shapes(1, 4, 1, 3);
    all.extend(vec![vec![4], vec![2, 4], vec![5, 2], vec![2, 2, 4], vec![1, 4, 2, 2]]);
    for s in &all {
        let a = tag(s); let nd = s.len(); let n: usize = s.iter().product(); let ndi = nd as isize;
        out(format!("flip {a} none")); out(format!("flipud {a}")); out(format!("fliplr {a}"));
        for i in 0..nd { for neg in [false, true] { out(format!("flip {a} {}", spell(i, nd, neg))); } }
        for i in 0..nd { for j in 0..nd { out(format!("flip {a} {},{}", spell(i, nd, rng.below(2) == 0), spell(j, nd, rng.below(2) == 0))); } }
        if nd >= 3 { out(format!("flip {a} 0,1,2")); out(format!("flip {a} -1,0,1")); }
        for bad in [ndi, ndi + 1, -ndi - 1] { out(format!("flip {a} {bad}")); out(format!("roll {a} 1 {bad}")); }
        // roll along the flattened order: every shift in [-3n, 3n]
        let n3 = 3 * n as isize;
        let step = if thorough || n <= 9 { 1 } else { 1 + (n as isize) / 6 };
        let mut sh = -n3; while sh <= n3 { out(format!("roll {a} {sh} none")); sh += step; }
        out(format!("roll {a} {} none", n3 + 1000)); out(format!("roll {a} {} none", -n3 - 1001));
        // roll along every axis (both spellings): every shift in [-3d, 3d]
        for i in 0..nd { let d = s[i] as isize; for sh in (-3 * d)..=(3 * d) { for neg in [false, true] {
            if neg && !thorough && sh % 2 == 0 { continue; }
            out(format!("roll {a} {sh} {}", spell(i, nd, neg)));
        } } out(format!("roll {a} {} {i}", 3 * d + 100)); out(format!("roll {a} {} {i}", -3 * d - 101)); }
        // lists of several axes / shifts, incl. a repeated axis (shifts add up) and one shift for several axes
        for i in 0..nd { for j in 0..nd {
            out(format!("roll {a} {},{} {},{}", rng.range(-7, 7), rng.range(-7, 7), spell(i, nd, rng.below(2) == 0), spell(j, nd, rng.below(2) == 0)));
            out(format!("roll {a} {} {},{}", rng.range(-7, 7), i, spell(j, nd, true)));
        } }
        out(format!("roll {a} 1,2 none")); out(format!("roll {a} 1,2,3 0,0")); out(format!("roll {a} - 0"));
        // rot90: k = 0..7, every ordered pair of axes in both spellings
        for k in 0..8 { for i in 0..nd { for j in 0..nd { for m in 0..(if thorough { 4 } else { 2 }) {
            let (ni, nj) = if thorough { (m & 1 == 1, m & 2 == 2) } else { (m == 1, m == 1 && (i + j) % 2 == 0) };
            out(format!("rot90 {a} {k} {},{}", spell(i, nd, ni), spell(j, nd, nj)));
        } } } }
        out(format!("rot90 {a} 1 0")); out(format!("rot90 {a} 1 0,1,2")); out(format!("rot90 {a} 1 0,{ndi}")); out(format!("rot90 {a} 1 {},0", -ndi - 1));
    }
    // random beyond the scope: rank 5, lengths to 4
    for _ in 0..(if thorough { 4000 } else { 400 }) {
        let nd = 5; let s: Vec<usize> = (0..nd).map(|_| 1 + rng.below(4)).collect(); let a = tag(&s);
        let (i, j) = (rng.below(nd), rng.below(nd));
        match rng.below(3) {
            0 => out(format!("flip {a} {},{}", spell(i, nd, rng.below(2) == 0), spell(j, nd, rng.below(2) == 0))),
            1 => out(format!("roll {a} {},{} {},{}", rng.range(-15, 15), rng.range(-15, 15), spell(i, nd, rng.below(2) == 0), spell(j, nd, rng.below(2) == 0))),
            _ => out(format!("rot90 {a} {} {},{}", rng.below(8), spell(i, nd, rng.below(2) == 0), spell(j, nd, rng.below(2) == 0))),
        }
    }
}

fn exec(op: &str, args: &[&str], expected: &str) -> Option<Verdict> {
    let a = parse_arr_i64(args[0]);
    let optl = |s: &str| -> Option<Vec<isize>> { if s == "none" { None } else { Some(parse_isize_list(s)) } };
    let obs = match op {
        "flip" => { let ax = optl(args[1]); guarded(|| res_arr(&a.flip(ax.clone()))) }
        "flipud" => guarded(|| res_arr(&a.flipud())),
        "fliplr" => guarded(|| res_arr(&a.fliplr())),
        "roll" => { let sh = parse_isize_list(args[1]); let ax = optl(args[2]); guarded(|| res_arr(&a.roll(sh.clone(), ax.clone()))) }
        "rot90" => { let k: usize = args[1].parse().ok()?; let ax = parse_isize_list(args[2]); guarded(|| res_arr(&a.rot90(k, ax.clone()))) }
        _ => return None,
    };
    Some(compare_default(obs, expected))
}

fn nontrivial(_op: &str, args: &[&str]) -> bool { parse_arr_raw(args[0]).0.iter().filter(|&&d| d > 1).count() >= 2 }

fn main() {
    harness_main(Spec { prop: "C12", gen, exec, nontrivial, hang_secs: 20,
        rule: "every shape rank<=4 len<=3 (+ lengths 4-5): flip none / every axis +- / every ordered pair / triples; flipud, fliplr; roll along the flat order for shifts in [-3n,3n] (+ far beyond), along every axis +- for every shift in [-3d,3d] (+ far beyond), 2-element axis/shift lists incl. repeated axes and one shift for two axes; rot90 k=0..7 x every ordered axis pair in several spellings (incl. equal axes); out-of-range axes and malformed lists; seeded random rank 5 len<=4. Tag arrays: shape and every element compared. non-trivial = >=2 axes longer than 1" });
}
