//! C12 — flip, roll, rot90 as exact coordinate maps. Value protocol with tags.
//!
//! Every case is executed on the plain `Array<i64>` tag array (the answer compared with the model), on its `u8` and `f64`
//! (tag 0 = -0.0, bit-wise) images, for a share of the small cases also on `i8`, `bool`, `String`, `f32` (-0.0), every time on BOTH
//! receivers (`a.op(..)` and `Ok(a).op(..)` through `impl ArrayReorder for Result<Array<T>, ArrayError>`), and the i64 call is
//! repeated (same call twice).  Any divergence between element types / receivers / repetitions fails the case.
//!
//! Robustness streams, part 2: `seq call / call / …` lines run several calls back to back on the executing thread (hidden state:
//! shapes that collide under weak hashes with EQUAL element counts, permuted / regrouped shapes, all axis pairs of one shape, a
//! refused call followed by a valid one, A–B–A); `n call…` lines are huge arrays (16 384 … 140 000 elements) judged by the
//! harness-native coordinate-formula reference `oracle`, which is compared with the full model answer on EVERY other case of the
//! run (counted in the `oracle_report` lines); `exec` additionally re-runs the previous case after a share of the cases (implicit
//! A–B–A) and demands the identical answer.
//!
//! Robustness streams, part 3: `n call iota:<shape> …` lines are GIANT arrays (2^20 < count <= 2.2·10^6, built by the harness, never
//! formatted) judged in place by the same native reference on the i64 tags, the u8 image on `Ok(array)` and one further image
//! (12-byte / 3-byte tuples, an all-zero f64 array with both signs, a user type whose `==` is always true); `v call` lines and a
//! share of all ordinary cases run the VALUE-RELATION and LAYOUT images of the tag array (all elements `==` but not identical:
//! f64 / f32 / Tuple2 / List made of 0.0 and -0.0 only, the user type `AllEq`; Tuple3<i32,i32,i32>, Tuple3<u8,u8,u8>,
//! Tuple2<String,i32>) on both receivers; shifts / turn counts near k·2^64/stride.
use arrharness::*;
use std::cell::RefCell;

// ---------------------------------------------------------------- cross-type / both-receiver plumbing (local copy, lib.rs is shared)

thread_local! { static NOTE: RefCell<Option<String>> = const { RefCell::new(None) }; }
fn note(s: String) { NOTE.with(|n| { let mut n = n.borrow_mut(); if n.is_none() { *n = Some(s); } }); }
fn take_note() -> Option<String> { NOTE.with(|n| n.borrow_mut().take()) }

/// tag -> element of every swept type (i64 / u8 / f64 agree with lib.rs `tag_u8`, `tag_f64z`)
trait Tagged: ArrayElement {
    const NAME: &'static str;
    fn of(t: i64) -> Self;
    fn same(a: &Self, b: &Self) -> bool { a == b }
}
impl Tagged for i64 { const NAME: &'static str = "i64"; fn of(t: i64) -> Self { t } }
impl Tagged for u8 { const NAME: &'static str = "u8"; fn of(t: i64) -> Self { tag_u8(t) } }
impl Tagged for i8 { const NAME: &'static str = "i8"; fn of(t: i64) -> Self { tag_i8(t) } }
impl Tagged for bool { const NAME: &'static str = "bool"; fn of(t: i64) -> Self { t % 2 != 0 } }
impl Tagged for String { const NAME: &'static str = "String"; fn of(t: i64) -> Self { format!("s{t}") } }
impl Tagged for f64 { const NAME: &'static str = "f64"; fn of(t: i64) -> Self { tag_f64z(t) } fn same(a: &Self, b: &Self) -> bool { a.to_bits() == b.to_bits() } }
impl Tagged for f32 { const NAME: &'static str = "f32"; fn of(t: i64) -> Self { if t == 0 { -0.0 } else { t as f32 } } fn same(a: &Self, b: &Self) -> bool { a.to_bits() == b.to_bits() } }

fn arr_of<T: Tagged>(s: &str) -> Array<T> { let (sh, e) = parse_arr_raw(s); Array::new(e.into_iter().map(T::of).collect(), sh).expect("harness: array literal") }

fn same_res<T: Tagged>(a: &Result<Array<T>, ArrayError>, b: &Result<Array<T>, ArrayError>) -> bool {
    match (a, b) {
        (Ok(a), Ok(b)) => a.get_shape().unwrap() == b.get_shape().unwrap() && { let (x, y) = (a.get_elements().unwrap(), b.get_elements().unwrap()); x.len() == y.len() && x.iter().zip(y.iter()).all(|(p, q)| T::same(p, q)) },
        (Err(a), Err(b)) => err_name(a) == err_name(b),
        _ => false,
    }
}
fn brief<T: Tagged>(r: &Result<Array<T>, ArrayError>) -> String { truncate(&res_arr(r), 200) }

/// plain receiver, then the same call on `Ok(array)`, then (i64 only) the plain call again; the plain answer is returned,
/// a divergence is left in NOTE (and fails the case)
fn rx<T: Tagged>(plain: impl Fn() -> Result<Array<T>, ArrayError>, chained: impl Fn() -> Result<Array<T>, ArrayError>) -> Result<Array<T>, ArrayError> {
    let p = plain();
    if let Ok(a) = &p { if !consistent(a) { note(format!("INCONSISTENT result on {}: {}", T::NAME, brief(&p))); } }
    match std::panic::catch_unwind(std::panic::AssertUnwindSafe(&chained)) {
        Ok(c) => if !same_res(&p, &c) { note(format!("RECEIVER-DIVERGENCE ({}) the call on Ok(array) gives `{}`, the plain call `{}`", T::NAME, brief(&c), brief(&p))); },
        Err(_) => note(format!("RECEIVER-DIVERGENCE ({}) the call on Ok(array) panics, the plain call gives `{}`", T::NAME, brief(&p))),
    }
    if T::NAME == "i64" { let p2 = plain(); if !same_res(&p, &p2) { note(format!("REPEAT-DIVERGENCE the same call twice: `{}` then `{}`", brief(&p), brief(&p2))); } }
    p
}

fn extra_arr<T: Tagged>(ri: &Result<Array<i64>, ArrayError>, rt: std::thread::Result<Result<Array<T>, ArrayError>>) -> Option<String> {
    let rt = match rt { Ok(r) => r, Err(_) => return Some(format!("the {} run panics", T::NAME)) };
    if ri.is_ok() != rt.is_ok() { return Some(format!("element type {} gives a different outcome class ({})", T::NAME, brief(&rt))); }
    if let (Ok(i), Ok(t)) = (ri, &rt) {
        let (ei, et) = (i.get_elements().unwrap(), t.get_elements().unwrap());
        if i.get_shape().unwrap() != t.get_shape().unwrap() || ei.len() != et.len() { return Some(format!("{} result has another shape: {}", T::NAME, brief(&rt))); }
        for p in 0..ei.len() { if !T::same(&et[p], &T::of(ei[p])) { return Some(format!("{} run differs at flat position {p}: {:?} instead of {:?}", T::NAME, et[p], T::of(ei[p]))); } }
    }
    None
}

macro_rules! at_type { ($T:ident, $ty:ty, $body:expr) => {{ #[allow(dead_code, non_camel_case_types)] type $T = $ty; std::panic::catch_unwind(std::panic::AssertUnwindSafe(|| $body)) }} }
/// `$body` (an expression in the element type alias `$T`, giving `Result<Array<$T>, ArrayError>`) on i64 / u8 / f64(-0.0) — the
/// comparison of lib.rs `cross_type_arr`, i.e. what `on_types_arr!` does — and, when `$more`, on i8 / bool / String / f32 too
macro_rules! sweep_arr { ($more:expr, |$T:ident| $body:expr) => {{
    let _ = take_note();
    let mut obs = match (at_type!($T, i64, $body), at_type!($T, u8, $body), at_type!($T, f64, $body)) {
        (Ok(ri), Ok(ru), Ok(rf)) => {
            let mut d = cross_type_arr(&ri, &ru, &rf);
            if d.is_none() && $more {
                d = extra_arr::<i8>(&ri, at_type!($T, i8, $body));
                if d.is_none() { d = extra_arr::<bool>(&ri, at_type!($T, bool, $body)); }
                if d.is_none() { d = extra_arr::<String>(&ri, at_type!($T, String, $body)); }
                if d.is_none() { d = extra_arr::<f32>(&ri, at_type!($T, f32, $body)); }
            }
            match d { None => res_arr(&ri), Some(d) => format!("TYPE-DIVERGENCE {d}; i64 run: {}", truncate(&res_arr(&ri), 300)) }
        }
        (Err(_), Err(_), Err(_)) => "panic".to_string(),
        (ri, ru, rf) => format!("TYPE-DIVERGENCE panic only for some element types (i64 {}, u8 {}, f64 {})", ri.is_err(), ru.is_err(), rf.is_err()),
    };
    if let Some(n) = take_note() { obs = format!("{n}; answer: {}", truncate(&obs, 300)); }
    obs
}} }

// ---------------------------------------------------------------- generator

fn spell(ax: usize, nd: usize, neg: bool) -> isize { if neg { ax as isize - nd as isize } else { ax as isize } }

/// shapes of the size stream: lib `big_shapes()` + matrices with both axes >= 8 (square, off by one, far from square, around the
/// 256 / 1024 / 4096 element marks) + the same lengths at rank 3 / 4 in every position + unit axes next to long ones
fn c12_big_shapes(thorough: bool) -> Vec<Vec<usize>> {
    let mut v = big_shapes();
    let more: Vec<Vec<usize>> = vec![
        vec![8, 8], vec![8, 9], vec![9, 8], vec![7, 8], vec![8, 7], vec![7, 9], vec![10, 13], vec![13, 10], vec![8, 16], vec![16, 8], vec![8, 17], vec![17, 8],
        vec![15, 16], vec![16, 15], vec![16, 16], vec![24, 9], vec![9, 24], vec![33, 8], vec![8, 33], vec![100, 9], vec![9, 100], vec![32, 32], vec![31, 33],
        vec![64, 64], vec![63, 65], vec![64, 65], vec![65, 64], vec![128, 33], vec![1, 300], vec![300, 1], vec![2, 2050], vec![2050, 2],
        vec![8, 9, 2], vec![2, 8, 9], vec![8, 2, 9], vec![9, 8, 10], vec![16, 17, 3], vec![3, 16, 17], vec![17, 3, 16], vec![8, 9, 1], vec![1, 8, 9], vec![8, 1, 9],
        vec![8, 8, 8, 8], vec![2, 9, 8, 2], vec![1, 9, 1, 8], vec![16, 17, 16], vec![2, 2, 2, 2, 2, 2, 2, 2, 2]];
    for s in more { if !v.contains(&s) { v.push(s); } }
    if thorough { for a in 7..=17usize { for b in 7..=17usize { let s = vec![a, b]; if !v.contains(&s) { v.push(s); } } }
        for s in [vec![70, 71], vec![71, 70], vec![9, 10, 11, 5], vec![4, 33, 32], vec![12, 12, 12, 3], vec![5000, 1], vec![1, 5000], vec![3, 1400], vec![100, 101], vec![20, 21, 22], vec![129, 64], vec![10000]] { if !v.contains(&s) { v.push(s); } } }
    v
}

/// array text with MANY zero tags (so the f64 image holds -0.0 in many places, the u8 image 0, bool false): every third tag kept
fn zeros_arr(s: &[usize]) -> String {
    let n: usize = s.iter().product();
    format!("{}:{}", show_list(s), show_list(&(0..n as i64).map(|i| if (i * 7 + 1) % 3 == 0 { i } else { 0 }).collect::<Vec<_>>()))
}

fn axis_pairs(nd: usize, heavy: bool) -> Vec<(usize, usize)> {
    let mut v = vec![];
    if nd < 2 { return vec![(0, 0)]; }
    if heavy { v.push((0, nd - 1)); v.push((nd - 1, 0)); if nd > 2 { v.push((1, 2)); v.push((nd - 1, 1)); } return v; }
    for i in 0..nd { for j in 0..nd { if i != j || i == 0 { v.push((i, j)); } } }
    v
}

fn gen_robust(a: &str, s: &[usize], heavy: bool, rng: &mut Rng, out: &mut dyn FnMut(String)) {
    let nd = s.len(); let n: usize = s.iter().product(); let ni = n as isize;
    out(format!("flip {a} none")); out(format!("flipud {a}")); out(format!("fliplr {a}"));
    for i in 0..nd { out(format!("flip {a} {}", spell(i, nd, i % 2 == 1))); }
    if nd >= 2 { out(format!("flip {a} {},{}", spell(nd - 1, nd, true), 0)); out(format!("flip {a} {}", show_list(&(0..nd as isize).collect::<Vec<_>>()))); out(format!("flip {a} 0,{}", -(nd as isize))); }
    for sh in [0, 1, -1, ni / 2, ni - 1, ni, ni + 1, -(ni + 3), 7, 1_000_003] { out(format!("roll {a} {sh} none")); }
    for i in 0..nd { let d = s[i] as isize;
        for (q, sh) in [1, -1, d - 1, d, d + 1, d / 2, -3 * d - 1, 7].into_iter().enumerate() { out(format!("roll {a} {sh} {}", spell(i, nd, q % 2 == 1))); } }
    if nd >= 2 {
        out(format!("roll {a} {},{} 0,{}", rng.range(-20, 20), rng.range(-20, 20), spell(nd - 1, nd, true)));
        out(format!("roll {a} {},{} {},{}", rng.range(-20, 20), rng.range(-20, 20), spell(1, nd, false), spell(1, nd, true)));
        out(format!("roll {a} {} {},0", rng.range(-20, 20), spell(nd - 1, nd, false)));
        out(format!("roll {a} 3,-5,9 {},{},{}", spell(0, nd, true), spell(nd - 1, nd, false), spell(0, nd, false)));
    }
    out(format!("roll {a} 2,3 none")); out(format!("roll {a} 1 {nd}")); out(format!("flip {a} {}", -(nd as isize) - 1));
    // rot90: every k = 0..7 for the ordered axis pairs (all of them below ~2000 elements, four of them above), both spellings
    let ks: Vec<usize> = if heavy { vec![1, 2, 3] } else { (0..8).collect() };
    for (q, (i, j)) in axis_pairs(nd, heavy).into_iter().enumerate() { for &k in &ks {
        out(format!("rot90 {a} {k} {},{}", spell(i, nd, (q + k) % 3 == 1), spell(j, nd, (q + k) % 2 == 1)));
    } }
    out(format!("rot90 {a} 1 0")); out(format!("rot90 {a} 1 0,{nd}")); out(format!("rot90 {a} 3 0,1,0"));
}

fn gen(tier: &str, seed: u64, out: &mut dyn FnMut(String)) {
    let thorough = tier == "thorough";
    let mut rng = Rng::new(seed);
    for l in ["flip i1,3,3 1", "flip i2,3,4 1", "roll i3 7 none", "roll i2,3,2 1 1", "roll i3 -7 0",
              // round-2 corpus: one axis under two spellings; -0.0 through an odd quarter turn; non-square matrices with both axes >= 8
              "roll i3 5 0,-1", "roll i2,5 1,2 1,-1", "rot90 2,3:0,1,0,2,0,3 1 0,1", "rot90 i8,9 1 0,1", "rot90 i9,8 1 0,1", "rot90 i10,13 3 1,0", "rot90 i13,10 1 -2,-1",
              // round-4 corpus: all elements `==` but not identical (zeros of both signs: the `v` images); a quarter turn of more than 2^20 elements
              "v roll i3 1 0", "v roll 2,2:0,1,1,1 -1 none", "v roll 1,2,2:0,1,0,1 7 -1", "n rot90 iota:3,400001 1 0,1"] { out(l.to_string()); }
    let mut all = shapes(1, 4, 1, 3);
    all.extend(vec![vec![4], vec![2, 4], vec![5, 2], vec![2, 2, 4], vec![1, 4, 2, 2]]);
    for s in &all {
        let a = tag(s); let nd = s.len(); let n: usize = s.iter().product(); let ndi = nd as isize;
        out(format!("flip {a} none")); out(format!("flipud {a}")); out(format!("fliplr {a}"));
        for i in 0..nd { for neg in [false, true] { out(format!("flip {a} {}", spell(i, nd, neg))); } }
        for i in 0..nd { for j in 0..nd { out(format!("flip {a} {},{}", spell(i, nd, rng.below(2) == 0), spell(j, nd, rng.below(2) == 0))); } }
        if nd >= 3 { out(format!("flip {a} 0,1,2")); out(format!("flip {a} -1,0,1")); }
        for bad in [ndi, ndi + 1, -ndi - 1] { out(format!("flip {a} {bad}")); out(format!("roll {a} 1 {bad}")); }
        // roll along the flattened order: every shift in [-3n, 3n]
        let n3 = 3 * n as isize;
        let step = if thorough || n <= 9 { 1 } else { 1 + (n as isize) / 6 };
        let mut sh = -n3; while sh <= n3 { out(format!("roll {a} {sh} none")); sh += step; }
        out(format!("roll {a} {} none", n3 + 1000)); out(format!("roll {a} {} none", -n3 - 1001));
        // roll along every axis (both spellings): every shift in [-3d, 3d]
        for i in 0..nd { let d = s[i] as isize; for sh in (-3 * d)..=(3 * d) { for neg in [false, true] {
            if neg && !thorough && sh % 2 == 0 { continue; }
            out(format!("roll {a} {sh} {}", spell(i, nd, neg)));
        } } out(format!("roll {a} {} {i}", 3 * d + 100)); out(format!("roll {a} {} {i}", -3 * d - 101)); }
        // lists of several axes / shifts, incl. a repeated axis (shifts add up) and one shift for several axes
        for i in 0..nd { for j in 0..nd {
            out(format!("roll {a} {},{} {},{}", rng.range(-7, 7), rng.range(-7, 7), spell(i, nd, rng.below(2) == 0), spell(j, nd, rng.below(2) == 0)));
            out(format!("roll {a} {} {},{}", rng.range(-7, 7), i, spell(j, nd, true)));
        } }
        out(format!("roll {a} 1,2 none")); out(format!("roll {a} 1,2,3 0,0")); out(format!("roll {a} - 0"));
        // rot90: k = 0..7, every ordered pair of axes in both spellings
        for k in 0..8 { for i in 0..nd { for j in 0..nd { for m in 0..(if thorough { 4 } else { 2 }) {
            let (ni, nj) = if thorough { (m & 1 == 1, m & 2 == 2) } else { (m == 1, m == 1 && (i + j) % 2 == 0) };
            out(format!("rot90 {a} {k} {},{}", spell(i, nd, ni), spell(j, nd, nj)));
        } } } }
        out(format!("rot90 {a} 1 0")); out(format!("rot90 {a} 1 0,1,2")); out(format!("rot90 {a} 1 0,{ndi}")); out(format!("rot90 {a} 1 {},0", -ndi - 1));
    }
    // random beyond the scope: rank 5, lengths to 4
    for _ in 0..(if thorough { 4000 } else { 400 }) {
        let nd = 5; let s: Vec<usize> = (0..nd).map(|_| 1 + rng.below(4)).collect(); let a = tag(&s);
        let (i, j) = (rng.below(nd), rng.below(nd));
        match rng.below(3) {
            0 => out(format!("flip {a} {},{}", spell(i, nd, rng.below(2) == 0), spell(j, nd, rng.below(2) == 0))),
            1 => out(format!("roll {a} {},{} {},{}", rng.range(-15, 15), rng.range(-15, 15), spell(i, nd, rng.below(2) == 0), spell(j, nd, rng.below(2) == 0))),
            _ => out(format!("rot90 {a} {} {},{}", rng.below(8), spell(i, nd, rng.below(2) == 0), spell(j, nd, rng.below(2) == 0))),
        }
    }
    // ---- robustness streams (FRAMEWORK.md)
    // 1. sizes: axis lengths 7..17 in every position, matrices with both axes >= 8, element counts beyond 256 / 1024 / 4096
    for s in c12_big_shapes(thorough) { let n: usize = s.iter().product(); gen_robust(&tag(&s), &s, n >= 2000, &mut rng, out); }
    // 2. zero-length axes
    let mut zs = zero_shapes(); zs.extend([vec![3, 0, 2], vec![1, 0, 1], vec![0, 3, 1], vec![2, 2, 0, 2]]);
    for s in &zs { gen_robust(&tag(s), s, false, &mut rng, out); }
    // 3. value classes for the f64 / f32 / u8 / bool images: arrays holding the zero tag (-0.0, 0u8, false) in many positions
    let mut vs = shapes(1, 3, 1, 3); vs.extend([vec![4, 2], vec![8, 9], vec![9, 8], vec![10, 13], vec![2, 3, 4], vec![8, 8], vec![7, 1, 9]]);
    for s in &vs { gen_robust(&zeros_arr(s), s, false, &mut rng, out); }
    // 4./5. both receivers, the repeated call and the element types are applied by `exec` to EVERY case above
    // seeded random shapes with axis lengths up to 17 (thorough: up to 40), rank 2..4, at most ~3000 elements
    for _ in 0..(if thorough { 1200 } else { 120 }) {
        let nd = 2 + rng.below(3); let hi = if thorough && rng.below(4) == 0 { 40 } else { 17 };
        let mut s: Vec<usize> = (0..nd).map(|_| 1 + rng.below(hi)).collect();
        while s.iter().product::<usize>() > 3000 { let p = rng.below(nd); s[p] = 1 + s[p] / 2; }
        let a = tag(&s); let (i, j) = (rng.below(nd), rng.below(nd));
        match rng.below(4) {
            0 => out(format!("flip {a} {},{}", spell(i, nd, rng.below(2) == 0), spell(j, nd, rng.below(2) == 0))),
            1 => out(format!("roll {a} {},{} {},{}", rng.range(-50, 50), rng.range(-50, 50), spell(i, nd, rng.below(2) == 0), spell(j, nd, rng.below(2) == 0))),
            _ => out(format!("rot90 {a} {} {},{}", rng.below(8), spell(i, nd, rng.below(2) == 0), spell(j, nd, rng.below(2) == 0))),
        }
    }
    // ---- robustness streams, part 2: hidden state, huge sizes, exact lengths and values, long lists and high ranks
    gen_part2(thorough, &mut rng, out);
    // ---- robustness streams, part 3: giant sizes, element layouts, value relations, shifts whose stride product wraps
    gen_part3(thorough, &mut rng, out);
    out("oracle_report final".to_string());
}


// ---------------------------------------------------------------- robustness streams, part 2 (generator)

fn seq(calls: &[String]) -> String { format!("seq {}", calls.join(" / ")) }

/// pairs of DIFFERENT shapes with the SAME element count that collide under `h = h*m + dim` (any start value, also when the rank is
/// hashed first and an axis list afterwards): [a, m(a+t)] and [a+t, m*a]; with a common leading / trailing axis for rank 3
fn equal_count_collisions(thorough: bool) -> Vec<(Vec<usize>, Vec<usize>, usize)> {
    let mut v = vec![];
    for &m in &[31usize, 33, 37, 131, 257] {
        for (a, t) in [(1usize, 1usize), (2, 1), (1, 2), (3, 1), (2, 3)] {
            if m * a * (a + t) > (if thorough { 8000 } else { 2400 }) { continue; }
            v.push((vec![a, m * (a + t)], vec![a + t, m * a], 0));
            if m <= 37 || thorough {
                v.push((vec![2, a, m * (a + t)], vec![2, a + t, m * a], 1));
                v.push((vec![a, m * (a + t), 2], vec![a + t, m * a, 2], 0));
            }
        }
        // the rank-3 family of the other neighbouring pair: [p, 2, m] and [p, 1, 2m]
        v.push((vec![3, 2, m], vec![3, 1, 2 * m], 1));
    }
    v
}

fn gen_part2(thorough: bool, rng: &mut Rng, out: &mut dyn FnMut(String)) {
    out("oracle_report".to_string());
    // ---- 6a. hidden state: colliding shapes with equal element counts, back to back, both orders, through every operation that could
    // memoise a plan per shape (the odd quarter turns transpose; flip / roll cut the flat vector by the shape)
    for (sa, sb, i) in equal_count_collisions(thorough) {
        let (a, b, j) = (tag(&sa), tag(&sb), i + 1);
        for (x, y) in [(&a, &b), (&b, &a)] {
            out(seq(&[format!("rot90 {x} 1 {i},{j}"), format!("rot90 {y} 1 {i},{j}"), format!("rot90 {x} 1 {i},{j}")]));
            out(seq(&[format!("rot90 {x} 3 {j},{i}"), format!("rot90 {y} 3 {j},{i}"), format!("rot90 {y} 2 {i},{j}"), format!("rot90 {x} 2 {i},{j}")]));
            out(seq(&[format!("flip {x} {j}"), format!("flip {y} {j}"), format!("roll {x} 3 {j}"), format!("roll {y} 3 {j}"), format!("flip {x} {i}"), format!("flip {y} {i}"), format!("roll {x} 1 {i}"), format!("roll {y} 1 {i}")]));
        }
    }
    // lib pairs (different element counts, multipliers 31, 33, 37, 131, 257): the order alternates (thorough: both orders)
    for (q, (sa, sb)) in collision_shape_pairs().into_iter().enumerate() {
        let i = if sa.len() == 3 && sa[0] == 2 && sb[0] == 2 && sa[2] != 2 { 1 } else { 0 }; let j = i + 1;
        let (a, b) = (tag(&sa), tag(&sb));
        let orders: Vec<(&String, &String)> = if thorough { vec![(&a, &b), (&b, &a)] } else if q % 2 == 0 { vec![(&a, &b)] } else { vec![(&b, &a)] };
        for (x, y) in orders {
            out(seq(&[format!("rot90 {x} 1 {i},{j}"), format!("rot90 {y} 1 {i},{j}"), format!("rot90 {x} 3 {i},{j}")]));
            if q % 3 == 0 || thorough { out(seq(&[format!("flip {x} {j}"), format!("flip {y} {j}"), format!("roll {x} 2 {j}"), format!("roll {y} 2 {j}"), format!("roll {x} 1 {i}"), format!("roll {y} 1 {i}")])); }
        }
    }
    // ---- 6b. permuted and regrouped shapes with equal element counts in ONE sequence (keys that only hash the element count, the sum,
    // the product or the xor of the extents), forwards and backwards; all ordered axis pairs of one shape (keys that ignore the axes)
    for group in [vec![vec![2usize, 6], vec![3, 4], vec![4, 3], vec![6, 2], vec![12, 1], vec![1, 12]], vec![vec![8, 9], vec![9, 8], vec![6, 12], vec![12, 6], vec![3, 24], vec![72, 1]],
                  vec![vec![2, 3, 4], vec![4, 3, 2], vec![3, 2, 4], vec![2, 4, 3], vec![4, 2, 3], vec![3, 4, 2], vec![2, 2, 6], vec![6, 2, 2]], vec![vec![16, 17], vec![17, 16], vec![8, 34], vec![34, 8], vec![4, 68], vec![2, 136]],
                  vec![vec![1, 2, 3, 4], vec![4, 3, 2, 1], vec![2, 1, 4, 3], vec![3, 4, 1, 2], vec![2, 2, 2, 3]]] {
        for rev in [false, true] {
            let mut g = group.clone(); if rev { g.reverse(); }
            let nd = g[0].len();
            for k in [1usize, 3] { out(seq(&g.iter().map(|s| format!("rot90 {} {k} {},{}", tag(s), nd - 2, nd - 1)).collect::<Vec<_>>())); }
            out(seq(&g.iter().map(|s| format!("rot90 {} 1 {},0", tag(s), nd - 1)).collect::<Vec<_>>()));
            out(seq(&g.iter().map(|s| format!("flip {} {}", tag(s), nd - 1)).collect::<Vec<_>>()));
            out(seq(&g.iter().map(|s| format!("roll {} 5 {}", tag(s), nd - 2)).collect::<Vec<_>>()));
            out(seq(&g.iter().map(|s| format!("roll {} 5 none", tag(s))).collect::<Vec<_>>()));
        }
    }
    for s in [vec![3usize, 3, 3], vec![2, 2, 2, 2], vec![4, 4], vec![2, 3, 2, 3], vec![5, 5, 5], vec![2, 2, 2, 2, 2]] {
        let nd = s.len(); let a = tag(&s);
        let pairs: Vec<(usize, usize)> = (0..nd).flat_map(|i| (0..nd).map(move |j| (i, j))).filter(|(i, j)| i != j).collect();
        for k in [1usize, 3] {
            out(seq(&pairs.iter().map(|(i, j)| format!("rot90 {a} {k} {i},{j}")).collect::<Vec<_>>()));
            out(seq(&pairs.iter().rev().map(|(i, j)| format!("rot90 {a} {k} {},{}", spell(*i, nd, true), j)).collect::<Vec<_>>()));
        }
        out(seq(&(0..nd).map(|i| format!("flip {a} {i}")).chain((0..nd).rev().map(|i| format!("roll {a} 1 {i}"))).collect::<Vec<_>>()));
    }
    // ---- 6c. a refused call directly followed by valid calls on the same thread: the invalid entry of the list first / in the middle /
    // last (an accumulator filled before the failing entry must not leak into the next call)
    {
        let mut ss = shapes(1, 3, 2, 3); ss.extend([vec![1, 4], vec![5, 2, 1], vec![2, 2, 2, 2], vec![7, 9]]);
        for s in &ss {
            let nd = s.len(); let a = tag(s); let (ndi, last) = (nd as isize, nd as isize - 1);
            let bads: Vec<String> = vec![
                format!("roll {a} 1,1 0,{}", ndi + 3), format!("roll {a} 1,1 {},0", ndi), format!("roll {a} 2,1,1 {last},{},0", -ndi - 1), format!("roll {a} 1,2,3 0,{last}"),
                format!("roll {a} 1 0,{last},{}", ndi + 1), format!("roll {a} 4,5 none"), format!("flip {a} 0,{}", ndi), format!("flip {a} {last},0,{}", -ndi - 1), format!("flip {a} {},0", ndi + 2),
                format!("rot90 {a} 1 0,{}", ndi), format!("rot90 {a} 3 {},{last}", -ndi - 1), format!("rot90 {a} 1 0,{last},0"), format!("rot90 {a} 2 0,{}", ndi + 1)];
            let goods: Vec<String> = vec![format!("roll {a} 1 {last}"), format!("roll {a} 1 0"), format!("roll {a} 1 none"), format!("flip {a} {last}"), format!("flip {a} 0"), format!("flip {a} none"),
                format!("rot90 {a} 1 0,{last}"), format!("rot90 {a} 2 {last},0"), format!("roll {a} 1,2 0,{}", -1), format!("fliplr {a}"), format!("flipud {a}")];
            for (q, bad) in bads.iter().enumerate() {
                let g1 = &goods[q % goods.len()]; let g2 = &goods[(q * 5 + 3) % goods.len()];
                out(seq(&[bad.clone(), g1.clone(), g2.clone()]));
                if thorough || s.len() == 2 { for g in goods.iter().take(3) { out(seq(&[bad.clone(), g.clone()])); } }
            }
            // two refused calls, then the valid one; a valid call between two refused ones
            out(seq(&[bads[0].clone(), bads[6].clone(), goods[0].clone(), bads[1].clone(), goods[3].clone(), goods[1].clone()]));
        }
    }
    // ---- 6d. A–B–A: a call, a different call, the first call again (seeded, small scope and axis lengths up to 17)
    {
        let mk = |rng: &mut Rng| -> String {
            let nd = 1 + rng.below(4); let hi = if rng.below(3) == 0 { 17 } else { 4 };
            let mut s: Vec<usize> = (0..nd).map(|_| 1 + rng.below(hi)).collect();
            while s.iter().product::<usize>() > 800 { let p = rng.below(nd); s[p] = 1 + s[p] / 2; }
            let a = tag(&s); let (i, j) = (rng.below(nd), rng.below(nd));
            match rng.below(4) {
                0 => format!("flip {a} {},{}", spell(i, nd, rng.below(2) == 0), spell(j, nd, rng.below(2) == 0)),
                1 => format!("roll {a} {},{} {},{}", rng.range(-9, 9), rng.range(-9, 9), spell(i, nd, rng.below(2) == 0), spell(j, nd, rng.below(2) == 0)),
                2 => format!("roll {a} {} none", rng.range(-30, 30)),
                _ => format!("rot90 {a} {} {},{}", rng.below(8), spell(i, nd, rng.below(2) == 0), spell(j, nd, rng.below(2) == 0)),
            }
        };
        for _ in 0..(if thorough { 1500 } else { 250 }) { let (a, b) = (mk(rng), mk(rng)); out(seq(&[a.clone(), b, a])); }
    }
    // ---- 7. huge sizes (16 384 … 140 000 elements, an axis above 65 536, extents that are no multiples of 32): every operation through
    // the native reference (`n` lines); the operations whose model is linear (flip none, the last axis, the flat roll) also directly
    let mut huge = huge_shapes();
    huge.extend([vec![1024, 10], vec![4, 25, 100], vec![3, 8200], vec![8193, 2], vec![2, 2, 4099], vec![191, 193], vec![65537], vec![1, 65600], vec![257, 64]]);
    if thorough { huge.extend([vec![65, 257], vec![1000, 131], vec![7, 9, 11, 13, 2], vec![2, 3, 2, 3, 2, 3, 2, 37], vec![131072], vec![3, 40000], vec![40000, 3], vec![127, 129, 3]]); }
    // the crate's own `split` is quadratic in the number of blocks (0.2 s per call for 16 000 blocks, 3 s for 70 000; seven calls per
    // line): flips / rolls that cut the flat vector into more than 3000 blocks are left out at these sizes (the long axis is then
    // exercised as the lane: [2,70000] axis 1, the flat roll, flip none, the quarter turns that flip before they transpose)
    let cuts = |s: &[usize], ax: usize| -> usize { if ax + 1 == s.len() && ax > 0 { s[..ax].iter().product() } else { s[0] } };
    let light = |s: &[usize], ax: usize| cuts(s, ax) <= 3000;
    for (q, s) in huge.iter().enumerate() {
        let a = tag(s); let nd = s.len(); let n: usize = s.iter().product(); let ni = n as isize;
        out(format!("n flip {a} none")); if light(s, 0) { out(format!("n flipud {a}")); } if nd >= 2 && light(s, 1) { out(format!("n fliplr {a}")); }
        for i in 0..nd { if light(s, i) { out(format!("n flip {a} {}", spell(i, nd, (i + q) % 2 == 1))); } }
        if nd >= 2 && (0..nd).all(|i| light(s, i)) { out(format!("n flip {a} {},0", spell(nd - 1, nd, true))); out(format!("n flip {a} {}", show_list(&(0..nd as isize).rev().collect::<Vec<_>>()))); }
        for sh in [1, -1, ni / 2 + 1, ni + 7, -(3 * ni + 5), 8191, 65537] { out(format!("n roll {a} {sh} none")); }
        for i in 0..nd { if !(light(s, i) || nd == 1) { continue; } let d = s[i] as isize; for (r, sh) in [1, -1, d / 2, d + 1, -2 * d - 3, 63, 4097].into_iter().enumerate() { if r < 3 || (r + q + i) % 2 == 0 || thorough { out(format!("n roll {a} {sh} {}", spell(i, nd, (r + i) % 2 == 1))); } } }
        if nd >= 2 && (0..nd).all(|i| light(s, i)) { out(format!("n roll {a} 3,-5,9 {},{},0", spell(nd - 1, nd, true), spell(1, nd, false))); out(format!("n roll {a} 7 0,{}", spell(nd - 1, nd, false))); }
        if nd >= 2 {
            let mut pairs = vec![(0, nd - 1), (nd - 1, 0)]; if nd > 2 { pairs.extend([(0, 1), (1, 2), (nd - 1, nd - 2), (2, 0)]); }
            for (r, (i, j)) in pairs.into_iter().enumerate() { for k in [1usize, 2, 3] {
                if r >= 2 && !thorough && (k + r + q) % 3 != 0 { continue; }
                // the flips behind this turn: k = 1 flips axis j of the array, k = 3 axis j of the exchanged array, k = 2 both axes
                let mut t = s.clone(); t.swap(i, j);
                let ok = match k { 1 => light(s, j), 3 => light(&t, j), _ => light(s, i) && light(s, j) };
                if !ok { continue; }
                out(format!("n rot90 {a} {} {},{}", if (r + q) % 4 == 3 { k + 4 } else { k }, spell(i, nd, (q + k) % 3 == 1), spell(j, nd, (r + k) % 2 == 1)));
            } }
            if light(s, nd - 1) { out(format!("n rot90 {a} 1 {},{}", nd - 1, nd - 1)); }
        }
        // the direct comparison with the model where it is linear
        out(format!("flip {a} none")); if light(s, nd - 1) { out(format!("flip {a} {}", spell(nd - 1, nd, q % 2 == 0))); }
        out(format!("roll {a} {} none", ni / 3 + 1)); if light(s, nd - 1) || nd == 1 { out(format!("roll {a} {} {}", -(s[nd - 1] as isize) / 2 - 1, nd - 1)); }
        if thorough && s[0] <= 300 { out(format!("flip {a} 0")); out(format!("roll {a} 1 0")); if nd >= 2 && n <= 17000 { out(format!("rot90 {a} 1 0,{}", nd - 1)); } }
    }
    // hidden state at huge sizes: shapes with equal element counts back to back through the reference
    out(seq(&[format!("n rot90 {} 1 0,1", tag(&[130, 130])), format!("n rot90 {} 1 0,1", tag(&[65, 260])), format!("n rot90 {} 1 0,1", tag(&[260, 65])), format!("n rot90 {} 3 1,0", tag(&[130, 130]))]));
    out(seq(&[format!("n rot90 {} 1 0,1", tag(&[2, 31 * 300])), format!("n rot90 {} 1 0,1", tag(&[3, 31 * 200])), format!("n rot90 {} 1 0,1", tag(&[2, 31 * 300]))]));
    out(seq(&[format!("n flip {} 1", tag(&[1024, 10])), format!("n flip {} 1", tag(&[10, 1024])), format!("n flip {} 1", tag(&[1024, 10])), format!("n roll {} 3 1", tag(&[10, 1024]))]));
    // ---- 8. exact lengths and values: every axis length 1..300 in a non-leading position; shifts and turn counts c + 2^8, c + 2^16, c + 2^32
    for l in 1..=300usize {
        let a = tag(&[2, l]);
        out(format!("flip {a} 1")); out(format!("roll {a} 1 -1")); out(format!("rot90 {a} 1 0,1"));
        match l % 3 { 0 => out(format!("roll {a} -1 1")), 1 => out(format!("rot90 {a} 3 1,0")), _ => out(format!("roll {a} {} none", l as isize + 1)) }
        if l % 2 == 1 || thorough { let b = tag(&[3, l, 2]); out(format!("flip {b} 1")); out(format!("roll {b} {} 1", 1 + (l as isize) / 2)); if l % 4 == 1 || thorough { out(format!("rot90 {b} 1 1,2")); } }
    }
    for &p in &[19usize, 23, 29, 31, 37, 41, 43, 47, 49, 53, 97, 101, 127, 131, 251, 257, 1000, 1001] {
        let a = tag(&[p]); out(format!("flip {a} 0")); out(format!("roll {a} {} 0", p / 2)); out(format!("roll {a} -1 none"));
        if p <= 60 { let b = tag(&[p, p]); out(format!("rot90 {b} 1 0,1")); out(format!("flip {b} 1")); out(format!("roll {b} 1 1")); out(format!("flip {b} 0")); }
    }
    for s in [vec![5usize], vec![2, 3], vec![3, 4, 2], vec![7, 9]] {
        let a = tag(&s); let nd = s.len();
        for c in [0usize, 1, 2, 3] { for v in narrowing_images(c) {
            out(format!("roll {a} {v} none")); out(format!("roll {a} -{v} {}", nd - 1)); out(format!("roll {a} {v},-{v},1 0,{},0", nd as isize - 1));
            if nd >= 2 { out(format!("rot90 {a} {v} 0,{}", nd - 1)); }
        } }
        // axis numbers that are valid only after a narrowing cast must be refused
        for v in narrowing_images(0) { out(format!("flip {a} {v}")); out(format!("roll {a} 1 {v}")); out(format!("flip {a} -{v}")); if nd >= 2 { out(format!("rot90 {a} 1 {v},1")); out(format!("rot90 {a} 1 0,-{v}")); } }
        out(format!("roll {a} {} none", i64::MAX)); out(format!("roll {a} {} 0", i64::MIN + 1)); out(format!("roll {a} {} 0", i64::MIN));
    }
    // ---- 10. long argument lists and ranks 5..8: axis / shift lists with 3..6 entries in unsorted order and mixed spellings
    for s in [vec![2usize, 3, 2, 2, 3], vec![2, 1, 2, 2, 1, 2], vec![3, 2, 2, 1, 2, 2], vec![2, 2, 2, 2, 2, 2, 2], vec![1, 2, 1, 2, 2, 1, 2, 3], vec![2, 2, 1, 3, 1, 2, 2, 2], vec![3, 4, 5], vec![4, 3, 2, 5]] {
        let a = tag(&s); let nd = s.len();
        for len in 3..=6usize { for _ in 0..(if thorough { 4 } else { 2 }) {
            let axes: Vec<isize> = (0..len).map(|_| spell(rng.below(nd), nd, rng.below(2) == 0)).collect();
            let shifts: Vec<i64> = (0..len).map(|_| rng.range(-9, 9)).collect();
            out(format!("flip {a} {}", show_list(&axes)));
            out(format!("roll {a} {} {}", show_list(&shifts), show_list(&axes)));
            out(format!("roll {a} {} {}", shifts[0], show_list(&axes)));
            out(format!("roll {a} {} {}", show_list(&shifts), axes[0]));
            let p = rng.perm(nd); let dist: Vec<isize> = p.iter().take(len.min(nd)).enumerate().map(|(q, &x)| spell(x, nd, q % 2 == 0)).collect();
            out(format!("flip {a} {}", show_list(&dist)));
            out(format!("roll {a} {} {}", show_list(&shifts[..dist.len()]), show_list(&dist)));
        } }
        for _ in 0..(if thorough { 40 } else { 12 }) { let (i, j) = (rng.below(nd), rng.below(nd)); out(format!("rot90 {a} {} {},{}", rng.below(8), spell(i, nd, rng.below(2) == 0), spell(j, nd, rng.below(2) == 0))); }
        out(format!("rot90 {a} 1 0,{}", nd - 1)); out(format!("rot90 {a} 3 {},0", nd - 1)); out(format!("rot90 {a} 1 {},{}", nd - 2, nd - 1)); out(format!("flip {a} none")); out(format!("fliplr {a}")); out(format!("flipud {a}"));
    }
}

// ---------------------------------------------------------------- robustness streams, part 3 (generator)

/// blocks into which the crate's flip / roll along `ax` cuts the flat vector (its own `split` is quadratic in that number); for an
/// inner axis the code cuts along the first axis and recurses into every block
fn cut_cost(s: &[usize], ax: usize) -> usize {
    if ax == 0 { s[0] } else if ax + 1 == s.len() { s[..ax].iter().product() } else { s[0].max(cut_cost(&s[1..], ax - 1)) }
}

/// all-equal / few-valued explicit arrays: `v` = the tag of every element, or 0/1 tags chosen by the generator
fn const_arr(s: &[usize], v: i64) -> String { let n: usize = s.iter().product(); format!("{}:{}", show_list(s), show_list(&vec![v; n])) }
fn binary_arr(s: &[usize], rng: &mut Rng) -> String { let n: usize = s.iter().product(); format!("{}:{}", show_list(s), show_list(&(0..n).map(|_| rng.below(2) as i64).collect::<Vec<_>>())) }

/// the `v` lines of one array: every operation, every axis, the shifts that matter for a value-dependent shortcut (not congruent
/// to 0), the three quarter turns over up to four axis pairs, refused calls
fn gen_value(a: &str, s: &[usize], rng: &mut Rng, out: &mut dyn FnMut(String)) {
    let nd = s.len(); let n: usize = s.iter().product(); let ni = n as isize;
    out(format!("v flip {a} none")); out(format!("v flipud {a}")); out(format!("v fliplr {a}"));
    for i in 0..nd { out(format!("v flip {a} {}", spell(i, nd, i % 2 == 1))); }
    if nd >= 2 { out(format!("v flip {a} {},0", spell(nd - 1, nd, true))); }
    for sh in [1, -1, ni + 1, ni / 2] { out(format!("v roll {a} {sh} none")); }
    for i in 0..nd { let d = s[i] as isize; for (q, sh) in [1, -1, 3 * d + 1].into_iter().enumerate() { out(format!("v roll {a} {sh} {}", spell(i, nd, (q + i) % 2 == 1))); } }
    if nd >= 2 { out(format!("v roll {a} {},{} 0,{}", rng.range(1, 5), rng.range(-5, -1), spell(nd - 1, nd, true))); out(format!("v roll {a} 1 0,{}", nd - 1)); }
    out(format!("v roll {a} 1,2 none")); out(format!("v roll {a} 1 {nd}")); out(format!("v flip {a} {}", -(nd as isize) - 1)); out(format!("v roll {a} 1,2,3 0,0"));
    for (q, (i, j)) in axis_pairs(nd, true).into_iter().enumerate() { for k in [1usize, 2, 3] { out(format!("v rot90 {a} {} {},{}", if q == 1 { k + 4 } else { k }, spell(i, nd, (q + k) % 3 == 1), spell(j, nd, (q + k) % 2 == 1))); } }
    out(format!("v rot90 {a} 1 0,{nd}")); out(format!("v rot90 {a} 1 0"));
}

fn gen_part3(thorough: bool, rng: &mut Rng, out: &mut dyn FnMut(String)) {
    // ---- (13) value relations: every operation of the property on arrays whose elements are all `==` without being identical. The
    // `v` prefix makes the harness run every value-relation image of the tag array (f64 / f32 / Tuple2 / List made of 0.0 and -0.0
    // only, the user types AllEq and Label) and every layout image (12-, 3-, 32-byte elements) on both receivers.
    let mut vs = shapes(1, 3, 1, 3);
    vs.extend([vec![4], vec![5], vec![2, 4], vec![5, 2], vec![1, 7], vec![7, 1], vec![2, 2, 2, 2], vec![1, 2, 1, 3], vec![8, 9], vec![9, 8], vec![2, 3, 4], vec![7, 1, 9], vec![16, 17], vec![3, 4, 5, 2], vec![2, 2, 2, 2, 2]]);
    if thorough { vs.extend(shapes(4, 4, 1, 3)); vs.extend([vec![33, 31], vec![64, 65], vec![100], vec![9, 10, 11], vec![70, 70]]); }
    for s in &vs { gen_value(&tag(s), s, rng, out); }
    // constant arrays (one tag everywhere: every image is a constant source; the result must still have the right SHAPE and a
    // refused call must still be refused), 0/1 arrays (few values, long runs), a single odd element first / last
    let mut cs = shapes(1, 2, 1, 3); cs.extend([vec![2, 3, 2], vec![1, 1, 1], vec![3, 1, 2], vec![4, 5], vec![8, 9], vec![2, 2, 2, 2], vec![30]]);
    for s in &cs {
        let n: usize = s.iter().product();
        for a in [const_arr(s, 0), const_arr(s, 7), binary_arr(s, rng)] { gen_value(&a, s, rng, out); }
        let mut one = vec![0i64; n]; one[n - 1] = 1;
        let a = format!("{}:{}", show_list(s), show_list(&one));
        for sh in [1isize, -1, 2, n as isize + 1] { out(format!("v roll {a} {sh} none")); out(format!("v roll {a} {sh} {}", spell(s.len() - 1, s.len(), sh % 2 == 0))); out(format!("v roll {a} {sh} 0")); }
        out(format!("v flip {a} none")); out(format!("v flip {a} 0")); if s.len() >= 2 { out(format!("v rot90 {a} 1 0,1")); out(format!("v rot90 {a} 3 -1,0")); }
    }
    // a refused call on a constant array followed by a valid one; constant arrays of equal element count back to back
    out(seq(&[format!("v roll {} 1 2", const_arr(&[2, 3], 0)), format!("v roll {} 1 1", const_arr(&[2, 3], 0)), format!("v rot90 {} 1 0,1", const_arr(&[2, 3], 0)), format!("v rot90 {} 1 0,1", const_arr(&[3, 2], 0)), format!("v roll i2,3 1 1")]));

    // ---- (15) shifts and turn counts whose product with a stride wraps modulo 2^64 (ceil(k * 2^64 / stride) + c fits an isize for
    // stride >= 3): along every axis and along the flat order; single shifts only (the code ADDS the shifts of one axis as isize)
    for s in [vec![5usize], vec![2, 3], vec![3, 4, 2], vec![7, 9], vec![4, 4], vec![8, 2, 2], vec![3, 5, 7], vec![2, 16, 3]] {
        let a = tag(&s); let nd = s.len(); let n: usize = s.iter().product();
        let mut strides: Vec<u128> = (0..nd).map(|i| s[i + 1..].iter().product::<usize>() as u128).collect(); strides.push(n as u128); strides.extend(s.iter().map(|&d| d as u128));
        strides.sort(); strides.dedup();
        for st in strides { if st < 3 { continue; } for k in 1..st { 
            let v = ((k << 64) + st - 1) / st; if v >= 1u128 << 63 { break; }
            for c in [0u128, 1] { let sh = (v + c) as i128;
                out(format!("roll {a} {sh} none")); out(format!("roll {a} -{sh} none"));
                for i in 0..nd { if (k as usize + i) % 2 == 0 || thorough || nd <= 2 { out(format!("roll {a} {} {}", if i % 2 == 0 { sh } else { -sh }, spell(i, nd, c == 1))); } }
            }
            if k >= 3 && !thorough { break; }
        } }
        if nd >= 2 { for k in [(1u128 << 62) + 1, (1 << 63) + 3, (1 << 63) + 2, u64::MAX as u128, u64::MAX as u128 - 2, 6148914691236517206, 12297829382473034411] { out(format!("rot90 {a} {k} 0,{}", nd - 1)); out(format!("rot90 {a} {k} -1,0")); } }
    }

    // ---- (11) giant sizes: more than 2^20 elements (`iota:<shape>`, built by the harness, compared in place with the native reference
    // run on the iota tags). Ranks 1-4, first / middle / last axis, extents that are / are not multiples of 64, every operation.
    // The crate's own `split` is quadratic in the number of blocks, so a flip / roll (also the flip inside a quarter turn) is only
    // asked for where it cuts into at most `lim` blocks; the long axis is then the lane, the flat order, or the transposed side.
    let g = |s: &[usize]| format!("iota:{}", show_list(s));
    let quick: Vec<(Vec<usize>, Vec<&str>)> = vec![
        (vec![3, 400_001], vec!["rot90 @ 5 -2,-1", "rot90 @ 2 0,1", "roll @ 7 1"]),
        (vec![400_001, 3], vec!["rot90 @ 3 0,1"]),
        (vec![70, 15_000], vec!["rot90 @ 1 0,1", "fliplr @"]),          // both extents no multiples of 64, both above 64
        (vec![15_000, 70], vec!["rot90 @ 3 -2,1"]),
        (vec![64, 16_385], vec!["rot90 @ 1 0,-1", "roll @ 3,-5 0,1"]),  // one extent a multiple of 64
        (vec![128, 8192], vec!["rot90 @ 5 1,0"]),           // both multiples of 64
        (vec![1 << 20 | 5], vec!["roll @ 70001 0", "flip @ none"]),
        (vec![2_097_153], vec!["roll @ -1 none"]),
        (vec![40, 2, 13_110], vec!["flip @ 1", "rot90 @ 1 0,2"]),
        (vec![2, 3, 174_763], vec!["rot90 @ 1 1,2", "roll @ 1,2,3 0,1,2"]),
        (vec![65, 129, 127], vec!["rot90 @ 3 1,0"]),
        (vec![4, 3, 5, 17_477], vec!["rot90 @ 1 0,3", "flip @ 1,3"]),
    ];
    for (s, calls) in &quick { for c in calls { out(format!("n {}", c.replace('@', &g(s)))); } }
    // a refused call on a giant array directly followed by a valid one
    out(seq(&[format!("n rot90 {} 1 0,2", g(&[3, 400_001])), format!("n roll {} 1 2", g(&[3, 400_001])), format!("n rot90 {} 1 0,1", g(&[3, 400_001]))]));
    if thorough {
        let mut giants = giant_shapes();
        giants.extend([vec![1024, 1025], vec![1025, 1024], vec![1024, 1024], vec![1088, 1000], vec![2050, 520], vec![100, 10_486], vec![10_486, 100], vec![63, 16_645], vec![130, 8100], vec![8100, 130], vec![200, 5250], vec![5250, 200], vec![257, 4100], vec![4100, 257], vec![1449, 1451], vec![70, 15_000], vec![15_000, 70], vec![64, 16_385], vec![16_500, 64], vec![128, 8192], vec![40, 2, 13_110], vec![1, 1_048_577], vec![1_048_583, 1],
                       vec![128, 128, 64], vec![128, 65, 128], vec![4, 3, 5, 17_477], vec![33, 32, 31, 33], vec![2, 2, 2, 131_073], vec![16, 65, 16, 64], vec![3, 5, 7, 11, 13, 73]]);
        // blocks x elements decides: 1031 blocks of 10^6 elements cost 1 s per call (measured), and every giant line has to stay below
        // 2 s (a twentieth of the hang watchdog): near-square matrices only get the flat operations, matrices with both extents
        // above 64 and at most 260 rows / columns get the quarter turns
        let lim = 260usize;
        for (q, s) in giants.iter().enumerate() {
            let a = g(s); let nd = s.len(); let n: usize = s.iter().product(); let ni = n as isize;
            out(format!("n flip {a} none")); out(format!("n roll {a} {} none", ni / 2 + 1)); if q % 2 == 0 { out(format!("n roll {a} -1 none")); } else { out(format!("n roll {a} 3,4 none")); }

            if nd == 1 { out(format!("n roll {a} 65 0")); out(format!("n roll {a} {} -1", -(ni + 63))); continue; }
            let ok: Vec<bool> = (0..nd).map(|i| cut_cost(s, i) <= lim).collect();
            for i in 0..nd { if ok[i] { let d = s[i] as isize;
                out(format!("n flip {a} {}", spell(i, nd, (i + q) % 2 == 1)));
                if (i + q) % 2 == 0 { out(format!("n roll {a} 1 {}", spell(i, nd, q % 2 == 0))); } else { out(format!("n roll {a} {} {i}", -(d / 2) - d)); }
            } }
            if ok[0] { out(format!("n flipud {a}")); } if ok[1] { out(format!("n fliplr {a}")); }
            let good: Vec<isize> = (0..nd).rev().filter(|&i| ok[i]).map(|i| spell(i, nd, i % 2 == 0)).collect();
            if good.len() >= 2 { out(format!("n flip {a} {}", show_list(&good))); out(format!("n roll {a} {} {}", show_list(&(0..good.len() as isize).map(|x| 2 * x - 3).collect::<Vec<_>>()), show_list(&good))); }
            for i in 0..nd { for j in 0..nd { if i == j && i != nd - 1 { continue; } for k in [1usize, 2, 3] {
                if nd > 2 && (i + 2 * j + k + q) % 3 != 0 { continue; }
                let mut t = s.clone(); t.swap(i, j);
                let fine = match k { 1 => ok[j], 3 => cut_cost(&t, j) <= lim, _ => ok[i] && ok[j] };
                if fine { out(format!("n rot90 {a} {} {},{}", if (i + q) % 3 == 0 { k + 4 } else { k }, spell(i, nd, (q + k) % 2 == 1), spell(j, nd, (i + k) % 2 == 1))); }
            } } }
        }
    }
}

// ---------------------------------------------------------------- harness-native reference (coordinate formulas)

use std::sync::atomic::{AtomicUsize, Ordering};
static ORACLE_CHECKED: AtomicUsize = AtomicUsize::new(0);
static ORACLE_SILENT: AtomicUsize = AtomicUsize::new(0);
static ORACLE_ONLY: AtomicUsize = AtomicUsize::new(0);
static ABA_RERUNS: AtomicUsize = AtomicUsize::new(0);
static SEQ_CALLS: AtomicUsize = AtomicUsize::new(0);

fn coords(mut p: usize, shape: &[usize], c: &mut [usize]) { for k in (0..shape.len()).rev() { c[k] = p % shape[k]; p /= shape[k]; } }
fn flat_of(c: &[usize], shape: &[usize]) -> usize { c.iter().zip(shape).fold(0, |acc, (x, d)| acc * d + x) }
/// `axis` spelled from either end -> axis number, `None` when it is outside [-rank, rank)
fn norm_axis(ax: isize, nd: usize) -> Option<usize> { let n = nd as isize; if ax >= n || ax < -n { None } else { Some(if ax < 0 { (ax + n) as usize } else { ax as usize }) } }

/// out[c] = in[src(c)] over the output shape `oshape`
fn gather(oshape: &[usize], ishape: &[usize], e: &[i64], src: impl Fn(&mut Vec<usize>)) -> (Vec<usize>, Vec<i64>) {
    let n: usize = oshape.iter().product();
    let mut c = vec![0usize; oshape.len()];
    let out = (0..n).map(|p| { coords(p, oshape, &mut c); src(&mut c); e[flat_of(&c, ishape)] }).collect();
    (oshape.to_vec(), out)
}
fn flip_axes(shape: &[usize], e: &[i64], axes: &[usize]) -> (Vec<usize>, Vec<i64>) {
    gather(shape, shape, e, |c| for &ax in axes { c[ax] = shape[ax] - 1 - c[ax]; })
}
fn swap_axes(shape: &[usize], e: &[i64], i: usize, j: usize) -> (Vec<usize>, Vec<i64>) {
    let mut os = shape.to_vec(); os.swap(i, j);
    gather(&os, shape, e, |c| c.swap(i, j))
}

/// The statement of C12 as direct coordinate formulas: flip sends index i of the axis to n-1-i, roll sends i to (i + shift) mod n
/// (flat order without axes), one quarter turn = flip of the second axis followed by the exchange of the two axes.
/// `None` = no opinion (arrays with a zero-length axis, empty shift lists, anything unusual): those cases are judged by the model only.
/// `Some(None)` = the call must be refused.
fn oracle(op: &str, args: &[&str]) -> Option<Option<(Vec<usize>, Vec<i64>)>> {
    let (shape, e) = parse_arr_raw(args.first()?);
    oracle_on(shape, e, op, args)
}
/// the reference on given data (`args[0]` is not read): the giant cases pass the iota tags, so that the answer holds the SOURCE
/// position of every result position — the very code that is compared with the model on every ordinary case
fn oracle_on(shape: Vec<usize>, e: Vec<i64>, op: &str, args: &[&str]) -> Option<Option<(Vec<usize>, Vec<i64>)>> {
    let nd = shape.len(); let n = e.len();
    if n == 0 || nd == 0 || shape.iter().product::<usize>() != n { return None; }
    let axes_of = |s: &str| -> Option<Vec<usize>> { parse_isize_list(s).into_iter().map(|a| norm_axis(a, nd)).collect() };
    Some(match op {
        "flip" => if args[1] == "none" { Some((shape.clone(), e.iter().rev().copied().collect())) } else { axes_of(args[1]).map(|ax| flip_axes(&shape, &e, &ax)) },
        "flipud" => Some(flip_axes(&shape, &e, &[0])),
        "fliplr" => if nd < 2 { None } else { Some(flip_axes(&shape, &e, &[1])) },
        "roll" => {
            let sh: Vec<i128> = parse_i64_list(args[1]).into_iter().map(|x| x as i128).collect();
            if sh.is_empty() { return None; }
            if args[2] == "none" {
                // the shift list pairs with the single default axis: the shifts add up, along the flattened order
                let total = sh.iter().sum::<i128>().rem_euclid(n as i128) as usize;
                let mut out = vec![0i64; n];
                for p in 0..n { out[(p + total) % n] = e[p]; }
                Some((shape.clone(), out))
            } else {
                let raw = parse_isize_list(args[2]);
                if raw.is_empty() { return None; }
                let k = if sh.len() == raw.len() { sh.len() } else if sh.len() == 1 { raw.len() } else if raw.len() == 1 { sh.len() } else { return Some(None) };
                let mut total = vec![0i128; nd];
                for q in 0..k { match norm_axis(raw[if raw.len() == 1 { 0 } else { q }], nd) { Some(ax) => total[ax] += sh[if sh.len() == 1 { 0 } else { q }], None => return Some(None) } }
                let back: Vec<usize> = (0..nd).map(|ax| (-total[ax]).rem_euclid(shape[ax] as i128) as usize).collect();
                // the element now at coordinate c comes from c - shift (mod n) on every rolled axis
                Some(gather(&shape, &shape, &e, |c| for ax in 0..nd { c[ax] = (c[ax] + back[ax]) % shape[ax]; }))
            }
        }
        "rot90" => {
            let k: usize = args[1].parse().ok()?;
            let raw = parse_isize_list(args[2]);
            if nd < 2 || raw.len() != 2 { return Some(None); }
            let (i, j) = match (norm_axis(raw[0], nd), norm_axis(raw[1], nd)) { (Some(i), Some(j)) => (i, j), _ => return Some(None) };
            // k successive single turns: flip the second axis, then exchange the two axes
            let mut cur = (shape.clone(), e.clone());
            for _ in 0..(k % 4) { let f = flip_axes(&cur.0, &cur.1, &[j]); cur = swap_axes(&f.0, &f.1, i, j); }
            Some(cur)
        }
        _ => return None,
    })
}
fn oracle_text(o: &Option<(Vec<usize>, Vec<i64>)>) -> String { match o { Some((s, e)) => format!("ok {}:{}", show_list(s), show_list(e)), None => "err".to_string() } }

/// where two `ok shape:elements` answers differ
fn diff_detail(obs: &str, want: &str) -> String {
    let parse = |t: &str| -> Option<(String, Vec<String>)> { let b = t.strip_prefix("ok ")?; let (s, e) = b.split_once(':')?; Some((s.to_string(), e.split(',').map(|x| x.to_string()).collect())) };
    match (parse(obs), parse(want)) {
        (Some((so, eo)), Some((sw, ew))) => {
            if so != sw { return format!("shape {so} instead of {sw}"); }
            if eo.len() != ew.len() { return format!("{} elements instead of {}", eo.len(), ew.len()); }
            let bad: Vec<usize> = (0..eo.len()).filter(|&p| eo[p] != ew[p]).collect();
            match bad.first() { Some(&p) => format!("shape {so}: {} of {} positions differ, the first at flat position {p}: {} instead of {}", bad.len(), eo.len(), eo[p], ew[p]), None => "equal".into() }
        }
        _ => format!("`{}` instead of `{}`", truncate(obs, 200), truncate(want, 200)),
    }
}

// ---------------------------------------------------------------- executor

/// the real call: i64 / u8 / f64 (+ i8 / bool / String / f32 when `more`), both receivers, the i64 call twice
fn run_call(op: &str, args: &[&str], more: bool) -> Option<String> {
    let src = *args.first()?;
    let optl = |s: &str| -> Option<Vec<isize>> { if s == "none" { None } else { Some(parse_isize_list(s)) } };
    Some(match op {
        "flip" => { let ax = optl(args[1]); sweep_arr!(more, |T| { let a = arr_of::<T>(src); rx(|| a.flip(ax.clone()), || Ok(a.clone()).flip(ax.clone())) }) }
        "flipud" => sweep_arr!(more, |T| { let a = arr_of::<T>(src); rx(|| a.flipud(), || Ok(a.clone()).flipud()) }),
        "fliplr" => sweep_arr!(more, |T| { let a = arr_of::<T>(src); rx(|| a.fliplr(), || Ok(a.clone()).fliplr()) }),
        "roll" => { let sh = parse_isize_list(args[1]); let ax = optl(args[2]);
            sweep_arr!(more, |T| { let a = arr_of::<T>(src); rx(|| a.roll(sh.clone(), ax.clone()), || Ok(a.clone()).roll(sh.clone(), ax.clone())) }) }
        "rot90" => { let k: usize = args[1].parse().ok()?; let ax = parse_isize_list(args[2]);
            sweep_arr!(more, |T| { let a = arr_of::<T>(src); rx(|| a.rot90(k, ax.clone()), || Ok(a.clone()).rot90(k, ax.clone())) }) }
        _ => return None,
    })
}

/// only the plain call on `Array<i64>` (the A–B–A re-run)
fn plain_i64(op: &str, args: &[&str]) -> Option<String> {
    let a = parse_arr_i64(args.first()?);
    let optl = |s: &str| -> Option<Vec<isize>> { if s == "none" { None } else { Some(parse_isize_list(s)) } };
    Some(match op {
        "flip" => { let ax = optl(args[1]); guarded(|| res_arr(&a.flip(ax))) }
        "flipud" => guarded(|| res_arr(&a.flipud())),
        "fliplr" => guarded(|| res_arr(&a.fliplr())),
        "roll" => { let sh = parse_isize_list(args[1]); let ax = optl(args[2]); guarded(|| res_arr(&a.roll(sh, ax))) }
        "rot90" => { let k: usize = args[1].parse().ok()?; let ax = parse_isize_list(args[2]); guarded(|| res_arr(&a.rot90(k, ax))) }
        _ => return None,
    })
}

// ---------------------------------------------------------------- robustness streams, part 3 (executor side)

static IMAGE_RUNS: AtomicUsize = AtomicUsize::new(0);
static GIANT_RUNS: AtomicUsize = AtomicUsize::new(0);
/// wall time spent in the part-3 streams (milliseconds), shown in the `oracle_report` lines
static IMAGE_MS: AtomicUsize = AtomicUsize::new(0);
static GIANT_MS: AtomicUsize = AtomicUsize::new(0);

/// a user element type whose `==` is the coarsest equivalence (always true): ALL arrays of it are "all elements equal but not
/// identical"; the harness compares the payload
#[derive(Clone, Debug)]
struct AllEq(i64);
impl PartialEq for AllEq { fn eq(&self, _: &Self) -> bool { true } }
impl PartialOrd for AllEq { fn partial_cmp(&self, _: &Self) -> Option<std::cmp::Ordering> { Some(std::cmp::Ordering::Equal) } }
impl std::fmt::Display for AllEq { fn fmt(&self, f: &mut std::fmt::Formatter<'_>) -> std::fmt::Result { write!(f, "{}", self.0) } }
impl ArrayElement for AllEq { fn zero() -> Self { AllEq(0) } fn one() -> Self { AllEq(1) } fn is_nan(&self) -> bool { false } }
/// case-insensitive label: `==` coarser than identity, but not everything equal (tags t and t + 2 share a label up to case)
#[derive(Clone, Debug)]
struct Label(String);
impl PartialEq for Label { fn eq(&self, o: &Self) -> bool { self.0.eq_ignore_ascii_case(&o.0) } }
impl PartialOrd for Label { fn partial_cmp(&self, o: &Self) -> Option<std::cmp::Ordering> { self.0.to_ascii_lowercase().partial_cmp(&o.0.to_ascii_lowercase()) } }
impl std::fmt::Display for Label { fn fmt(&self, f: &mut std::fmt::Formatter<'_>) -> std::fmt::Result { write!(f, "{}", self.0) } }
impl ArrayElement for Label { fn zero() -> Self { Label(String::new()) } fn one() -> Self { Label("1".into()) } fn is_nan(&self) -> bool { false } }

fn zs(neg: bool) -> f64 { if neg { -0.0 } else { 0.0 } }
fn zs32(neg: bool) -> f32 { if neg { -0.0 } else { 0.0 } }
fn optl(s: &str) -> Option<Vec<isize>> { if s == "none" { None } else { Some(parse_isize_list(s)) } }

/// the real call, generic in the element type (`T: ArrayElement` is all the operations ask for); `args[0]` (the array) is not read
fn call_op<T: ArrayElement>(a: &Array<T>, op: &str, args: &[&str], chained: bool) -> Option<Result<Array<T>, ArrayError>> {
    let ok = || Ok::<Array<T>, ArrayError>(a.clone());
    Some(match op {
        "flip" => { let ax = optl(args.get(1)?); if chained { ok().flip(ax) } else { a.flip(ax) } }
        "flipud" => if chained { ok().flipud() } else { a.flipud() },
        "fliplr" => if chained { ok().fliplr() } else { a.fliplr() },
        "roll" => { let sh = parse_isize_list(args.get(1)?); let ax = optl(args.get(2)?); if chained { ok().roll(sh, ax) } else { a.roll(sh, ax) } }
        "rot90" => { let k: usize = args.get(1)?.parse().ok()?; let ax = parse_isize_list(args.get(2)?); if chained { ok().rot90(k, ax) } else { a.rot90(k, ax) } }
        _ => return None,
    })
}

/// the result of the call on one IMAGE of the tag array (element = `of(tag)`) against the result on the tags themselves: same outcome
/// class, same shape, and at every position the image of the tag that the i64 run put there (`same` = identity, not `==`)
fn judge_image<T: ArrayElement>(name: &str, r: std::thread::Result<Option<Result<Array<T>, ArrayError>>>, want: &Result<(Vec<usize>, Vec<i64>), ()>, of: &dyn Fn(i64) -> T, same: &dyn Fn(&T, &T) -> bool) -> Option<String> {
    let r = match r { Ok(Some(r)) => r, Ok(None) => return Some(format!("harness: cannot run the call on {name}")), Err(_) => return Some(format!("the run on {name} panics")) };
    match (&r, want) {
        (Err(_), Err(())) => None,
        (Ok(a), Ok((ws, we))) => {
            let (sh, el) = (a.get_shape().unwrap(), a.get_elements().unwrap());
            if !consistent(a) { return Some(format!("INCONSISTENT result on {name}: shape {} with {} elements", show_list(&sh), el.len())); }
            if &sh != ws { return Some(format!("the run on {name} gives shape {} instead of {}", show_list(&sh), show_list(ws))); }
            if el.len() != we.len() { return Some(format!("the run on {name} gives {} elements instead of {}", el.len(), we.len())); }
            let mut bad = 0usize; let mut first = None;
            for p in 0..el.len() { if !same(&el[p], &of(we[p])) { bad += 1; if first.is_none() { first = Some(p); } } }
            first.map(|p| format!("the run on {name} differs at {bad} of {} positions, the first at flat position {p}: {:?} instead of {:?} (the element with tag {})", el.len(), el[p], of(we[p]), we[p]))
        }
        (Err(e), Ok(_)) => Some(format!("the run on {name} is refused ({}) although the call is valid", err_name(e))),
        (Ok(_), Err(())) => Some(format!("the run on {name} succeeds although the call must be refused")),
    }
}

/// one image on both receivers
fn image_pair<T: ArrayElement>(name: &str, shape: &[usize], tags: &[i64], want: &Result<(Vec<usize>, Vec<i64>), ()>, op: &str, args: &[&str], of: &dyn Fn(i64) -> T, same: &dyn Fn(&T, &T) -> bool) -> Option<String> {
    let a = Array::new(tags.iter().map(|&t| of(t)).collect(), shape.to_vec()).expect("harness: image array");
    for chained in [false, true] {
        IMAGE_RUNS.fetch_add(1, Ordering::Relaxed);
        let r = std::panic::catch_unwind(std::panic::AssertUnwindSafe(|| call_op(&a, op, args, chained)));
        if let Some(d) = judge_image(&format!("{name}{}", if chained { ", call on Ok(array)" } else { "" }), r, want, of, same) { return Some(d); }
    }
    None
}

/// VALUE-RELATION and LAYOUT images of an ordinary case (level 1: one all-zero f64 image and the always-equal user type; level 2: all).
/// The truth is the plain i64 run of the same call, which the caller compares with the model.
fn images(op: &str, args: &[&str], level: usize) -> Option<String> {
    if level == 0 { return None; }
    let t0 = std::time::Instant::now();
    let r = images_at(op, args, level);
    IMAGE_MS.fetch_add(t0.elapsed().as_micros() as usize, Ordering::Relaxed);
    r
}
fn images_at(op: &str, args: &[&str], level: usize) -> Option<String> {
    let (shape, tags) = parse_arr_raw(args.first()?);
    let ri = match std::panic::catch_unwind(std::panic::AssertUnwindSafe(|| call_op(&Array::new(tags.clone(), shape.clone()).expect("harness: array literal"), op, args, false))) { Ok(Some(r)) => r, _ => return None };
    let want: Result<(Vec<usize>, Vec<i64>), ()> = match &ri { Ok(a) => Ok((a.get_shape().unwrap(), a.get_elements().unwrap())), Err(_) => Err(()) };
    let fb = |a: &f64, b: &f64| a.to_bits() == b.to_bits();
    // all elements are zeros, both signs present (as long as the tags differ): `==` holds between all of them
    let lo = tags.iter().copied().min().unwrap_or(0);
    if let Some(d) = image_pair("f64 zeros, -0.0 for the smallest tag only", &shape, &tags, &want, op, args, &|t| zs(t == lo), &fb) { return Some(d); }
    if let Some(d) = image_pair("the user type AllEq (== always true)", &shape, &tags, &want, op, args, &|t| AllEq(t), &|a: &AllEq, b: &AllEq| a.0 == b.0) { return Some(d); }
    if level < 2 { return None; }
    if let Some(d) = image_pair("f64 zeros, -0.0 for odd tags", &shape, &tags, &want, op, args, &|t| zs(t % 2 != 0), &fb) { return Some(d); }
    if let Some(d) = image_pair("f64 zeros, +0.0 for the smallest tag only", &shape, &tags, &want, op, args, &|t| zs(t != lo), &fb) { return Some(d); }
    if let Some(d) = image_pair("f32 zeros, -0.0 for tags = 1 mod 3", &shape, &tags, &want, op, args, &|t| zs32(t.rem_euclid(3) == 1), &|a: &f32, b: &f32| a.to_bits() == b.to_bits()) { return Some(d); }
    if let Some(d) = image_pair("Tuple2<f64,f32> of zeros", &shape, &tags, &want, op, args, &|t| Tuple2(zs(t & 1 != 0), zs32(t & 2 != 0)), &|a: &Tuple2<f64, f32>, b: &Tuple2<f64, f32>| a.0.to_bits() == b.0.to_bits() && a.1.to_bits() == b.1.to_bits()) { return Some(d); }
    if let Some(d) = image_pair("List<f64> of two zeros", &shape, &tags, &want, op, args, &|t| List(vec![zs(t == lo), zs(t & 1 != 0)]), &|a: &List<f64>, b: &List<f64>| a.0.len() == b.0.len() && a.0.iter().zip(&b.0).all(|(x, y)| x.to_bits() == y.to_bits())) { return Some(d); }
    if let Some(d) = image_pair("the user type Label (case-insensitive ==)", &shape, &tags, &want, op, args, &|t| Label(if t & 2 != 0 { format!("Q{}", t & 1) } else { format!("q{}", t & 1) } + if t & 4 != 0 { "X" } else { "x" }), &|a: &Label, b: &Label| a.0 == b.0) { return Some(d); }
    // element layout: 12 bytes, 3 bytes, 32 bytes and not Copy
    if let Some(d) = image_pair("Tuple3<i32,i32,i32> (12 bytes)", &shape, &tags, &want, op, args, &tag_t3, &|a: &T3, b: &T3| a == b) { return Some(d); }
    if let Some(d) = image_pair("Tuple3<u8,u8,u8> (3 bytes)", &shape, &tags, &want, op, args, &tag_t3b, &|a: &T3b, b: &T3b| a == b) { return Some(d); }
    if let Some(d) = image_pair("Tuple2<String,i32> (32 bytes, not Copy)", &shape, &tags, &want, op, args, &tag_tw, &|a: &TW, b: &TW| a == b) { return Some(d); }
    None
}

fn fnv(s: &str) -> u64 { s.bytes().fold(0xcbf29ce484222325u64, |h, b| (h ^ b as u64).wrapping_mul(0x100000001b3)) }

/// a giant array whose flat element k is `from(k)` (never written into a case line, never formatted)
fn giant_image<T: ArrayElement>(shape: &[usize], from: impl Fn(i64) -> T) -> Array<T> {
    let n: usize = shape.iter().product();
    Array::new((0..n as i64).map(from).collect(), shape.to_vec()).expect("harness: giant array")
}

/// `n call iota:<shape> …`: more than 2^20 elements. The native reference runs on the iota tags (so its answer is the source position
/// of every result position) and the crate's results are compared IN PLACE: the i64 tags on the plain receiver and one further image
/// chosen by the case line (u8 on `Ok(array)` / 12-byte tuples / all-zero f64 with both signs on `Ok(array)` / 3-byte tuples on
/// `Ok(array)` / AllEq).
fn exec_giant(op: &str, args: &[&str]) -> Option<Verdict> {
    let t0 = std::time::Instant::now();
    let r = exec_giant_at(op, args);
    GIANT_MS.fetch_add(t0.elapsed().as_micros() as usize, Ordering::Relaxed);
    r
}
fn exec_giant_at(op: &str, args: &[&str]) -> Option<Verdict> {
    let shape = parse_usize_list(args.first()?.strip_prefix("iota:")?);
    let n: usize = shape.iter().product();
    let want: Result<(Vec<usize>, Vec<i64>), ()> = match oracle_on(shape.clone(), (0..n as i64).collect(), op, args)? { Some(w) => Ok(w), None => Err(()) };
    ORACLE_ONLY.fetch_add(1, Ordering::Relaxed);
    let run = |d: Option<String>| d.map(|d| Some(Verdict::Mismatch { observed: "giant result (not printed)".into(), detail: format!("differs from the harness-native coordinate reference: {d}") }));
    macro_rules! one { ($name:expr, $chained:expr, $of:expr, $same:expr) => {{
        GIANT_RUNS.fetch_add(1, Ordering::Relaxed);
        let r = { let a = giant_image(&shape, $of); std::panic::catch_unwind(std::panic::AssertUnwindSafe(|| call_op(&a, op, args, $chained))) };
        if let Some(m) = run(judge_image($name, r, &want, &$of, &$same)) { return m; }
    }} }
    one!("the i64 tags, plain receiver", false, |k: i64| k, |a: &i64, b: &i64| a == b);
    match if want.is_ok() { fnv(&format!("{op} {}", args.join(" "))) % 5 } else { 0 } {
        0 => one!("the u8 image, call on Ok(array)", true, tag_u8, |a: &u8, b: &u8| a == b),
        1 => one!("Tuple3<i32,i32,i32> (12 bytes), plain receiver", false, tag_t3, |a: &T3, b: &T3| a == b),
        2 => one!("f64 zeros (-0.0 where the position is 3 mod 7), call on Ok(array)", true, |k: i64| zs(k % 7 == 3), |a: &f64, b: &f64| a.to_bits() == b.to_bits()),
        3 => one!("Tuple3<u8,u8,u8> (3 bytes), call on Ok(array)", true, tag_t3b, |a: &T3b, b: &T3b| a == b),
        _ => one!("the user type AllEq (== always true), plain receiver", false, |k: i64| AllEq(k), |a: &AllEq, b: &AllEq| a.0 == b.0),
    }
    Some(Verdict::Match(match &want { Ok((s, _)) => format!("ok native (giant: shape {} compared in place with the harness-native reference)", show_list(s)), Err(()) => "err (giant: refused, as the reference demands)".into() }))
}

/// the shape named by an array token (`i2,3`, `i2,3+7`, `2,3:…`, `iota:2,3`)
fn shape_of_token(s: &str) -> Vec<usize> {
    if let Some(sh) = s.strip_prefix("iota:") { return parse_usize_list(sh); }
    let body = s.strip_prefix('i').unwrap_or(s); let sh = body.split(|c| c == '+' || c == ':').next().unwrap_or("-"); parse_usize_list(sh)
}
fn elems_of(args: &[&str]) -> usize { args.first().map_or(0, |s| shape_of_token(s).iter().product()) }

/// one ordinary call line against the model's answer; on the way the native reference is compared with the model
fn exec_call(op: &str, args: &[&str], expected: &str, full: bool) -> Option<Verdict> {
    // the four further element types: arrays of at most 600 elements, one case line in three
    let more = elems_of(args) <= 600 && args.iter().map(|a| a.len()).sum::<usize>() % 3 == 0;
    let obs = run_call(op, args, more)?;
    match oracle(op, args) {
        None => { ORACLE_SILENT.fetch_add(1, Ordering::Relaxed); }
        Some(o) => {
            let ot = oracle_text(&o);
            let agree = if o.is_none() { class_of(expected) == "err" } else { ot == expected };
            if !agree { return Some(Verdict::Mismatch { observed: obs, detail: format!("ORACLE-VS-MODEL the harness-native reference gives `{}`, the model `{}` ({}) (harness defect: the reference is not usable)", truncate(&ot, 300), truncate(expected, 300), diff_detail(&ot, expected)) }); }
            ORACLE_CHECKED.fetch_add(1, Ordering::Relaxed);
        }
    }
    let v = compare_default(obs, expected);
    // part 3: the value-relation and layout images of the case (all of them on `v` lines, on one case in 16 up to 100 elements and
    // one in 32 up to 600; the two cheapest on a further case in four up to 100 elements, one in eight up to 600, one in 32 up to 5000)
    if let Verdict::Match(o) = &v {
        let (n, h) = (elems_of(args), fnv(&format!("{op} {}", args.join(" "))));
        let level = if full { 2 } else if n <= 100 { if h % 16 == 0 { 2 } else if h % 4 == 1 { 1 } else { 0 } } else if n <= 600 { if h % 32 == 0 { 2 } else if h % 8 == 1 { 1 } else { 0 } } else if n <= 5000 && h % 32 == 0 { 1 } else { 0 };
        if let Some(d) = images(op, args, level) { return Some(Verdict::Mismatch { observed: o.clone(), detail: format!("IMAGE-DIVERGENCE {d}") }); }
    }
    Some(v)
}

/// `n call…`: a huge array; the driver answers `ok native`, the crate is judged by the native reference
fn exec_native(args: &[&str], expected: &str) -> Option<Verdict> {
    if expected != "ok native" { return Some(compare_default("harness: an `n` line expects the driver to answer `ok native`".into(), expected)); }
    let (op, rest) = (*args.first()?, &args[1..]);
    if rest.first()?.starts_with("iota:") { return exec_giant(op, rest); }
    let want = oracle_text(&oracle(op, rest)?);      // `n` lines are only generated where the reference has an opinion
    ORACLE_ONLY.fetch_add(1, Ordering::Relaxed);
    let obs = run_call(op, rest, false)?;
    if obs == want || (class_of(&obs) == "err" && want == "err") {
        // part 3: one line in 16 also runs the two cheapest value-relation images (all-zero f64 with one -0.0, AllEq)
        if fnv(&args.join(" ")) % 16 == 0 { if let Some(d) = images(op, rest, 1) { return Some(Verdict::Mismatch { observed: truncate(&obs, 300), detail: format!("IMAGE-DIVERGENCE {d}") }); } }
        return Some(Verdict::Match(format!("ok native ({} bytes as the harness-native reference)", obs.len())));
    }
    Some(Verdict::Mismatch { detail: format!("differs from the harness-native coordinate reference: {}; reference `{}`", diff_detail(&obs, &want), truncate(&want, 300)), observed: truncate(&obs, 1500) })
}

thread_local! { static PREV: RefCell<Option<(String, Vec<String>, String)>> = const { RefCell::new(None) }; }

fn exec(op: &str, args: &[&str], expected: &str) -> Option<Verdict> {
    // VERIF_SLOW=<seconds>: name the case lines whose execution takes longer (tuning aid, no influence on the verdicts)
    let t0 = std::time::Instant::now();
    let v = exec_line(op, args, expected);
    if let Some(lim) = std::env::var("VERIF_SLOW").ok().and_then(|s| s.parse::<f64>().ok()) { let dt = t0.elapsed().as_secs_f64(); if dt > lim { eprintln!("slow {dt:.2}s {op} {}", truncate(&args.join(" "), 150)); } }
    v
}

fn exec_line(op: &str, args: &[&str], expected: &str) -> Option<Verdict> {
    match op {
        "oracle_report" => {
            let text = format!("ok report: so far the harness-native reference agreed with the full model answer on {} cases (no opinion on {}), {} huge calls judged by the reference only, {} calls inside seq lines, {} implicit A-B-A re-runs, {} value-relation / layout image runs ({:.1} s), {} giant runs compared in place ({:.1} s)",
                ORACLE_CHECKED.load(Ordering::Relaxed), ORACLE_SILENT.load(Ordering::Relaxed), ORACLE_ONLY.load(Ordering::Relaxed), SEQ_CALLS.load(Ordering::Relaxed), ABA_RERUNS.load(Ordering::Relaxed), IMAGE_RUNS.load(Ordering::Relaxed), IMAGE_MS.load(Ordering::Relaxed) as f64 / 1e6, GIANT_RUNS.load(Ordering::Relaxed), GIANT_MS.load(Ordering::Relaxed) as f64 / 1e6);
            if std::env::var("VERIF_SLOW").is_ok() { eprintln!("{text}"); }
            if expected != "ok report" { return Some(compare_default(text, expected)); }
            // the final report fails when the reference was (almost) never validated although it was relied upon
            if args.first() == Some(&"final") && ORACLE_ONLY.load(Ordering::Relaxed) > 0 && ORACLE_CHECKED.load(Ordering::Relaxed) < 1000 {
                return Some(Verdict::Mismatch { observed: text, detail: "the native reference was relied upon without having been compared with the model on at least 1000 cases of this run".into() });
            }
            Some(Verdict::Match(text))
        }
        "n" => exec_native(args, expected),
        // `v call`: the call with ALL value-relation and layout images
        "v" => exec_call(args.first()?, &args[1..], expected, true),
        "seq" => {
            let calls: Vec<&[&str]> = args.split(|t| *t == "/").collect();
            let exps: Vec<&str> = expected.split(" / ").collect();
            if calls.len() != exps.len() { return Some(compare_default(format!("harness: {} calls but {} model answers", calls.len(), exps.len()), expected)); }
            let mut texts = vec![]; let mut bad: Option<String> = None;
            for (q, (c, e)) in calls.iter().zip(&exps).enumerate() {
                SEQ_CALLS.fetch_add(1, Ordering::Relaxed);
                let v = if c.first() == Some(&"n") { exec_native(&c[1..], e)? } else if c.first() == Some(&"v") { exec_call(c.get(1)?, &c[2..], e, true)? } else { exec_call(c.first()?, &c[1..], e, false)? };
                match v {
                    Verdict::Match(o) | Verdict::Open(o) => texts.push(truncate(&o, 400)),
                    Verdict::Mismatch { observed, detail } => { if bad.is_none() { bad = Some(format!("call {} of the sequence (`{}`): {}", q + 1, c.join(" "), detail)); } texts.push(truncate(&observed, 400)); }
                }
            }
            let obs = texts.join(" / ");
            Some(match bad { Some(d) => Verdict::Mismatch { observed: obs, detail: d }, None => Verdict::Match(obs) })
        }
        _ => {
            let v = exec_call(op, args, expected, false)?;
            // implicit A–B–A: after a share of the small cases the PREVIOUS case is run again and must repeat its answer
            let small = elems_of(args) <= 600;
            if small && args.iter().map(|a| a.len()).sum::<usize>() % 4 == 1 {
                if let Some((pop, pargs, pans)) = PREV.with(|p| p.borrow().clone()) {
                    let pa: Vec<&str> = pargs.iter().map(|s| s.as_str()).collect();
                    if let Some(again) = plain_i64(&pop, &pa) {
                        ABA_RERUNS.fetch_add(1, Ordering::Relaxed);
                        if again != pans { if let Verdict::Match(o) = &v { return Some(Verdict::Mismatch { observed: o.clone(), detail: format!("A-B-A: after this call the previous case `{} {}` no longer repeats its answer: `{}` instead of `{}`", pop, pargs.join(" "), truncate(&again, 300), truncate(&pans, 300)) }); } }
                    }
                }
            }
            if small { if let Some(ans) = plain_i64(op, args) { PREV.with(|p| *p.borrow_mut() = Some((op.to_string(), args.iter().map(|s| s.to_string()).collect(), ans))); } }
            Some(v)
        }
    }
}

fn nontrivial(op: &str, args: &[&str]) -> bool {
    match op {
        "oracle_report" => false,
        "seq" => args.split(|t| *t == "/").any(|c| !c.is_empty() && nontrivial(c[0], &c[1..])),
        "n" => args.len() >= 2 && nontrivial(args[0], &args[1..]),
        "v" => args.len() >= 2 && nontrivial(args[0], &args[1..]),
        _ => shape_of_token(args[0]).iter().filter(|&&d| d > 1).count() >= 2,
    }
}

fn main() {
    harness_main(Spec { prop: "C12", gen, exec, nontrivial, hang_secs: 45,
        rule: "every shape rank<=4 len<=3 (+ lengths 4-5): flip none / every axis +- / every ordered pair / triples; flipud, fliplr; roll along the flat order for shifts in [-3n,3n] (+ far beyond), along every axis +- for every shift in [-3d,3d] (+ far beyond), 2-element axis/shift lists incl. repeated axes and one shift for two axes; rot90 k=0..7 x every ordered axis pair in several spellings (incl. equal axes); out-of-range axes and malformed lists; seeded random rank 5 len<=4. Robustness streams: sizes (lib big_shapes + matrices with both axes >= 8: square, off by one, far from square, around 256/1024/4096 elements, up to [70,70]/[128,33]/[8,8,8,8]; the same lengths at rank 3-4 in every position; unit axes next to long ones; rank 9; thorough: every [a,b] with 7<=a,b<=17): flip none/every axis/lists, flipud/fliplr, roll flat and per axis for shifts around 0, d/2, d, beyond, lists with one axis under two spellings, rot90 k=0..7 x every ordered axis pair (>= 2000 elements: k=1,2,3 x four pairs), malformed; zero-length shapes (lib zero_shapes + [3,0,2],[1,0,1],[0,3,1],[2,2,0,2]) through every op; arrays holding the zero tag in most positions (f64/f32 image -0.0, compared bit-wise); seeded random rank 2-4 with axis lengths <= 17 (thorough <= 40). EVERY case runs on Array<i64> (the compared answer), on the u8 and f64 (tag 0 = -0.0, bit-wise) images, one small case in three also on i8 / bool / String / f32, each on the plain receiver AND on Ok(array) through the Result-receiver impl, and the i64 call twice; any divergence fails the case. Tag arrays: shape and every element compared.  Part 2: seq lines (calls back to back on one thread: shapes colliding under weak hashes with equal element counts, permuted / regrouped shapes, all axis pairs of one shape, refused-then-valid, A-B-A), n lines (16384..140000 elements, axes above 65536) judged by the harness-native coordinate-formula reference, which is compared with the full model answer on every other case of the run (oracle_report lines); every axis length 1..300 in a non-leading position; shifts / turn counts / axes c+2^8, c+2^16, c+2^32; ranks 5-8 with axis / shift lists of 3-6 entries; implicit A-B-A re-runs in exec.  Part 3: n lines on iota:<shape> arrays (2^20 < count <= 2.2*10^6; ranks 1-4 (thorough to 6), first / middle / last axis, extents that are and are not multiples of 64, wide and tall matrices, every operation; a flip / roll is only asked for where the crate's own split cuts into at most 260 blocks) built by the harness and compared in place with the native reference run on the iota tags: i64 tags on the plain receiver + one of u8 on Ok(array) / 12-byte tuples / all-zero f64 of both signs on Ok(array) / 3-byte tuples on Ok(array) / AllEq; v lines (every operation over the small scope, constant / 0-1 / single-odd-element arrays, refused calls) run ALL value-relation images of the tag array (elements all == but not identical: f64, f32, Tuple2<f64,f32>, List<f64> made of 0.0 and -0.0 only, the user types AllEq (== always true) and Label (case-insensitive ==)) and layout images (Tuple3<i32,i32,i32> 12 bytes, Tuple3<u8,u8,u8> 3 bytes, Tuple2<String,i32> 32 bytes) on both receivers; a share of all other cases runs them too (all on one case in 16 up to 100 elements, two of them on one in four; thinner above); shifts ceil(k*2^64/stride)+c along every axis and the flat order, turn counts near 2^62, 2^63, 2^64. non-trivial = >=2 axes longer than 1 (seq / n / v lines: some call of the line)" });
}
