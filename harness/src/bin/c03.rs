//! C03 — broadcasting: shape rule and value placement. Value protocol with distinct tags.
//! Robustness streams (FRAMEWORK.md): stretch targets beyond 256 / 1024 / 4096 elements and axis lengths 7..17, zero-length
//! axes, the element-type sweep (byte-sized types, floats with -0.0 / +0.0 / NaN / subnormals compared bit-wise, integers
//! beyond 2^53, String), both receivers, the same call twice.
//! Part 2: hidden state (`seq` lines = several calls on one thread: hash-collision shape pairs, narrowed axis lengths, value
//! permutations, failing-then-valid; an A-B-A re-run of the previous case after every case), huge targets (16 384 .. 196 611
//! elements, axes above 65 536) with a harness-native odometer reference that is compared with the model on every other case,
//! every axis length 1..300, the same object on both sides, ranks 5..8, lists of up to 70 arrays.
//! Part 3: giant targets (2^20 < count <= 2.2 million; `g` lines: the model answers the result shape, the values are compared in
//! place with the harness-native reference — never formatted), odd-layout element types (12-, 3- and 32-byte tuples), constant and
//! all-`==`-but-not-identical sources against EVERY small target (refused and accepted), the helpers' second public lift
//! (`round`, op `h2r`) so that broadcast_h2 also gets giant cases.
use arrharness::*;
use std::cell::RefCell;
use std::panic::{catch_unwind, AssertUnwindSafe};
use std::sync::atomic::{AtomicUsize, Ordering};

// ================================================================ element-type images

/// image of a tag in another element type: broadcasting is value-blind, so it must move the IMAGES exactly as it moves the tags
trait Image {
    type T: ArrayElement;
    const NAME: &'static str;
    fn img(t: i64) -> Self::T;
    fn same(a: &Self::T, b: &Self::T) -> bool { a == b }
}
struct L12; struct L3; struct L32;
/// odd layouts (FRAMEWORK part 3): 12-byte and 3-byte tuples (tiles of `64 / size_of::<T>()` elements are not powers of two) and a
/// 32-byte tuple that is not `Copy` (paths chosen by `size_of::<T>() > 24`)
impl Image for L12 { type T = T3; const NAME: &'static str = "Tuple3<i32,i32,i32> (12 bytes)"; fn img(t: i64) -> T3 { tag_t3(t) } }
impl Image for L3 { type T = T3b; const NAME: &'static str = "Tuple3<u8,u8,u8> (3 bytes)"; fn img(t: i64) -> T3b { tag_t3b(t) } }
impl Image for L32 { type T = TW; const NAME: &'static str = "Tuple2<String,i32> (32 bytes)"; fn img(t: i64) -> TW { tag_tw(t) } }
struct I64; struct I64Big; struct U8; struct U8Hi; struct I8; struct Bool; struct U16; struct I32; struct Usize; struct F32; struct F64z; struct F64v; struct Str;
impl Image for I64 { type T = i64; const NAME: &'static str = "i64"; fn img(t: i64) -> i64 { t } }
/// integers beyond 2^53 (an f64 round trip loses the low bit)
impl Image for I64Big { type T = i64; const NAME: &'static str = "i64 (2^53 + 1 + tag)"; fn img(t: i64) -> i64 { (1i64 << 53) + 1 + t } }
impl Image for U8 { type T = u8; const NAME: &'static str = "u8"; fn img(t: i64) -> u8 { tag_u8(t) } }
impl Image for U8Hi { type T = u8; const NAME: &'static str = "u8 (255 - tag)"; fn img(t: i64) -> u8 { 255 - tag_u8(t) } }
impl Image for I8 { type T = i8; const NAME: &'static str = "i8"; fn img(t: i64) -> i8 { (t.rem_euclid(255) - 127) as i8 } }
impl Image for Bool { type T = bool; const NAME: &'static str = "bool"; fn img(t: i64) -> bool { t % 2 != 0 } }
impl Image for U16 { type T = u16; const NAME: &'static str = "u16"; fn img(t: i64) -> u16 { t.rem_euclid(65521) as u16 } }
impl Image for I32 { type T = i32; const NAME: &'static str = "i32"; fn img(t: i64) -> i32 { (t % 2_000_000_011) as i32 } }
impl Image for Usize { type T = usize; const NAME: &'static str = "usize"; fn img(t: i64) -> usize { t.unsigned_abs() as usize } }
impl Image for F32 { type T = f32; const NAME: &'static str = "f32 (tag 0 = -0.0)"; fn img(t: i64) -> f32 { if t == 0 { -0.0 } else { (t % 16_000_000) as f32 } } fn same(a: &f32, b: &f32) -> bool { a.to_bits() == b.to_bits() } }
/// tag 0 is NEGATIVE zero, every other tag its own value; compared bit-wise
impl Image for F64z { type T = f64; const NAME: &'static str = "f64 (tag 0 = -0.0)"; fn img(t: i64) -> f64 { tag_f64z(t) } fn same(a: &f64, b: &f64) -> bool { a.to_bits() == b.to_bits() } }
/// value classes by tag mod 8: -0.0, +0.0 (== but not identical), NaN, a negative NaN with payload (never ==), the two smallest
/// subnormals, 2^53 + 2, the tag itself; compared bit-wise
impl Image for F64v {
    type T = f64; const NAME: &'static str = "f64 (-0.0/+0.0/NaN/subnormal classes)";
    fn img(t: i64) -> f64 {
        match t.rem_euclid(8) { 0 => -0.0, 1 => 0.0, 2 => f64::NAN, 3 => f64::from_bits(0xFFF8_0000_0000_0BAD), 4 => f64::from_bits(1), 5 => -f64::from_bits(1),
                                6 => 9007199254740994.0, _ => t as f64 }
    }
    fn same(a: &f64, b: &f64) -> bool { a.to_bits() == b.to_bits() }
}
impl Image for Str { type T = String; const NAME: &'static str = "String"; fn img(t: i64) -> String { format!("s{t}") } }

type Raw = (Vec<usize>, Vec<i64>);
/// build the real array WITHOUT going through any operation under test other than `Array::new`
fn build<I: Image>(r: &Raw) -> Array<I::T> { Array::new(r.1.iter().map(|&t| I::img(t)).collect(), r.0.clone()).expect("harness: malformed array literal in case line") }

#[derive(Clone, Debug)]
enum Out<V> { Ok(V), Err(&'static str), Panic }
fn run<V>(f: impl FnOnce() -> Result<V, ArrayError>) -> Out<V> {
    match catch_unwind(AssertUnwindSafe(f)) { Ok(Ok(v)) => Out::Ok(v), Ok(Err(e)) => Out::Err(err_name(&e)), Err(_) => Out::Panic }
}
#[derive(Clone, Debug)]
struct Piece<E> { shape: Vec<usize>, elems: Vec<E>, consistent: bool }
#[derive(Clone, Debug)]
enum Ans<T> { Arr(Piece<T>), Pairs(Piece<(T, T)>), List(Vec<Piece<T>>) }
fn piece<T: ArrayElement>(a: &Array<T>) -> Piece<T> { Piece { shape: a.get_shape().unwrap(), elems: a.get_elements().unwrap(), consistent: consistent(a) } }
fn pairs<T: ArrayElement>(a: &Array<Tuple2<T, T>>) -> Piece<(T, T)> {
    Piece { shape: a.get_shape().unwrap(), elems: a.get_elements().unwrap().into_iter().map(|t| (t.0, t.1)).collect(), consistent: consistent(a) }
}

enum Call { Broadcast(Raw, Raw), Zip(Raw, Raw), To(Raw, Vec<usize>), Arrays(Vec<Raw>) }

/// the real call on the `I` image of the operands.  `chained` = the same method on `Ok(array)` through
/// `impl ArrayBroadcast<T> for Result<Array<T>, ArrayError>` (`None`: `zip` has no such form)
fn call<I: Image>(c: &Call, chained: bool) -> Option<Out<Ans<I::T>>> {
    Some(match (c, chained) {
        (Call::Broadcast(a, b), false) => { let (a, b) = (build::<I>(a), build::<I>(b)); run(|| a.broadcast(&b).map(|r| Ans::Pairs(pairs(&r)))) }
        (Call::Broadcast(a, b), true) => { let (a, b) = (build::<I>(a), build::<I>(b)); let r: Result<Array<I::T>, ArrayError> = Ok(a); run(|| r.broadcast(&b).map(|r| Ans::Pairs(pairs(&r)))) }
        (Call::Zip(a, b), false) => { let (a, b) = (build::<I>(a), build::<I>(b)); run(|| a.zip(&b).map(|r| Ans::Pairs(pairs(&r)))) }
        (Call::Zip(..), true) => return None,
        (Call::To(a, t), false) => { let a = build::<I>(a); run(|| a.broadcast_to(t.clone()).map(|r| Ans::Arr(piece(&r)))) }
        (Call::To(a, t), true) => { let r: Result<Array<I::T>, ArrayError> = Ok(build::<I>(a)); run(|| r.broadcast_to(t.clone()).map(|r| Ans::Arr(piece(&r)))) }
        (Call::Arrays(l), false) => { let l: Vec<Array<I::T>> = l.iter().map(build::<I>).collect(); run(|| Array::broadcast_arrays(l).map(|v| Ans::List(v.iter().map(piece).collect()))) }
        (Call::Arrays(l), true) => { let l: Vec<Array<I::T>> = l.iter().map(build::<I>).collect();
            run(|| <Result<Array<I::T>, ArrayError> as ArrayBroadcast<I::T>>::broadcast_arrays(l).map(|v| Ans::List(v.iter().map(piece).collect()))) }
    })
}

fn show_piece(p: &Piece<i64>) -> String { format!("{}{}:{}", if p.consistent { "" } else { "<inconsistent array> " }, show_list(&p.shape), show_list(&p.elems)) }
/// protocol text of the canonical (plain receiver, i64 tags) answer
fn show_out(o: &Out<Ans<i64>>) -> String {
    match o {
        Out::Panic => "panic".to_string(),
        Out::Err(e) => format!("err {e}"),
        Out::Ok(Ans::Arr(p)) => format!("ok {}", show_piece(p)),
        Out::Ok(Ans::Pairs(p)) => {
            let items: Vec<String> = p.elems.iter().map(|t| format!("{}/{}", t.0, t.1)).collect();
            format!("ok {}{}:{}", if p.consistent { "" } else { "<inconsistent array> " }, show_list(&p.shape), if items.is_empty() { "-".to_string() } else { items.join(",") })
        }
        Out::Ok(Ans::List(v)) => format!("ok {}", if v.is_empty() { "-".to_string() } else { v.iter().map(show_piece).collect::<Vec<_>>().join(";") }),
    }
}

fn piece_agrees<I: Image>(b: &Piece<i64>, v: &Piece<I::T>) -> Option<String> {
    if b.shape != v.shape || b.consistent != v.consistent || b.elems.len() != v.elems.len() { return Some(format!("shape {} ({} elements)", show_list(&v.shape), v.elems.len())); }
    for p in 0..b.elems.len() {
        if !I::same(&I::img(b.elems[p]), &v.elems[p]) { return Some(format!("{:?} at flat position {p} where the image of tag {} is {:?}", v.elems[p], b.elems[p], I::img(b.elems[p]))); }
    }
    None
}
/// does the answer `v` on the `I` image agree with the canonical answer `b` on the i64 tags?  `Some(what)` = no.
/// Same outcome class (any two errors agree), same shapes, and every element is the image of the tag at that position
/// (pairs: both components separately).
fn disagree<I: Image>(b: &Out<Ans<i64>>, v: &Out<Ans<I::T>>) -> Option<String> {
    match (b, v) {
        (Out::Panic, Out::Panic) | (Out::Err(_), Out::Err(_)) => None,
        (Out::Ok(Ans::Arr(b)), Out::Ok(Ans::Arr(v))) => piece_agrees::<I>(b, v),
        (Out::Ok(Ans::List(b)), Out::Ok(Ans::List(v))) => {
            if b.len() != v.len() { return Some(format!("{} arrays", v.len())); }
            (0..b.len()).find_map(|k| piece_agrees::<I>(&b[k], &v[k]).map(|d| format!("array {k}: {d}")))
        }
        (Out::Ok(Ans::Pairs(b)), Out::Ok(Ans::Pairs(v))) => {
            if b.shape != v.shape || b.consistent != v.consistent || b.elems.len() != v.elems.len() { return Some(format!("shape {} ({} elements)", show_list(&v.shape), v.elems.len())); }
            for p in 0..b.elems.len() {
                if !I::same(&I::img(b.elems[p].0), &v.elems[p].0) { return Some(format!("first component {:?} at flat position {p} where the image of tag {} is {:?}", v.elems[p].0, b.elems[p].0, I::img(b.elems[p].0))); }
                if !I::same(&I::img(b.elems[p].1), &v.elems[p].1) { return Some(format!("second component {:?} at flat position {p} where the image of tag {} is {:?}", v.elems[p].1, b.elems[p].1, I::img(b.elems[p].1))); }
            }
            None
        }
        (_, Out::Ok(_)) => Some("a value".to_string()),
        (_, Out::Err(e)) => Some(format!("err {e}")),
        (_, Out::Panic) => Some("a panic".to_string()),
    }
}

/// one element-type image: plain and chained receiver against the canonical answer; `Some(text)` = a divergence
fn variant<I: Image>(c: &Call, base: &Out<Ans<i64>>, plain: bool, chained: bool) -> Option<String> {
    if plain {
        let v = call::<I>(c, false)?;
        if let Some(d) = disagree::<I>(base, &v) {
            return Some(if I::NAME == "i64" { format!("REPEAT-DIVERGENCE the same call a second time gives {d}") } else { format!("TYPE-DIVERGENCE element type {} gives {d}", I::NAME) });
        }
    }
    if chained {
        if let Some(v) = call::<I>(c, true) {
            if let Some(d) = disagree::<I>(base, &v) { return Some(format!("RECEIVER-DIVERGENCE the call on the Result receiver (element type {}) gives {d}", I::NAME)); }
        }
    }
    None
}

/// the canonical answer text of a case plus the robustness streams: the same call a second time, the Result receiver, the
/// element-type sweep.  Results of up to 600 elements: every image on both receivers; larger ones: i64 / u8 on both receivers,
/// bool / the two f64 images on the plain one.
fn observe(c: &Call) -> (String, String, Out<Ans<i64>>) {
    let base = call::<I64>(c, false).expect("plain form exists");
    let text = show_out(&base);
    let size = match &base { Out::Ok(Ans::Arr(p)) => p.elems.len(), Out::Ok(Ans::Pairs(p)) => p.elems.len(), Out::Ok(Ans::List(v)) => v.iter().map(|p| p.elems.len()).sum(), _ => 0 };
    let d = robust(c, &base, size);
    match d { Some(d) => (format!("{d}; plain Array<i64> call: {}", truncate(&text, 300)), text, base), None => (text.clone(), text, base) }
}

/// the robustness streams of one case, given the canonical answer: `Some(text)` = a divergence.  Results above 20 000 elements:
/// the second call on i64 always; alternately the Result receiver + the f64 value-class image / the u8 image.
fn robust(c: &Call, base: &Out<Ans<i64>>, size: usize) -> Option<String> {
    let small = size <= 600;
    let huge = size > 20_000;
    // huge results: the second call always; the Result receiver and the f64 image / the u8 image on every other huge case
    let rot = if huge { HUGE_ROT.fetch_add(1, Ordering::Relaxed) % 2 } else { 0 };
    variant::<I64>(c, base, true, !huge || rot == 0)
        .or_else(|| if huge && rot == 0 { None } else { variant::<U8>(c, base, true, !huge) })
        .or_else(|| if huge { None } else { variant::<F64z>(c, base, true, small) })
        .or_else(|| if huge && rot == 1 { None } else { variant::<F64v>(c, base, true, small) })
        .or_else(|| if huge { None } else { variant::<Bool>(c, base, true, small) })
        .or_else(|| aliased::<I64>(c, base))
        .or_else(|| aliased::<F64v>(c, base))
        .or_else(|| if small { variant::<I8>(c, base, true, true) } else { None })
        .or_else(|| if small { variant::<U8Hi>(c, base, true, true) } else { None })
        .or_else(|| if small { variant::<I64Big>(c, base, true, true) } else { None })
        .or_else(|| if small { variant::<U16>(c, base, true, true) } else { None })
        .or_else(|| if small { variant::<I32>(c, base, true, true) } else { None })
        .or_else(|| if small { variant::<F32>(c, base, true, true) } else { None })
        .or_else(|| if small { variant::<Usize>(c, base, true, true) } else { None })
        .or_else(|| if small { variant::<Str>(c, base, true, true) } else { None })
        // odd layouts: ONE of the three in turn — up to 600 elements on both receivers, above that on the plain receiver (the 32-byte
        // one on every sixth case; results above 20 000 elements: on every fourth case, the 32-byte one on every 24th)
        .or_else(|| {
            let turn = LAYOUT_ROT.fetch_add(1, Ordering::Relaxed);
            if huge { match turn % 24 { 0 | 8 | 16 => variant::<L12>(c, base, true, false), 4 | 12 | 20 => variant::<L3>(c, base, true, false), 10 => variant::<L32>(c, base, true, false), _ => None } }
            else if small { match turn % 3 { 0 => variant::<L12>(c, base, true, true), 1 => variant::<L3>(c, base, true, true), _ => variant::<L32>(c, base, true, true) } }
            else { match turn % 6 { 0 | 3 | 5 => variant::<L12>(c, base, true, false), 1 | 4 => variant::<L3>(c, base, true, false), _ => variant::<L32>(c, base, true, false) } }
        })
}

/// aliasing: when both operands of `broadcast` / `zip` are the same array, the call with the SAME OBJECT on both sides
/// (`a.broadcast(&a)`) must give what the call on two separately built operands gives
fn aliased<I: Image>(c: &Call, base: &Out<Ans<i64>>) -> Option<String> {
    let v = match c {
        Call::Broadcast(a, b) if a == b => { let x = build::<I>(a); run(|| x.broadcast(&x).map(|r| Ans::Pairs(pairs(&r)))) }
        Call::Zip(a, b) if a == b => { let x = build::<I>(a); run(|| x.zip(&x).map(|r| Ans::Pairs(pairs(&r)))) }
        _ => return None,
    };
    disagree::<I>(base, &v).map(|d| format!("ALIAS-DIVERGENCE the call with the same object on both sides (element type {}) gives {d}", I::NAME))
}

/// can `s` be stretched to `t`? Same rule as the Lean `stretchable`: trailing alignment; every source axis equals the
/// aligned target axis or is 1; no zero length on an ALIGNED axis; the added leading target axes are unconstrained
/// (a zero-length one gives an empty result).
fn stretchable(s: &[usize], t: &[usize]) -> bool {
    if s.len() > t.len() { return false; }
    let off = t.len() - s.len();
    s.iter().zip(&t[off..]).all(|(&f, &to)| (f == to || f == 1) && f != 0 && to != 0)
}

// ---- observing the crate-internal helpers broadcast_h2 / broadcast_h3 through public pure lifts over them ----
// `multiply(counts)` = broadcast_h2 then `s.repeat(n)` position by position; `ljust(width, fill)` = broadcast_h3 then
// `s + fill * (width - len)`. With per-position-recoverable operands the result text reveals which source positions
// were paired at every result position, i.e. the two / three stretched operands themselves.

const W: usize = 4; // digits of the string operand's text
/// string operand: element with tag v (0 <= v < 10^W) becomes the W-digit decimal text of v
fn str_operand(a: &Array<i64>) -> Option<Array<String>> {
    let e = a.get_elements().unwrap();
    if e.iter().any(|&v| v < 0 || v >= 10i64.pow(W as u32)) { return None; }
    Some(Array::new(e.iter().map(|v| format!("{:0w$}", v, w = W)).collect(), a.get_shape().unwrap()).expect("harness: string operand"))
}
/// count / width operand: element with tag v (base <= v < base + 5000) becomes the number v - base + add
fn num_operand(a: &Array<i64>, base: i64, add: usize) -> Option<Array<usize>> {
    let e = a.get_elements().unwrap();
    if e.iter().any(|&v| v < base || v >= base + 5000) { return None; }
    Some(Array::new(e.iter().map(|&v| (v - base) as usize + add).collect(), a.get_shape().unwrap()).expect("harness: numeric operand"))
}
/// fill-character operand: element with tag v (base <= v < base + 5000) becomes the character U+0100 + (v - base)
fn char_operand(a: &Array<i64>, base: i64) -> Option<Array<char>> {
    let e = a.get_elements().unwrap();
    if e.iter().any(|&v| v < base || v >= base + 5000) { return None; }
    Some(Array::new(e.iter().map(|&v| char::from_u32(0x100 + (v - base) as u32).unwrap()).collect(), a.get_shape().unwrap()).expect("harness: char operand"))
}
fn show_tags(shape: &[usize], tags: &[i64]) -> String { format!("{}:{}", show_list(shape), show_list(tags)) }

/// `multiply` result -> the two stretched tag arrays (None: the text is not a whole number of repetitions of one tag)
fn decode_multiply(r: &Array<String>) -> Option<String> {
    let (shape, e) = (r.get_shape().unwrap(), r.get_elements().unwrap());
    let (mut ta, mut tb) = (vec![], vec![]);
    for s in &e {
        if !s.is_ascii() || s.is_empty() || s.len() % W != 0 { return None; }
        let first = &s[..W];
        if (0..s.len() / W).any(|k| &s[k * W..(k + 1) * W] != first) { return None; }
        ta.push(first.parse::<i64>().ok()?);
        tb.push(1000 + (s.len() / W) as i64 - 1);
    }
    Some(format!("{};{}", show_tags(&shape, &ta), show_tags(&shape, &tb)))
}
/// `ljust` result -> the three stretched tag arrays
fn decode_ljust(r: &Array<String>) -> Option<String> {
    let (shape, e) = (r.get_shape().unwrap(), r.get_elements().unwrap());
    let (mut ta, mut tb, mut tc) = (vec![], vec![], vec![]);
    for s in &e {
        let cs: Vec<char> = s.chars().collect();
        if cs.len() < W + 1 || !cs[..W].iter().all(|c| c.is_ascii_digit()) { return None; }
        let fill = cs[W];
        if (fill as u32) < 0x100 || cs[W..].iter().any(|&c| c != fill) { return None; }
        ta.push(cs[..W].iter().collect::<String>().parse::<i64>().ok()?);
        tb.push(1000 + (cs.len() - W - 1) as i64);
        tc.push(2000 + (fill as u32 - 0x100) as i64);
    }
    Some(format!("{};{};{}", show_tags(&shape, &ta), show_tags(&shape, &tb), show_tags(&shape, &tc)))
}

fn gen(tier: &str, seed: u64, out: &mut dyn FnMut(String)) {
    let mut buf: Vec<String> = vec![];
    gen_all(tier, seed, &mut |l| buf.push(l));
    // two bookkeeping lines: how often the harness-native reference was compared with the model.  The first one sits where the
    // summary of lib.rs takes its last sample (so that the count shows up in the evidence), the second one closes the run.
    let stride = ((buf.len() + 2) / 12).max(1);
    let at = (11 * stride).min(buf.len());
    buf.insert(at, "oracle_report".to_string());
    buf.push("oracle_report final".to_string());
    for l in buf { out(l); }
}

fn gen_all(tier: &str, seed: u64, out: &mut dyn FnMut(String)) {
    let thorough = tier == "thorough";
    // corpus of past failures first
    for l in ["broadcast i2,3 i1+1000", "broadcast i2,3 i3+1000", "broadcast_to i3 2,2,3", "broadcast_to i2 2,3", "broadcast_to i2,1,3 2,2,3",
              "zip i1 i3+1000", "broadcast i2,1 i1,3+1000", "broadcast_arrays i2,1;i3+1000;i1,1,1+2000",
              "h2 i2,1 i3+1000", "h2 i3 i2,1+1000", "h3 i2,1 i3+1000 i1+2000", "h3 i1 i2,1,1+1000 i3+2000", "h2 i2 i3+1000", "h3 i2 i1+1000 i3+2000",
              "broadcast_to i3 0,3", "broadcast_to i1 0,2", "broadcast_to i2,3 0,2,3", "broadcast_to i3 0,2", "zip i0,3 i3+1000"] { out(l.to_string()); }
    let small = shapes(1, 3, 1, 3);
    for s in &small { for t in &small {
        out(format!("broadcast {} {}", tag(s), tag_off(t, 1000)));
        out(format!("zip {} {}", tag(s), tag_off(t, 1000)));
        out(format!("broadcast_to {} {}", tag(s), show_list(t)));
        out(format!("broadcast_arrays {};{}", tag(s), tag_off(t, 1000)));
        out(format!("h2 {} {}", tag(s), tag_off(t, 1000)));
    } }
    // targets of rank 4 for every small source
    let mut rng = Rng::new(seed);
    for s in &small { for _ in 0..(if thorough { 40 } else { 6 }) {
        // a stretch target: prepend axes, widen unit axes
        let mut t: Vec<usize> = s.iter().map(|&d| if d == 1 && rng.below(2) == 0 { 1 + rng.below(4) } else { d }).collect();
        for _ in 0..rng.below(3) { t.insert(0, 1 + rng.below(3)); }
        out(format!("broadcast_to {} {}", tag(s), show_list(&t)));
    } }
    // triples
    if thorough {
        for a in &small { for b in &small { for c in &small {
            out(format!("broadcast_arrays {};{};{}", tag(a), tag_off(b, 1000), tag_off(c, 2000)));
            out(format!("h3 {} {} {}", tag(a), tag_off(b, 1000), tag_off(c, 2000)));
        } } }
    } else {
        for _ in 0..4000 {
            let (a, b, c) = (rng.pick(&small).clone(), rng.pick(&small).clone(), rng.pick(&small).clone());
            out(format!("broadcast_arrays {};{};{}", tag(&a), tag_off(&b, 1000), tag_off(&c, 2000)));
        }
        // helper triples: every pair of small shapes with a sampled third operand in each of the three positions
        for a in &small { for b in &small {
            let c = rng.pick(&small).clone();
            match rng.below(3) {
                0 => out(format!("h3 {} {} {}", tag(a), tag_off(b, 1000), tag_off(&c, 2000))),
                1 => out(format!("h3 {} {} {}", tag(a), tag_off(&c, 1000), tag_off(b, 2000))),
                _ => out(format!("h3 {} {} {}", tag(&c), tag_off(a, 1000), tag_off(b, 2000))),
            }
        } }
        for _ in 0..1500 {
            let (a, b, c) = (rng.pick(&small).clone(), rng.pick(&small).clone(), rng.pick(&small).clone());
            out(format!("h3 {} {} {}", tag(&a), tag_off(&b, 1000), tag_off(&c, 2000)));
        }
    }
    out("broadcast_arrays -".to_string());
    for s in &small { out(format!("broadcast_arrays {}", tag(s))); }
    // random, beyond the small scope: rank <= 4, len <= 5, mostly compatible
    let n_rand = if thorough { 30000 } else { 4000 };
    for _ in 0..n_rand {
        let base = rng.shape(1, 4, 5);
        let derive = |rng: &mut Rng| -> Vec<usize> {
            let k = rng.below(base.len()) ;
            let mut s: Vec<usize> = base[k..].iter().map(|&d| match rng.below(6) { 0 | 1 => 1, 2 => 1 + rng.below(5), _ => d }).collect();
            if rng.below(8) == 0 { s.insert(0, 1 + rng.below(3)); }
            s
        };
        let (s, t, u) = (derive(&mut rng), derive(&mut rng), derive(&mut rng));
        match rng.below(6) {
            4 => out(format!("h2 {} {}", tag(&s), tag_off(&t, 1000))),
            5 => out(format!("h3 {} {} {}", tag(&s), tag_off(&t, 1000), tag_off(&u, 2000))),
            0 => out(format!("broadcast {} {}", tag(&s), tag_off(&t, 1000))),
            1 => out(format!("zip {} {}", tag(&s), tag_off(&t, 1000))),
            2 => out(format!("broadcast_to {} {}", tag(&s), show_list(&t))),
            _ => out(format!("broadcast_arrays {};{};{}", tag(&s), tag_off(&t, 1000), tag_off(&u, 2000))),
        }
    }
    // zero-length axes (the code refuses them; the statement does not speak about them: compared only as outcome class)
    for (s, t) in [(vec![0], vec![0]), (vec![2, 0], vec![2, 1]), (vec![0], vec![3]), (vec![1], vec![0])] {
        out(format!("broadcast {} {}", tag(&s), tag_off(&t, 1000)));
        out(format!("broadcast_to {} {}", tag(&s), show_list(&t)));
        out(format!("h2 {} {}", tag(&s), tag_off(&t, 1000)));
        out(format!("h3 {} {} {}", tag(&s), tag_off(&t, 1000), tag_off(&[1], 2000)));
        out(format!("h3 {} {} {}", tag(&[2]), tag_off(&s, 1000), tag_off(&t, 2000)));
    }
    // zero-length ADDED LEADING target axes: accepted, empty result (`broadcastTo_stretch`, Lean `stretchable` = true)
    for s in shapes(1, 2, 1, 3) { for lead in [vec![0], vec![0, 2], vec![2, 0], vec![0, 0]] {
        let mut t = lead.clone(); t.extend(s.iter().map(|&d| if d == 1 { 3 } else { d }));
        out(format!("broadcast_to {} {}", tag(&s), show_list(&t)));
        let mut t2 = lead.clone(); t2.extend(s.iter());
        out(format!("broadcast_to {} {}", tag(&s), show_list(&t2)));
        out(format!("zip {} {}", tag(&t2), tag_off(&s, 1000)));
    } }
    // rank-0 operands of the helpers (the one-element temporary is then reshaped to the rank-0 shape)
    for s in &small {
        out(format!("h2 {} {}", tag(&[]), tag_off(s, 1000)));
        out(format!("h2 {} {}", tag(s), tag_off(&[], 1000)));
        out(format!("h3 {} {} {}", tag(s), tag_off(&[], 1000), tag_off(&[], 2000)));
    }
    gen_robust(thorough, &mut rng, out);
    gen_part2(thorough, &mut rng, out);
    gen_part3(thorough, seed, &mut rng, out);
}

/// `s` with the axes selected by `unit` set to length 1
fn unitize(s: &[usize], unit: impl Fn(usize) -> bool) -> Vec<usize> { s.iter().enumerate().map(|(k, &d)| if unit(k) { 1 } else { d }).collect() }

/// sources that stretch to `b`: one axis made a unit axis, only one axis kept, leading axes dropped (with and without
/// a unit first axis), the one-element array
fn sources_of(b: &[usize]) -> Vec<Vec<usize>> {
    let mut v: Vec<Vec<usize>> = vec![vec![1]];
    for k in 0..b.len() {
        v.push(unitize(b, |j| j == k));
        v.push(unitize(b, |j| j != k));
    }
    for j in 1..b.len() {
        v.push(b[j..].to_vec());
        v.push(unitize(&b[j..], |k| k == 0));
        v.push(unitize(&b[j..], |k| k != 0));
    }
    v.sort(); v.dedup();
    v.retain(|s| s != b);
    v
}

/// every operation on the big target `b` (element count beyond the small scope)
fn emit_big_target(b: &[usize], out: &mut dyn FnMut(String)) {
    let n: usize = b.iter().product();
    for s in sources_of(b) {
        out(format!("broadcast_to {} {}", tag(&s), show_list(b)));
        out(format!("zip {} {}", tag(b), tag_off(&s, 100000)));
        out(format!("broadcast {} {}", tag(b), tag_off(&s, 100000)));
    }
    // complementary unit axes: neither operand has the common shape
    let mut pairs: Vec<(Vec<usize>, Vec<usize>)> = vec![];
    if b.len() >= 2 {
        pairs.push((unitize(b, |k| k % 2 == 0), unitize(b, |k| k % 2 == 1)));
        for k in 0..b.len() { pairs.push((unitize(b, |j| j == k), unitize(b, |j| j != k))); }
        pairs.push((unitize(b, |k| k == 0), vec![b[0]].into_iter().chain(std::iter::repeat(1).take(b.len() - 1)).collect()));
        pairs.push((b[1..].to_vec(), unitize(b, |k| k != 0)));
    }
    pairs.sort(); pairs.dedup();
    for (s, t) in &pairs {
        out(format!("broadcast {} {}", tag(s), tag_off(t, 100000)));
        out(format!("broadcast {} {}", tag(t), tag_off(s, 100000)));
        out(format!("broadcast_arrays {};{}", tag(s), tag_off(t, 100000)));
        out(format!("broadcast_arrays {};{};{}", tag(t), tag_off(&[1], 100000), tag_off(s, 200000)));
    }
    // an added leading axis on the whole big array (gather arm with a big source); the model is quadratic here
    if n * n <= 30_000_000 {
        let mut t = vec![2]; t.extend(b);
        out(format!("broadcast_to {} {}", tag(b), show_list(&t)));
        let mut t3 = vec![3, 1]; t3.extend(b);
        out(format!("broadcast_to {} {}", tag(b), show_list(&t3)));
        out(format!("broadcast {} {}", tag(b), tag_off(&unitize(&t, |k| k != 0), 100000)));
    }
    // equal element count: the reshape shortcut, and the identity
    out(format!("broadcast_to {} {}", tag(b), show_list(b)));
    let mut t1 = vec![1]; t1.extend(b);
    out(format!("broadcast_to {} {}", tag(b), show_list(&t1)));
    out(format!("broadcast {} {}", tag(b), tag_off(b, 100000)));
    out(format!("zip {} {}", tag(b), tag_off(b, 100000)));
    // a target that the source cannot be stretched to (one axis one longer)
    let mut bad = b.to_vec(); let l = bad.len() - 1; bad[l] += 1;
    out(format!("broadcast_to {} {}", tag(b), show_list(&bad)));
    out(format!("broadcast {} {}", tag(b), tag_off(&bad, 100000)));
}

/// targets beyond the small scope that are specific to C03
fn c03_big_targets(thorough: bool) -> Vec<Vec<usize>> {
    let mut v = big_shapes();
    // every axis length 7..=17 in the leading, an inner and the trailing position
    for l in 7..=17usize { v.push(vec![l, l]); v.push(vec![2, l]); v.push(vec![l, 3]); v.push(vec![2, l, 3]); v.push(vec![l, 2, 2]); v.push(vec![2, 2, l]); }
    // more than 4096 elements with no period of 4096, ranks 2..6
    v.extend(vec![vec![3, 41, 41], vec![65, 64], vec![64, 65], vec![4097], vec![2, 2049], vec![17, 16, 16], vec![9, 8, 8, 8], vec![3, 3, 4, 5, 6, 4], vec![4, 1025], vec![1025, 4], vec![8192], vec![90, 91]]);
    if thorough { v.extend(vec![vec![128, 129], vec![20000], vec![3, 70, 70], vec![26, 25, 24], vec![2, 3, 4, 5, 6, 7], vec![12288], vec![5, 4096]]); }
    v.sort(); v.dedup();
    v
}

/// FRAMEWORK.md robustness streams: sizes, zero-length axes, value classes (the element-type sweep and the two receivers are
/// applied by `exec` to EVERY case)
fn gen_robust(thorough: bool, rng: &mut Rng, out: &mut dyn FnMut(String)) {
    // corpus: seeded changes that an earlier generator missed
    for l in ["broadcast_to i70,1 70,70", "broadcast i3,1,1 i41,41+100000", "broadcast_to i3,1 3,3", "broadcast i2,1 i3+1000", "broadcast_arrays i2,1,1;i1,2+1000",
              "broadcast_to 2:0,1 3,2", "broadcast 2,1:1,0 i1,2,3+1000"] { out(l.to_string()); }
    // ---- sizes
    for b in c03_big_targets(thorough) { emit_big_target(&b, out); }
    // seeded random big targets: rank 1..5, axis lengths 1..24 (thorough 1..48), 300..6000 (12000) elements, random unit axes
    let (n_big, max_len, max_n) = if thorough { (150, 48, 12000) } else { (24, 24, 6000) };
    let mut made = 0;
    while made < n_big {
        let b = rng.shape(1, 5, max_len);
        let n: usize = b.iter().product();
        if n < 300 || n > max_n { continue; }
        made += 1;
        let derive = |rng: &mut Rng| -> Vec<usize> { let j = rng.below(b.len()); b[j..].iter().map(|&d| if rng.below(2) == 0 { 1 } else { d }).collect() };
        let (s, t, u) = (derive(rng), derive(rng), derive(rng));
        out(format!("broadcast_to {} {}", tag(&s), show_list(&b)));
        out(format!("zip {} {}", tag(&b), tag_off(&t, 100000)));
        out(format!("broadcast {} {}", tag(&s), tag_off(&t, 100000)));
        out(format!("broadcast_arrays {};{};{}", tag(&s), tag_off(&t, 100000), tag_off(&u, 200000)));
    }
    // the crate-internal helpers on targets above 4096 elements (string tags < 10^4, counts / widths kept small)
    for (a, b) in [(vec![70, 1], vec![70]), (vec![70], vec![70, 1]), (vec![41, 41], vec![3, 1, 1]), (vec![1, 41], vec![3, 41, 1]), (vec![9, 9, 9, 9], vec![9]), (vec![5000], vec![1]), (vec![1], vec![1, 4100]),
                   (vec![17, 1], vec![16]), (vec![8, 1, 9], vec![7, 1])] {
        out(format!("h2 {} {}", tag(&a), tag_off(&b, 1000)));
        out(format!("h3 {} {} {}", tag(&a), tag_off(&b, 1000), tag_off(&[1], 2000)));
        out(format!("h3 {} {} {}", tag(&a), tag_off(&[1], 1000), tag_off(&b, 2000)));
    }
    // ---- zero-length axes: every ordered pair with at least one zero-length shape
    let mut zs = zero_shapes();
    zs.extend(vec![vec![0, 0, 0], vec![3, 0], vec![0, 3], vec![1, 0, 1]]);
    let mut others = zs.clone();
    others.extend(vec![vec![1], vec![2], vec![3], vec![1, 1], vec![2, 1], vec![1, 2], vec![2, 3], vec![1, 1, 1], vec![2, 1, 3]]);
    for s in &others { for t in &others {
        if !zs.contains(s) && !zs.contains(t) { continue; }
        out(format!("broadcast {} {}", tag(s), tag_off(t, 1000)));
        out(format!("zip {} {}", tag(s), tag_off(t, 1000)));
        out(format!("broadcast_to {} {}", tag(s), show_list(t)));
        out(format!("broadcast_arrays {};{}", tag(s), tag_off(t, 1000)));
        out(format!("h2 {} {}", tag(s), tag_off(t, 1000)));
        let u = rng.pick(&others).clone();
        out(format!("broadcast_arrays {};{};{}", tag(s), tag_off(t, 1000), tag_off(&u, 2000)));
        out(format!("h3 {} {} {}", tag(s), tag_off(t, 1000), tag_off(&u, 2000)));
    } }
    for z in &zs { out(format!("broadcast_arrays {}", tag(z))); }
    // ---- value classes: sources whose elements are all `==` but not identical under the f64 image (tags 0 / 1 = -0.0 / +0.0),
    // and mixtures with NaN (2, 3), subnormals (4, 5) and 2^53+2 (6); every 0/1 pattern of up to 4 elements
    let srcs: Vec<Vec<usize>> = vec![vec![1], vec![2], vec![3], vec![4], vec![1, 2], vec![2, 1], vec![2, 2], vec![3, 1], vec![1, 3], vec![2, 1, 2], vec![1, 2, 1], vec![4, 1]];
    for s in &srcs {
        let n: usize = s.iter().product();
        let mut pats: Vec<Vec<i64>> = (0..1u32 << n).map(|m| (0..n).map(|k| ((m >> k) & 1) as i64).collect()).collect();
        for _ in 0..4 { pats.push((0..n).map(|_| *rng.pick(&[0i64, 1, 1, 0, 2, 3, 4, 5, 6, 8, 9])).collect()); }
        for p in pats {
            let a = format!("{}:{}", show_list(s), show_list(&p));
            let mut t: Vec<usize> = s.iter().map(|&d| if d == 1 { 3 } else { d }).collect();
            let mut t2 = vec![2]; t2.extend(s);
            out(format!("broadcast_to {a} {}", show_list(&t2)));
            if &t != s { out(format!("broadcast_to {a} {}", show_list(&t))); }
            t.insert(0, 2);
            out(format!("broadcast_to {a} {}", show_list(&t)));
            out(format!("broadcast {a} {}", tag_off(&t, 1000)));
            out(format!("zip {} {a}", tag_off(&t, 1000)));
            out(format!("broadcast_arrays {a};{};{a}", tag_off(&t2, 1000)));
        }
    }
}


// ================================================================ robustness streams, part 2

/// estimated seconds of the list-backed model for one stretch of `s` to `t` (measured: ~0.5 us per target element plus ~1 ns per
/// source element walked; [70000] -> [2,70000] takes 9.5 s)
fn stretch_secs(s: &[usize], t: &[usize]) -> f64 {
    let (n, m) = (count(t) as f64, count(s) as f64);
    if count(s) == count(t) { n * 0.3e-6 } else { n * (0.5e-6 + m * 1.0e-9) }
}

/// emits a huge case either as an ordinary line (full model answer) or, when the model would be too slow, as an `n` line
struct Emit { per_case: f64, budget: f64, spent: f64 }
impl Emit {
    fn put(&mut self, line: String, secs: f64, out: &mut dyn FnMut(String)) {
        if secs <= self.per_case && self.spent + secs <= self.budget { self.spent += secs; out(line) } else { out(format!("n {line}")) }
    }
    fn to(&mut self, s: &[usize], t: &[usize], out: &mut dyn FnMut(String)) { self.put(format!("broadcast_to {} {}", tag(s), show_list(t)), stretch_secs(s, t), out) }
    fn zip(&mut self, a: &[usize], b: &[usize], out: &mut dyn FnMut(String)) { self.put(format!("zip {} {}", tag(a), tag_off(b, 1_000_000)), stretch_secs(b, a) + count(a) as f64 * 0.5e-6, out) }
    fn broadcast(&mut self, a: &[usize], b: &[usize], out: &mut dyn FnMut(String)) {
        let secs = match o_shape2(a, b) { Some(fs) => stretch_secs(a, &fs) + stretch_secs(b, &fs) + count(&fs) as f64 * 0.5e-6, None => 0.0 };
        self.put(format!("broadcast {} {}", tag(a), tag_off(b, 1_000_000)), secs, out)
    }
    fn arrays(&mut self, l: &[&[usize]], out: &mut dyn FnMut(String)) {
        let fs = l.iter().try_fold(vec![], |fs: Vec<usize>, s| o_shape2(&fs, s));
        let secs = fs.map_or(0.0, |fs| l.iter().map(|s| stretch_secs(s, &fs)).sum());
        let text: Vec<String> = l.iter().enumerate().map(|(k, s)| if k == 0 { tag(s) } else { tag_off(s, 1_000_000 * k as i64) }).collect();
        self.put(format!("broadcast_arrays {}", text.join(";")), secs, out)
    }
}

/// targets of 16 384 .. 196 611 elements: the lib list plus element counts exactly at / next to 2^14, 2^15, 2^16, axes of
/// 65 535 / 65 536 / 65 537, ranks 2..5 with two and more non-unit source axes
fn c03_huge_targets(thorough: bool) -> Vec<Vec<usize>> {
    let mut v = huge_shapes();
    v.extend(vec![vec![128, 256], vec![2, 128, 128], vec![181, 182], vec![8, 8, 8, 8, 9], vec![65537], vec![3, 65537], vec![65536, 2],
                  vec![16384], vec![32768], vec![32769], vec![3, 5, 7, 11, 13], vec![17, 31, 37]]);
    if thorough { v.extend(vec![vec![32, 32, 33], vec![65535, 2], vec![2, 16383], vec![41, 20, 41], vec![2, 65536], vec![65537, 3], vec![2, 3, 65537 / 3 + 1], vec![100, 1000], vec![47, 53, 59], vec![7, 6, 5, 4, 3, 2, 7], vec![131072], vec![65538], vec![255, 257], vec![4, 8192, 3]]); }
    v.sort(); v.dedup();
    v
}

fn emit_huge_target(b: &[usize], k: usize, thorough: bool, em: &mut Emit, out: &mut dyn FnMut(String)) {
    for (j, s) in sources_of(b).iter().enumerate() {
        em.to(s, b, out);
        if thorough || (j + k) % 3 == 0 { em.zip(b, s, out); }
        if thorough || (j + k) % 3 == 1 { em.broadcast(b, s, out); }
        if thorough || (j + k) % 3 == 2 { em.broadcast(s, b, out); }
    }
    if b.len() >= 2 {
        let mut pairs: Vec<(Vec<usize>, Vec<usize>)> = vec![(unitize(b, |k| k % 2 == 0), unitize(b, |k| k % 2 == 1))];
        for a in 0..b.len() { pairs.push((unitize(b, |j| j == a), unitize(b, |j| j != a))); }
        pairs.push((b[1..].to_vec(), unitize(b, |k| k != 0)));
        pairs.sort(); pairs.dedup();
        for (j, (s, t)) in pairs.iter().enumerate() {
            if thorough || (j + k) % 2 == 0 { em.broadcast(s, t, out); } else { em.broadcast(t, s, out); }
            if thorough { em.broadcast(t, s, out); }
            if thorough || (j + k) % 2 == 1 { em.arrays(&[s, t], out); }
            if thorough || (j + k) % 4 == 0 { em.arrays(&[t, &[1], s], out); }
        }
    }
    // an added leading axis on the whole array: a huge source with every axis non-unit
    let mut t2 = vec![2]; t2.extend(b);
    em.to(b, &t2, out);
    if thorough { let mut t3 = vec![3, 1]; t3.extend(b); em.to(b, &t3, out); em.broadcast(b, &unitize(&t2, |k| k != 0), out); }
    // equal shapes: the pairing arm of broadcast / zip, the reshape arm of broadcast_to, the same object on both sides
    em.broadcast(b, b, out);
    em.zip(b, b, out);
    out(format!("broadcast {} {}", tag(b), tag(b)));
    let mut t1 = vec![1]; t1.extend(b);
    em.to(b, &t1, out);
    // a target the source cannot be stretched to
    let mut bad = b.to_vec(); let l = bad.len() - 1; bad[l] += 1;
    em.to(b, &bad, out);
}

fn seq3(a: &str, b: &str, out: &mut dyn FnMut(String)) {
    out(format!("seq {a} / {b} / {a}"));
    out(format!("seq {b} / {a} / {b}"));
}

/// FRAMEWORK.md robustness streams, part 2: hidden state, huge sizes, exact lengths, aliasing, high ranks and long lists
fn gen_part2(thorough: bool, rng: &mut Rng, out: &mut dyn FnMut(String)) {
    // ---- (6) hidden state.  Every `seq` line is self-contained: its calls run one after the other on the executing thread.
    // (6a) shape pairs that collide under the polynomial hashes h*m + dim, m = 31, 33, 37, 131, 257: as two SOURCES of one target,
    //      as two TARGETS of one source, as the operands of one broadcast / broadcast_arrays; both orders, A-B-A
    let mut cols = collision_shape_pairs();
    for &m in &[31usize, 33, 37, 131, 257] {
        cols.push((vec![2, 1], vec![1, 1 + m]));
        cols.push((vec![3, 2, 1], vec![3, 1, 1 + m]));
        cols.push((vec![2, 1, 3], vec![1, 1 + m, 3]));
        cols.push((vec![2, 2, 1, 1], vec![2, 1, 1 + m, 1]));
        for k in 1..=3usize { cols.push((vec![k + 1, 1], vec![k, 1 + m])); cols.push((vec![1, k + 1, 1], vec![1, k, 1 + m])); }
    }
    // keys without a separator between source and target shape: (s ++ t) read with another split
    cols.push((vec![3], vec![3, 1]));
    cols.sort(); cols.dedup();
    for (p, q) in &cols {
        if let Some(t) = o_shape2(p, q) {
            if &t != p && &t != q {
                let ts = show_list(&t);
                seq3(&format!("broadcast_to {} {ts}", tag(p)), &format!("broadcast_to {} {ts}", tag(q)), out);
                seq3(&format!("zip {} {}", tag(&t), tag_off(p, 100000)), &format!("zip {} {}", tag(&t), tag_off(q, 100000)), out);
                out(format!("broadcast {} {}", tag(p), tag_off(q, 100000)));
                out(format!("broadcast {} {}", tag(q), tag_off(p, 100000)));
                out(format!("broadcast_arrays {};{}", tag(p), tag_off(q, 100000)));
                out(format!("broadcast_arrays {};{};{}", tag(q), tag_off(&[1], 100000), tag_off(p, 200000)));
            }
        }
        // one source, the two colliding shapes as targets
        let mut srcs: Vec<Vec<usize>> = vec![vec![1], vec![1; p.len()]];
        if p.last() == q.last() && p.len() == q.len() { srcs.push(vec![*p.last().unwrap()]); srcs.push(unitize(p, |k| k + 1 != p.len())); }
        if p[0] == q[0] && p.len() == q.len() { srcs.push(unitize(p, |k| k != 0)); }
        srcs.sort(); srcs.dedup();
        for s in &srcs {
            if stretchable(s, p) && stretchable(s, q) {
                seq3(&format!("broadcast_to {} {}", tag(s), show_list(p)), &format!("broadcast_to {} {}", tag(s), show_list(q)), out);
            }
        }
        // [3] -> [1,3,3] against [3,1] -> [3,3]: the same dims in the same order
        if p.len() + 1 == q.len() && q.last() == Some(&1) {
            let (mut t1, mut t2) = (vec![1], q.clone()); t1.extend(p); t1.extend(p); let l = t2.len() - 1; t2[l] = p[p.len() - 1];
            seq3(&format!("broadcast_to {} {}", tag(p), show_list(&t1)), &format!("broadcast_to {} {}", tag(q), show_list(&t2)), out);
        }
    }
    // (6b) axis lengths that look alike after a narrowing cast (c + 2^8, c + 2^16) and transposed / equal-count shape pairs
    //      (keys built from element counts, sorted dims, sums or xors of dims)
    for c in 1..=3usize {
        for w in [c + 256, c + 65536] {
            seq3(&format!("broadcast_to i2,1 2,{c}"), &format!("broadcast_to i2,1 2,{w}"), out);
            seq3(&format!("broadcast_to i1 {c},2"), &format!("broadcast_to i1 {w},2"), out);
            seq3(&format!("zip i2,{c} i2,1+100000"), &format!("zip i2,{w} i2,1+100000"), out);
            if w < 1000 {
                seq3(&format!("broadcast_to i{c} 2,{c}"), &format!("broadcast_to i{w} 2,{w}"), out);
                seq3(&format!("broadcast i{c},1 i1,2+100000"), &format!("broadcast i{w},1 i1,2+100000"), out);
            }
        }
    }
    let small2 = shapes(1, 3, 1, 3);
    for s in &small2 { for t in &small2 {
        // the same multiset of axis lengths on both sides, in another order
        let (mut a, mut b) = (s.clone(), t.clone()); a.sort(); b.sort();
        if s == t || a != b { continue; }
        for src in [vec![1], unitize(s, |k| k != 0), unitize(s, |k| k + 1 != s.len())] {
            let (x, y) = (format!("broadcast_to {} {}", tag(&src), show_list(s)), format!("broadcast_to {} {}", tag(&src), show_list(t)));
            out(format!("seq {x} / {y} / {x}"));
        }
        let (rs, rt): (Vec<usize>, Vec<usize>) = (s.iter().rev().copied().collect(), t.iter().rev().copied().collect());
        out(format!("seq broadcast {} {} / broadcast {} {}", tag(s), tag_off(&unitize(s, |k| k == 0), 100000), tag(t), tag_off(&unitize(t, |k| k == 0), 100000)));
        out(format!("seq broadcast_arrays {};{} / broadcast_arrays {};{}", tag(s), tag_off(&rs[..1], 100000), tag(t), tag_off(&rt[..1], 100000)));
    } }
    // (6c) the same shapes with other VALUES (a cache that stores results, or is keyed by a checksum of the values: permutations
    //      and other arrays with the same sum / first element / length)
    for (a, b) in [("2,1:5,7", "2,1:7,5"), ("3:1,2,3", "3:3,2,1"), ("3:1,2,3", "3:2,2,2"), ("1,2:0,9", "1,2:9,0"), ("2,1:4,4", "2,1:3,5"), ("2,1,2:1,2,3,4", "2,1,2:4,3,2,1"), ("2,1,2:1,2,3,4", "2,1,2:1,3,2,4"),
                   ("i2,1", "i2,1+500"), ("i1,3", "i1,3+7"), ("i3,1,2", "i3,1,2+1"), ("1:0", "1:1"), ("2,2:1,2,3,4", "2,2:1,3,2,4")] {
        let sh = parse_arr_raw(a).0;
        let mut t: Vec<usize> = sh.iter().map(|&d| if d == 1 { 3 } else { d }).collect();
        if t == sh { t.insert(0, 2); }
        let ts = show_list(&t);
        seq3(&format!("broadcast_to {a} {ts}"), &format!("broadcast_to {b} {ts}"), out);
        seq3(&format!("zip {} {a}", tag_off(&t, 1000)), &format!("zip {} {b}", tag_off(&t, 1000)), out);
        seq3(&format!("broadcast {a} {}", tag_off(&t, 1000)), &format!("broadcast {b} {}", tag_off(&t, 1000)), out);
        seq3(&format!("broadcast_arrays {a};{}", tag_off(&t, 1000)), &format!("broadcast_arrays {b};{}", tag_off(&t, 1000)), out);
        if parse_arr_raw(a).1.iter().chain(parse_arr_raw(b).1.iter()).all(|&v| (0..10000).contains(&v)) {
            seq3(&format!("h2 {a} {}", tag_off(&t, 1000)), &format!("h2 {b} {}", tag_off(&t, 1000)), out);
        }
    }
    // (6d) a refused call directly followed by an accepted one on related shapes, and back
    for (bad, good) in [("broadcast_to i3 2,2", "broadcast_to i3 2,3"), ("broadcast_to i2,3 3", "broadcast_to i3 2,3"), ("broadcast i2,3 i2+1000", "broadcast i2,3 i3+1000"),
                        ("broadcast_arrays i2;i3+1000", "broadcast_arrays i2,1;i3+1000"), ("zip i2 i3+1000", "zip i3 i1+1000"), ("zip i2,3 i2+1000", "zip i2,3 i2,1+1000"),
                        ("broadcast_to i0 3", "broadcast_to i1 3"), ("broadcast_to i2,0 2,3", "broadcast_to i2,1 2,3"), ("broadcast_arrays i2;i3+1000;i1+2000", "broadcast_arrays i3;i1+1000;i2,1+2000"),
                        ("h2 i2 i3+1000", "h2 i2,1 i3+1000"), ("h3 i2 i1+1000 i3+2000", "h3 i2,1 i1+1000 i3+2000"), ("broadcast_to i4097 2,4096", "broadcast_to i4096 2,4096")] {
        seq3(bad, good, out);
        out(format!("seq {bad} / {bad} / {good} / {good}"));
    }
    // (6e) interleaved different shapes: sequences of 4..6 seeded random small calls
    let n_seq = if thorough { 3000 } else { 400 };
    for _ in 0..n_seq {
        let base = rng.shape(1, 3, 4);
        let mut parts: Vec<String> = vec![];
        for _ in 0..4 + rng.below(3) {
            let derive = |rng: &mut Rng| -> Vec<usize> { let k = rng.below(base.len()); base[k..].iter().map(|&d| match rng.below(4) { 0 | 1 => 1, _ => d }).collect() };
            let (s, t) = (derive(rng), derive(rng));
            let t_full: Vec<usize> = base[base.len() - t.len().max(s.len())..].to_vec();
            parts.push(match rng.below(5) {
                0 => format!("broadcast {} {}", tag(&s), tag_off(&t, 1000)),
                1 => format!("zip {} {}", tag(&t_full), tag_off(&s, 1000)),
                2 | 3 => format!("broadcast_to {} {}", tag(&s), show_list(&t_full)),
                _ => format!("broadcast_arrays {};{}", tag(&s), tag_off(&t, 1000)),
            });
        }
        out(format!("seq {}", parts.join(" / ")));
    }

    // ---- (7) huge sizes
    let mut em = if thorough { Emit { per_case: 2.0, budget: 100.0, spent: 0.0 } } else { Emit { per_case: 0.2, budget: 6.0, spent: 0.0 } };
    // an axis above 65 536 that is NOT stretched, with the full model answer (8.6 .. 9.5 s of model time each; thorough tier only —
    // the quick tier has these as `n` lines: model shape + harness-native reference)
    if thorough {
        for l in ["broadcast_to i65537 2,65537", "broadcast i2,1 i70000+100000", "zip i2,70000 i70000+1000000", "broadcast_arrays i70000;i2,1+1000000", "broadcast_to i70000,1 70000,2"] { out(l.to_string()); }
    }
    for (k, b) in c03_huge_targets(thorough).iter().enumerate() { emit_huge_target(b, k, thorough, &mut em, out); }
    // seeded random huge targets: rank 2..5, 16 384 .. 150 000 elements, random unit axes in the sources
    let n_huge = if thorough { 60 } else { 6 };
    let mut made = 0;
    while made < n_huge {
        let r = 2 + rng.below(4);
        let b: Vec<usize> = (0..r).map(|_| 2 + rng.below(if r == 2 { 400 } else if r == 3 { 60 } else { 20 })).collect();
        if count(&b) < 16384 || count(&b) > 150_000 { continue; }
        made += 1;
        let derive = |rng: &mut Rng| -> Vec<usize> { let j = rng.below(2.min(b.len())); b[j..].iter().map(|&d| if rng.below(3) == 0 { 1 } else { d }).collect() };
        let (s, t, u) = (derive(rng), derive(rng), derive(rng));
        em.to(&s, &b, out); em.zip(&b, &t, out); em.broadcast(&s, &t, out); em.arrays(&[&s, &t, &u], out);
    }

    // ---- (8) exact lengths: every axis length 1..300 in the trailing and in an inner position; counts 31, 37, 1000, 1001, primes
    for l in 1..=300usize {
        out(format!("broadcast_to i{l} 3,{l}"));
        out(format!("broadcast_to i3,1 3,{l}"));
        out(format!("broadcast i2,1,2 i{l},1+100000"));
        if thorough { out(format!("zip i2,{l},3 i{l},1+100000")); out(format!("broadcast_arrays i{l};i2,1,1+100000;i1,3,1+200000")); }
    }
    for b in [vec![31], vec![37], vec![1000], vec![1001], vec![19, 23], vec![29, 31], vec![2, 37], vec![37, 2], vec![3, 31, 2], vec![49, 49], vec![7, 49], vec![49, 7], vec![2, 49, 3], vec![101, 3], vec![3, 127], vec![251, 5]] { emit_big_target(&b, out); }

    // ---- (9) the same object on both sides (`a.broadcast(&a)`, `a.zip(&a)`), also with NaN / -0.0 inside (f64 value-class image)
    let mut alias: Vec<String> = small2.iter().map(|s| tag(s)).collect();
    alias.extend(big_shapes().iter().map(|s| tag(s)));
    alias.extend(zero_shapes().iter().map(|s| tag(s)));
    alias.extend(["i100,200", "i16385", "i129,131"].iter().map(|s| s.to_string()));
    alias.extend(["3:2,2,2", "4:0,1,2,3", "2,2:2,3,2,3", "8:0,1,2,3,4,5,6,7", "2,4:7,6,5,4,3,2,1,0", "1:2", "1:3", "2:2,10"].iter().map(|s| s.to_string()));
    for a in &alias { out(format!("broadcast {a} {a}")); out(format!("zip {a} {a}")); }

    // ---- (10) ranks 5..8 and long lists
    let n_rank = if thorough { 1500 } else { 150 };
    for _ in 0..n_rank {
        let r = 5 + rng.below(4);
        let b: Vec<usize> = loop { let b: Vec<usize> = (0..r).map(|_| *rng.pick(&[1usize, 1, 2, 2, 3, 4])).collect(); if count(&b) <= 3000 { break b; } };
        let derive = |rng: &mut Rng| -> Vec<usize> { let j = rng.below(b.len()); b[j..].iter().map(|&d| if rng.below(2) == 0 { 1 } else { d }).collect() };
        let l: Vec<Vec<usize>> = (0..3 + rng.below(4)).map(|_| derive(rng)).collect();
        out(format!("broadcast_to {} {}", tag(&l[0]), show_list(&b)));
        out(format!("zip {} {}", tag(&b), tag_off(&l[1], 100000)));
        out(format!("broadcast {} {}", tag(&l[0]), tag_off(&l[1], 100000)));
        out(format!("broadcast_arrays {}", l.iter().enumerate().map(|(k, s)| tag_off(s, 100000 * k as i64)).collect::<Vec<_>>().join(";")));
    }
    for n in [5usize, 8, 31, 64, 65, 70] {
        let pool: [&[usize]; 5] = [&[1], &[2, 1], &[1, 3], &[3], &[1, 1, 1]];
        let l: Vec<String> = (0..n).map(|k| tag_off(pool[(k * 7 + k / 5) % 5], 1000 * k as i64)).collect();
        out(format!("broadcast_arrays {}", l.join(";")));
        let l2: Vec<String> = (0..n).map(|k| tag_off(if k == n - 1 { &[4, 1, 1][..] } else { &[1][..] }, 1000 * k as i64)).collect();
        out(format!("broadcast_arrays {}", l2.join(";")));
        // the last member does not fit
        let l3: Vec<String> = (0..n).map(|k| tag_off(if k == n - 1 { &[2][..] } else { &[3][..] }, 1000 * k as i64)).collect();
        out(format!("broadcast_arrays {}", l3.join(";")));
    }
}

// ================================================================ robustness streams, part 3

/// every source of the target `b` given by a set of unit axes (bit k of the mask = axis k has length 1 in the source), and the
/// same source with its leading unit axes dropped (the target then has ADDED leading axes)
fn mask_sources(b: &[usize]) -> Vec<Vec<usize>> {
    let r = b.len();
    let mut v = vec![];
    for m in 1..(1usize << r) {
        let s = unitize(b, |k| (m >> k) & 1 == 1);
        let lead = (0..r).take_while(|&k| (m >> k) & 1 == 1).count();
        if lead > 0 { v.push(if lead == r { vec![1] } else { s[lead..].to_vec() }); }
        v.push(s);
    }
    v.sort(); v.dedup(); v.retain(|s| s != b);
    v
}

/// targets with 2^20 < count <= 2.2 million: the lib list plus ranks 1..4 with extents that are / are not multiples of 64, a
/// stretched axis above a kept axis above a stretched axis, counts next to 2^20 and 2^21
fn c03_giant_targets(thorough: bool) -> Vec<Vec<usize>> {
    let mut v = vec![vec![1 << 20 | 5], vec![1031, 1033], vec![1025, 1024], vec![600, 2, 1000], vec![65, 129, 127], vec![2, 131_073, 4], vec![33, 32, 31, 33], vec![16, 64, 8, 129], vec![3, 400_001]];
    if thorough {
        v.extend(giant_shapes());
        v.extend(vec![vec![1024, 1025], vec![2, 1000, 600], vec![1000, 600, 2], vec![128, 64, 129], vec![7, 3, 5, 9999], vec![64, 2, 64, 129], vec![(1 << 20) + 1], vec![2, 1 << 20], vec![(1 << 20) + 64, 2]]);
    }
    v.sort(); v.dedup();
    v
}

/// one giant (source, target) pair through the operation number `op`: 0 broadcast_to, 1 zip (argument stretched), 2 broadcast with
/// the complementary operand (BOTH stretched when the source has a non-unit axis), 3 broadcast_arrays with the complement,
/// 4 broadcast against the full target shape
fn emit_giant(s: &[usize], b: &[usize], op: usize, out: &mut dyn FnMut(String)) {
    // the complement of `s` in `b`: unit where `s` has the target length, the target length where `s` is a unit / missing axis
    let off = b.len() - s.len();
    let comp: Vec<usize> = (0..b.len()).map(|k| if k >= off && s[k - off] == b[k] && b[k] != 1 { 1 } else { b[k] }).collect();
    match op {
        0 => out(format!("g broadcast_to {} {}", tag(s), show_list(b))),
        1 => out(format!("g zip {} {}", tag(b), tag_off(s, 10_000_000))),
        2 => out(format!("g broadcast {} {}", tag(s), tag_off(&comp, 10_000_000))),
        3 => out(format!("g broadcast_arrays {};{}", tag_off(&comp, 10_000_000), tag(s))),
        _ => out(format!("g broadcast {} {}", tag(b), tag_off(s, 10_000_000))),
    }
}

/// FRAMEWORK.md robustness streams, part 3: giant sizes (11), constant / all-equal sources (13), the second lift of broadcast_h2;
/// the odd-layout element types (12) are applied by `exec` to every case
fn gen_part3(thorough: bool, seed: u64, rng: &mut Rng, out: &mut dyn FnMut(String)) {
    // ---- (11) giant targets.  Quick tier: a fixed core that has, for ranks 1..4, a stretched first / middle / last axis, added
    // leading axes, a stretched axis above a kept axis above a stretched axis (rank 3 and 4, both parities), extents that are and are
    // not multiples of 64, every operation; plus seeded extras from the full product.  Thorough: the full product.
    let targets = c03_giant_targets(thorough);
    if thorough {
        for (j, b) in targets.iter().enumerate() {
            for (k, s) in mask_sources(b).iter().enumerate() {
                emit_giant(s, b, 0, &mut |l| out(l.replacen("g ", "g2 ", 1)));
                if (j + k + seed as usize) % 3 == 0 { emit_giant(s, b, 1 + (j / 3 + k / 3 + seed as usize) % 4, &mut |l| out(l.replacen("g ", "g2 ", 1))); }
            }
            out(format!("g2 broadcast_to {} {}", tag(b), show_list(&[vec![1], b.clone()].concat())));
            let mut bad = b.clone(); let l = bad.len() - 1; bad[l] += 1;
            out(format!("g2 broadcast_to {} {}", tag(b), show_list(&bad)));
        }
        out(format!("g2 zip {} {}", tag(&[1031, 1033]), tag_off(&[1031, 1033], 10_000_000)));
        out(format!("g2 broadcast {} {}", tag(&[600, 2, 1000]), tag_off(&[600, 2, 1000], 10_000_000)));
    } else {
        let core: Vec<(Vec<usize>, Vec<usize>, usize)> = vec![
            (vec![1], vec![1 << 20 | 5], 0),
            (vec![1031, 1], vec![1031, 1033], 0), (vec![1033], vec![1031, 1033], 1), (vec![1, 1024], vec![1025, 1024], 0),
            (vec![3, 1], vec![3, 400_001], 2),
            (vec![1, 2, 1], vec![600, 2, 1000], 0), (vec![600, 1, 1000], vec![600, 2, 1000], 3),
            (vec![2, 1, 4], vec![2, 131_073, 4], 0), (vec![131_073, 1], vec![2, 131_073, 4], 1),
            (vec![1, 129, 1], vec![65, 129, 127], 2), (vec![129, 127], vec![65, 129, 127], 0), (vec![65, 129, 1], vec![65, 129, 127], 0),
            (vec![33, 1, 31, 1], vec![33, 32, 31, 33], 0), (vec![1, 32, 1, 33], vec![33, 32, 31, 33], 0), (vec![32, 1, 33], vec![33, 32, 31, 33], 1),
            (vec![16, 1, 8, 1], vec![16, 64, 8, 129], 2), (vec![1, 64, 1, 1], vec![16, 64, 8, 129], 0),
        ];
        for (s, b, op) in &core { emit_giant(s, b, *op, out); }
        // the 10^6 and 2^20 boundaries themselves
        out("g broadcast_to i1,2,1 500,2,1000".to_string());
        out("g broadcast_to i4,1,2,1 4,128,2,1024".to_string());
        // the equal-count arm and a refused target at giant size
        out("g broadcast_to i1031,1033 1,1031,1033".to_string());
        out("g broadcast_to i1031,1033 1031,1034".to_string());
        for _ in 0..2 {
            let b = rng.pick(&targets).clone();
            let ss = mask_sources(&b);
            let s = rng.pick(&ss).clone();
            emit_giant(&s, &b, rng.below(5), out);
        }
    }
    // broadcast_h2 at giant size, through its numeric lift `round` (op h2r)
    out("g h2r i1,2,1 i600,1,1000+1000".to_string());
    if thorough {
        for l in ["g h2r i1031,1 i1033+1000", "g h2r i1025,1024 i1+1000", "g h2r i2,1,4 i131073,1+1000", "g h2r i33,1,31,1 i32,1,33+1000", "g h2r i129,127 i65,1,1+1000", "g h2r i1 i1048581+1000"] { out(l.to_string()); }
    }

    // ---- (13) values related in a way random data never is: CONSTANT sources, sources whose elements are all `==` but not identical
    // under the f64 value-class image (tags 0 / 1 / 8 / 9 = -0.0 / +0.0 / -0.0 / +0.0), and constant-but-for-one-element sources,
    // against EVERY small target — the accepted ones and the refused ones (shrinking, clashing, lower rank)
    let small = shapes(1, 3, 1, 3);
    let mut targets = small.clone();
    targets.extend(vec![vec![4, 2, 1], vec![1, 1, 1, 1], vec![2, 1, 1, 1], vec![2, 3, 3, 3], vec![1, 2, 1, 3], vec![4], vec![3, 4], vec![5, 1, 1]]);
    let lit = |s: &[usize], e: &[i64]| format!("{}:{}", show_list(s), show_list(e));
    let mut turn = seed as usize;
    for s in &small {
        let n = count(s);
        if n < 2 { continue; }
        let konst = vec![7i64; n];
        let zeros: Vec<i64> = (0..n).map(|k| [0i64, 1, 8, 9][k % 4]).collect();
        let mut near = konst.clone(); if turn % 2 == 0 { near[n - 1] = 8 } else { near[0] = 8 };
        for t in &targets {
            turn += 1;
            for e in [&konst, &zeros, &near] { out(format!("broadcast_to {} {}", lit(s, e), show_list(t))); }
            // the other entry points with one constant operand (one of them in turn, both operand positions)
            let e = if turn % 3 == 0 { &zeros } else { &konst };
            match turn % 6 {
                0 => out(format!("zip {} {}", tag_off(t, 1000), lit(s, e))),
                1 => out(format!("broadcast {} {}", lit(s, e), tag_off(t, 1000))),
                2 => out(format!("broadcast {} {}", tag_off(t, 1000), lit(s, e))),
                3 => out(format!("broadcast_arrays {};{}", lit(s, e), tag_off(t, 1000))),
                4 => out(format!("broadcast_arrays {};{};{}", tag_off(t, 1000), lit(s, e), lit(&[1], &[7]))),
                _ => out(format!("zip {} {}", lit(s, e), tag_off(t, 1000))),
            }
        }
        // the helpers with a constant string / count / fill operand
        for t in [vec![1], vec![3], vec![2, 1], vec![1, 3], s.clone()] {
            out(format!("h2 {} {}", lit(s, &vec![5; n]), tag_off(&t, 1000)));
            out(format!("h2 {} {}", tag(&t), lit(s, &vec![1003; n])));
            out(format!("h3 {} {} {}", lit(s, &vec![5; n]), tag_off(&t, 1000), lit(s, &vec![2004; n])));
        }
    }
    // constant sources beyond the small scope
    for (s, ts) in [(vec![300], vec![vec![3, 300], vec![1], vec![300, 1], vec![2, 1], vec![1, 300], vec![299]]),
                    (vec![70, 70], vec![vec![70, 1], vec![1, 70], vec![2, 70, 70], vec![1, 1], vec![70]]),
                    (vec![4100], vec![vec![1], vec![2, 4100], vec![4100, 1], vec![1, 1]]),
                    (vec![2, 1, 700], vec![vec![2, 3, 700], vec![2, 3, 1], vec![1, 1, 700], vec![2, 1, 1], vec![5, 2, 3, 700]])] {
        let n = count(&s);
        for t in &ts {
            out(format!("broadcast_to {} {}", lit(&s, &vec![7; n]), show_list(t)));
            out(format!("broadcast_to {} {}", lit(&s, &(0..n).map(|k| (k % 2) as i64).collect::<Vec<_>>()), show_list(t)));
            if o_shape2(&s, t).map_or(true, |fs| count(&fs) <= 20_000) { out(format!("broadcast {} {}", lit(&s, &vec![7; n]), tag_off(t, 100000))); }
        }
    }
    // ---- the second public lift of broadcast_h2 (`round(decimals)`, op h2r) on the small scope, so that the giant h2r cases rest on a
    // lift that the model has answered in the same run
    for s in &small { for t in &small { out(format!("h2r {} {}", tag(s), tag_off(t, 1000))); } }
    for (a, b) in [(vec![70, 1], vec![70]), (vec![41, 41], vec![3, 1, 1]), (vec![5000], vec![1]), (vec![1], vec![1, 4100]), (vec![8, 1, 9], vec![7, 1]), (vec![0], vec![1]), (vec![2], vec![3]), (vec![], vec![2, 3])] {
        out(format!("h2r {} {}", tag(&a), tag_off(&b, 1000)));
    }
}

// ================================================================ harness-native reference (huge cases)
// A direct coordinate formula in plain Rust: an odometer over the target coordinates, the source position rebuilt from the
// coordinates (added leading axes dropped, 0 on unit axes).  It is compared with the model's full answer on EVERY broadcast /
// zip / broadcast_to / broadcast_arrays case of a run where it has an opinion (zero-free shapes outside the equal-count open
// region); on the `n` cases (huge sources, list-backed model too slow) the crate is compared with it and the model gives the shape.

static ORACLE_CHECKED: AtomicUsize = AtomicUsize::new(0);
static ORACLE_SILENT: AtomicUsize = AtomicUsize::new(0);
static ORACLE_ONLY: AtomicUsize = AtomicUsize::new(0);
static ABA_RERUNS: AtomicUsize = AtomicUsize::new(0);
static HUGE_ROT: AtomicUsize = AtomicUsize::new(0);
static GIANT: AtomicUsize = AtomicUsize::new(0);
static LAYOUT_ROT: AtomicUsize = AtomicUsize::new(0);
static GIANT_ROT: AtomicUsize = AtomicUsize::new(0);

fn has_zero(s: &[usize]) -> bool { s.iter().any(|&d| d == 0) }
fn count(s: &[usize]) -> usize { s.iter().product() }
/// `e` (shape `s`, zero-free, stretchable to `t`) stretched to `t`
fn o_stretch(s: &[usize], e: &[i64], t: &[usize]) -> Vec<i64> {
    let (n, off) = (count(t), t.len() - s.len());
    let mut out = Vec::with_capacity(n);
    let mut c = vec![0usize; t.len()];
    for _ in 0..n {
        let mut idx = 0;
        for k in 0..s.len() { idx = idx * s[k] + if s[k] == 1 { 0 } else { c[off + k] }; }
        out.push(e[idx]);
        for k in (0..t.len()).rev() { c[k] += 1; if c[k] < t[k] { break; } c[k] = 0; }
    }
    out
}
fn o_shape2(s: &[usize], t: &[usize]) -> Option<Vec<usize>> {
    let n = s.len().max(t.len());
    let mut r = vec![0; n];
    for k in 0..n {
        let d1 = if k < s.len() { s[s.len() - 1 - k] } else { 1 };
        let d2 = if k < t.len() { t[t.len() - 1 - k] } else { 1 };
        r[n - 1 - k] = if d1 == 1 { d2 } else if d2 == 1 || d1 == d2 { d1 } else { return None };
    }
    Some(r)
}
const MISMATCH: Out<Ans<i64>> = Out::Err("BroadcastShapeMismatch");
/// the reference answer of a call; `None` = no opinion (zero-length axes, the equal-count open region, the empty list)
fn oracle(c: &Call) -> Option<Out<Ans<i64>>> {
    let arr = |shape: &[usize], elems: Vec<i64>| Piece { shape: shape.to_vec(), elems, consistent: true };
    match c {
        Call::To(a, t) => {
            if has_zero(&a.0) || has_zero(t) { return None; }
            if stretchable(&a.0, t) { Some(Out::Ok(Ans::Arr(arr(t, o_stretch(&a.0, &a.1, t))))) }
            else if count(&a.0) == count(t) { None } else { Some(MISMATCH) }
        }
        Call::Zip(a, b) => {
            if has_zero(&a.0) || has_zero(&b.0) { return None; }
            if stretchable(&b.0, &a.0) {
                let sb = o_stretch(&b.0, &b.1, &a.0);
                Some(Out::Ok(Ans::Pairs(Piece { shape: a.0.clone(), elems: a.1.iter().copied().zip(sb).collect(), consistent: true })))
            } else if count(&a.0) == count(&b.0) { None } else { Some(MISMATCH) }
        }
        Call::Broadcast(a, b) => {
            if has_zero(&a.0) || has_zero(&b.0) { return None; }
            let Some(fs) = o_shape2(&a.0, &b.0) else { return Some(MISMATCH) };
            let (sa, sb) = (o_stretch(&a.0, &a.1, &fs), o_stretch(&b.0, &b.1, &fs));
            Some(Out::Ok(Ans::Pairs(Piece { shape: fs, elems: sa.into_iter().zip(sb).collect(), consistent: true })))
        }
        Call::Arrays(l) => {
            if l.is_empty() || l.iter().any(|a| has_zero(&a.0)) { return None; }
            let mut fs: Vec<usize> = vec![];
            for a in l { match o_shape2(&fs, &a.0) { Some(x) => fs = x, None => return Some(MISMATCH) } }
            Some(Out::Ok(Ans::List(l.iter().map(|a| arr(&fs, o_stretch(&a.0, &a.1, &fs))).collect())))
        }
    }
}
fn same_piece<E: PartialEq>(a: &Piece<E>, b: &Piece<E>) -> Option<String> {
    if a.shape != b.shape || a.consistent != b.consistent || a.elems.len() != b.elems.len() { return Some(format!("shape {} ({} elements) instead of {} ({})", show_list(&a.shape), a.elems.len(), show_list(&b.shape), b.elems.len())); }
    (0..a.elems.len()).find(|&p| a.elems[p] != b.elems[p]).map(|p| format!("flat position {p}"))
}
/// where does the crate's answer `v` differ from the reference `o`?  `None` = identical (any two errors agree)
fn differs(v: &Out<Ans<i64>>, o: &Out<Ans<i64>>) -> Option<String> {
    match (v, o) {
        (Out::Panic, Out::Panic) | (Out::Err(_), Out::Err(_)) => None,
        (Out::Ok(Ans::Arr(a)), Out::Ok(Ans::Arr(b))) => same_piece(a, b).map(|d| match d.strip_prefix("flat position ") { Some(p) => { let p: usize = p.parse().unwrap(); format!("element {} at flat position {p}, the reference says {}", a.elems[p], b.elems[p]) } None => d }),
        (Out::Ok(Ans::Pairs(a)), Out::Ok(Ans::Pairs(b))) => same_piece(a, b).map(|d| match d.strip_prefix("flat position ") { Some(p) => { let p: usize = p.parse().unwrap(); format!("pair {}/{} at flat position {p}, the reference says {}/{}", a.elems[p].0, a.elems[p].1, b.elems[p].0, b.elems[p].1) } None => d }),
        (Out::Ok(Ans::List(a)), Out::Ok(Ans::List(b))) => {
            if a.len() != b.len() { return Some(format!("{} arrays instead of {}", a.len(), b.len())); }
            (0..a.len()).find_map(|k| same_piece(&a[k], &b[k]).map(|d| format!("array {k}: {d}")))
        }
        _ => Some(format!("`{}` where the reference says `{}`", truncate(&show_out(v), 120), truncate(&show_out(o), 120))),
    }
}

fn parse_call(op: &str, args: &[&str]) -> Option<Call> {
    Some(match op {
        "broadcast" if args.len() == 2 => Call::Broadcast(parse_arr_raw(args[0]), parse_arr_raw(args[1])),
        "zip" if args.len() == 2 => Call::Zip(parse_arr_raw(args[0]), parse_arr_raw(args[1])),
        "broadcast_to" if args.len() == 2 => Call::To(parse_arr_raw(args[0]), parse_usize_list(args[1])),
        "broadcast_arrays" if args.len() == 1 => Call::Arrays(if args[0] == "-" { vec![] } else { args[0].split(';').map(parse_arr_raw).collect() }),
        _ => return None,
    })
}
/// is the (source, target) pair of the call in the region the statement leaves open (equal count, not a stretch)?
fn open_region(c: &Call) -> bool {
    match c {
        Call::Zip(a, b) => !stretchable(&b.0, &a.0) && count(&a.0) == count(&b.0),
        Call::To(a, t) => !stretchable(&a.0, t) && count(&a.0) == count(t),
        _ => false,
    }
}

/// one call: the verdict and the canonical plain-receiver text (kept for the A-B-A re-run)
fn exec_single(op: &str, args: &[&str], expected: &str) -> Option<(Verdict, String)> {
    match op {
        "broadcast" | "zip" | "broadcast_to" | "broadcast_arrays" => {
            let c = parse_call(op, args)?;
            let (obs, plain, base) = observe(&c);
            let mut where_ = String::new();
            // the harness-native reference against the model (chain model -> reference -> crate)
            match oracle(&c) {
                None => { ORACLE_SILENT.fetch_add(1, Ordering::Relaxed); }
                Some(o) => {
                    if let Some(d) = differs(&base, &o) { where_ = format!("; the crate gives {d}"); }
                    ORACLE_CHECKED.fetch_add(1, Ordering::Relaxed);
                    let ot = show_out(&o);
                    if ot != expected && !(class_of(&ot) == "err" && class_of(expected) == "err") {
                        return Some((Verdict::Mismatch { observed: obs, detail: format!("ORACLE-VS-MODEL the harness-native reference gives `{}`, the model `{}` (harness defect: the reference is not usable)", truncate(&ot, 300), truncate(expected, 300)) }, plain));
                    }
                }
            }
            // equal count but not a stretch: region the statement leaves open
            if open_region(&c) && obs != expected { return Some((Verdict::Open(obs), plain)); }
            Some((match compare_default(obs, expected) { Verdict::Mismatch { observed, detail } => Verdict::Mismatch { observed, detail: format!("{detail}{where_}") }, v => v }, plain))
        }
        // broadcast_h2 observed through `multiply` (a pure lift over it): tag v of the string operand is the text of v,
        // tag 1000+j of the count operand is the count j+1 — the result text gives back both stretched operands
        "h2" => {
            let obs = plain_text(op, args)?;
            if let Some(v) = oracle_h_check(&[parse_arr_raw(args[0]), parse_arr_raw(args[1])], expected, &obs) { return Some((v, obs)); }
            Some((compare_default(obs.clone(), expected), obs))
        }
        // broadcast_h3 observed through `ljust`: width tag 1000+j is the width W+1+j, fill tag 2000+k is the character U+0100+k
        "h3" => {
            let obs = plain_text(op, args)?;
            if let Some(v) = oracle_h_check(&[parse_arr_raw(args[0]), parse_arr_raw(args[1]), parse_arr_raw(args[2])], expected, &obs) { return Some((v, obs)); }
            Some((compare_default(obs.clone(), expected), obs))
        }
        _ => None,
    }
}

/// the canonical answer text of a call on the plain receiver and the i64 tags, nothing else (A-B-A re-run)
fn plain_text(op: &str, args: &[&str]) -> Option<String> {
    match op {
        "h2" => {
            let (a, b) = (parse_arr_i64(args[0]), parse_arr_i64(args[1]));
            let (sa, nb) = (str_operand(&a)?, num_operand(&b, 1000, 1)?);
            Some(guarded(|| match sa.multiply(&nb) {
                Ok(r) => if !consistent(&r) { "ok <inconsistent array>".to_string() } else { decode_multiply(&r).map_or(format!("ok <undecodable {:?}>", r.get_elements().unwrap()), |t| format!("ok {}", t)) },
                Err(e) => format!("err {}", err_name(&e)),
            }))
        }
        "h3" => {
            let (a, b, c) = (parse_arr_i64(args[0]), parse_arr_i64(args[1]), parse_arr_i64(args[2]));
            let (sa, nb, cc) = (str_operand(&a)?, num_operand(&b, 1000, W + 1)?, char_operand(&c, 2000)?);
            Some(guarded(|| match sa.ljust(&nb, Some(cc.clone())) {
                Ok(r) => if !consistent(&r) { "ok <inconsistent array>".to_string() } else { decode_ljust(&r).map_or(format!("ok <undecodable {:?}>", r.get_elements().unwrap()), |t| format!("ok {}", t)) },
                Err(e) => format!("err {}", err_name(&e)),
            }))
        }
        _ => { let c = parse_call(op, args)?; Some(show_out(&call::<I64>(&c, false)?)) }
    }
}

/// `n <call>`: the model answers only the result shape; the values are compared with the harness-native reference
fn exec_n(args: &[&str], expected: &str) -> Option<Verdict> {
    let c = parse_call(args.first()?, &args[1..])?;
    let o = oracle(&c)?;          // `n` lines are only generated where the reference has an opinion
    ORACLE_ONLY.fetch_add(1, Ordering::Relaxed);
    let o_shape = match &o { Out::Ok(Ans::Arr(p)) => Some(p.shape.clone()), Out::Ok(Ans::Pairs(p)) => Some(p.shape.clone()), Out::Ok(Ans::List(v)) => Some(v[0].shape.clone()), _ => None };
    let model_shape = expected.strip_prefix("shape ").map(parse_usize_list);
    if class_of(expected) == "other" && model_shape.is_none() { return None; }
    if o_shape != model_shape {
        return Some(Verdict::Mismatch { observed: format!("reference shape {:?}", o_shape), detail: format!("ORACLE-VS-MODEL the harness-native reference and the model (`{expected}`) disagree about the result shape (harness defect)") });
    }
    let base = call::<I64>(&c, false)?;
    let size = match &base { Out::Ok(Ans::Arr(p)) => p.elems.len(), Out::Ok(Ans::Pairs(p)) => p.elems.len(), Out::Ok(Ans::List(v)) => v.iter().map(|p| p.elems.len()).sum(), _ => 0 };
    let text = truncate(&show_out(&base), 300);
    if let Some(d) = differs(&base, &o) {
        return Some(Verdict::Mismatch { observed: text, detail: format!("the crate gives {d} (reference: direct coordinate formula of the harness, validated against the model on the other cases of this run; model shape `{expected}`)") });
    }
    if let Some(d) = robust(&c, &base, size) { return Some(Verdict::Mismatch { observed: format!("{d}; plain Array<i64> call: {text}"), detail: "divergence between receivers / element types / repeated calls".into() }); }
    Some(Verdict::Match(format!("ok {expected} (values as the harness-native reference)")))
}

// ---- broadcast_h2 through its SECOND public lift: `Array<f64>::round(&Array<isize>)` = broadcast_h2, then position by position
// `(x * 10^d).round() / 10^d`.  Tag v of the first operand is the number 1000 v + 555, tag w of the second the decimals -(w mod 4):
// the result at a position gives back v and w mod 4.  The scalar function is evaluated natively and compared bit-wise.
fn h2r_value(t: i64) -> f64 { (t * 1000 + 555) as f64 }
fn h2r_dec(t: i64) -> isize { -(t.rem_euclid(4) as isize) }
fn h2r_f(v: f64, d: isize) -> f64 { let m = 10_f64.powi(d as i32); (v * m).round() / m }
fn h2r_call(a: &Raw, b: &Raw) -> Out<Piece<f64>> {
    let xa: Array<f64> = Array::new(a.1.iter().map(|&t| h2r_value(t)).collect(), a.0.clone()).expect("harness: h2r operand");
    let db: Array<isize> = Array::new(b.1.iter().map(|&t| h2r_dec(t)).collect(), b.0.clone()).expect("harness: h2r operand");
    run(|| xa.round(&db).map(|r| piece(&r)))
}
/// where does the `round` result differ from the lift of the two stretched tag arrays?
fn h2r_differs(r: &Piece<f64>, fs: &[usize], ta: &[i64], tb: &[i64]) -> Option<String> {
    if !r.consistent || r.shape != fs || r.elems.len() != ta.len() { return Some(format!("shape {} ({} elements) instead of {}", show_list(&r.shape), r.elems.len(), show_list(fs))); }
    (0..ta.len()).find(|&p| r.elems[p].to_bits() != h2r_f(h2r_value(ta[p]), h2r_dec(tb[p])).to_bits())
        .map(|p| format!("{:?} at flat position {p}, where the stretched operands have the tags {} and {} (expected {:?})", r.elems[p], ta[p], tb[p], h2r_f(h2r_value(ta[p]), h2r_dec(tb[p]))))
}
/// the reference answer of h2 / h3 in the protocol text of the model (`None`: zero-length axes — no opinion)
fn oracle_h(ops: &[Raw]) -> Option<String> {
    if ops.iter().any(|a| has_zero(&a.0)) { return None; }
    let mut fs: Vec<usize> = vec![];
    for a in ops { match o_shape2(&fs, &a.0) { Some(x) => fs = x, None => return Some("err BroadcastShapeMismatch".to_string()) } }
    Some(format!("ok {}", ops.iter().map(|a| show_tags(&fs, &o_stretch(&a.0, &a.1, &fs))).collect::<Vec<_>>().join(";")))
}
/// compare the reference of h2 / h3 / h2r with the model's answer; `Some(verdict)` = they disagree (harness defect)
fn oracle_h_check(ops: &[Raw], expected: &str, observed: &str) -> Option<Verdict> {
    match oracle_h(ops) {
        None => { ORACLE_SILENT.fetch_add(1, Ordering::Relaxed); None }
        Some(ot) => {
            ORACLE_CHECKED.fetch_add(1, Ordering::Relaxed);
            if ot != expected && !(class_of(&ot) == "err" && class_of(expected) == "err") {
                return Some(Verdict::Mismatch { observed: observed.to_string(), detail: format!("ORACLE-VS-MODEL the harness-native reference gives `{}`, the model `{}` (harness defect: the reference is not usable)", truncate(&ot, 300), truncate(expected, 300)) });
            }
            None
        }
    }
}
/// `h2r a b`: the model answers the two stretched tag arrays (the same `broadcastH2` as for h2)
fn exec_h2r(args: &[&str], expected: &str) -> Option<Verdict> {
    if args.len() != 2 { return None; }
    let (a, b) = (parse_arr_raw(args[0]), parse_arr_raw(args[1]));
    let r = h2r_call(&a, &b);
    let obs = match &r { Out::Panic => "panic".to_string(), Out::Err(e) => format!("err {e}"), Out::Ok(p) => format!("ok {}:{}", show_list(&p.shape), p.elems.iter().take(40).map(|x| format!("{x:?}")).collect::<Vec<_>>().join(",")) };
    if let Some(v) = oracle_h_check(&[a, b], expected, &obs) { return Some(v); }
    match (&r, expected.strip_prefix("ok ")) {
        (Out::Ok(p), Some(body)) => {
            let (ma, mb) = body.split_once(';')?;
            let (ma, mb) = (parse_arr_raw(ma), parse_arr_raw(mb));
            if ma.0 != mb.0 { return None; }
            Some(match h2r_differs(p, &ma.0, &ma.1, &mb.1) {
                Some(d) => Verdict::Mismatch { observed: obs, detail: format!("`round` (a pure lift over broadcast_h2) gives {d}; model: `{}`", truncate(expected, 300)) },
                None => Verdict::Match(format!("ok {}", body)),
            })
        }
        _ => Some(compare_default(obs, expected)),
    }
}
/// `g h2r a b`: broadcast_h2 at giant size; the model answers the result shape, the reference the two stretched tag arrays
fn exec_g_h2r(args: &[&str], expected: &str) -> Option<Verdict> {
    if args.len() != 2 { return None; }
    let (a, b) = (parse_arr_raw(args[0]), parse_arr_raw(args[1]));
    if has_zero(&a.0) || has_zero(&b.0) { return None; }
    GIANT.fetch_add(1, Ordering::Relaxed);
    let fs = o_shape2(&a.0, &b.0);
    let model_shape = expected.strip_prefix("shape ").map(parse_usize_list);
    if class_of(expected) == "other" && model_shape.is_none() { return None; }
    if fs != model_shape {
        return Some(Verdict::Mismatch { observed: format!("reference shape {:?}", fs), detail: format!("ORACLE-VS-MODEL the harness-native reference and the model (`{expected}`) disagree about the result shape (harness defect)") });
    }
    let r = h2r_call(&a, &b);
    match (&r, &fs) {
        (Out::Ok(p), Some(fs)) => {
            let (ta, tb) = (o_stretch(&a.0, &a.1, fs), o_stretch(&b.0, &b.1, fs));
            Some(match h2r_differs(p, fs, &ta, &tb) {
                Some(d) => Verdict::Mismatch { observed: format!("ok shape {} ({} elements)", show_list(&p.shape), p.elems.len()), detail: format!("`round` (a pure lift over broadcast_h2) gives {d} (reference: direct coordinate formula of the harness, validated against the model's broadcastH2 on the smaller h2 / h3 / h2r cases of this run)") },
                None => Verdict::Match(format!("ok {expected} (values as the harness-native reference)")),
            })
        }
        (Out::Err(_), None) => Some(Verdict::Match("err BroadcastShapeMismatch".to_string())),
        (Out::Ok(p), None) => Some(Verdict::Mismatch { observed: format!("ok shape {}", show_list(&p.shape)), detail: format!("model says `{expected}`") }),
        (Out::Err(e), Some(_)) => Some(Verdict::Mismatch { observed: format!("err {e}"), detail: format!("model says `{expected}`") }),
        (Out::Panic, _) => Some(Verdict::Mismatch { observed: "panic".to_string(), detail: format!("model says `{expected}`") }),
    }
}

/// short text of a (possibly giant) answer: the shape, the element count and the first few elements — a giant array is never formatted
fn brief(o: &Out<Ans<i64>>) -> String {
    fn head<E>(p: &Piece<E>, f: impl Fn(&E) -> String) -> String {
        format!("{}shape {} ({} elements, first: {}{})", if p.consistent { "" } else { "<inconsistent array> " }, show_list(&p.shape), p.elems.len(),
            p.elems.iter().take(6).map(|e| f(e)).collect::<Vec<_>>().join(","), if p.elems.len() > 6 { ",…" } else { "" })
    }
    match o {
        Out::Panic => "panic".to_string(),
        Out::Err(e) => format!("err {e}"),
        Out::Ok(Ans::Arr(p)) => format!("ok {}", head(p, |e| e.to_string())),
        Out::Ok(Ans::Pairs(p)) => format!("ok {}", head(p, |e| format!("{}/{}", e.0, e.1))),
        Out::Ok(Ans::List(v)) => format!("ok {}", v.iter().map(|p| head(p, |e| e.to_string())).collect::<Vec<_>>().join("; ")),
    }
}

/// `g <call>`: a GIANT case (result of more than 2^20 elements; operands spelled as tag arrays `i<shape>[+offset]`, built by the
/// harness, never written out).  The model answers the result shape; the values are compared IN PLACE with the harness-native
/// reference (first differing position only).  After the plain `Array<i64>` call ONE further stream in turn (`g`: on every second
/// case, `g2`: on every case): the same call again, the Result receiver, the u8 / 12-byte / 3-byte / f64 value-class image.
fn exec_g(args: &[&str], expected: &str, every: bool) -> Option<Verdict> {
    if args.first() == Some(&"h2r") { return exec_g_h2r(&args[1..], expected); }
    let c = parse_call(args.first()?, &args[1..])?;
    let o = oracle(&c)?;          // `g` lines are only generated where the reference has an opinion
    GIANT.fetch_add(1, Ordering::Relaxed);
    let o_shape = match &o { Out::Ok(Ans::Arr(p)) => Some(p.shape.clone()), Out::Ok(Ans::Pairs(p)) => Some(p.shape.clone()), Out::Ok(Ans::List(v)) => Some(v[0].shape.clone()), _ => None };
    let model_shape = expected.strip_prefix("shape ").map(parse_usize_list);
    if class_of(expected) == "other" && model_shape.is_none() { return None; }
    if o_shape != model_shape {
        return Some(Verdict::Mismatch { observed: format!("reference shape {:?}", o_shape), detail: format!("ORACLE-VS-MODEL the harness-native reference and the model (`{expected}`) disagree about the result shape (harness defect)") });
    }
    let base = call::<I64>(&c, false)?;
    if let Some(d) = differs(&base, &o) {
        return Some(Verdict::Mismatch { observed: brief(&base), detail: format!("the crate gives {d} (reference: direct coordinate formula of the harness, validated against the full model answer on the smaller cases of this run; model shape `{expected}`)") });
    }
    drop(o);
    let rot = GIANT_ROT.fetch_add(1, Ordering::Relaxed);
    // `g`: on every second giant case; `g2` (thorough tier): on every one
    let d = if !every && rot % 2 == 1 { None } else { match (if every { rot } else { rot / 2 }) % 6 {
        0 => variant::<I64>(&c, &base, true, false),
        1 => variant::<I64>(&c, &base, false, true),
        2 => variant::<U8>(&c, &base, true, false),
        3 => variant::<L12>(&c, &base, true, false),
        4 => variant::<L3>(&c, &base, true, false),
        _ => variant::<F64v>(&c, &base, true, false),
    } };
    if let Some(d) = d { return Some(Verdict::Mismatch { observed: format!("{d}; plain Array<i64> call: {}", brief(&base)), detail: "divergence between receivers / element types / repeated calls on a giant case".into() }); }
    Some(Verdict::Match(format!("ok {expected} (values as the harness-native reference)")))
}

/// `seq call / call / …`: the calls are executed one after the other on this thread, each compared with the model
fn exec_seq(args: &[&str], expected: &str) -> Option<Verdict> {
    let parts: Vec<&[&str]> = args.split(|&a| a == "/").collect();
    let exps: Vec<&str> = expected.split(" / ").collect();
    if parts.len() != exps.len() { return None; }
    let (mut texts, mut open) = (vec![], false);
    for (k, (p, e)) in parts.iter().zip(&exps).enumerate() {
        let (v, _) = exec_single(p.first()?, &p[1..], e)?;
        match v {
            Verdict::Match(o) => texts.push(truncate(&o, 200)),
            Verdict::Open(o) => { open = true; texts.push(truncate(&o, 200)); }
            Verdict::Mismatch { observed, detail } => {
                texts.push(truncate(&observed, 600));
                return Some(Verdict::Mismatch { observed: texts.join(" / "), detail: format!("call {} of the sequence (`{}`), executed after the calls before it on the same thread: {detail}", k + 1, p.join(" ")) });
            }
        }
    }
    Some(if open { Verdict::Open(texts.join(" / ")) } else { Verdict::Match(texts.join(" / ")) })
}

thread_local! {
    /// the previous case of this thread and its canonical answer (A-B-A discipline)
    static PREV: RefCell<Option<(String, Vec<String>, String)>> = RefCell::new(None);
}

fn exec(op: &str, args: &[&str], expected: &str) -> Option<Verdict> {
    match op {
        "seq" => { PREV.with(|p| *p.borrow_mut() = None); return exec_seq(args, expected); }
        "n" => { PREV.with(|p| *p.borrow_mut() = None); return exec_n(args, expected); }
        "g" => { PREV.with(|p| *p.borrow_mut() = None); return exec_g(args, expected, false); }
        "g2" => { PREV.with(|p| *p.borrow_mut() = None); return exec_g(args, expected, true); }
        "h2r" => { PREV.with(|p| *p.borrow_mut() = None); return exec_h2r(args, expected); }
        "oracle_report" => {
            let (n, silent, only, aba, giant) = (ORACLE_CHECKED.load(Ordering::Relaxed), ORACLE_SILENT.load(Ordering::Relaxed), ORACLE_ONLY.load(Ordering::Relaxed), ABA_RERUNS.load(Ordering::Relaxed), GIANT.load(Ordering::Relaxed));
            let text = format!("ok report: so far the harness-native reference agreed with the full model answer on {n} cases (no opinion on {silent}), {only} huge and {giant} giant (> 10^6 elements) cases compared with the reference only, {aba} A-B-A re-runs");
            // the last line of a run: the chain model -> reference -> crate must really have been exercised
            if args.first() == Some(&"final") && n < 1000 { return Some(Verdict::Mismatch { observed: text, detail: "the reference was compared with the model on fewer than 1000 cases".into() }); }
            return Some(Verdict::Match(text));
        }
        _ => {}
    }
    let (v, plain) = exec_single(op, args, expected)?;
    // A-B-A: after this case (B), the previous case (A) is executed again and must give what it gave before B
    let prev = PREV.with(|p| p.borrow_mut().take());
    let mut v = v;
    if let Some((pop, pargs, ptext)) = prev {
        let pa: Vec<&str> = pargs.iter().map(String::as_str).collect();
        if let Some(again) = plain_text(&pop, &pa) {
            ABA_RERUNS.fetch_add(1, Ordering::Relaxed);
            if again != ptext && !matches!(v, Verdict::Mismatch { .. }) {
                let a_line = format!("{pop} {}", pargs.join(" "));
                v = Verdict::Mismatch { observed: format!("STATE-DIVERGENCE `{a_line}` executed again after this case gives `{}`", truncate(&again, 400)),
                    detail: format!("before this case the same call gave `{}`; self-contained replay: seq {a_line} / {op} {} / {a_line}", truncate(&ptext, 400), args.join(" ")) };
            }
        }
    }
    // remember this case when its answer is of moderate size
    if plain.len() <= 100_000 { PREV.with(|p| *p.borrow_mut() = Some((op.to_string(), args.iter().map(|s| s.to_string()).collect(), plain))); }
    Some(v)
}

/// non-trivial: some operand is really stretched along an axis whose target length is > 1
fn nontrivial(op: &str, args: &[&str]) -> bool {
    match op {
        "seq" => return args.split(|&a| a == "/").any(|p| !p.is_empty() && nontrivial(p[0], &p[1..])),
        "n" | "g" | "g2" => return !args.is_empty() && nontrivial(args[0], &args[1..]),
        "oracle_report" => return false,
        _ => {}
    }
    let shapes_of = |s: &str| -> Vec<Vec<usize>> { if s == "-" { vec![] } else { s.split(';').map(|x| parse_arr_raw(x).0).collect() } };
    let ss: Vec<Vec<usize>> = match op {
        "broadcast_to" => vec![parse_arr_raw(args[0]).0, parse_usize_list(args[1])],
        "broadcast_arrays" => shapes_of(args[0]),
        "h3" => vec![parse_arr_raw(args[0]).0, parse_arr_raw(args[1]).0, parse_arr_raw(args[2]).0],
        _ => vec![parse_arr_raw(args[0]).0, parse_arr_raw(args[1]).0],
    };
    let n = ss.iter().map(|s| s.len()).max().unwrap_or(0);
    (0..n).any(|k| {
        let dims: Vec<usize> = ss.iter().map(|s| if k < s.len() { s[s.len() - 1 - k] } else { 1 }).collect();
        let m = *dims.iter().max().unwrap();
        m > 1 && dims.iter().any(|&d| d == 1)
    })
}

fn main() {
    harness_main(Spec { prop: "C03", gen, exec, nontrivial, hang_secs: 60,
        rule: "exhaustive: all ordered pairs of shapes rank<=3 len<=3 (39^2) for broadcast, zip, broadcast_to (source,target) and 2-lists of broadcast_arrays; triples: 4000 sampled (quick) / all 39^3 (thorough); stretch targets up to rank 6; seeded random rank<=4 len<=5 mostly-compatible pairs/triples; zero-length shapes (refused on aligned axes, accepted as added leading target axes). The crate-internal helpers broadcast_h2 / broadcast_h3 (ops h2 / h3) are observed through the public pure lifts `multiply` (string x count) and `ljust` (string x width x fill char) with per-position-recoverable operands, so the result text gives back the two / three stretched operands: all ordered pairs rank<=3 len<=3 for h2; triples: every ordered pair with a sampled third operand in a sampled position + 1500 sampled (quick) / all 39^3 (thorough); rank-0 operands; random rank<=4 len<=5. Tag arrays (distinct integers; k-th operand offset 1000k). Robustness streams: big targets (lib big_shapes, every axis length 7..17 in leading/inner/trailing position, targets above 4096 elements of rank 1..6 such as [70,70], [3,41,41], [65,64], [4097], [8192]; seeded random targets of 300..6000 elements, thorough ..12000) x every source with one axis made a unit axis / only one axis kept / leading axes dropped / the one-element array, complementary unit-axis pairs in both orders, 2- and 3-lists, an added leading axis on the big array, the equal-count reshape arm and a non-stretchable neighbour, for broadcast_to, broadcast, zip, broadcast_arrays; h2 / h3 on targets above 4096 elements; every ordered pair of 13 zero-length shapes and 9 small ones (at least one zero-length) for all six ops; value-class sources (every 0/1 pattern of up to 4 elements = -0.0/+0.0 under the f64 image, mixtures with NaN, subnormals, 2^53+2). EVERY broadcast / zip / broadcast_to / broadcast_arrays case is executed on the plain Array<i64> receiver (the compared answer), a second time, on the Result receiver (Ok(array).broadcast / .broadcast_to, <Result<..>>::broadcast_arrays), and on the u8, bool and two f64 images (tag 0 = -0.0; value classes mod 8; bit-wise; pairs: both components separately) - results of up to 600 elements also i8, u8 near 255, i64 beyond 2^53, u16, i32, f32, usize, String, all on both receivers; any divergence fails the case. PART 2: hidden state - `seq` lines (several calls on one thread, each compared with the model): shape pairs colliding under h*m+dim for m = 31, 33, 37, 131, 257 (lib collision_shape_pairs + [2,1]/[1,1+m] families) as two sources of one target, two targets of one source and the operands of one call, both orders A-B-A; axis lengths c / c+2^8 / c+2^16; permuted dims; same shapes with permuted / shifted values; refused-then-accepted calls; seeded random interleavings; and an A-B-A re-run of the previous case after EVERY case (STATE-DIVERGENCE). Huge: targets of 16 384 .. 196 611 elements (lib huge_shapes + counts at 2^14 / 2^15 / 2^16 +-1, axes 65 535 / 65 536 / 65 537, ranks 1..5) x sources_of x broadcast_to / zip / broadcast / broadcast_arrays, equal shapes, added leading axis; the full model answer where the list-backed model takes < 0.2 s (quick) / 2 s (thorough), otherwise `n` lines: the model answers the result shape (broadcastShape / commonBroadcastShape) and the values are compared with a harness-native odometer reference, which is itself compared with the full model answer on every other broadcast / zip / broadcast_to / broadcast_arrays case of the run where it has an opinion (count in the oracle_report sample; the run fails if fewer than 1000). Every axis length 1..300 in trailing / inner position; counts 31, 37, 1000, 1001, primes, 49; the same object on both sides of broadcast / zip (i64 and the f64 NaN / -0.0 image); ranks 5..8; lists of 5..70 arrays. PART 3: giant targets (`g` / `g2` lines; 10^6 and 2^20 < count <= 2.1 million; ranks 1..4; a stretched first / middle / last axis, added leading axes, a stretched axis above a kept axis above a stretched axis in rank 3 and 4 in both parities; extents that are and are not multiples of 64; broadcast_to, zip, broadcast with the complementary operand (both stretched), broadcast_arrays, and broadcast_h2 through its numeric lift `round` (op h2r: number tag x decimals tag, scalar function evaluated natively, bit-wise): 24 fixed + 2 seeded in the quick tier, the full product of 22 targets x every unit-axis mask of the source with and without its leading unit axes (about 345 cases) in the thorough tier; the model answers the result shape, the values are compared in place with the harness-native reference (never formatted), which is compared with the full model answer on every smaller broadcast / zip / broadcast_to / broadcast_arrays / h2 / h3 / h2r case of the run; then in turn the same call again / the Result receiver / the u8, 12-byte, 3-byte, f64 value-class image). Odd element layouts on EVERY case: Tuple3<i32,i32,i32> (12 bytes), Tuple3<u8,u8,u8> (3 bytes), Tuple2<String,i32> (32 bytes, not Copy), one of them in turn (results of up to 600 elements on both receivers). Value relations: constant sources, sources whose elements are all == but not identical under the f64 image (-0.0 / +0.0), and constant-but-for-the-first/last-element sources, for every small source shape of two or more elements against EVERY small target (all 39 shapes of rank <= 3, len <= 3 plus 8 more: accepted, shrinking, clashing, lower rank) through broadcast_to, and in turn as either operand of zip / broadcast / broadcast_arrays and as string / count / fill operand of h2 / h3; constant sources of 300 .. 4900 elements; h2r on all ordered pairs of small shapes. distinct = distinct case lines; non-trivial = at least one operand stretched along an axis of target length > 1 (seq: in some member)" });
}
