//! C03 — broadcasting: shape rule and value placement. Value protocol with distinct tags.
//! Robustness streams (FRAMEWORK.md): stretch targets beyond 256 / 1024 / 4096 elements and axis lengths 7..17, zero-length
//! axes, the element-type sweep (byte-sized types, floats with -0.0 / +0.0 / NaN / subnormals compared bit-wise, integers
//! beyond 2^53, String), both receivers, the same call twice.
use arrharness::*;
use std::panic::{catch_unwind, AssertUnwindSafe};

// ================================================================ element-type images

/// image of a tag in another element type: broadcasting is value-blind, so it must move the IMAGES exactly as it moves the tags
trait Image {
    type T: ArrayElement;
    const NAME: &'static str;
    fn img(t: i64) -> Self::T;
    fn same(a: &Self::T, b: &Self::T) -> bool { a == b }
}
struct I64; struct I64Big; struct U8; struct U8Hi; struct I8; struct Bool; struct U16; struct I32; struct Usize; struct F32; struct F64z; struct F64v; struct Str;
impl Image for I64 { type T = i64; const NAME: &'static str = "i64"; fn img(t: i64) -> i64 { t } }
/// integers beyond 2^53 (an f64 round trip loses the low bit)
impl Image for I64Big { type T = i64; const NAME: &'static str = "i64 (2^53 + 1 + tag)"; fn img(t: i64) -> i64 { (1i64 << 53) + 1 + t } }
impl Image for U8 { type T = u8; const NAME: &'static str = "u8"; fn img(t: i64) -> u8 { tag_u8(t) } }
impl Image for U8Hi { type T = u8; const NAME: &'static str = "u8 (255 - tag)"; fn img(t: i64) -> u8 { 255 - tag_u8(t) } }
impl Image for I8 { type T = i8; const NAME: &'static str = "i8"; fn img(t: i64) -> i8 { (t.rem_euclid(255) - 127) as i8 } }
impl Image for Bool { type T = bool; const NAME: &'static str = "bool"; fn img(t: i64) -> bool { t % 2 != 0 } }
impl Image for U16 { type T = u16; const NAME: &'static str = "u16"; fn img(t: i64) -> u16 { t.rem_euclid(65521) as u16 } }
impl Image for I32 { type T = i32; const NAME: &'static str = "i32"; fn img(t: i64) -> i32 { (t % 2_000_000_011) as i32 } }
impl Image for Usize { type T = usize; const NAME: &'static str = "usize"; fn img(t: i64) -> usize { t.unsigned_abs() as usize } }
impl Image for F32 { type T = f32; const NAME: &'static str = "f32 (tag 0 = -0.0)"; fn img(t: i64) -> f32 { if t == 0 { -0.0 } else { (t % 16_000_000) as f32 } } fn same(a: &f32, b: &f32) -> bool { a.to_bits() == b.to_bits() } }
/// tag 0 is NEGATIVE zero, every other tag its own value; compared bit-wise
impl Image for F64z { type T = f64; const NAME: &'static str = "f64 (tag 0 = -0.0)"; fn img(t: i64) -> f64 { tag_f64z(t) } fn same(a: &f64, b: &f64) -> bool { a.to_bits() == b.to_bits() } }
/// value classes by tag mod 8: -0.0, +0.0 (== but not identical), NaN, a negative NaN with payload (never ==), the two smallest
/// subnormals, 2^53 + 2, the tag itself; compared bit-wise
impl Image for F64v {
    type T = f64; const NAME: &'static str = "f64 (-0.0/+0.0/NaN/subnormal classes)";
    fn img(t: i64) -> f64 {
        match t.rem_euclid(8) { 0 => -0.0, 1 => 0.0, 2 => f64::NAN, 3 => f64::from_bits(0xFFF8_0000_0000_0BAD), 4 => f64::from_bits(1), 5 => -f64::from_bits(1),
                                6 => 9007199254740994.0, _ => t as f64 }
    }
    fn same(a: &f64, b: &f64) -> bool { a.to_bits() == b.to_bits() }
}
impl Image for Str { type T = String; const NAME: &'static str = "String"; fn img(t: i64) -> String { format!("s{t}") } }

type Raw = (Vec<usize>, Vec<i64>);
/// build the real array WITHOUT going through any operation under test other than `Array::new`
fn build<I: Image>(r: &Raw) -> Array<I::T> { Array::new(r.1.iter().map(|&t| I::img(t)).collect(), r.0.clone()).expect("harness: malformed array literal in case line") }

#[derive(Clone, Debug)]
enum Out<V> { Ok(V), Err(&'static str), Panic }
fn run<V>(f: impl FnOnce() -> Result<V, ArrayError>) -> Out<V> {
    match catch_unwind(AssertUnwindSafe(f)) { Ok(Ok(v)) => Out::Ok(v), Ok(Err(e)) => Out::Err(err_name(&e)), Err(_) => Out::Panic }
}
#[derive(Clone, Debug)]
struct Piece<E> { shape: Vec<usize>, elems: Vec<E>, consistent: bool }
#[derive(Clone, Debug)]
enum Ans<T> { Arr(Piece<T>), Pairs(Piece<(T, T)>), List(Vec<Piece<T>>) }
fn piece<T: ArrayElement>(a: &Array<T>) -> Piece<T> { Piece { shape: a.get_shape().unwrap(), elems: a.get_elements().unwrap(), consistent: consistent(a) } }
fn pairs<T: ArrayElement>(a: &Array<Tuple2<T, T>>) -> Piece<(T, T)> {
    Piece { shape: a.get_shape().unwrap(), elems: a.get_elements().unwrap().into_iter().map(|t| (t.0, t.1)).collect(), consistent: consistent(a) }
}

enum Call { Broadcast(Raw, Raw), Zip(Raw, Raw), To(Raw, Vec<usize>), Arrays(Vec<Raw>) }

/// the real call on the `I` image of the operands.  `chained` = the same method on `Ok(array)` through
/// `impl ArrayBroadcast<T> for Result<Array<T>, ArrayError>` (`None`: `zip` has no such form)
fn call<I: Image>(c: &Call, chained: bool) -> Option<Out<Ans<I::T>>> {
    Some(match (c, chained) {
        (Call::Broadcast(a, b), false) => { let (a, b) = (build::<I>(a), build::<I>(b)); run(|| a.broadcast(&b).map(|r| Ans::Pairs(pairs(&r)))) }
        (Call::Broadcast(a, b), true) => { let (a, b) = (build::<I>(a), build::<I>(b)); let r: Result<Array<I::T>, ArrayError> = Ok(a); run(|| r.broadcast(&b).map(|r| Ans::Pairs(pairs(&r)))) }
        (Call::Zip(a, b), false) => { let (a, b) = (build::<I>(a), build::<I>(b)); run(|| a.zip(&b).map(|r| Ans::Pairs(pairs(&r)))) }
        (Call::Zip(..), true) => return None,
        (Call::To(a, t), false) => { let a = build::<I>(a); run(|| a.broadcast_to(t.clone()).map(|r| Ans::Arr(piece(&r)))) }
        (Call::To(a, t), true) => { let r: Result<Array<I::T>, ArrayError> = Ok(build::<I>(a)); run(|| r.broadcast_to(t.clone()).map(|r| Ans::Arr(piece(&r)))) }
        (Call::Arrays(l), false) => { let l: Vec<Array<I::T>> = l.iter().map(build::<I>).collect(); run(|| Array::broadcast_arrays(l).map(|v| Ans::List(v.iter().map(piece).collect()))) }
        (Call::Arrays(l), true) => { let l: Vec<Array<I::T>> = l.iter().map(build::<I>).collect();
            run(|| <Result<Array<I::T>, ArrayError> as ArrayBroadcast<I::T>>::broadcast_arrays(l).map(|v| Ans::List(v.iter().map(piece).collect()))) }
    })
}

fn show_piece(p: &Piece<i64>) -> String { format!("{}{}:{}", if p.consistent { "" } else { "<inconsistent array> " }, show_list(&p.shape), show_list(&p.elems)) }
/// protocol text of the canonical (plain receiver, i64 tags) answer
fn show_out(o: &Out<Ans<i64>>) -> String {
    match o {
        Out::Panic => "panic".to_string(),
        Out::Err(e) => format!("err {e}"),
        Out::Ok(Ans::Arr(p)) => format!("ok {}", show_piece(p)),
        Out::Ok(Ans::Pairs(p)) => {
            let items: Vec<String> = p.elems.iter().map(|t| format!("{}/{}", t.0, t.1)).collect();
            format!("ok {}{}:{}", if p.consistent { "" } else { "<inconsistent array> " }, show_list(&p.shape), if items.is_empty() { "-".to_string() } else { items.join(",") })
        }
        Out::Ok(Ans::List(v)) => format!("ok {}", if v.is_empty() { "-".to_string() } else { v.iter().map(show_piece).collect::<Vec<_>>().join(";") }),
    }
}

fn piece_agrees<I: Image>(b: &Piece<i64>, v: &Piece<I::T>) -> Option<String> {
    if b.shape != v.shape || b.consistent != v.consistent || b.elems.len() != v.elems.len() { return Some(format!("shape {} ({} elements)", show_list(&v.shape), v.elems.len())); }
    for p in 0..b.elems.len() {
        if !I::same(&I::img(b.elems[p]), &v.elems[p]) { return Some(format!("{:?} at flat position {p} where the image of tag {} is {:?}", v.elems[p], b.elems[p], I::img(b.elems[p]))); }
    }
    None
}
/// does the answer `v` on the `I` image agree with the canonical answer `b` on the i64 tags?  `Some(what)` = no.
/// Same outcome class (any two errors agree), same shapes, and every element is the image of the tag at that position
/// (pairs: both components separately).
fn disagree<I: Image>(b: &Out<Ans<i64>>, v: &Out<Ans<I::T>>) -> Option<String> {
    match (b, v) {
        (Out::Panic, Out::Panic) | (Out::Err(_), Out::Err(_)) => None,
        (Out::Ok(Ans::Arr(b)), Out::Ok(Ans::Arr(v))) => piece_agrees::<I>(b, v),
        (Out::Ok(Ans::List(b)), Out::Ok(Ans::List(v))) => {
            if b.len() != v.len() { return Some(format!("{} arrays", v.len())); }
            (0..b.len()).find_map(|k| piece_agrees::<I>(&b[k], &v[k]).map(|d| format!("array {k}: {d}")))
        }
        (Out::Ok(Ans::Pairs(b)), Out::Ok(Ans::Pairs(v))) => {
            if b.shape != v.shape || b.consistent != v.consistent || b.elems.len() != v.elems.len() { return Some(format!("shape {} ({} elements)", show_list(&v.shape), v.elems.len())); }
            for p in 0..b.elems.len() {
                if !I::same(&I::img(b.elems[p].0), &v.elems[p].0) { return Some(format!("first component {:?} at flat position {p} where the image of tag {} is {:?}", v.elems[p].0, b.elems[p].0, I::img(b.elems[p].0))); }
                if !I::same(&I::img(b.elems[p].1), &v.elems[p].1) { return Some(format!("second component {:?} at flat position {p} where the image of tag {} is {:?}", v.elems[p].1, b.elems[p].1, I::img(b.elems[p].1))); }
            }
            None
        }
        (_, Out::Ok(_)) => Some("a value".to_string()),
        (_, Out::Err(e)) => Some(format!("err {e}")),
        (_, Out::Panic) => Some("a panic".to_string()),
    }
}

/// one element-type image: plain and chained receiver against the canonical answer; `Some(text)` = a divergence
fn variant<I: Image>(c: &Call, base: &Out<Ans<i64>>, plain: bool, chained: bool) -> Option<String> {
    if plain {
        let v = call::<I>(c, false)?;
        if let Some(d) = disagree::<I>(base, &v) {
            return Some(if I::NAME == "i64" { format!("REPEAT-DIVERGENCE the same call a second time gives {d}") } else { format!("TYPE-DIVERGENCE element type {} gives {d}", I::NAME) });
        }
    }
    if chained {
        if let Some(v) = call::<I>(c, true) {
            if let Some(d) = disagree::<I>(base, &v) { return Some(format!("RECEIVER-DIVERGENCE the call on the Result receiver (element type {}) gives {d}", I::NAME)); }
        }
    }
    None
}

/// the canonical answer text of a case plus the robustness streams: the same call a second time, the Result receiver, the
/// element-type sweep.  Results of up to 600 elements: every image on both receivers; larger ones: i64 / u8 on both receivers,
/// bool / the two f64 images on the plain one.
fn observe(c: &Call) -> String {
    let base = call::<I64>(c, false).expect("plain form exists");
    let text = show_out(&base);
    let size = match &base { Out::Ok(Ans::Arr(p)) => p.elems.len(), Out::Ok(Ans::Pairs(p)) => p.elems.len(), Out::Ok(Ans::List(v)) => v.iter().map(|p| p.elems.len()).sum(), _ => 0 };
    let small = size <= 600;
    let d = variant::<I64>(c, &base, true, true)
        .or_else(|| variant::<U8>(c, &base, true, true))
        .or_else(|| variant::<F64z>(c, &base, true, small))
        .or_else(|| variant::<F64v>(c, &base, true, small))
        .or_else(|| variant::<Bool>(c, &base, true, small))
        .or_else(|| if small { variant::<I8>(c, &base, true, true) } else { None })
        .or_else(|| if small { variant::<U8Hi>(c, &base, true, true) } else { None })
        .or_else(|| if small { variant::<I64Big>(c, &base, true, true) } else { None })
        .or_else(|| if small { variant::<U16>(c, &base, true, true) } else { None })
        .or_else(|| if small { variant::<I32>(c, &base, true, true) } else { None })
        .or_else(|| if small { variant::<F32>(c, &base, true, true) } else { None })
        .or_else(|| if small { variant::<Usize>(c, &base, true, true) } else { None })
        .or_else(|| if small { variant::<Str>(c, &base, true, true) } else { None });
    match d { Some(d) => format!("{d}; plain Array<i64> call: {}", truncate(&text, 300)), None => text }
}

/// can `s` be stretched to `t`? Same rule as the Lean `stretchable`: trailing alignment; every source axis equals the
/// aligned target axis or is 1; no zero length on an ALIGNED axis; the added leading target axes are unconstrained
/// (a zero-length one gives an empty result).
fn stretchable(s: &[usize], t: &[usize]) -> bool {
    if s.len() > t.len() { return false; }
    let off = t.len() - s.len();
    s.iter().zip(&t[off..]).all(|(&f, &to)| (f == to || f == 1) && f != 0 && to != 0)
}

// ---- observing the crate-internal helpers broadcast_h2 / broadcast_h3 through public pure lifts over them ----
// `multiply(counts)` = broadcast_h2 then `s.repeat(n)` position by position; `ljust(width, fill)` = broadcast_h3 then
// `s + fill * (width - len)`. With per-position-recoverable operands the result text reveals which source positions
// were paired at every result position, i.e. the two / three stretched operands themselves.

const W: usize = 4; // digits of the string operand's text
/// string operand: element with tag v (0 <= v < 10^W) becomes the W-digit decimal text of v
fn str_operand(a: &Array<i64>) -> Option<Array<String>> {
    let e = a.get_elements().unwrap();
    if e.iter().any(|&v| v < 0 || v >= 10i64.pow(W as u32)) { return None; }
    Some(Array::new(e.iter().map(|v| format!("{:0w$}", v, w = W)).collect(), a.get_shape().unwrap()).expect("harness: string operand"))
}
/// count / width operand: element with tag v (base <= v < base + 5000) becomes the number v - base + add
fn num_operand(a: &Array<i64>, base: i64, add: usize) -> Option<Array<usize>> {
    let e = a.get_elements().unwrap();
    if e.iter().any(|&v| v < base || v >= base + 5000) { return None; }
    Some(Array::new(e.iter().map(|&v| (v - base) as usize + add).collect(), a.get_shape().unwrap()).expect("harness: numeric operand"))
}
/// fill-character operand: element with tag v (base <= v < base + 5000) becomes the character U+0100 + (v - base)
fn char_operand(a: &Array<i64>, base: i64) -> Option<Array<char>> {
    let e = a.get_elements().unwrap();
    if e.iter().any(|&v| v < base || v >= base + 5000) { return None; }
    Some(Array::new(e.iter().map(|&v| char::from_u32(0x100 + (v - base) as u32).unwrap()).collect(), a.get_shape().unwrap()).expect("harness: char operand"))
}
fn show_tags(shape: &[usize], tags: &[i64]) -> String { format!("{}:{}", show_list(shape), show_list(tags)) }

/// `multiply` result -> the two stretched tag arrays (None: the text is not a whole number of repetitions of one tag)
fn decode_multiply(r: &Array<String>) -> Option<String> {
    let (shape, e) = (r.get_shape().unwrap(), r.get_elements().unwrap());
    let (mut ta, mut tb) = (vec![], vec![]);
    for s in &e {
        if !s.is_ascii() || s.is_empty() || s.len() % W != 0 { return None; }
        let first = &s[..W];
        if (0..s.len() / W).any(|k| &s[k * W..(k + 1) * W] != first) { return None; }
        ta.push(first.parse::<i64>().ok()?);
        tb.push(1000 + (s.len() / W) as i64 - 1);
    }
    Some(format!("{};{}", show_tags(&shape, &ta), show_tags(&shape, &tb)))
}
/// `ljust` result -> the three stretched tag arrays
fn decode_ljust(r: &Array<String>) -> Option<String> {
    let (shape, e) = (r.get_shape().unwrap(), r.get_elements().unwrap());
    let (mut ta, mut tb, mut tc) = (vec![], vec![], vec![]);
    for s in &e {
        let cs: Vec<char> = s.chars().collect();
        if cs.len() < W + 1 || !cs[..W].iter().all(|c| c.is_ascii_digit()) { return None; }
        let fill = cs[W];
        if (fill as u32) < 0x100 || cs[W..].iter().any(|&c| c != fill) { return None; }
        ta.push(cs[..W].iter().collect::<String>().parse::<i64>().ok()?);
        tb.push(1000 + (cs.len() - W - 1) as i64);
        tc.push(2000 + (fill as u32 - 0x100) as i64);
    }
    Some(format!("{};{};{}", show_tags(&shape, &ta), show_tags(&shape, &tb), show_tags(&shape, &tc)))
}

fn gen(tier: &str, seed: u64, out: &mut dyn FnMut(String)) {
    let thorough = tier == "thorough";
    // corpus of past failures first
    for l in ["broadcast i2,3 i1+1000", "broadcast i2,3 i3+1000", "broadcast_to i3 2,2,3", "broadcast_to i2 2,3", "broadcast_to i2,1,3 2,2,3",
              "zip i1 i3+1000", "broadcast i2,1 i1,3+1000", "broadcast_arrays i2,1;i3+1000;i1,1,1+2000",
              "h2 i2,1 i3+1000", "h2 i3 i2,1+1000", "h3 i2,1 i3+1000 i1+2000", "h3 i1 i2,1,1+1000 i3+2000", "h2 i2 i3+1000", "h3 i2 i1+1000 i3+2000",
              "broadcast_to i3 0,3", "broadcast_to i1 0,2", "broadcast_to i2,3 0,2,3", "broadcast_to i3 0,2", "zip i0,3 i3+1000"] { out(l.to_string()); }
    let small = shapes(1, 3, 1, 3);
    for s in &small { for t in &small {
        out(format!("broadcast {} {}", tag(s), tag_off(t, 1000)));
        out(format!("zip {} {}", tag(s), tag_off(t, 1000)));
        out(format!("broadcast_to {} {}", tag(s), show_list(t)));
        out(format!("broadcast_arrays {};{}", tag(s), tag_off(t, 1000)));
        out(format!("h2 {} {}", tag(s), tag_off(t, 1000)));
    } }
    // targets of rank 4 for every small source
    let mut rng = Rng::new(seed);
    for s in &small { for _ in 0..(if thorough { 40 } else { 6 }) {
        // a stretch target: prepend axes, widen unit axes
        let mut t: Vec<usize> = s.iter().map(|&d| if d == 1 && rng.below(2) == 0 { 1 + rng.below(4) } else { d }).collect();
        for _ in 0..rng.below(3) { t.insert(0, 1 + rng.below(3)); }
        out(format!("broadcast_to {} {}", tag(s), show_list(&t)));
    } }
    // triples
    if thorough {
        for a in &small { for b in &small { for c in &small {
            out(format!("broadcast_arrays {};{};{}", tag(a), tag_off(b, 1000), tag_off(c, 2000)));
            out(format!("h3 {} {} {}", tag(a), tag_off(b, 1000), tag_off(c, 2000)));
        } } }
    } else {
        for _ in 0..4000 {
            let (a, b, c) = (rng.pick(&small).clone(), rng.pick(&small).clone(), rng.pick(&small).clone());
            out(format!("broadcast_arrays {};{};{}", tag(&a), tag_off(&b, 1000), tag_off(&c, 2000)));
        }
        // helper triples: every pair of small shapes with a sampled third operand in each of the three positions
        for a in &small { for b in &small {
            let c = rng.pick(&small).clone();
            match rng.below(3) {
                0 => out(format!("h3 {} {} {}", tag(a), tag_off(b, 1000), tag_off(&c, 2000))),
                1 => out(format!("h3 {} {} {}", tag(a), tag_off(&c, 1000), tag_off(b, 2000))),
                _ => out(format!("h3 {} {} {}", tag(&c), tag_off(a, 1000), tag_off(b, 2000))),
            }
        } }
        for _ in 0..1500 {
            let (a, b, c) = (rng.pick(&small).clone(), rng.pick(&small).clone(), rng.pick(&small).clone());
            out(format!("h3 {} {} {}", tag(&a), tag_off(&b, 1000), tag_off(&c, 2000)));
        }
    }
    out("broadcast_arrays -".to_string());
    for s in &small { out(format!("broadcast_arrays {}", tag(s))); }
    // random, beyond the small scope: rank <= 4, len <= 5, mostly compatible
    let n_rand = if thorough { 30000 } else { 4000 };
    for _ in 0..n_rand {
        let base = rng.shape(1, 4, 5);
        let derive = |rng: &mut Rng| -> Vec<usize> {
            let k = rng.below(base.len()) ;
            let mut s: Vec<usize> = base[k..].iter().map(|&d| match rng.below(6) { 0 | 1 => 1, 2 => 1 + rng.below(5), _ => d }).collect();
            if rng.below(8) == 0 { s.insert(0, 1 + rng.below(3)); }
            s
        };
        let (s, t, u) = (derive(&mut rng), derive(&mut rng), derive(&mut rng));
        match rng.below(6) {
            4 => out(format!("h2 {} {}", tag(&s), tag_off(&t, 1000))),
            5 => out(format!("h3 {} {} {}", tag(&s), tag_off(&t, 1000), tag_off(&u, 2000))),
            0 => out(format!("broadcast {} {}", tag(&s), tag_off(&t, 1000))),
            1 => out(format!("zip {} {}", tag(&s), tag_off(&t, 1000))),
            2 => out(format!("broadcast_to {} {}", tag(&s), show_list(&t))),
            _ => out(format!("broadcast_arrays {};{};{}", tag(&s), tag_off(&t, 1000), tag_off(&u, 2000))),
        }
    }
    // zero-length axes (the code refuses them; the statement does not speak about them: compared only as outcome class)
    for (s, t) in [(vec![0], vec![0]), (vec![2, 0], vec![2, 1]), (vec![0], vec![3]), (vec![1], vec![0])] {
        out(format!("broadcast {} {}", tag(&s), tag_off(&t, 1000)));
        out(format!("broadcast_to {} {}", tag(&s), show_list(&t)));
        out(format!("h2 {} {}", tag(&s), tag_off(&t, 1000)));
        out(format!("h3 {} {} {}", tag(&s), tag_off(&t, 1000), tag_off(&[1], 2000)));
        out(format!("h3 {} {} {}", tag(&[2]), tag_off(&s, 1000), tag_off(&t, 2000)));
    }
    // zero-length ADDED LEADING target axes: accepted, empty result (`broadcastTo_stretch`, Lean `stretchable` = true)
    for s in shapes(1, 2, 1, 3) { for lead in [vec![0], vec![0, 2], vec![2, 0], vec![0, 0]] {
        let mut t = lead.clone(); t.extend(s.iter().map(|&d| if d == 1 { 3 } else { d }));
        out(format!("broadcast_to {} {}", tag(&s), show_list(&t)));
        let mut t2 = lead.clone(); t2.extend(s.iter());
        out(format!("broadcast_to {} {}", tag(&s), show_list(&t2)));
        out(format!("zip {} {}", tag(&t2), tag_off(&s, 1000)));
    } }
    // rank-0 operands of the helpers (the one-element temporary is then reshaped to the rank-0 shape)
    for s in &small {
        out(format!("h2 {} {}", tag(&[]), tag_off(s, 1000)));
        out(format!("h2 {} {}", tag(s), tag_off(&[], 1000)));
        out(format!("h3 {} {} {}", tag(s), tag_off(&[], 1000), tag_off(&[], 2000)));
    }
    gen_robust(thorough, &mut rng, out);
}

/// `s` with the axes selected by `unit` set to length 1
fn unitize(s: &[usize], unit: impl Fn(usize) -> bool) -> Vec<usize> { s.iter().enumerate().map(|(k, &d)| if unit(k) { 1 } else { d }).collect() }

/// sources that stretch to `b`: one axis made a unit axis, only one axis kept, leading axes dropped (with and without
/// a unit first axis), the one-element array
fn sources_of(b: &[usize]) -> Vec<Vec<usize>> {
    let mut v: Vec<Vec<usize>> = vec![vec![1]];
    for k in 0..b.len() {
        v.push(unitize(b, |j| j == k));
        v.push(unitize(b, |j| j != k));
    }
    for j in 1..b.len() {
        v.push(b[j..].to_vec());
        v.push(unitize(&b[j..], |k| k == 0));
        v.push(unitize(&b[j..], |k| k != 0));
    }
    v.sort(); v.dedup();
    v.retain(|s| s != b);
    v
}

/// every operation on the big target `b` (element count beyond the small scope)
fn emit_big_target(b: &[usize], out: &mut dyn FnMut(String)) {
    let n: usize = b.iter().product();
    for s in sources_of(b) {
        out(format!("broadcast_to {} {}", tag(&s), show_list(b)));
        out(format!("zip {} {}", tag(b), tag_off(&s, 100000)));
        out(format!("broadcast {} {}", tag(b), tag_off(&s, 100000)));
    }
    // complementary unit axes: neither operand has the common shape
    let mut pairs: Vec<(Vec<usize>, Vec<usize>)> = vec![];
    if b.len() >= 2 {
        pairs.push((unitize(b, |k| k % 2 == 0), unitize(b, |k| k % 2 == 1)));
        for k in 0..b.len() { pairs.push((unitize(b, |j| j == k), unitize(b, |j| j != k))); }
        pairs.push((unitize(b, |k| k == 0), vec![b[0]].into_iter().chain(std::iter::repeat(1).take(b.len() - 1)).collect()));
        pairs.push((b[1..].to_vec(), unitize(b, |k| k != 0)));
    }
    pairs.sort(); pairs.dedup();
    for (s, t) in &pairs {
        out(format!("broadcast {} {}", tag(s), tag_off(t, 100000)));
        out(format!("broadcast {} {}", tag(t), tag_off(s, 100000)));
        out(format!("broadcast_arrays {};{}", tag(s), tag_off(t, 100000)));
        out(format!("broadcast_arrays {};{};{}", tag(t), tag_off(&[1], 100000), tag_off(s, 200000)));
    }
    // an added leading axis on the whole big array (gather arm with a big source); the model is quadratic here
    if n * n <= 30_000_000 {
        let mut t = vec![2]; t.extend(b);
        out(format!("broadcast_to {} {}", tag(b), show_list(&t)));
        let mut t3 = vec![3, 1]; t3.extend(b);
        out(format!("broadcast_to {} {}", tag(b), show_list(&t3)));
        out(format!("broadcast {} {}", tag(b), tag_off(&unitize(&t, |k| k != 0), 100000)));
    }
    // equal element count: the reshape shortcut, and the identity
    out(format!("broadcast_to {} {}", tag(b), show_list(b)));
    let mut t1 = vec![1]; t1.extend(b);
    out(format!("broadcast_to {} {}", tag(b), show_list(&t1)));
    out(format!("broadcast {} {}", tag(b), tag_off(b, 100000)));
    out(format!("zip {} {}", tag(b), tag_off(b, 100000)));
    // a target that the source cannot be stretched to (one axis one longer)
    let mut bad = b.to_vec(); let l = bad.len() - 1; bad[l] += 1;
    out(format!("broadcast_to {} {}", tag(b), show_list(&bad)));
    out(format!("broadcast {} {}", tag(b), tag_off(&bad, 100000)));
}

/// targets beyond the small scope that are specific to C03
fn c03_big_targets(thorough: bool) -> Vec<Vec<usize>> {
    let mut v = big_shapes();
    // every axis length 7..=17 in the leading, an inner and the trailing position
    for l in 7..=17usize { v.push(vec![l, l]); v.push(vec![2, l]); v.push(vec![l, 3]); v.push(vec![2, l, 3]); v.push(vec![l, 2, 2]); v.push(vec![2, 2, l]); }
    // more than 4096 elements with no period of 4096, ranks 2..6
    v.extend(vec![vec![3, 41, 41], vec![65, 64], vec![64, 65], vec![4097], vec![2, 2049], vec![17, 16, 16], vec![9, 8, 8, 8], vec![3, 3, 4, 5, 6, 4], vec![4, 1025], vec![1025, 4], vec![8192], vec![90, 91]]);
    if thorough { v.extend(vec![vec![128, 129], vec![20000], vec![3, 70, 70], vec![26, 25, 24], vec![2, 3, 4, 5, 6, 7], vec![12288], vec![5, 4096]]); }
    v.sort(); v.dedup();
    v
}

/// FRAMEWORK.md robustness streams: sizes, zero-length axes, value classes (the element-type sweep and the two receivers are
/// applied by `exec` to EVERY case)
fn gen_robust(thorough: bool, rng: &mut Rng, out: &mut dyn FnMut(String)) {
    // corpus: seeded changes that an earlier generator missed
    for l in ["broadcast_to i70,1 70,70", "broadcast i3,1,1 i41,41+100000", "broadcast_to i3,1 3,3", "broadcast i2,1 i3+1000", "broadcast_arrays i2,1,1;i1,2+1000",
              "broadcast_to 2:0,1 3,2", "broadcast 2,1:1,0 i1,2,3+1000"] { out(l.to_string()); }
    // ---- sizes
    for b in c03_big_targets(thorough) { emit_big_target(&b, out); }
    // seeded random big targets: rank 1..5, axis lengths 1..24 (thorough 1..48), 300..6000 (12000) elements, random unit axes
    let (n_big, max_len, max_n) = if thorough { (150, 48, 12000) } else { (24, 24, 6000) };
    let mut made = 0;
    while made < n_big {
        let b = rng.shape(1, 5, max_len);
        let n: usize = b.iter().product();
        if n < 300 || n > max_n { continue; }
        made += 1;
        let derive = |rng: &mut Rng| -> Vec<usize> { let j = rng.below(b.len()); b[j..].iter().map(|&d| if rng.below(2) == 0 { 1 } else { d }).collect() };
        let (s, t, u) = (derive(rng), derive(rng), derive(rng));
        out(format!("broadcast_to {} {}", tag(&s), show_list(&b)));
        out(format!("zip {} {}", tag(&b), tag_off(&t, 100000)));
        out(format!("broadcast {} {}", tag(&s), tag_off(&t, 100000)));
        out(format!("broadcast_arrays {};{};{}", tag(&s), tag_off(&t, 100000), tag_off(&u, 200000)));
    }
    // the crate-internal helpers on targets above 4096 elements (string tags < 10^4, counts / widths kept small)
    for (a, b) in [(vec![70, 1], vec![70]), (vec![70], vec![70, 1]), (vec![41, 41], vec![3, 1, 1]), (vec![1, 41], vec![3, 41, 1]), (vec![9, 9, 9, 9], vec![9]), (vec![5000], vec![1]), (vec![1], vec![1, 4100]),
                   (vec![17, 1], vec![16]), (vec![8, 1, 9], vec![7, 1])] {
        out(format!("h2 {} {}", tag(&a), tag_off(&b, 1000)));
        out(format!("h3 {} {} {}", tag(&a), tag_off(&b, 1000), tag_off(&[1], 2000)));
        out(format!("h3 {} {} {}", tag(&a), tag_off(&[1], 1000), tag_off(&b, 2000)));
    }
    // ---- zero-length axes: every ordered pair with at least one zero-length shape
    let mut zs = zero_shapes();
    zs.extend(vec![vec![0, 0, 0], vec![3, 0], vec![0, 3], vec![1, 0, 1]]);
    let mut others = zs.clone();
    others.extend(vec![vec![1], vec![2], vec![3], vec![1, 1], vec![2, 1], vec![1, 2], vec![2, 3], vec![1, 1, 1], vec![2, 1, 3]]);
    for s in &others { for t in &others {
        if !zs.contains(s) && !zs.contains(t) { continue; }
        out(format!("broadcast {} {}", tag(s), tag_off(t, 1000)));
        out(format!("zip {} {}", tag(s), tag_off(t, 1000)));
        out(format!("broadcast_to {} {}", tag(s), show_list(t)));
        out(format!("broadcast_arrays {};{}", tag(s), tag_off(t, 1000)));
        out(format!("h2 {} {}", tag(s), tag_off(t, 1000)));
        let u = rng.pick(&others).clone();
        out(format!("broadcast_arrays {};{};{}", tag(s), tag_off(t, 1000), tag_off(&u, 2000)));
        out(format!("h3 {} {} {}", tag(s), tag_off(t, 1000), tag_off(&u, 2000)));
    } }
    for z in &zs { out(format!("broadcast_arrays {}", tag(z))); }
    // ---- value classes: sources whose elements are all `==` but not identical under the f64 image (tags 0 / 1 = -0.0 / +0.0),
    // and mixtures with NaN (2, 3), subnormals (4, 5) and 2^53+2 (6); every 0/1 pattern of up to 4 elements
    let srcs: Vec<Vec<usize>> = vec![vec![1], vec![2], vec![3], vec![4], vec![1, 2], vec![2, 1], vec![2, 2], vec![3, 1], vec![1, 3], vec![2, 1, 2], vec![1, 2, 1], vec![4, 1]];
    for s in &srcs {
        let n: usize = s.iter().product();
        let mut pats: Vec<Vec<i64>> = (0..1u32 << n).map(|m| (0..n).map(|k| ((m >> k) & 1) as i64).collect()).collect();
        for _ in 0..4 { pats.push((0..n).map(|_| *rng.pick(&[0i64, 1, 1, 0, 2, 3, 4, 5, 6, 8, 9])).collect()); }
        for p in pats {
            let a = format!("{}:{}", show_list(s), show_list(&p));
            let mut t: Vec<usize> = s.iter().map(|&d| if d == 1 { 3 } else { d }).collect();
            let mut t2 = vec![2]; t2.extend(s);
            out(format!("broadcast_to {a} {}", show_list(&t2)));
            if &t != s { out(format!("broadcast_to {a} {}", show_list(&t))); }
            t.insert(0, 2);
            out(format!("broadcast_to {a} {}", show_list(&t)));
            out(format!("broadcast {a} {}", tag_off(&t, 1000)));
            out(format!("zip {} {a}", tag_off(&t, 1000)));
            out(format!("broadcast_arrays {a};{};{a}", tag_off(&t2, 1000)));
        }
    }
}

fn exec(op: &str, args: &[&str], expected: &str) -> Option<Verdict> {
    match op {
        "broadcast" => {
            Some(compare_default(observe(&Call::Broadcast(parse_arr_raw(args[0]), parse_arr_raw(args[1]))), expected))
        }
        "zip" => {
            let (a, b) = (parse_arr_raw(args[0]), parse_arr_raw(args[1]));
            let (sa, sb) = (a.0.clone(), b.0.clone());
            let obs = observe(&Call::Zip(a, b));
            // equal count but not a stretch: region the statement leaves open
            if !stretchable(&sb, &sa) && sa.iter().product::<usize>() == sb.iter().product::<usize>() && obs != expected { return Some(Verdict::Open(obs)); }
            Some(compare_default(obs, expected))
        }
        "broadcast_to" => {
            let a = parse_arr_raw(args[0]); let t = parse_usize_list(args[1]);
            let sa = a.0.clone();
            let obs = observe(&Call::To(a, t.clone()));
            if !stretchable(&sa, &t) && sa.iter().product::<usize>() == t.iter().product::<usize>() && obs != expected { return Some(Verdict::Open(obs)); }
            Some(compare_default(obs, expected))
        }
        "broadcast_arrays" => {
            let l: Vec<Raw> = if args[0] == "-" { vec![] } else { args[0].split(';').map(parse_arr_raw).collect() };
            Some(compare_default(observe(&Call::Arrays(l)), expected))
        }
        // broadcast_h2 observed through `multiply` (a pure lift over it): tag v of the string operand is the text of v,
        // tag 1000+j of the count operand is the count j+1 — the result text gives back both stretched operands
        "h2" => {
            let (a, b) = (parse_arr_i64(args[0]), parse_arr_i64(args[1]));
            let (sa, nb) = (str_operand(&a)?, num_operand(&b, 1000, 1)?);
            let obs = guarded(|| match sa.multiply(&nb) {
                Ok(r) => if !consistent(&r) { "ok <inconsistent array>".to_string() } else { decode_multiply(&r).map_or(format!("ok <undecodable {:?}>", r.get_elements().unwrap()), |t| format!("ok {}", t)) },
                Err(e) => format!("err {}", err_name(&e)),
            });
            Some(compare_default(obs, expected))
        }
        // broadcast_h3 observed through `ljust`: width tag 1000+j is the width W+1+j, fill tag 2000+k is the character U+0100+k
        "h3" => {
            let (a, b, c) = (parse_arr_i64(args[0]), parse_arr_i64(args[1]), parse_arr_i64(args[2]));
            let (sa, nb, cc) = (str_operand(&a)?, num_operand(&b, 1000, W + 1)?, char_operand(&c, 2000)?);
            let obs = guarded(|| match sa.ljust(&nb, Some(cc.clone())) {
                Ok(r) => if !consistent(&r) { "ok <inconsistent array>".to_string() } else { decode_ljust(&r).map_or(format!("ok <undecodable {:?}>", r.get_elements().unwrap()), |t| format!("ok {}", t)) },
                Err(e) => format!("err {}", err_name(&e)),
            });
            Some(compare_default(obs, expected))
        }
        _ => None,
    }
}

/// non-trivial: some operand is really stretched along an axis whose target length is > 1
fn nontrivial(op: &str, args: &[&str]) -> bool {
    let shapes_of = |s: &str| -> Vec<Vec<usize>> { if s == "-" { vec![] } else { s.split(';').map(|x| parse_arr_raw(x).0).collect() } };
    let ss: Vec<Vec<usize>> = match op {
        "broadcast_to" => vec![parse_arr_raw(args[0]).0, parse_usize_list(args[1])],
        "broadcast_arrays" => shapes_of(args[0]),
        "h3" => vec![parse_arr_raw(args[0]).0, parse_arr_raw(args[1]).0, parse_arr_raw(args[2]).0],
        _ => vec![parse_arr_raw(args[0]).0, parse_arr_raw(args[1]).0],
    };
    let n = ss.iter().map(|s| s.len()).max().unwrap_or(0);
    (0..n).any(|k| {
        let dims: Vec<usize> = ss.iter().map(|s| if k < s.len() { s[s.len() - 1 - k] } else { 1 }).collect();
        let m = *dims.iter().max().unwrap();
        m > 1 && dims.iter().any(|&d| d == 1)
    })
}

fn main() {
    harness_main(Spec { prop: "C03", gen, exec, nontrivial, hang_secs: 20,
        rule: "exhaustive: all ordered pairs of shapes rank<=3 len<=3 (39^2) for broadcast, zip, broadcast_to (source,target) and 2-lists of broadcast_arrays; triples: 4000 sampled (quick) / all 39^3 (thorough); stretch targets up to rank 6; seeded random rank<=4 len<=5 mostly-compatible pairs/triples; zero-length shapes (refused on aligned axes, accepted as added leading target axes). The crate-internal helpers broadcast_h2 / broadcast_h3 (ops h2 / h3) are observed through the public pure lifts `multiply` (string x count) and `ljust` (string x width x fill char) with per-position-recoverable operands, so the result text gives back the two / three stretched operands: all ordered pairs rank<=3 len<=3 for h2; triples: every ordered pair with a sampled third operand in a sampled position + 1500 sampled (quick) / all 39^3 (thorough); rank-0 operands; random rank<=4 len<=5. Tag arrays (distinct integers; k-th operand offset 1000k). Robustness streams: big targets (lib big_shapes, every axis length 7..17 in leading/inner/trailing position, targets above 4096 elements of rank 1..6 such as [70,70], [3,41,41], [65,64], [4097], [8192]; seeded random targets of 300..6000 elements, thorough ..12000) x every source with one axis made a unit axis / only one axis kept / leading axes dropped / the one-element array, complementary unit-axis pairs in both orders, 2- and 3-lists, an added leading axis on the big array, the equal-count reshape arm and a non-stretchable neighbour, for broadcast_to, broadcast, zip, broadcast_arrays; h2 / h3 on targets above 4096 elements; every ordered pair of 13 zero-length shapes and 9 small ones (at least one zero-length) for all six ops; value-class sources (every 0/1 pattern of up to 4 elements = -0.0/+0.0 under the f64 image, mixtures with NaN, subnormals, 2^53+2). EVERY broadcast / zip / broadcast_to / broadcast_arrays case is executed on the plain Array<i64> receiver (the compared answer), a second time, on the Result receiver (Ok(array).broadcast / .broadcast_to, <Result<..>>::broadcast_arrays), and on the u8, bool and two f64 images (tag 0 = -0.0; value classes mod 8; bit-wise; pairs: both components separately) - results of up to 600 elements also i8, u8 near 255, i64 beyond 2^53, u16, i32, f32, usize, String, all on both receivers; any divergence fails the case. distinct = distinct case lines; non-trivial = at least one operand stretched along an axis of target length > 1" });
}
