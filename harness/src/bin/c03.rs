//! C03 — broadcasting: shape rule and value placement. Value protocol with distinct tags.
use arrharness::*;

fn show_pairs(a: &Array<Tuple2<i64, i64>>) -> String {
    let e = a.get_elements().unwrap();
    let items: Vec<String> = e.iter().map(|t| format!("{}/{}", t.0, t.1)).collect();
    format!("{}:{}", show_list(&a.get_shape().unwrap()), if items.is_empty() { "-".to_string() } else { items.join(",") })
}

/// can `s` be stretched to `t` (trailing alignment; every source axis equal or 1; no zero lengths)?
fn stretchable(s: &[usize], t: &[usize]) -> bool {
    if s.len() > t.len() || s.iter().chain(t.iter()).any(|&d| d == 0) { return false; }
    let off = t.len() - s.len();
    s.iter().zip(&t[off..]).all(|(&f, &to)| f == to || f == 1)
}

fn gen(tier: &str, seed: u64, out: &mut dyn FnMut(String)) {
    let thorough = tier == "thorough";
    // corpus of past failures first
    for l in ["broadcast i2,3 i1+1000", "broadcast i2,3 i3+1000", "broadcast_to i3 2,2,3", "broadcast_to i2 2,3", "broadcast_to i2,1,3 2,2,3",
              "zip i1 i3+1000", "broadcast i2,1 i1,3+1000", "broadcast_arrays i2,1;i3+1000;i1,1,1+2000"] { out(l.to_string()); }
    let small = shapes(1, 3, 1, 3);
    for s in &small { for t in &small {
        out(format!("broadcast {} {}", tag(s), tag_off(t, 1000)));
        out(format!("zip {} {}", tag(s), tag_off(t, 1000)));
        out(format!("broadcast_to {} {}", tag(s), show_list(t)));
        out(format!("broadcast_arrays {};{}", tag(s), tag_off(t, 1000)));
    } }
    // targets of rank 4 for every small source
    let mut rng = Rng::new(seed);
    for s in &small { for _ in 0..(if thorough { 40 } else { 6 }) {
        // a stretch target: prepend axes, widen unit axes
        let mut t: Vec<usize> = s.iter().map(|&d| if d == 1 && rng.below(2) == 0 { 1 + rng.below(4) } else { d }).collect();
        for _ in 0..rng.below(3) { t.insert(0, 1 + rng.below(3)); }
        out(format!("broadcast_to {} {}", tag(s), show_list(&t)));
    } }
    // triples
    if thorough {
        for a in &small { for b in &small { for c in &small {
            out(format!("broadcast_arrays {};{};{}", tag(a), tag_off(b, 1000), tag_off(c, 2000)));
        } } }
    } else {
        for _ in 0..4000 {
            let (a, b, c) = (rng.pick(&small).clone(), rng.pick(&small).clone(), rng.pick(&small).clone());
            out(format!("broadcast_arrays {};{};{}", tag(&a), tag_off(&b, 1000), tag_off(&c, 2000)));
        }
    }
    out("broadcast_arrays -".to_string());
    for s in &small { out(format!("broadcast_arrays {}", tag(s))); }
    // random, beyond the small scope: rank <= 4, len <= 5, mostly compatible
    let n_rand = if thorough { 30000 } else { 4000 };
    for _ in 0..n_rand {
        let base = rng.shape(1, 4, 5);
        let derive = |rng: &mut Rng| -> Vec<usize> {
            let k = rng.below(base.len()) ;
            let mut s: Vec<usize> = base[k..].iter().map(|&d| match rng.below(6) { 0 | 1 => 1, 2 => 1 + rng.below(5), _ => d }).collect();
            if rng.below(8) == 0 { s.insert(0, 1 + rng.below(3)); }
            s
        };
        let (s, t, u) = (derive(&mut rng), derive(&mut rng), derive(&mut rng));
        match rng.below(4) {
            0 => out(format!("broadcast {} {}", tag(&s), tag_off(&t, 1000))),
            1 => out(format!("zip {} {}", tag(&s), tag_off(&t, 1000))),
            2 => out(format!("broadcast_to {} {}", tag(&s), show_list(&t))),
            _ => out(format!("broadcast_arrays {};{};{}", tag(&s), tag_off(&t, 1000), tag_off(&u, 2000))),
        }
    }
    // zero-length axes (the code refuses them; the statement does not speak about them: compared only as outcome class)
    for (s, t) in [(vec![0], vec![0]), (vec![2, 0], vec![2, 1]), (vec![0], vec![3]), (vec![1], vec![0])] {
        out(format!("broadcast {} {}", tag(&s), tag_off(&t, 1000)));
        out(format!("broadcast_to {} {}", tag(&s), show_list(&t)));
    }
}

fn exec(op: &str, args: &[&str], expected: &str) -> Option<Verdict> {
    match op {
        "broadcast" => {
            let (a, b) = (parse_arr_i64(args[0]), parse_arr_i64(args[1]));
            Some(compare_default(guarded(|| show_res(&a.broadcast(&b), show_pairs)), expected))
        }
        "zip" => {
            let (a, b) = (parse_arr_i64(args[0]), parse_arr_i64(args[1]));
            let obs = guarded(|| show_res(&a.zip(&b), show_pairs));
            let (sa, sb) = (a.get_shape().unwrap(), b.get_shape().unwrap());
            // equal count but not a stretch: region the statement leaves open
            if !stretchable(&sb, &sa) && sa.iter().product::<usize>() == sb.iter().product::<usize>() && obs != expected { return Some(Verdict::Open(obs)); }
            Some(compare_default(obs, expected))
        }
        "broadcast_to" => {
            let a = parse_arr_i64(args[0]); let t = parse_usize_list(args[1]);
            let obs = guarded(|| res_arr(&a.broadcast_to(t.clone())));
            let sa = a.get_shape().unwrap();
            if !stretchable(&sa, &t) && sa.iter().product::<usize>() == t.iter().product::<usize>() && obs != expected { return Some(Verdict::Open(obs)); }
            Some(compare_default(obs, expected))
        }
        "broadcast_arrays" => {
            let l = parse_arr_list_i64(args[0]);
            Some(compare_default(guarded(|| res_arr_list(&Array::broadcast_arrays(l.clone()))), expected))
        }
        _ => None,
    }
}

/// non-trivial: some operand is really stretched along an axis whose target length is > 1
fn nontrivial(op: &str, args: &[&str]) -> bool {
    let shapes_of = |s: &str| -> Vec<Vec<usize>> { if s == "-" { vec![] } else { s.split(';').map(|x| parse_arr_raw(x).0).collect() } };
    let ss: Vec<Vec<usize>> = match op {
        "broadcast_to" => vec![parse_arr_raw(args[0]).0, parse_usize_list(args[1])],
        "broadcast_arrays" => shapes_of(args[0]),
        _ => vec![parse_arr_raw(args[0]).0, parse_arr_raw(args[1]).0],
    };
    let n = ss.iter().map(|s| s.len()).max().unwrap_or(0);
    (0..n).any(|k| {
        let dims: Vec<usize> = ss.iter().map(|s| if k < s.len() { s[s.len() - 1 - k] } else { 1 }).collect();
        let m = *dims.iter().max().unwrap();
        m > 1 && dims.iter().any(|&d| d == 1)
    })
}

fn main() {
    harness_main(Spec { prop: "C03", gen, exec, nontrivial, hang_secs: 20,
        rule: "exhaustive: all ordered pairs of shapes rank<=3 len<=3 (39^2) for broadcast, zip, broadcast_to (source,target) and 2-lists of broadcast_arrays; triples: 4000 sampled (quick) / all 39^3 (thorough); stretch targets up to rank 6; seeded random rank<=4 len<=5 mostly-compatible pairs/triples; zero-length shapes. Tag arrays (distinct integers; k-th operand offset 1000k). distinct = distinct case lines; non-trivial = at least one operand stretched along an axis of target length > 1" });
}
