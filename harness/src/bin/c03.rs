//! C03 — broadcasting: shape rule and value placement. Value protocol with distinct tags.
use arrharness::*;

fn show_pairs(a: &Array<Tuple2<i64, i64>>) -> String {
    let e = a.get_elements().unwrap();
    let items: Vec<String> = e.iter().map(|t| format!("{}/{}", t.0, t.1)).collect();
    format!("{}:{}", show_list(&a.get_shape().unwrap()), if items.is_empty() { "-".to_string() } else { items.join(",") })
}

/// can `s` be stretched to `t`? Same rule as the Lean `stretchable`: trailing alignment; every source axis equals the
/// aligned target axis or is 1; no zero length on an ALIGNED axis; the added leading target axes are unconstrained
/// (a zero-length one gives an empty result).
fn stretchable(s: &[usize], t: &[usize]) -> bool {
    if s.len() > t.len() { return false; }
    let off = t.len() - s.len();
    s.iter().zip(&t[off..]).all(|(&f, &to)| (f == to || f == 1) && f != 0 && to != 0)
}

// ---- observing the crate-internal helpers broadcast_h2 / broadcast_h3 through public pure lifts over them ----
// `multiply(counts)` = broadcast_h2 then `s.repeat(n)` position by position; `ljust(width, fill)` = broadcast_h3 then
// `s + fill * (width - len)`. With per-position-recoverable operands the result text reveals which source positions
// were paired at every result position, i.e. the two / three stretched operands themselves.

const W: usize = 4; // digits of the string operand's text
/// string operand: element with tag v (0 <= v < 10^W) becomes the W-digit decimal text of v
fn str_operand(a: &Array<i64>) -> Option<Array<String>> {
    let e = a.get_elements().unwrap();
    if e.iter().any(|&v| v < 0 || v >= 10i64.pow(W as u32)) { return None; }
    Some(Array::new(e.iter().map(|v| format!("{:0w$}", v, w = W)).collect(), a.get_shape().unwrap()).expect("harness: string operand"))
}
/// count / width operand: element with tag v (base <= v < base + 5000) becomes the number v - base + add
fn num_operand(a: &Array<i64>, base: i64, add: usize) -> Option<Array<usize>> {
    let e = a.get_elements().unwrap();
    if e.iter().any(|&v| v < base || v >= base + 5000) { return None; }
    Some(Array::new(e.iter().map(|&v| (v - base) as usize + add).collect(), a.get_shape().unwrap()).expect("harness: numeric operand"))
}
/// fill-character operand: element with tag v (base <= v < base + 5000) becomes the character U+0100 + (v - base)
fn char_operand(a: &Array<i64>, base: i64) -> Option<Array<char>> {
    let e = a.get_elements().unwrap();
    if e.iter().any(|&v| v < base || v >= base + 5000) { return None; }
    Some(Array::new(e.iter().map(|&v| char::from_u32(0x100 + (v - base) as u32).unwrap()).collect(), a.get_shape().unwrap()).expect("harness: char operand"))
}
fn show_tags(shape: &[usize], tags: &[i64]) -> String { format!("{}:{}", show_list(shape), show_list(tags)) }

/// `multiply` result -> the two stretched tag arrays (None: the text is not a whole number of repetitions of one tag)
fn decode_multiply(r: &Array<String>) -> Option<String> {
    let (shape, e) = (r.get_shape().unwrap(), r.get_elements().unwrap());
    let (mut ta, mut tb) = (vec![], vec![]);
    for s in &e {
        if !s.is_ascii() || s.is_empty() || s.len() % W != 0 { return None; }
        let first = &s[..W];
        if (0..s.len() / W).any(|k| &s[k * W..(k + 1) * W] != first) { return None; }
        ta.push(first.parse::<i64>().ok()?);
        tb.push(1000 + (s.len() / W) as i64 - 1);
    }
    Some(format!("{};{}", show_tags(&shape, &ta), show_tags(&shape, &tb)))
}
/// `ljust` result -> the three stretched tag arrays
fn decode_ljust(r: &Array<String>) -> Option<String> {
    let (shape, e) = (r.get_shape().unwrap(), r.get_elements().unwrap());
    let (mut ta, mut tb, mut tc) = (vec![], vec![], vec![]);
    for s in &e {
        let cs: Vec<char> = s.chars().collect();
        if cs.len() < W + 1 || !cs[..W].iter().all(|c| c.is_ascii_digit()) { return None; }
        let fill = cs[W];
        if (fill as u32) < 0x100 || cs[W..].iter().any(|&c| c != fill) { return None; }
        ta.push(cs[..W].iter().collect::<String>().parse::<i64>().ok()?);
        tb.push(1000 + (cs.len() - W - 1) as i64);
        tc.push(2000 + (fill as u32 - 0x100) as i64);
    }
    Some(format!("{};{};{}", show_tags(&shape, &ta), show_tags(&shape, &tb), show_tags(&shape, &tc)))
}

fn gen(tier: &str, seed: u64, out: &mut dyn FnMut(String)) {
    let thorough = tier == "thorough";
    // corpus of past failures first
    for l in ["broadcast i2,3 i1+1000", "broadcast i2,3 i3+1000", "broadcast_to i3 2,2,3", "broadcast_to i2 2,3", "broadcast_to i2,1,3 2,2,3",
              "zip i1 i3+1000", "broadcast i2,1 i1,3+1000", "broadcast_arrays i2,1;i3+1000;i1,1,1+2000",
              "h2 i2,1 i3+1000", "h2 i3 i2,1+1000", "h3 i2,1 i3+1000 i1+2000", "h3 i1 i2,1,1+1000 i3+2000", "h2 i2 i3+1000", "h3 i2 i1+1000 i3+2000",
              "broadcast_to i3 0,3", "broadcast_to i1 0,2", "broadcast_to i2,3 0,2,3", "broadcast_to i3 0,2", "zip i0,3 i3+1000"] { out(l.to_string()); }
    let small = shapes(1, 3, 1, 3);
    for s in &small { for t in &small {
        out(format!("broadcast {} {}", tag(s), tag_off(t, 1000)));
        out(format!("zip {} {}", tag(s), tag_off(t, 1000)));
        out(format!("broadcast_to {} {}", tag(s), show_list(t)));
        out(format!("broadcast_arrays {};{}", tag(s), tag_off(t, 1000)));
        out(format!("h2 {} {}", tag(s), tag_off(t, 1000)));
    } }
    // targets of rank 4 for every small source
    let mut rng = Rng::new(seed);
    for s in &small { for _ in 0..(if thorough { 40 } else { 6 }) {
        // a stretch target: prepend axes, widen unit axes
        let mut t: Vec<usize> = s.iter().map(|&d| if d == 1 && rng.below(2) == 0 { 1 + rng.below(4) } else { d }).collect();
        for _ in 0..rng.below(3) { t.insert(0, 1 + rng.below(3)); }
        out(format!("broadcast_to {} {}", tag(s), show_list(&t)));
    } }
    // triples
    if thorough {
        for a in &small { for b in &small { for c in &small {
            out(format!("broadcast_arrays {};{};{}", tag(a), tag_off(b, 1000), tag_off(c, 2000)));
            out(format!("h3 {} {} {}", tag(a), tag_off(b, 1000), tag_off(c, 2000)));
        } } }
    } else {
        for _ in 0..4000 {
            let (a, b, c) = (rng.pick(&small).clone(), rng.pick(&small).clone(), rng.pick(&small).clone());
            out(format!("broadcast_arrays {};{};{}", tag(&a), tag_off(&b, 1000), tag_off(&c, 2000)));
        }
        // helper triples: every pair of small shapes with a sampled third operand in each of the three positions
        for a in &small { for b in &small {
            let c = rng.pick(&small).clone();
            match rng.below(3) {
                0 => out(format!("h3 {} {} {}", tag(a), tag_off(b, 1000), tag_off(&c, 2000))),
                1 => out(format!("h3 {} {} {}", tag(a), tag_off(&c, 1000), tag_off(b, 2000))),
                _ => out(format!("h3 {} {} {}", tag(&c), tag_off(a, 1000), tag_off(b, 2000))),
            }
        } }
        for _ in 0..1500 {
            let (a, b, c) = (rng.pick(&small).clone(), rng.pick(&small).clone(), rng.pick(&small).clone());
            out(format!("h3 {} {} {}", tag(&a), tag_off(&b, 1000), tag_off(&c, 2000)));
        }
    }
    out("broadcast_arrays -".to_string());
    for s in &small { out(format!("broadcast_arrays {}", tag(s))); }
    // random, beyond the small scope: rank <= 4, len <= 5, mostly compatible
    let n_rand = if thorough { 30000 } else { 4000 };
    for _ in 0..n_rand {
        let base = rng.shape(1, 4, 5);
        let derive = |rng: &mut Rng| -> Vec<usize> {
            let k = rng.below(base.len()) ;
            let mut s: Vec<usize> = base[k..].iter().map(|&d| match rng.below(6) { 0 | 1 => 1, 2 => 1 + rng.below(5), _ => d }).collect();
            if rng.below(8) == 0 { s.insert(0, 1 + rng.below(3)); }
            s
        };
        let (s, t, u) = (derive(&mut rng), derive(&mut rng), derive(&mut rng));
        match rng.below(6) {
            4 => out(format!("h2 {} {}", tag(&s), tag_off(&t, 1000))),
            5 => out(format!("h3 {} {} {}", tag(&s), tag_off(&t, 1000), tag_off(&u, 2000))),
            0 => out(format!("broadcast {} {}", tag(&s), tag_off(&t, 1000))),
            1 => out(format!("zip {} {}", tag(&s), tag_off(&t, 1000))),
            2 => out(format!("broadcast_to {} {}", tag(&s), show_list(&t))),
            _ => out(format!("broadcast_arrays {};{};{}", tag(&s), tag_off(&t, 1000), tag_off(&u, 2000))),
        }
    }
    // zero-length axes (the code refuses them; the statement does not speak about them: compared only as outcome class)
    for (s, t) in [(vec![0], vec![0]), (vec![2, 0], vec![2, 1]), (vec![0], vec![3]), (vec![1], vec![0])] {
        out(format!("broadcast {} {}", tag(&s), tag_off(&t, 1000)));
        out(format!("broadcast_to {} {}", tag(&s), show_list(&t)));
        out(format!("h2 {} {}", tag(&s), tag_off(&t, 1000)));
        out(format!("h3 {} {} {}", tag(&s), tag_off(&t, 1000), tag_off(&[1], 2000)));
        out(format!("h3 {} {} {}", tag(&[2]), tag_off(&s, 1000), tag_off(&t, 2000)));
    }
    // zero-length ADDED LEADING target axes: accepted, empty result (`broadcastTo_stretch`, Lean `stretchable` = true)
    for s in shapes(1, 2, 1, 3) { for lead in [vec![0], vec![0, 2], vec![2, 0], vec![0, 0]] {
        let mut t = lead.clone(); t.extend(s.iter().map(|&d| if d == 1 { 3 } else { d }));
        out(format!("broadcast_to {} {}", tag(&s), show_list(&t)));
        let mut t2 = lead.clone(); t2.extend(s.iter());
        out(format!("broadcast_to {} {}", tag(&s), show_list(&t2)));
        out(format!("zip {} {}", tag(&t2), tag_off(&s, 1000)));
    } }
    // rank-0 operands of the helpers (the one-element temporary is then reshaped to the rank-0 shape)
    for s in &small {
        out(format!("h2 {} {}", tag(&[]), tag_off(s, 1000)));
        out(format!("h2 {} {}", tag(s), tag_off(&[], 1000)));
        out(format!("h3 {} {} {}", tag(s), tag_off(&[], 1000), tag_off(&[], 2000)));
    }
}

fn exec(op: &str, args: &[&str], expected: &str) -> Option<Verdict> {
    match op {
        "broadcast" => {
            let (a, b) = (parse_arr_i64(args[0]), parse_arr_i64(args[1]));
            Some(compare_default(guarded(|| show_res(&a.broadcast(&b), show_pairs)), expected))
        }
        "zip" => {
            let (a, b) = (parse_arr_i64(args[0]), parse_arr_i64(args[1]));
            let obs = guarded(|| show_res(&a.zip(&b), show_pairs));
            let (sa, sb) = (a.get_shape().unwrap(), b.get_shape().unwrap());
            // equal count but not a stretch: region the statement leaves open
            if !stretchable(&sb, &sa) && sa.iter().product::<usize>() == sb.iter().product::<usize>() && obs != expected { return Some(Verdict::Open(obs)); }
            Some(compare_default(obs, expected))
        }
        "broadcast_to" => {
            let a = parse_arr_i64(args[0]); let t = parse_usize_list(args[1]);
            let obs = guarded(|| res_arr(&a.broadcast_to(t.clone())));
            let sa = a.get_shape().unwrap();
            if !stretchable(&sa, &t) && sa.iter().product::<usize>() == t.iter().product::<usize>() && obs != expected { return Some(Verdict::Open(obs)); }
            Some(compare_default(obs, expected))
        }
        "broadcast_arrays" => {
            let l = parse_arr_list_i64(args[0]);
            Some(compare_default(guarded(|| res_arr_list(&Array::broadcast_arrays(l.clone()))), expected))
        }
        // broadcast_h2 observed through `multiply` (a pure lift over it): tag v of the string operand is the text of v,
        // tag 1000+j of the count operand is the count j+1 — the result text gives back both stretched operands
        "h2" => {
            let (a, b) = (parse_arr_i64(args[0]), parse_arr_i64(args[1]));
            let (sa, nb) = (str_operand(&a)?, num_operand(&b, 1000, 1)?);
            let obs = guarded(|| match sa.multiply(&nb) {
                Ok(r) => if !consistent(&r) { "ok <inconsistent array>".to_string() } else { decode_multiply(&r).map_or(format!("ok <undecodable {:?}>", r.get_elements().unwrap()), |t| format!("ok {}", t)) },
                Err(e) => format!("err {}", err_name(&e)),
            });
            Some(compare_default(obs, expected))
        }
        // broadcast_h3 observed through `ljust`: width tag 1000+j is the width W+1+j, fill tag 2000+k is the character U+0100+k
        "h3" => {
            let (a, b, c) = (parse_arr_i64(args[0]), parse_arr_i64(args[1]), parse_arr_i64(args[2]));
            let (sa, nb, cc) = (str_operand(&a)?, num_operand(&b, 1000, W + 1)?, char_operand(&c, 2000)?);
            let obs = guarded(|| match sa.ljust(&nb, Some(cc.clone())) {
                Ok(r) => if !consistent(&r) { "ok <inconsistent array>".to_string() } else { decode_ljust(&r).map_or(format!("ok <undecodable {:?}>", r.get_elements().unwrap()), |t| format!("ok {}", t)) },
                Err(e) => format!("err {}", err_name(&e)),
            });
            Some(compare_default(obs, expected))
        }
        _ => None,
    }
}

/// non-trivial: some operand is really stretched along an axis whose target length is > 1
fn nontrivial(op: &str, args: &[&str]) -> bool {
    let shapes_of = |s: &str| -> Vec<Vec<usize>> { if s == "-" { vec![] } else { s.split(';').map(|x| parse_arr_raw(x).0).collect() } };
    let ss: Vec<Vec<usize>> = match op {
        "broadcast_to" => vec![parse_arr_raw(args[0]).0, parse_usize_list(args[1])],
        "broadcast_arrays" => shapes_of(args[0]),
        "h3" => vec![parse_arr_raw(args[0]).0, parse_arr_raw(args[1]).0, parse_arr_raw(args[2]).0],
        _ => vec![parse_arr_raw(args[0]).0, parse_arr_raw(args[1]).0],
    };
    let n = ss.iter().map(|s| s.len()).max().unwrap_or(0);
    (0..n).any(|k| {
        let dims: Vec<usize> = ss.iter().map(|s| if k < s.len() { s[s.len() - 1 - k] } else { 1 }).collect();
        let m = *dims.iter().max().unwrap();
        m > 1 && dims.iter().any(|&d| d == 1)
    })
}

fn main() {
    harness_main(Spec { prop: "C03", gen, exec, nontrivial, hang_secs: 20,
        rule: "exhaustive: all ordered pairs of shapes rank<=3 len<=3 (39^2) for broadcast, zip, broadcast_to (source,target) and 2-lists of broadcast_arrays; triples: 4000 sampled (quick) / all 39^3 (thorough); stretch targets up to rank 6; seeded random rank<=4 len<=5 mostly-compatible pairs/triples; zero-length shapes (refused on aligned axes, accepted as added leading target axes). The crate-internal helpers broadcast_h2 / broadcast_h3 (ops h2 / h3) are observed through the public pure lifts `multiply` (string x count) and `ljust` (string x width x fill char) with per-position-recoverable operands, so the result text gives back the two / three stretched operands: all ordered pairs rank<=3 len<=3 for h2; triples: every ordered pair with a sampled third operand in a sampled position + 1500 sampled (quick) / all 39^3 (thorough); rank-0 operands; random rank<=4 len<=5. Tag arrays (distinct integers; k-th operand offset 1000k). distinct = distinct case lines; non-trivial = at least one operand stretched along an axis of target length > 1" });
}
