//! C15 — solve, QR, determinant and norm satisfy their defining equations.
//!
//! Inputs are integer matrices (|x| <= 9), handed to the real crate as `f64`.  The model driver answers in exact
//! rationals (`num/den`); here a float tolerance IS the property ("to rounding accuracy"):
//!   (i)  model vs code:   |x_code - x_model| <= 1e-9 * (1 + |x_model|)
//!   (ii) property oracle evaluated natively on the code's answer: residual of A x = b, Q^T Q = I, R upper
//!        triangular, Q R = A, det(AB) = det A det B, row exchange flips the sign, norms against their definitions.
//!
//! Robustness streams (FRAMEWORK.md): every call is made on BOTH receivers (`array.op()` and `Ok(array).op()`, bit-identical
//! answers required); round 5: `p…` ops give every ENTRY its own exact scale (magnitude bands, see `gen_bands`), `gnorm` = norms of more than
//! 2^20 elements against a native reference; `x…` ops carry a variant `<type>/<scaleA>/<scaleB>`: the same integer array given to the crate as
//! f64 / f32 / i32 / i64 and multiplied by an exact scale (2^±30, 2^±40, 10^±9, 10^±12) — the model answers in exact
//! rationals of the scaled input and every tolerance is RELATIVE to the natural unit of the answer (s^n for det, s for
//! norm and R, sb/sa for solve, 1 for Q); sizes n = 7, 8, stacks and vectors of 64 … 4900 elements, zero-length axes.
use arrharness::*;

const TOL: f64 = 1e-9;

// ---------------------------------------------------------------- small exact / float linear algebra (harness side)

type M = Vec<Vec<i64>>;

fn show_mat(m: &M) -> String {
    let n = m.len();
    let c = if n == 0 { 0 } else { m[0].len() };
    format!("{},{}:{}", n, c, show_list(&m.iter().flatten().copied().collect::<Vec<i64>>()))
}
fn show_vec(v: &[i64]) -> String { format!("{}:{}", v.len(), show_list(v)) }
fn show_shape(shape: &[usize], e: &[i64]) -> String { format!("{}:{}", show_list(shape), show_list(e)) }

/// exact determinant (fraction-free Bareiss elimination, i128)
fn det_exact(m: &M) -> i128 {
    let n = m.len();
    let mut a: Vec<Vec<i128>> = m.iter().map(|r| r.iter().map(|&x| x as i128).collect()).collect();
    let mut sign = 1i128; let mut prev = 1i128;
    for k in 0..n {
        if a[k][k] == 0 {
            match (k + 1..n).find(|&i| a[i][k] != 0) { Some(p) => { a.swap(k, p); sign = -sign; } None => return 0 }
        }
        for i in k + 1..n { for j in k + 1..n { a[i][j] = (a[i][j] * a[k][k] - a[i][k] * a[k][j]) / prev; } }
        prev = a[k][k];
    }
    sign * a[n - 1][n - 1]
}

/// infinity-norm condition number by Gauss–Jordan in f64 (only used to *select* inputs)
fn cond_inf(m: &M) -> f64 {
    let n = m.len();
    let mut a: Vec<Vec<f64>> = m.iter().map(|r| r.iter().map(|&x| x as f64).collect()).collect();
    let mut inv: Vec<Vec<f64>> = (0..n).map(|i| (0..n).map(|j| if i == j { 1. } else { 0. }).collect()).collect();
    for c in 0..n {
        let p = (c..n).max_by(|&x, &y| a[x][c].abs().partial_cmp(&a[y][c].abs()).unwrap()).unwrap();
        if a[p][c] == 0. { return f64::INFINITY }
        a.swap(c, p); inv.swap(c, p);
        let d = a[c][c];
        for j in 0..n { a[c][j] /= d; inv[c][j] /= d; }
        for i in 0..n { if i != c { let f = a[i][c]; if f != 0. { for j in 0..n { a[i][j] -= f * a[c][j]; inv[i][j] -= f * inv[c][j]; } } } }
    }
    let norm = |x: &Vec<Vec<f64>>| x.iter().map(|r| r.iter().map(|v| v.abs()).sum::<f64>()).fold(0., f64::max);
    let na = m.iter().map(|r| r.iter().map(|&v| (v as f64).abs()).sum::<f64>()).fold(0., f64::max);
    na * norm(&inv)
}

fn mat_mul(a: &M, b: &M) -> M {
    let n = a.len();
    (0..n).map(|i| (0..b[0].len()).map(|j| (0..b.len()).map(|t| a[i][t] * b[t][j]).sum()).collect()).collect()
}

// ---------------------------------------------------------------- generator

fn rand_mat(rng: &mut Rng, n: usize, lim: i64) -> M { (0..n).map(|_| (0..n).map(|_| rng.range(-lim, lim)).collect()).collect() }

/// random integer matrix with bounded condition number
fn rand_conditioned(rng: &mut Rng, n: usize) -> M {
    loop { let m = rand_mat(rng, n, 9); if det_exact(&m) != 0 && cond_inf(&m) <= 1e4 { return m } }
}
/// strictly diagonally dominant rows, then rows permuted: every column needs its own exchange pattern
fn perm_diag_dominant(rng: &mut Rng, n: usize) -> M {
    let lim = (8 / (n as i64 - 1)).max(1);
    let mut m: M = (0..n).map(|i| (0..n).map(|j| if i == j { 0 } else { rng.range(-lim, lim) }).collect()).collect();
    for i in 0..n { let s: i64 = m[i].iter().map(|x| x.abs()).sum(); m[i][i] = (s + 1 + rng.range(0, 2)).min(9) * if rng.below(2) == 0 { 1 } else { -1 }; }
    let p = rng.perm(n);
    (0..n).map(|i| m[p[i]].clone()).collect()
}
fn triangular(rng: &mut Rng, n: usize, upper: bool) -> M {
    (0..n).map(|i| (0..n).map(|j| {
        if i == j { let d = rng.range(1, 9); if rng.below(2) == 0 { d } else { -d } }
        else if (j > i) == upper { rng.range(-9, 9) } else { 0 }
    }).collect()).collect()
}
/// leading entry zero or small against the column below it (an exchange is forced at the first step, often later too)
fn pivot_forcing(rng: &mut Rng, n: usize) -> M {
    loop {
        let mut m = rand_mat(rng, n, 9);
        m[0][0] = if rng.below(2) == 0 { 0 } else { 1 };
        let r = 1 + rng.below(n - 1); m[r][0] = if rng.below(2) == 0 { 9 } else { -8 };
        if n > 2 && rng.below(2) == 0 { m[1][1] = 0; }
        if det_exact(&m) != 0 && cond_inf(&m) <= 1e4 { return m }
    }
}
fn singular(rng: &mut Rng, n: usize) -> M {
    let mut m = rand_mat(rng, n, 9);
    match rng.below(4) {
        0 => { let r = rng.below(n); m[r] = vec![0; n]; }
        1 => { let (r, s) = (rng.below(n), rng.below(n)); let s = if s == r { (r + 1) % n } else { s }; m[r] = m[s].clone(); }
        2 => { let c = rng.below(n); let d = (c + 1) % n; for i in 0..n { m[i][c] = m[i][d]; } }
        _ => { // rank one
            let u: Vec<i64> = (0..n).map(|_| rng.range(-3, 3)).collect(); let v: Vec<i64> = (0..n).map(|_| rng.range(-3, 3)).collect();
            m = (0..n).map(|i| (0..n).map(|j| u[i] * v[j]).collect()).collect();
        }
    }
    m
}
fn rand_rhs(rng: &mut Rng, n: usize, k: usize) -> Vec<i64> { (0..n * k).map(|_| rng.range(-9, 9)).collect() }

fn emit_solves(out: &mut dyn FnMut(String), rng: &mut Rng, m: &M, ks: &[usize]) {
    let n = m.len();
    let a = show_mat(m);
    out(format!("solve {a} {}", show_vec(&rand_rhs(rng, n, 1))));
    for &k in ks { out(format!("solve {a} {}", show_shape(&[n, k], &rand_rhs(rng, n, k)))); }
}

fn all_mats(n: usize, vals: &[i64]) -> Vec<M> {
    boxes(&vec![vals.len(); n * n]).into_iter().map(|c| (0..n).map(|i| (0..n).map(|j| vals[c[i * n + j]]).collect()).collect()).collect()
}

fn hex(s: &str) -> String { s.bytes().map(|b| format!("{:02x}", b)).collect() }

fn gen_norms(out: &mut dyn FnMut(String), thorough: bool) {
    let ords_enum = ["none", "i0", "i1", "i2", "i3", "i4", "i-1", "i-2", "inf", "ninf", "fro", "nuc"];
    let ords_str = ["inf", "-inf", "fro", "nuc", "INF", "-Inf", "Fro", "NUC", "0", "1", "2", "3", "-1", "x", "1.5", "", "two", "99999999999"];
    let mut ords: Vec<String> = ords_enum.iter().map(|s| s.to_string()).collect();
    ords.extend(ords_str.iter().map(|s| format!("s{}", hex(s))));
    let keeps = ["none", "true", "false"];
    let arrays: Vec<(Vec<usize>, Vec<i64>)> = vec![
        (vec![1], vec![-7]), (vec![2], vec![3, -4]), (vec![3], vec![0, -2, 2]), (vec![4], vec![1, -5, 0, 3]), (vec![5], vec![-9, 8, -7, 6, 0]),
        (vec![2, 2], vec![1, -2, -3, 4]), (vec![2, 3], vec![1, -2, 3, -4, 5, -6]), (vec![3, 2], vec![0, 7, -7, 1, 2, -9]), (vec![1, 3], vec![2, 0, -6]),
        (vec![3, 1], vec![2, 0, -6]), (vec![3, 3], vec![-4, -3, -2, -1, 0, 1, 2, 3, 4]),
        (vec![2, 2, 3], vec![1, -2, 3, -4, 5, -6, 7, -8, 9, 0, -1, 2]), (vec![2, 3, 2], vec![5, 0, -3, 3, 1, -1, 8, -8, 2, 4, -6, 0]),
        (vec![3, 1, 2], vec![1, 2, -3, -4, 5, 6]),
    ];
    for (shape, elems) in &arrays {
        let a = show_shape(shape, elems);
        let nd = shape.len() as i64;
        let mut axes: Vec<String> = vec!["none".into()];
        for ax in -nd - 1..=nd { axes.push(ax.to_string()); }
        for a0 in -nd..nd { for a1 in -nd..nd { axes.push(format!("{a0},{a1}")); } }
        axes.push(format!("0,{nd}")); axes.push("0,1,2".into()); axes.push("-".into());
        for ord in &ords { for ax in &axes { for keep in keeps {
            if !thorough && keep == "false" { continue }
            out(format!("norm {a} {ord} {ax} {keep}"));
        } } }
    }
}

// ---------------------------------------------------------------- robustness streams

const SCALES: [&str; 8] = ["2^-30", "2^-40", "2^30", "2^40", "10^-9", "10^-12", "10^9", "10^12"];

/// exactly singular, one recipe per `kind` (4: the last row is the sum of two others — the deficiency only shows in the LAST pivot)
fn singular_kind(rng: &mut Rng, n: usize, kind: usize) -> M {
    let mut m = rand_mat(rng, n, 4);
    match kind {
        0 => { let r = rng.below(n); m[r] = vec![0; n]; }
        1 => { let r = rng.below(n); let s = (r + 1 + rng.below(n - 1)) % n; m[r] = m[s].clone(); }
        2 => { let c = rng.below(n); let d = (c + 1 + rng.below(n - 1)) % n; for i in 0..n { m[i][c] = m[i][d]; } }
        3 => { let u: Vec<i64> = (0..n).map(|_| rng.range(-3, 3)).collect(); let v: Vec<i64> = (0..n).map(|_| rng.range(-3, 3)).collect();
               m = (0..n).map(|i| (0..n).map(|j| u[i] * v[j]).collect()).collect(); }
        _ => { if n >= 3 { m[n - 1] = (0..n).map(|j| m[0][j] + m[1][j]).collect(); } else { m[1] = m[0].iter().map(|x| 2 * x).collect(); } }
    }
    m
}
/// values that never vanish, so a dropped tail / lane / block always changes the norm
fn nonzero_vals(rng: &mut Rng, n: usize) -> Vec<i64> { (0..n).map(|_| *rng.pick(&[-9i64, -7, -5, -3, -2, -1, 1, 2, 3, 4, 6, 8, 9])).collect() }

fn norm_axes(nd: usize, full: bool) -> Vec<String> {
    let ndi = nd as i64;
    let mut axes: Vec<String> = vec!["none".into()];
    for ax in 0..ndi { axes.push(ax.to_string()); axes.push((ax - ndi).to_string()); }
    if nd >= 2 {
        axes.push("0,1".into()); axes.push("-1,-2".into()); axes.push(format!("{},{}", ndi - 2, ndi - 1)); axes.push("0,-1".into());
        if full { axes.push("1,0".into()); axes.push("-2,-1".into()); axes.push(format!("{},0", ndi - 1)); }
    }
    axes.sort(); axes.dedup();
    axes
}

fn gen_streams(out: &mut dyn FnMut(String), rng: &mut Rng, thorough: bool) {
    let ords_enum = ["none", "i0", "i1", "i2", "i3", "i4", "i-1", "i-2", "inf", "ninf", "fro", "nuc"];
    // ---- 1. sizes: norm (all orders) of vectors / matrices / stacks of 63 … 4900 elements; every count mod 8 occurs
    let mut big: Vec<Vec<usize>> = vec![vec![63], vec![64], vec![65], vec![66], vec![67], vec![68], vec![69], vec![70], vec![71], vec![72], vec![100], vec![255], vec![257], vec![300], vec![1025], vec![1030], vec![4100],
        vec![3, 5, 5], vec![3, 6, 6], vec![2, 6, 6], vec![5, 4, 4], vec![3, 7, 7], vec![2, 8, 8], vec![7, 3, 3], vec![9, 9], vec![8, 8], vec![13, 5], vec![5, 13], vec![11, 2, 3]];
    for s in big_shapes() { if s.iter().product::<usize>() >= 24 && !big.contains(&s) { big.push(s); } }
    for shape in &big {
        let cnt: usize = shape.iter().product();
        let nd = shape.len();
        let vals = nonzero_vals(rng, cnt);
        let a = show_shape(shape, &vals);
        let small = cnt <= 320;
        let axes = norm_axes(nd, small && nd <= 3);
        let mut ords: Vec<String> = ords_enum.iter().map(|s| s.to_string()).collect();
        ords.push(format!("s{}", hex("fro"))); ords.push(format!("S{}", hex("2"))); ords.push(format!("S{}", hex("-Inf"))); ords.push(format!("s{}", hex("1")));
        let huge = cnt > 1300;   // ~20-80 ms per case in the model driver: fewer combinations, every order still occurs
        for (oi, ord) in ords.iter().enumerate() { for ax in &axes {
            if !small && !thorough && ax.contains(',') && ax != "0,1" && ax != "-1,-2" { continue }
            if huge && !thorough && (oi >= 12 || (ax.starts_with('-') && ax != "-1")) { continue }
            out(format!("norm {a} {ord} {ax} none"));
            if ((ax == "none" || ax == "-1" || ax == "0,1") && !(huge && !thorough && ax != "none")) || (thorough && small) { out(format!("norm {a} {ord} {ax} true")); }
            if thorough && small { out(format!("norm {a} {ord} {ax} false")); }
        } }
        // the same counts as a tag array (monotone values, both signs) and on the other element types
        let t = format!("i{}+{}", show_list(shape), -(cnt as i64) / 2 - 1);
        for ord in ["none", "i1", "i2", "inf", "ninf", "fro", "i0"] { for ax in ["none", "0", "-1"] { out(format!("norm {t} {ord} {ax} none")); } }
        if cnt <= 1100 {
            for ty in ["f32", "i32", "i64"] { for ord in ["none", "i1", "i2", "inf", "ninf", "fro", "i0"] { for ax in ["none", "0", "-1"] {
                out(format!("xnorm {a} {ord} {ax} none {ty}/1/1"));
            } } }
        }
        for sc in ["2^-30", "10^-12", "2^40", "10^9"] { for ord in ["none", "i1", "i2", "i3", "inf", "fro"] { for ax in ["none", "-1"] {
            if huge && !thorough && (ax != "none" || ord == "i1" || ord == "i3") { continue }
            out(format!("xnorm {a} {ord} {ax} none f64/{sc}/1"));
        } } }
    }
    // lanes longer than 4096 holding the extreme value many times
    for (len, shape) in [(4100usize, vec![4100usize]), (4099, vec![2, 4099])] {
        let cnt: usize = shape.iter().product();
        let vals: Vec<i64> = (0..cnt).map(|i| if i % 7 == 3 || i + 2 >= cnt { 9 } else if i % 11 == 0 { -9 } else { rng.range(-8, 8) }).collect();
        let a = show_shape(&shape, &vals);
        for ord in ["inf", "ninf", "i1", "i0", "none", "i2"] { for ax in ["none", "-1", "0"] { if thorough || ax != "0" || ord == "inf" { out(format!("norm {a} {ord} {ax} none")); } } }
        let _ = len;
    }
    // ---- 1b. sizes: n = 7, 8 (the cofactor determinant is exponential: ~10 ms at n = 7, ~90 ms at n = 8 per determinant, model + code)
    for (n, reps) in [(7usize, if thorough { 12 } else { 3 }), (8, if thorough { 4 } else { 1 })] {
        for _ in 0..reps {
            let fams: Vec<M> = vec![rand_conditioned(rng, n), perm_diag_dominant(rng, n), triangular(rng, n, true), triangular(rng, n, false), pivot_forcing(rng, n)];
            for m in &fams {
                let a = show_mat(m);
                out(format!("solve {a} {}", show_vec(&rand_rhs(rng, n, 1))));
                out(format!("solve {a} {}", show_shape(&[n, 3], &rand_rhs(rng, n, 3))));
                out(format!("det {a}")); out(format!("det_elim {a}")); out(format!("qr {a}"));
                out(format!("norm {a} none none none")); out(format!("norm {a} i1 none none")); out(format!("norm {a} inf 0 none"));
                if n == 7 {
                    out(format!("solve {a} {}", show_shape(&[n, n], &rand_rhs(rng, n, n))));
                    let (i, j) = (rng.below(n), rng.below(n));
                    out(format!("det_swap {a} {i} {j}")); out(format!("det_mul {a} {}", show_mat(&rand_mat(rng, n, 9))));
                    out(format!("xqr {a} f64/2^-40/1")); out(format!("xdet {a} f64/10^9/1"));
                }
            }
        }
    }
    // ---- 1c. singular matrices of every size 2..8, every recipe: refused with SingularMatrix (vector and several columns)
    for n in 2..=8usize {
        let reps = if n == 8 { 1 } else if thorough { 6 } else { 2 };
        for kind in 0..5 { for r in 0..reps {
            if n == 8 && !thorough && kind % 2 == 1 { continue }
            let s = singular_kind(rng, n, kind);
            let a = show_mat(&s);
            out(format!("solve {a} {}", show_vec(&rand_rhs(rng, n, 1))));
            out(format!("solve {a} {}", show_shape(&[n, 2], &rand_rhs(rng, n, 2))));
            if n <= 7 { out(format!("det {a}")); out(format!("det_elim {a}")); }
            if n <= 6 && r == 0 {
                for sc in ["2^-30", "2^40", "10^9", "10^-12"] { out(format!("xsolve {a} {} f64/{sc}/1", show_vec(&rand_rhs(rng, n, 1)))); }
                out(format!("xsolve {a} {} f32/1/1", show_vec(&rand_rhs(rng, n, 1))));
                out(format!("xsolve {a} {} i64/1/1", show_vec(&rand_rhs(rng, n, 1))));
            }
        } }
    }
    // ---- 1d. long stacks (leading axes 7..40) and deep stacks
    for (lead, n) in [(vec![7usize], 2usize), (vec![17], 2), (vec![40], 2), (vec![9], 3), (vec![16], 3), (vec![3], 5), (vec![3], 6), (vec![8], 4), (vec![2, 2, 2], 3), (vec![3, 1, 2], 2), (vec![1, 7], 3), (vec![300], 2)] {
        let cnt: usize = lead.iter().product();
        if cnt > 100 && !thorough { continue }
        let mats: Vec<M> = (0..cnt).map(|t| match t % 4 { 0 => rand_conditioned(rng, n), 1 => pivot_forcing(rng, n), 2 => perm_diag_dominant(rng, n), _ => triangular(rng, n, t % 8 == 3) }).collect();
        let e: Vec<i64> = mats.iter().flatten().flatten().copied().collect();
        let mut shape = lead.clone(); shape.push(n); shape.push(n);
        let a = show_shape(&shape, &e);
        out(format!("det {a}")); out(format!("qr {a}"));
        out(format!("norm {a} none none none")); out(format!("norm {a} fro -2,-1 none")); out(format!("norm {a} i1 -2,-1 true")); out(format!("norm {a} inf -1,-2 none"));
        for sc in ["2^-30", "10^-9", "2^40", "10^12"] { out(format!("xdet {a} f64/{sc}/1")); out(format!("xqr {a} f64/{sc}/1")); }
        out(format!("xdet {a} f32/1/1")); out(format!("xdet {a} i32/1/1")); out(format!("xdet {a} i64/1/1"));
    }
    // ---- 2. zero-length axes
    let mut zs = zero_shapes();
    zs.extend([vec![0, 2, 2], vec![2, 2, 0], vec![2, 0, 0], vec![0, 3, 3], vec![3, 0, 2, 2], vec![0, 0, 0]]);
    for z in &zs {
        let a = format!("{}:-", show_list(z));
        out(format!("det {a}")); out(format!("qr {a}"));
        out(format!("solve {a} 0:-")); out(format!("solve {a} 2:1,2")); out(format!("solve 2,2:1,2,3,5 {a}")); out(format!("solve 3,3:2,0,1,1,3,0,0,1,4 {a}"));
        for ord in ["none", "i0", "i1", "i2", "i3", "inf", "ninf", "fro", "nuc", "i-1"] {
            for ax in norm_axes(z.len(), false) { out(format!("norm {a} {ord} {ax} none")); if thorough || ax == "none" || ax == "-1" { out(format!("norm {a} {ord} {ax} true")); } }
        }
        for ty in ["f32", "i32", "i64"] { out(format!("xdet {a} {ty}/1/1")); out(format!("xnorm {a} none none none {ty}/1/1")); out(format!("xsolve {a} 0:- {ty}/1/1")); }
        out(format!("xqr {a} f32/1/1"));
    }
    // ---- 3. element types (f32 / i32 / i64) and 5. exact scales, on the structured families n = 2..6
    let reps = if thorough { 10 } else { 2 };
    for n in 2..=6usize { for r in 0..reps {
        let fams: Vec<M> = vec![rand_conditioned(rng, n), perm_diag_dominant(rng, n), triangular(rng, n, true), triangular(rng, n, false), pivot_forcing(rng, n)];
        for (fi, m) in fams.iter().enumerate() {
            let a = show_mat(m);
            // --- scales (f64): qr / det / norm / solve, relative tolerances
            for (si, sc) in SCALES.iter().enumerate() {
                out(format!("xqr {a} f64/{sc}/1")); out(format!("xdet {a} f64/{sc}/1"));
                out(format!("xnorm {a} none none none f64/{sc}/1")); out(format!("xnorm {a} fro none none f64/{sc}/1")); out(format!("xnorm {a} i1 none true f64/{sc}/1"));
                out(format!("xnorm {a} inf 0,1 none f64/{sc}/1")); out(format!("xnorm {a} i2 {} none f64/{sc}/1", rng.below(2))); out(format!("xnorm {a} i3 -1 none f64/{sc}/1"));
                let v = rand_rhs(rng, n, 1);
                for o in ["none", "i1", "i2", "inf", "ninf", "i0", "i4"] { out(format!("xnorm {} {o} none none f64/{sc}/1", show_vec(&v))); }
                // right-hand side unscaled, scaled alike, scaled the other way
                let other = SCALES[(si + 2) % 8];
                out(format!("xsolve {a} {} f64/{sc}/1", show_vec(&rand_rhs(rng, n, 1))));
                out(format!("xsolve {a} {} f64/{sc}/{sc}", show_shape(&[n, 2], &rand_rhs(rng, n, 2))));
                let k = 1 + rng.below(n);
                out(format!("xsolve {a} {} f64/{sc}/{other}", show_shape(&[n, k], &rand_rhs(rng, n, k))));
                out(format!("xsolve {a} {} f64/1/{sc}", show_vec(&rand_rhs(rng, n, 1))));
            }
            // far scales whose squares / fourth powers still fit f64 (det would under/overflow: qr and norm only)
            for sc in ["2^-200", "2^200"] {
                out(format!("xqr {a} f64/{sc}/1"));
                for (o, ax) in [("none", "none"), ("fro", "none"), ("i1", "0"), ("i2", "-1"), ("i4", "0"), ("inf", "0,1")] { out(format!("xnorm {a} {o} {ax} none f64/{sc}/1")); }
            }
            // --- element types
            for ty in ["f32", "i32", "i64"] {
                out(format!("xdet {a} {ty}/1/1"));
                for (o, ax) in [("none", "none"), ("fro", "none"), ("i1", "none"), ("inf", "none"), ("i1", "0"), ("inf", "-1"), ("i2", "1"), ("i0", "0"), ("ninf", "0"), ("i-1", "0,1"), ("ninf", "1,0")] {
                    out(format!("xnorm {a} {o} {ax} none {ty}/1/1"));
                }
                // integer element types truncate the solution: take right-hand sides with a whole-number solution, b = A x0
                let k = 1 + rng.below(3);
                let x0: Vec<i64> = (0..n * k).map(|_| rng.range(-6, 6)).collect();
                let b: Vec<i64> = (0..n).flat_map(|i| (0..k).map(|c| (0..n).map(|t| m[i][t] * x0[t * k + c]).sum::<i64>()).collect::<Vec<i64>>()).collect();
                out(format!("xsolve {a} {} {ty}/1/1", show_shape(&[n, k], &b)));
                let bv: Vec<i64> = (0..n).map(|i| (0..n).map(|t| m[i][t] * x0[t]).sum::<i64>()).collect();
                out(format!("xsolve {a} {} {ty}/1/1", show_vec(&bv)));
            }
            out(format!("xsolve {a} {} f32/1/1", show_shape(&[n, 2], &rand_rhs(rng, n, 2))));
            // f32 Gram–Schmidt keeps ~4 digits on the well-conditioned families only
            if fi == 1 || (fi == 2 && n <= 4) { out(format!("xqr {a} f32/1/1")); }
        }
        // stacks, scaled
        if r % 2 == 0 && n <= 5 {
            let cnt = 2 + rng.below(3);
            let mats: Vec<M> = (0..cnt).map(|t| if t % 2 == 0 { rand_conditioned(rng, n) } else { pivot_forcing(rng, n) }).collect();
            let e: Vec<i64> = mats.iter().flatten().flatten().copied().collect();
            let a = show_shape(&[cnt, n, n], &e);
            for sc in SCALES { out(format!("xqr {a} f64/{sc}/1")); out(format!("xdet {a} f64/{sc}/1")); out(format!("xnorm {a} none none none f64/{sc}/1")); out(format!("xnorm {a} fro 1,2 none f64/{sc}/1")); }
        }
    } }
}

// ---------------------------------------------------------------- robustness streams, part 2 (hidden state, huge sizes)

fn transpose(m: &M) -> M { let n = m.len(); (0..n).map(|i| (0..n).map(|j| m[j][i]).collect()).collect() }
/// P M P^T
fn sym_perm(m: &M, p: &[usize]) -> M { let n = m.len(); (0..n).map(|i| (0..n).map(|j| m[p[i]][p[j]]).collect()).collect() }
fn row_perm(m: &M, p: &[usize]) -> M { (0..m.len()).map(|i| m[p[i]].clone()).collect() }
fn col_perm(m: &M, p: &[usize]) -> M { let n = m.len(); (0..n).map(|i| (0..n).map(|j| m[i][p[j]]).collect()).collect() }
/// reflection in the anti-diagonal (keeps det, trace, anti-trace, every symmetric function of the entries)
fn anti_transpose(m: &M) -> M { let n = m.len(); (0..n).map(|i| (0..n).map(|j| m[n - 1 - j][n - 1 - i]).collect()).collect() }
/// the same multiset of entries in another arrangement
fn shuffled(m: &M, rng: &mut Rng) -> M {
    let n = m.len();
    let flat: Vec<i64> = m.iter().flatten().copied().collect();
    let p = rng.perm(n * n);
    (0..n).map(|i| (0..n).map(|j| flat[p[i * n + j]]).collect()).collect()
}
fn non_identity_perm(rng: &mut Rng, n: usize) -> Vec<usize> {
    loop { let p = rng.perm(n); if p.iter().enumerate().any(|(i, &x)| i != x) { return p } }
}

/// A matrix and its look-alikes (same size, determinant up to sign, trace, sums, multiset of entries), every one directly after the
/// original and the original again after every one: a cache keyed by any fingerprint of the values answers for the wrong matrix.
fn look_alikes(m: &M, rng: &mut Rng) -> Vec<M> {
    let n = m.len();
    let rev: Vec<usize> = (0..n).rev().collect();
    let p = non_identity_perm(rng, n);
    let q = non_identity_perm(rng, n);
    vec![m.clone(), transpose(m), m.clone(), sym_perm(m, &p), m.clone(), sym_perm(m, &rev), anti_transpose(m), m.clone(),
         row_perm(m, &q), col_perm(m, &q), transpose(&sym_perm(m, &p)), shuffled(m, rng), m.clone()]
}

fn gen_hidden_state(out: &mut dyn FnMut(String), rng: &mut Rng, thorough: bool) {
    // ---- 6a. value fingerprints: every operation on a matrix directly followed by the same operation on its look-alikes
    // the demo of C15-r3-m1 first (corpus), then the families
    let mut mats: Vec<M> = vec![vec![vec![5, 1, 2], vec![-1, 6, 1], vec![0, 2, 7]], vec![vec![2, 1], vec![0, 3]], vec![vec![0, 2], vec![3, 1]]];
    let reps = if thorough { 8 } else { 2 };
    for n in 2..=6usize { for _ in 0..reps {
        mats.push(rand_conditioned(rng, n)); mats.push(perm_diag_dominant(rng, n)); mats.push(triangular(rng, n, true)); mats.push(triangular(rng, n, false)); mats.push(pivot_forcing(rng, n));
    } }
    if thorough { mats.push(rand_conditioned(rng, 7)); }
    for m in &mats {
        let n = m.len();
        if *m == transpose(m) { continue }
        let vs = look_alikes(m, rng);
        let b1 = show_vec(&rand_rhs(rng, n, 1));
        let b2 = show_shape(&[n, 2], &rand_rhs(rng, n, 2));
        for v in &vs { out(format!("solve {} {b1}", show_mat(v))); }
        for v in &vs { out(format!("solve {} {b2}", show_mat(v))); }
        // the right-hand side changes as well
        for v in vs.iter().take(5) { out(format!("solve {} {}", show_mat(v), show_vec(&rand_rhs(rng, n, 1)))); }
        for v in &vs { out(format!("det {}", show_mat(v))); }
        for v in &vs { out(format!("qr {}", show_mat(v))); }
        for (o, ax) in [("none", "none"), ("fro", "none"), ("i1", "0"), ("inf", "0,1"), ("i1", "0,1"), ("i2", "-1")] {
            for v in &vs { out(format!("norm {} {o} {ax} none", show_mat(v))); }
        }
        // interleaved: the four operations take turns on the look-alikes
        for (t, v) in vs.iter().enumerate().take(7) {
            let a = show_mat(v);
            match t % 4 { 0 => out(format!("solve {a} {b1}")), 1 => out(format!("det {a}")), 2 => out(format!("qr {a}")), _ => out(format!("norm {a} none none none")) }
            out(format!("solve {a} {b2}"));
        }
        // scaled and typed look-alikes (statics of a generic fn are shared by all element types): same arguments, types back to back
        let k = 1 + rng.below(2);
        let x0: Vec<i64> = (0..n * k).map(|_| rng.range(-6, 6)).collect();
        for v in vs.iter().take(4) {
            let a = show_mat(v);
            let b: Vec<i64> = (0..n).flat_map(|i| (0..k).map(|c| (0..n).map(|t| v[i][t] * x0[t * k + c]).sum::<i64>()).collect::<Vec<i64>>()).collect();
            let bs = show_shape(&[n, k], &b);
            for ty in ["i64", "f64", "i32", "f32", "f64"] { out(format!("xsolve {a} {bs} {ty}/1/1")); }
            for ty in ["i32", "f64", "f32", "i64", "f64"] { out(format!("xdet {a} {ty}/1/1")); }
            for ty in ["i64", "f64", "f32", "i32", "f64"] { out(format!("xnorm {a} none none none {ty}/1/1")); out(format!("xnorm {a} i1 0 none {ty}/1/1")); }
            for sc in ["2^-30", "1", "10^9"] { out(format!("xsolve {a} {b1} f64/{sc}/1")); out(format!("xqr {a} f64/{sc}/1")); out(format!("xdet {a} f64/{sc}/1")); }
        }
        if n <= 4 { for v in vs.iter().take(3) { let a = show_mat(v); out(format!("xqr {a} f32/1/1")); out(format!("xqr {a} f64/1/1")); } }
        // ---- 6c. a refused call directly followed by a valid one (and the other way round) on the same thread
        let kind = rng.below(5); let s = singular_kind(rng, n, kind);
        let a = show_mat(m);
        out(format!("solve {} {b1}", show_mat(&s))); out(format!("solve {a} {b1}"));
        out(format!("solve {a} {}", show_vec(&rand_rhs(rng, n + 1, 1)))); out(format!("solve {a} {b1}"));
        out(format!("solve {}:{} {b1}", show_list(&[n, n + 1]), show_list(&rand_rhs(rng, n, n + 1)))); out(format!("solve {a} {b2}"));
        out(format!("det {}:{}", show_list(&[n, n + 1]), show_list(&rand_rhs(rng, n, n + 1)))); out(format!("det {a}"));
        out(format!("qr {}:{}", show_list(&[n + 1, n]), show_list(&rand_rhs(rng, n, n + 1)))); out(format!("qr {a}"));
        out(format!("qr {}", show_vec(&rand_rhs(rng, n, 1)))); out(format!("qr {a}"));
        out(format!("norm {a} s{} none none", hex("x"))); out(format!("norm {a} none none none"));
        out(format!("norm {a} i1 0,0 none")); out(format!("norm {a} i1 0,1 none"));
        out(format!("norm {a} fro 0 none")); out(format!("norm {a} fro none none"));
        out(format!("norm {a} inf 5 none")); out(format!("norm {a} inf 1 none"));
    }
    // stacks: the blocks of a stack are look-alikes of one another, and the stack is followed by the stack of the transposes
    for n in 2..=4usize { for _ in 0..(if thorough { 4 } else { 1 }) {
        let m = rand_conditioned(rng, n);
        if m == transpose(&m) { continue }
        let vs = look_alikes(&m, rng);
        let e: Vec<i64> = vs.iter().flatten().flatten().copied().collect();
        let et: Vec<i64> = vs.iter().map(transpose).flatten().flatten().collect();
        let (a, at) = (show_shape(&[vs.len(), n, n], &e), show_shape(&[vs.len(), n, n], &et));
        for x in [&a, &at, &a] { out(format!("det {x}")); }
        for x in [&a, &at, &a] { out(format!("qr {x}")); }
        for x in [&a, &at, &a] { out(format!("norm {x} none none none")); out(format!("norm {x} i1 -2,-1 none")); out(format!("norm {x} inf 1,2 true")); }
    } }
    // ---- 6b. shapes colliding under the weak polynomial hashes, back to back in both orders (A, B, A)
    for (i, (sa, sb)) in collision_shape_pairs().into_iter().enumerate() {
        let cnt_b: usize = sb.iter().product();
        let heavy = cnt_b > 600;     // multipliers 131 / 257: the lane reductions of the model cost ~10 ms there
        if heavy && !thorough && i % 3 != 0 { continue }
        let (ca, cb): (usize, usize) = (sa.iter().product(), sb.iter().product());
        let (ta, tb) = (format!("i{}+{}", show_list(&sa), -(ca as i64) / 2 - 1), format!("i{}+{}", show_list(&sb), -(cb as i64) / 2 - 1));
        let nd = sa.len();
        let mut forms: Vec<(&str, String)> = vec![("none", "none".into()), ("i1", "0".into()), ("inf", "-1".into()), ("i2", (nd - 1).to_string()), ("i1", "0,1".into())];
        if nd == 3 { forms.push(("inf", "1,2".into())); forms.push(("i1", "1".into())); }
        if heavy && !thorough { forms.truncate(3); }
        for (o, ax) in &forms { for t in [&ta, &tb, &ta] { out(format!("norm {t} {o} {ax} none")); } }
    }
    // stacks whose LEADING axes collide: det / qr / matrix norms of [a,b,n,n] directly before and after [a-1,b+m,n,n]
    for &mul in &[31usize, 33, 37, 131] { for (a0, b0) in [(2usize, 1usize), (3, 2)] { for n in [2usize, 3] {
        if mul == 131 && (!thorough || n == 3) { continue }
        let (la, lb) = (vec![a0, b0], vec![a0 - 1, b0 + mul]);
        let mk = |lead: &[usize], rng: &mut Rng| -> String {
            let cnt: usize = lead.iter().product();
            let e: Vec<i64> = (0..cnt).flat_map(|t| { let m = if t % 3 == 2 { pivot_forcing(rng, n) } else { rand_conditioned(rng, n) }; m.into_iter().flatten().collect::<Vec<i64>>() }).collect();
            let mut shape = lead.to_vec(); shape.push(n); shape.push(n);
            show_shape(&shape, &e)
        };
        let (xa, xb) = (mk(&la, rng), mk(&lb, rng));
        for x in [&xa, &xb, &xa] { out(format!("det {x}")); }
        for x in [&xa, &xb, &xa] { out(format!("qr {x}")); }
        for x in [&xa, &xb, &xa] { out(format!("norm {x} i1 -2,-1 none")); out(format!("norm {x} none none none")); }
    } } }
}

/// ---- 7. huge inputs: 8 193 … 140 000 elements, counts that are no multiples of 1000 / 4096 / 6000.  The whole-array forms (default
/// norm, 2-norm of a vector, Frobenius norm of a matrix) are linear in the model driver; the lane reductions (1 / inf / 0 / by axis)
/// are quadratic there and stay at <= 20 011 elements.  `exec` also evaluates the definitions natively on every case (small and huge).
fn gen_huge(out: &mut dyn FnMut(String), rng: &mut Rng, thorough: bool) {
    let lens: Vec<usize> = vec![8193, 9001, 11999, 12000, 12001, 12289, 13001, 16383, 16385, 17999, 18001, 20011, 24001, 32769, 33001, 50021, 65537, 70001, 100003, 131073];
    for &len in &lens {
        let t = format!("i{}+{}", len, -(len as i64) / 2 - 1);
        let full = thorough || len <= 20011;   // the model driver needs ~1.5 us per element and case: above 20 011 four forms per length in the quick tier
        out(format!("norm {t} none none none")); if full || (len % 2 == 0 && len < 100000) { out(format!("norm {t} i2 none none")); }
        if full { out(format!("norm {t} s{} none none", hex("2"))); out(format!("norm {t} none none true")); }
        if len <= 70001 { if full || len == 33001 { out(format!("xnorm {t} none none none i64/1/1")); } if full { out(format!("xnorm {t} i2 none none f64/2^-30/1")); } }
        // the same count as a matrix: default and Frobenius
        for (k, shape) in [vec![1, len], vec![len, 1]].into_iter().enumerate() {
            let t2 = format!("i{}+{}", show_list(&shape), -(len as i64) / 2 - 1);
            if full || (k == len % 4 / 2 && len % 2 == 1) { out(format!("norm {t2} fro none none")); }
            if full { out(format!("norm {t2} none none none")); }
        }
    }
    let mut shapes: Vec<Vec<usize>> = vec![vec![1500, 3, 3], vec![130, 127], vec![129, 131], vec![2, 3, 5001], vec![2, 35003], vec![35003, 2], vec![300, 301], vec![7, 1717], vec![3001, 5]];
    for s in huge_shapes() { if !shapes.contains(&s) { shapes.push(s); } }
    for shape in &shapes {
        let cnt: usize = shape.iter().product();
        let t = format!("i{}+{}", show_list(shape), -(cnt as i64) / 2 - 1);
        let full = thorough || cnt <= 20000;
        out(format!("norm {t} none none none")); if full { out(format!("norm {t} none none true")); }
        if shape.len() == 2 { if full || cnt <= 40000 { out(format!("norm {t} fro none none")); } if full || cnt > 40000 { out(format!("norm {t} S{} none none", hex("fro"))); } }
        if shape.len() == 1 { out(format!("norm {t} i2 none none")); }
        if full { out(format!("xnorm {t} none none none f64/10^-9/1")); }
    }
    // digits (never zero) on every element type: sums of squares stay below 2^24, so even f32 is exact
    for &len in &[8193usize, 12001, 13500, 16385, 18001, 20011, 33001, 70001] {
        if len > 20011 && !thorough { continue }
        let vals = nonzero_vals(rng, len);
        let a = show_shape(&[len], &vals);
        out(format!("norm {a} none none none")); out(format!("norm {a} i2 none none"));
        for ty in ["f32", "i32", "i64"] { out(format!("xnorm {a} none none none {ty}/1/1")); }
        if len <= 20011 {
            // lane reductions (quadratic in the model driver)
            for o in ["i1", "inf", "ninf", "i0", "i3"] { if thorough || len <= 12001 || (o == "i1" && len != 18001) { out(format!("norm {a} {o} none none")); } }
            if thorough || len <= 16385 { out(format!("norm {a} i2 0 none")); }
            if thorough || len <= 13500 { out(format!("norm {a} i1 -1 true")); }
        }
        if len == 13500 {
            let s = show_shape(&[1500, 3, 3], &vals);
            out(format!("norm {s} none none none")); out(format!("norm {s} i1 -2,-1 none")); out(format!("norm {s} inf 1,2 none")); out(format!("norm {s} i2 0 none")); out(format!("norm {s} i1 2 none"));
            out(format!("det {s}")); out(format!("qr {s}")); out(format!("xdet {s} i32/1/1"));
        }
    }
    // by axis on 16 510 … 17 161 elements (lanes of 127 … 131, not multiples of 8 / 32)
    for shape in [vec![130usize, 127], vec![129, 131]] {
        let cnt: usize = shape.iter().product();
        let a = show_shape(&shape, &nonzero_vals(rng, cnt));
        for (o, ax) in [("i1", "0"), ("i2", "1"), ("inf", "-1"), ("ninf", "0"), ("i0", "1"), ("i1", "0,1"), ("inf", "0,1"), ("i1", "1,0"), ("i-1", "0,1"), ("fro", "none"), ("none", "none")] {
            if !thorough && shape[0] == 129 && !((o == "i1" && ax == "0") || ax == "1" && o == "i2" || ax == "0,1" && o == "inf") { continue }
            if !thorough && shape[0] == 130 && (o == "i-1" || o == "ninf") { continue }
            out(format!("norm {a} {o} {ax} none"));
        }
    }
    // long stacks of small matrices: det / qr block by block (4100 and 2000 blocks)
    for (cnt, n) in [(4100usize, 2usize), (2001, 3)] {
        let e: Vec<i64> = (0..cnt).flat_map(|t| { let m = if t % 5 == 4 { pivot_forcing(rng, n) } else { rand_conditioned(rng, n) }; m.into_iter().flatten().collect::<Vec<i64>>() }).collect();
        let a = show_shape(&[cnt, n, n], &e);
        out(format!("det {a}")); out(format!("qr {a}")); out(format!("norm {a} none none none")); out(format!("norm {a} i1 1,2 none"));
    }
}

/// regions that the model covers since `ArrModel/C15Ext.lean`: 0-dimensional right-hand sides of solve and 0-dimensional receivers of
/// norm / det (spelled `-:v`), negative orders of the one-axis arm on every axis of rank 1..3 arrays with and without a zero in the
/// lane (`0^negative = inf`, `inf^(1/p) = 0`), the one-axis arm under keepdims, matrix norms of stacks on every ordered axis pair
fn gen_ext(out: &mut dyn FnMut(String)) {
    for a in ["2,2:1,2,3,4", "2,2:1,2,2,4", "2,2:0,0,0,0", "3,3:2,0,1,1,3,0,0,1,4", "2,3:1,2,3,4,5,6", "2:1,2", "-:3", "2,2,2:1,0,0,1,2,1,1,3", "1,1:5", "0,0:-"] {
        for b in ["-:5", "-:0", "-:-7"] { out(format!("solve {a} {b}")); }
    }
    out("xsolve 2,2:1,2,3,4 -:5 f64/2^-30/1".into()); out("xsolve 2,2:1,2,3,4 -:5 i32/1/1".into()); out("xsolve 2:1,2 -:5 f32/1/1".into());
    let ords = ["none", "i0", "i1", "i2", "i3", "i4", "i-1", "i-2", "i-3", "inf", "ninf", "fro", "nuc"];
    for a in ["-:5", "-:0", "-:-3"] {
        out(format!("det {a}")); out(format!("qr {a}"));
        for o in ords { for ax in ["none", "0", "-1", "1", "0,1", "-"] { for k in ["none", "true"] { out(format!("norm {a} {o} {ax} {k}")); } } }
    }
    let arrays: [(&[usize], &[i64]); 8] = [
        (&[1], &[0]), (&[3], &[1, -2, 2]), (&[4], &[3, 0, -4, 1]), (&[2, 3], &[1, -2, 3, -4, 5, -6]), (&[3, 2], &[0, 7, -7, 1, 2, -9]),
        (&[2, 2, 3], &[1, -2, 3, -4, 5, -6, 7, -8, 9, 0, -1, 2]), (&[2, 3, 2], &[5, 0, -3, 3, 1, -1, 8, -8, 2, 4, -6, 0]), (&[3, 1, 2], &[1, 2, -3, -4, 5, 6]),
    ];
    for (shape, elems) in arrays {
        let a = show_shape(shape, elems);
        let nd = shape.len() as i64;
        for o in ["i-1", "i-2", "i-3", "i-4", "i5"] {
            for ax in -nd - 1..=nd { for k in ["none", "true", "false"] { out(format!("norm {a} {o} {ax} {k}")); } }
            out(format!("norm {a} {o} none none"));
            out(format!("norm {a} s{} {} none", hex(&o[1..]), nd - 1));
        }
        for sc in ["2^-30", "10^9"] { out(format!("xnorm {a} i-1 -1 none f64/{sc}/1")); out(format!("xnorm {a} i-2 0 none f64/{sc}/1")); }
        out(format!("xnorm {a} i-1 0 none f32/1/1")); out(format!("xnorm {a} i-2 -1 none i32/1/1"));
        if nd == 3 { for a0 in 0..3 { for a1 in 0..3 { for o in ["i1", "i-1", "inf", "ninf"] { for k in ["none", "true"] { out(format!("norm {a} {o} {a0},{a1} {k}")); } } } } }
    }
}

// ---------------------------------------------------------------- robustness streams, part 4 (round 5): magnitude bands

type MF = Vec<Vec<f64>>;
/// (infinity-norm condition number, determinant) of a float matrix by Gauss–Jordan (only used to SELECT inputs)
fn cond_det_f(m: &MF) -> (f64, f64) {
    let n = m.len();
    let mut a = m.clone();
    let mut inv: MF = (0..n).map(|i| (0..n).map(|j| if i == j { 1. } else { 0. }).collect()).collect();
    let mut det = 1f64;
    for c in 0..n {
        let p = (c..n).max_by(|&x, &y| a[x][c].abs().partial_cmp(&a[y][c].abs()).unwrap()).unwrap();
        if a[p][c] == 0. { return (f64::INFINITY, 0.) }
        if p != c { a.swap(c, p); inv.swap(c, p); det = -det; }
        let d = a[c][c]; det *= d;
        for j in 0..n { a[c][j] /= d; inv[c][j] /= d; }
        for i in 0..n { if i != c { let f = a[i][c]; if f != 0. { for j in 0..n { a[i][j] -= f * a[c][j]; inv[i][j] -= f * inv[c][j]; } } } }
    }
    let norm = |x: &MF| x.iter().map(|r| r.iter().map(|v| v.abs()).sum::<f64>()).fold(0., f64::max);
    (norm(m) * norm(&inv), det)
}
fn band_val(m: i64, e: i64, base: u32) -> f64 { if base == 2 { ldexp(m as f64, e) } else { format!("{m}e{e}").parse().unwrap() } }
fn band_mat(m: &M, e: &M, base: u32) -> MF { m.iter().zip(e).map(|(r, er)| r.iter().zip(er).map(|(&x, &k)| band_val(x, k, base)).collect()).collect() }
/// condition number after every column is brought to greatest entry 1 (what Gram–Schmidt sees: it commutes with column scalings)
fn cond_cols_f(m: &MF) -> f64 {
    let n = m.len();
    let cm: Vec<f64> = (0..n).map(|c| (0..n).fold(0f64, |a, i| a.max(m[i][c].abs()))).collect();
    if cm.iter().any(|&x| x == 0.) { return f64::INFINITY }
    cond_det_f(&(0..n).map(|i| (0..n).map(|c| m[i][c] / cm[c]).collect()).collect()).0
}

/// exponents just below the thresholds a linear-algebra routine could plausibly carry (2^-10 < 1e-3, 2^-20 < 1e-6, 2^-27 < 1e-8,
/// 2^-30 < 1e-9, 2^-34 < 1e-10, 2^-40 < 1e-12, 2^-44 < 1e-13, 2^-50 < 1e-15, 2^-54 < eps) and between them
const TINY2: [i64; 18] = [-7, -10, -14, -17, -20, -24, -27, -30, -31, -34, -37, -40, -41, -44, -47, -50, -54, -60];
const TINY10: [i64; 13] = [-3, -4, -5, -6, -7, -8, -9, -10, -11, -12, -13, -14, -16];
const WIDE2: [i64; 16] = [-60, -50, -41, -40, -31, -30, -21, -20, -10, 10, 20, 30, 31, 40, 50, 60];
fn tiny(rng: &mut Rng, base: u32) -> i64 { if base == 2 { *rng.pick(&TINY2) } else { *rng.pick(&TINY10) } }
fn show_me(m: &M, e: &M) -> String { format!("{} {}", show_mat(m), show_mat(e)) }

/// a well-conditioned matrix in which SOME entries are tiny but not zero (pattern `pat`): the multipliers of the elimination, single
/// cofactors, single projections fall below every absolute threshold while the matrix as a whole is of ordinary scale
fn diag_dominant(rng: &mut Rng, n: usize) -> M {
    let lim = (8 / (n as i64 - 1)).max(1);
    let mut m: M = (0..n).map(|i| (0..n).map(|j| if i == j { 0 } else { rng.range(-lim, lim) }).collect()).collect();
    for i in 0..n { let s: i64 = m[i].iter().map(|x| x.abs()).sum(); m[i][i] = (s + 1 + rng.range(0, 2)).min(9) * if rng.below(2) == 0 { 1 } else { -1 }; }
    m
}
fn band_family(rng: &mut Rng, n: usize, pat: usize, base: u32) -> (M, M) {
    loop {
        let mut m = match rng.below(3) { 0 => rand_conditioned(rng, n), 1 => perm_diag_dominant(rng, n), _ => pivot_forcing(rng, n) };
        // lower part tiny: start from dominant diagonal entries (the strictly upper part keeps ordinary entries)
        if pat == 1 || pat == 5 || pat == 6 { m = diag_dominant(rng, n); }
        let mut e: M = vec![vec![0; n]; n];
        let set = |m: &mut M, e: &mut M, i: usize, j: usize, k: i64, rng: &mut Rng| { if m[i][j] == 0 { m[i][j] = rng.range(1, 9) * if rng.below(2) == 0 { 1 } else { -1 }; } e[i][j] = k; };
        match pat {
            0 => { let i = rng.below(n); let j = (i + 1 + rng.below(n - 1)) % n; let k = tiny(rng, base); set(&mut m, &mut e, i, j, k, rng); }
            1 => { for i in 0..n { for j in 0..i { let k = tiny(rng, base); set(&mut m, &mut e, i, j, k, rng); } } }
            2 => { if det_exact(&m) == 0 { continue } for i in 0..n { for j in i + 1..n { let k = tiny(rng, base); set(&mut m, &mut e, i, j, k, rng); } } }
            3 => { let (j, r) = (rng.below(n), rng.below(n)); for i in 0..n { if i != r { let k = tiny(rng, base); set(&mut m, &mut e, i, j, k, rng); } } if m[r][j] == 0 { m[r][j] = 7; } }
            4 => { for i in 0..n { for j in 0..n { if i != j && rng.below(3) == 0 { let k = tiny(rng, base); set(&mut m, &mut e, i, j, k, rng); } } } }
            5 => { for i in 0..n { for j in 0..i { let k = tiny(rng, base); set(&mut m, &mut e, i, j, k, rng); } } let p = non_identity_perm(rng, n); m = row_perm(&m, &p); e = row_perm(&e, &p); }
            _ => { let k = tiny(rng, base); for i in 0..n { for j in 0..i { set(&mut m, &mut e, i, j, k, rng); } } }
        }
        let (cond, det) = cond_det_f(&band_mat(&m, &e, base));
        if cond <= 1e3 && det.abs() >= 1e-3 { return (m, e) }
    }
}

fn gen_bands(out: &mut dyn FnMut(String), seed: u64, thorough: bool) {
    // own generator, far away in the counter sequence: `Rng::new(s)` and `Rng::new(s + 2)` are the SAME sequence shifted by two draws, and the
    // rejection loops of the families re-synchronise them (seeds 1 and 3 produced identical band streams)
    let rng = &mut Rng::new((seed ^ 0x5DEECE66D).wrapping_mul(0x2545F4914F6CDD1D).rotate_left(29));
    // ---- 18a. solve / det with tiny-but-non-zero entries (seven patterns, base 2 and base 10), right-hand sides plain / tiny / banded
    let reps = if thorough { 12 } else { 5 };
    for n in 2..=6usize { for pat in 0..7usize { for base in [2u32, 10] { for r in 0..reps {
        if n == 2 && pat == 6 { continue }
        let (m, e) = band_family(rng, n, pat, base);
        let a = show_me(&m, &e);
        let zeros = |len: usize| vec![0i64; len];
        out(format!("psolve {a} {} {} {base}", show_vec(&rand_rhs(rng, n, 1)), show_vec(&zeros(n))));
        let k = 2 + rng.below(3);
        // every column of the right-hand side on its own scale
        let ce: Vec<i64> = (0..k).map(|c| if c == 0 { 0 } else if base == 2 { *rng.pick(&WIDE2) } else { tiny(rng, 10) }).collect();
        out(format!("psolve {a} {} {} {base}", show_shape(&[n, k], &rand_rhs(rng, n, k)), show_shape(&[n, k], &(0..n * k).map(|p| ce[p % k]).collect::<Vec<i64>>())));
        if r == 0 {
            // single tiny entries in the right-hand side
            out(format!("psolve {a} {} {} {base}", show_vec(&rand_rhs(rng, n, 1)), show_vec(&(0..n).map(|_| if rng.below(2) == 0 { tiny(rng, base) } else { 0 }).collect::<Vec<i64>>())));
            out(format!("psolve {a} {} {} {base}", show_shape(&[n, 2], &rand_rhs(rng, n, 2)), show_shape(&[n, 2], &(0..2 * n).map(|_| if rng.below(3) == 0 { tiny(rng, base) } else { 0 }).collect::<Vec<i64>>())));
        }
        out(format!("pdet {a} {base}"));
        // (modified Gram–Schmidt loses orthogonality in proportion to the condition number: only the matrices with cond <= 100 go through qr)
        if r == 0 && n <= 5 && cond_cols_f(&band_mat(&m, &e, base)) <= 100. { out(format!("pqr {a} {base}")); }
    } } } }
    // ---- 18a'. solve with whole COLUMNS / ROWS of the matrix on their own scales, 2^k and 2^-k in pairs so that the determinant stays of
    // order one (the absolute |det| < 1e-12 test passes) while pivots, multipliers and intermediate right-hand sides are as small as 2^-50
    // or as large as 2^50.  The matrix is well-conditioned once equilibrated (cond <= 100); elimination with partial pivoting does the
    // same arithmetic on a power-of-two row / column scaling (up to the pivot order for rows), so the same bounds apply.
    for n in 2..=6usize { for by_rows in [false, true] { for r in 0..(if thorough { 10 } else { 4 }) {
        let m = loop { let m = match r % 3 { 0 => rand_conditioned(rng, n), 1 => perm_diag_dominant(rng, n), _ => pivot_forcing(rng, n) };
            if cond_cols_f(&band_mat(&m, &vec![vec![0; n]; n], 2)) <= 100. && cond_det_f(&band_mat(&m, &vec![vec![0; n]; n], 2)).0 <= 100. { break m } };
        let mut sc = vec![0i64; n];
        let p = rng.perm(n);
        for pair in 0..(if n >= 4 && r % 2 == 1 { 2 } else { 1 }) { let k = *rng.pick(&[20i64, 27, 30, 34, 37, 40, 44, 50]); sc[p[2 * pair]] = k; sc[p[2 * pair + 1]] = -k; }
        let e: M = (0..n).map(|i| (0..n).map(|j| if by_rows { sc[i] } else { sc[j] }).collect()).collect();
        let a = show_me(&m, &e);
        out(format!("psolve {a} {} {} 2", show_vec(&rand_rhs(rng, n, 1)), show_vec(&vec![0i64; n])));
        // right-hand side scaled like the rows of the matrix (the solution is then that of the unscaled system) / two columns
        let be: Vec<i64> = (0..n).map(|i| if by_rows { sc[i] } else { 0 }).collect();
        out(format!("psolve {a} {} {} 2", show_vec(&rand_rhs(rng, n, 1)), show_vec(&be)));
        out(format!("psolve {a} {} {} 2", show_shape(&[n, 2], &rand_rhs(rng, n, 2)), show_shape(&[n, 2], &(0..2 * n).map(|p| if p % 2 == 0 { 0 } else { be[p / 2] }).collect::<Vec<i64>>())));
        out(format!("pdet {a} 2"));
    } } }
    // ---- 18b. qr / det: every COLUMN (and every block of a stack) on its own scale; the matrix is well-conditioned once the columns are equilibrated
    let reps = if thorough { 12 } else { 3 };
    for n in 2..=6usize { for r in 0..reps { for fam in 0..3usize {
        let m = loop { let m = match fam { 0 => rand_conditioned(rng, n), 1 => perm_diag_dominant(rng, n), _ => pivot_forcing(rng, n) };
            if cond_cols_f(&band_mat(&m, &vec![vec![0; n]; n], 2)) <= 100. { break m } };
        // one column tiny, all but one tiny, all different, decimal
        let pools: [Vec<i64>; 4] = [
            { let mut v = vec![0i64; n]; v[rng.below(n)] = *rng.pick(&TINY2); v },
            { let k = rng.below(n); (0..n).map(|c| if c == k { 0 } else { *rng.pick(&TINY2) }).collect() },
            (0..n).map(|_| *rng.pick(&WIDE2)).collect(),
            (0..n).map(|_| if rng.below(2) == 0 { *rng.pick(&TINY10) } else { 0 }).collect(),
        ];
        for (pi, ce) in pools.iter().enumerate() {
            let base = if pi == 3 { 10 } else { 2 };
            let e: M = (0..n).map(|_| ce.clone()).collect();
            out(format!("pqr {} {base}", show_me(&m, &e)));
            if r == 0 { out(format!("pdet {} {base}", show_me(&m, &e))); }
        }
        // rows on their own scales (det only: Gram–Schmidt is not invariant under row scalings, the matrix would be ill-conditioned)
        let re: M = (0..n).map(|_| vec![*rng.pick(&WIDE2); n]).collect();
        out(format!("pdet {} 2", show_me(&m, &re)));
    } } }
    // stacks: block t scaled by 2^(e_t) / with its own column scales
    for (cnt, n) in [(3usize, 2usize), (4, 3), (2, 4), (7, 2), (3, 5)] { for variant in 0..3 {
        let mut ms: Vec<i64> = vec![]; let mut es: Vec<i64> = vec![];
        for t in 0..cnt {
            let m = loop { let m = if t % 2 == 0 { rand_conditioned(rng, n) } else { perm_diag_dominant(rng, n) }; if cond_cols_f(&band_mat(&m, &vec![vec![0; n]; n], 2)) <= 100. { break m } };
            let be = if variant == 1 && t == 0 { 0 } else { *rng.pick(&WIDE2) };
            let ce: Vec<i64> = (0..n).map(|_| if variant == 2 { *rng.pick(&TINY2) } else { be }).collect();
            for i in 0..n { for j in 0..n { ms.push(m[i][j]); es.push(ce[j]); } }
        }
        let a = format!("{} {}", show_shape(&[cnt, n, n], &ms), show_shape(&[cnt, n, n], &es));
        out(format!("pqr {a} 2")); out(format!("pdet {a} 2"));
    } }
    // ---- 18c. scale sweep: EVERY power of two 2^-60 … 2^60 through solve / qr / det / norm (model at the exact scaled rationals,
    // exec also demands the exactly rescaled answer of the unscaled call)
    let sweep: Vec<M> = vec![vec![vec![1, 2], vec![3, 4]], vec![vec![4, 1, 2], vec![1, 5, 1], vec![2, 1, 6]], pivot_forcing(rng, 3), rand_conditioned(rng, 4), perm_diag_dominant(rng, 5)];
    for (mi, m) in sweep.iter().enumerate() {
        let n = m.len();
        let a = show_mat(m);
        let (b1, b2) = (show_vec(&rand_rhs(rng, n, 1)), show_shape(&[n, 2], &rand_rhs(rng, n, 2)));
        let v = show_vec(&nonzero_vals(rng, n + 2));
        for k in -60i64..=60 {
            if k == 0 || (!thorough && mi >= 3 && k % 2 != 0) { continue }
            let sc = format!("2^{k}");
            out(format!("xqr {a} f64/{sc}/1")); out(format!("xdet {a} f64/{sc}/1"));
            out(format!("xsolve {a} {b1} f64/{sc}/{sc}")); out(format!("xsolve {a} {b2} f64/{sc}/1")); out(format!("xsolve {a} {b1} f64/1/{sc}"));
            out(format!("xsolve {a} {b2} f64/{sc}/2^{}", -k));
            let forms = [("none", "none"), ("fro", "none"), ("i1", "0"), ("inf", "-1"), ("i1", "0,1"), ("ninf", "1,0"), ("i3", "0"), ("i-1", "1"), ("i0", "0"), ("i2", "1")];
            let (f1, f2) = (forms[(k + 60) as usize % 10], forms[(k + 63) as usize % 10]);
            out(format!("xnorm {a} {} {} none f64/{sc}/1", f1.0, f1.1)); out(format!("xnorm {a} {} {} none f64/{sc}/1", f2.0, f2.1));
            let vforms = ["none", "i1", "i2", "inf", "ninf", "i0", "i3", "i4", "i-1", "i-2", "i5"];
            out(format!("xnorm {v} {} none none f64/{sc}/1", vforms[(k + 60) as usize % 11])); out(format!("xnorm {v} {} none none f64/{sc}/1", vforms[(k + 64) as usize % 11]));
        }
    }
    // ---- 18d / 16. norm over entries of very different magnitude and over the exact values a scalar kernel could special-case
    let all_ords = ["none", "i0", "i1", "i2", "i3", "i4", "i5", "i-1", "i-2", "i-3", "inf", "ninf"];
    // mixed bands: vectors and matrices, every order
    for len in [2usize, 3, 5, 8] { for r in 0..(if thorough { 6 } else { 2 }) { for base in [2u32, 10] {
        let m: Vec<i64> = (0..len).map(|_| *rng.pick(&[-9i64, -7, -5, -3, -2, -1, 1, 2, 3, 4, 6, 8, 9])).collect();
        let e: Vec<i64> = (0..len).map(|i| if (i + r) % 2 == 0 { 0 } else if base == 2 { *rng.pick(&WIDE2) } else { tiny(rng, 10) }).collect();
        let a = format!("{} {} {base}", show_vec(&m), show_vec(&e));
        for o in all_ords { out(format!("pnorm {a} {o} none none")); }
        out(format!("pnorm {a} s{} 0 none", hex("2"))); out(format!("pnorm {a} S{} -1 true", hex("-1")));
    } } }
    for (rws, cls) in [(2usize, 2usize), (2, 3), (3, 3), (4, 2)] { for base in [2u32, 10] {
        let cnt = rws * cls;
        let m: Vec<i64> = (0..cnt).map(|_| *rng.pick(&[-9i64, -7, -5, -3, -2, -1, 1, 2, 3, 4, 6, 8, 9])).collect();
        let e: Vec<i64> = (0..cnt).map(|_| if rng.below(2) == 0 { 0 } else if base == 2 { *rng.pick(&WIDE2) } else { tiny(rng, 10) }).collect();
        let a = format!("{} {} {base}", show_shape(&[rws, cls], &m), show_shape(&[rws, cls], &e));
        for (o, ax) in [("none", "none"), ("fro", "none"), ("i1", "none"), ("inf", "none"), ("i-1", "0,1"), ("ninf", "1,0"), ("i1", "0"), ("i2", "1"), ("inf", "-1"), ("ninf", "0"), ("i0", "1"), ("i3", "0"), ("i-1", "1"), ("i-2", "0")] {
            out(format!("pnorm {a} {o} {ax} none"));
        }
    } }
    // exact values: every integer -1100..=1100 (one- and two-element vectors, orders rotating), the mathematical constants with their
    // negatives and reciprocals, every power of two 2^-1074 … 2^1023 with its two neighbours; orders whose powers stay inside the f64 range
    let one = |x: f64| { let (m, e) = decomp(x); format!("1:{m} 1:{e} 2") };
    let two = |x: f64, y: f64| { let ((m, e), (m2, e2)) = (decomp(x), decomp(y)); format!("2:{m},{m2} 2:{e},{e2} 2") };
    for (idx, i) in (-1100i64..=1100).enumerate() {
        if !thorough && i.abs() > 130 && idx % 4 != 0 { continue }
        let x = i as f64;
        out(format!("pnorm {} {} none none", one(x), all_ords[idx % 12]));
        out(format!("pnorm {} {} none none", two(x, 3.), all_ords[(idx + 5) % 12]));
        if thorough { out(format!("pnorm {} {} none none", two(4., x), all_ords[(idx + 7) % 12])); }
    }
    use std::f64::consts::*;
    let consts = [E, PI, LN_2, LN_10, LOG2_E, LOG10_E, LOG2_10, LOG10_2, SQRT_2, FRAC_1_SQRT_2, FRAC_PI_2, FRAC_PI_3, FRAC_PI_4, FRAC_PI_6, FRAC_PI_8, FRAC_1_PI, FRAC_2_PI, FRAC_2_SQRT_PI, TAU,
        f64::EPSILON, 1. + f64::EPSILON, 1. - f64::EPSILON / 2., 0.1, 0.5, 1.5, 1e-7, 1e-12, 1e12, 1e-9, 1e9, 1e-6, 1e-15, 1e15, 1e100, 1e-100, (f32::MAX as f64), (f32::MIN_POSITIVE as f64), 16777216., 16777217., 9007199254740992., 9007199254740993f64];
    for &c in &consts { for x in [c, -c, 1. / c] {
        for o in all_ords { if (o == "i5" || o == "i4" || o == "i-3") && !(1e-60..1e60).contains(&x.abs()) { continue } out(format!("pnorm {} {o} none none", one(x))); }
        for o in ["none", "i1", "i2", "inf", "ninf", "i3", "i-1"] { out(format!("pnorm {} {o} none none", two(x, 1.))); out(format!("pnorm {} {o} none none", two(E, x))); }
    } }
    for (idx, k) in (-1074i64..=1023).enumerate() {
        let p = ldexp(1., k);
        let mut xs = vec![p];
        if k > -1022 { xs.push(f64::from_bits(p.to_bits() + 1)); xs.push(f64::from_bits(p.to_bits() - 1)); }
        for (xi, &x) in xs.iter().enumerate() {
            if !thorough && (idx + xi) % 3 != 0 && k.abs() > 64 { continue }
            // orders 1 / inf / -inf / 0 reproduce the value (or count it) over the whole range; squares and cubes where they stay finite and normal
            let wide = ["i1", "inf", "ninf", "i0"];
            out(format!("pnorm {} {} none none", one(x), wide[(idx + xi) % 4]));
            out(format!("pnorm {} {} none none", two(x, -x), wide[(idx + xi + 1) % 4]));
            if k.abs() <= 500 { out(format!("pnorm {} {} none none", one(x), ["none", "i2", "i-1", "i-2"][(idx + xi) % 4])); out(format!("pnorm {} none none none", two(x, x))); }
            if k.abs() <= 200 { out(format!("pnorm {} {} none none", one(x), ["i3", "i4", "i5", "i-3"][(idx + xi) % 4])); }
        }
    }
}

/// ---- 11. giant norms: more than 2^20 elements (a blocked / chunked reduction that only starts there), digit arrays built by formula on
/// both sides; the harness-native reference answers and is compared with the model on the smaller `gnorm` lines of the same run.  Only
/// forms whose lanes are LONG (a million two-element lanes take minutes in the crate).
fn gen_giant(out: &mut dyn FnMut(String), thorough: bool) {
    let vec_forms = ["none", "i1", "i2", "inf", "ninf", "i0"];
    let mat_forms: [(&str, &str, bool); 9] = [("fro", "none", true), ("none", "none", true), ("i1", "1", true), ("i2", "-1", true), ("inf", "0,1", true), ("i1", "1,0", true),
        ("i1", "0", false), ("i1", "0,1", false), ("inf", "1,0", false)];   // true: shape [2, m], false: shape [m, 2]
    // validation scope: the model answers (and the reference must agree with it)
    for len in [1usize, 2, 18, 19, 20, 64, 1021, 1022, 2043, 4097] { for ty in ["f64", "i64", "i32"] { for o in vec_forms {
        if len > 2043 && (ty == "i32" || o == "ninf" || o == "i0") { continue }
        out(format!("gnorm {len} {ty} {o} none"));
    } } }
    for m in [1usize, 7, 13, 511, 1500] { for ty in ["f64", "i64"] { for (o, ax, wide) in mat_forms {
        if m > 511 && ty == "i64" && ax != "0,1" { continue }
        let shape = if wide { [2, m] } else { [m, 2] };
        out(format!("gnorm {} {ty} {o} {ax}", show_list(&shape)));
        if m <= 13 { out(format!("gnorm {} {ty} {o} {ax}", show_list(&[shape[1], shape[0]]))); }
    } } }
    // giant scope
    let mut lens: Vec<usize> = vec![(1 << 20) + 1, (1 << 20) + 64 + 7, (1 << 21) + 3];
    if thorough { lens.extend([(1 << 20) + 4096, 1_500_001, 2_000_003, (1 << 21) + 64]); for s in giant_shapes() { if s.len() == 1 && !lens.contains(&s[0]) { lens.push(s[0]); } } }
    for (li, &len) in lens.iter().enumerate() { for (oi, o) in vec_forms.iter().enumerate() {
        if !thorough && (oi + li) % 2 != 0 { continue }
        let ty = if (oi + li) % 3 == 2 { "i64" } else { "f64" };
        out(format!("gnorm {len} {ty} {o} none"));
        if thorough && oi < 2 { out(format!("gnorm {len} i32 {o} none")); }
    } }
    // the extreme (greatest / least magnitude) at the first, the last and the 2^20-th position: a reduction that loses a boundary element loses it
    for &len in &[20usize, 1022, 4097] { for (pi, p) in [0, len - 1, len / 2].into_iter().enumerate() {
        for (o, c) in [("inf", '@'), ("ninf", '#'), ("i0", '#'), ("i1", '@')] { out(format!("gnorm {len} {}{c}{p} {o} none", ["f64", "i64", "i32"][pi])); }
    } }
    for (li, &len) in lens.iter().enumerate() { for (pi, p) in [len - 1, 0, 1 << 20, (1 << 20) - 1].into_iter().enumerate() {
        // quick: the greatest magnitude at the last / the 2^20-th position, the least at the first / last
        if thorough || (li, pi) == (0, 0) || (li, pi) == (2, 2) { out(format!("gnorm {len} {}@{p} inf none", if pi % 2 == 0 { "f64" } else { "i64" })); }
        if thorough || (li, pi) == (2, 1) || (li, pi) == (1, 0) { out(format!("gnorm {len} f64#{p} ninf none")); }
    } }
    let ms: Vec<usize> = if thorough { vec![(1 << 19) + 1, (1 << 20) + 3, 1_000_003] } else { vec![(1 << 19) + 5, (1 << 20) + 3] };
    for (mi, &m) in ms.iter().enumerate() { for (fi, (o, ax, wide)) in mat_forms.iter().enumerate() {
        if !thorough && (fi + mi) % 3 != 0 { continue }
        let shape = if *wide { [2, m] } else { [m, 2] };
        out(format!("gnorm {} {} {o} {ax}", show_list(&shape), if fi % 4 == 3 { "i64" } else { "f64" }));
    } }
}

fn gen(tier: &str, seed: u64, out: &mut dyn FnMut(String)) {
    let thorough = tier == "thorough";
    let mut rng = Rng::new(seed);
    // ---- corpus of past failures
    out("solve 2,2:0,1,1,0 2:2,3".into());
    out("solve 3,3:4,1,0,1,5,1,0,1,6 3,2:1,2,3,4,5,6".into());
    out("solve 3,3:1,1,0,4,5,1,0,1,6 3,3:1,2,3,4,5,6,7,8,9".into());
    out("qr 3,2,2:2,1,1,3,0,1,1,0,1,2,3,5".into());
    out("qr 2,3,3:2,1,0,1,3,1,0,1,4,0,1,2,1,0,3,4,-3,8".into());
    // round-2 seeded changes: small entries (absolute tests), 75 / 67 elements (a dropped tail), a deficiency in the last pivot
    out("xqr 3,3:12,-51,4,6,167,-68,-4,24,-41 f64/10^-10/1".into());
    out("xqr 2,2:2,1,1,3 f64/2^-40/1".into());
    out(format!("norm {} none none none", show_shape(&[3, 5, 5], &(1..=75).map(|i| (i % 9) + 1).collect::<Vec<i64>>())));
    out(format!("norm {} i2 none none", show_shape(&[67], &(1..=67).map(|i| (i % 5) - 7).collect::<Vec<i64>>())));
    out("solve 6,6:1,2,0,1,3,1,0,1,2,1,0,2,2,0,1,3,1,0,1,1,0,2,1,3,3,1,2,0,1,1,1,3,2,2,3,3 6:1,2,3,4,5,6".into());
    // round-3 seeded changes: a matrix directly followed by its transpose (factor cache keyed by a fingerprint), 12 001 elements (dropped remainder)
    out("solve 3,3:5,1,2,-1,6,1,0,2,7 3:1,2,3".into());
    out("solve 3,3:5,-1,0,1,6,2,2,1,7 3:1,2,3".into());
    out("norm i12001+-6001 none none none".into());
    out("norm i1500,3,3+-6751 none none none".into());
    // round-5 seeded changes: entries of order 1e-7 (an absolute test on u.u in Gram–Schmidt), a sub-pivot entry of 5e-10 (multipliers
    // below an absolute threshold): magnitude bands, every entry with its own exact scale
    out("xqr 2,2:1,2,3,4 f64/10^-7/1".into());
    out("pqr 3,3:4,1,2,1,5,1,2,1,6 3,3:-7,0,-7,-7,0,-7,-7,0,-7 10".into());
    out("psolve 2,2:1,2,5,1 2,2:0,0,-10,0 2:3,1 2:0,0 10".into());
    out("psolve 3,3:3,1,2,4,1,1,2,3,1 3,3:-10,0,0,0,0,0,-10,0,0 3,2:1,2,3,-1,5,7 3,2:0,0,0,0,-1,0 10".into());
    gen_ext(out);
    // ---- exhaustive small scope
    // every 2x2 matrix over -2..2: det, elimination, row exchange, product with a fixed partner, solve (vector, 1, 2, 3 columns), qr
    let fixed: M = vec![vec![2, -1], vec![1, 3]];
    for m in all_mats(2, &[-2, -1, 0, 1, 2]) {
        let a = show_mat(&m);
        out(format!("det {a}")); out(format!("det_elim {a}")); out(format!("det_swap {a} 0 1")); out(format!("det_mul {a} {}", show_mat(&fixed)));
        out(format!("solve {a} 2:1,-2")); out(format!("solve {a} 2,1:3,1")); out(format!("solve {a} 2,2:1,0,2,-1")); out(format!("solve {a} 2,3:1,2,3,-3,0,5"));
        out(format!("qr {a}"));
    }
    // every 3x3 matrix over -1..1 (19683): det and elimination on all; solve / qr / swap / product on all (thorough) or every 4th (quick)
    let partner: M = vec![vec![1, 2, 0], vec![0, 1, -1], vec![2, 0, 1]];
    for (idx, m) in all_mats(3, &[-1, 0, 1]).into_iter().enumerate() {
        let a = show_mat(&m);
        out(format!("det {a}")); out(format!("det_elim {a}"));
        if thorough || idx % 4 == 0 {
            out(format!("solve {a} 3:1,-2,3")); out(format!("solve {a} 3,2:1,0,2,-1,-3,4"));
            out(format!("qr {a}"));
            out(format!("det_swap {a} {} {}", idx % 3, (idx / 3 + 1 + idx % 3) % 3)); out(format!("det_mul {a} {}", show_mat(&partner)));
        }
    }
    // 4x4 over {0,1} with a zero-heavy pattern: all 65536 in thorough, every 16th in quick (many need exchanges at several steps; many singular)
    for (idx, m) in all_mats(4, &[0, 1]).into_iter().enumerate() {
        if !(thorough || idx % 16 == 5) { continue }
        let a = show_mat(&m);
        out(format!("det {a}")); out(format!("solve {a} 4,2:1,2,3,4,5,6,7,8"));
        if idx % 8 == 5 { out(format!("det_elim {a}")); out(format!("qr {a}")); out(format!("solve {a} 4:1,-1,2,-2")); }
    }
    // ---- structured families, n = 2..6 (seeded)
    let reps = if thorough { 120 } else { 14 };
    for n in 2..=6usize {
        for r in 0..reps {
            let fams: Vec<M> = vec![rand_conditioned(&mut rng, n), perm_diag_dominant(&mut rng, n), triangular(&mut rng, n, true), triangular(&mut rng, n, false), pivot_forcing(&mut rng, n)];
            for m in &fams {
                let a = show_mat(m);
                let kk = 1 + rng.below(4);
                emit_solves(out, &mut rng, m, &[1, 2, kk, n]);
                out(format!("det {a}")); out(format!("det_elim {a}")); out(format!("qr {a}"));
                let (i, j) = (rng.below(n), rng.below(n));
                out(format!("det_swap {a} {i} {j}"));
                out(format!("det_mul {a} {}", show_mat(&rand_mat(&mut rng, n, 9))));
                out(format!("norm {a} none none none")); out(format!("norm {a} fro none none")); out(format!("norm {a} i1 none none")); out(format!("norm {a} inf none none"));
                out(format!("norm {a} i2 {} none", rng.below(2))); out(format!("norm {a} i1 {} none", rng.below(2))); out(format!("norm {a} inf {} none", -(rng.below(2) as i64) - 1));
                let v = rand_rhs(&mut rng, n, 1);
                for o in ["none", "i1", "i2", "inf", "ninf", "i0", "i3"] { out(format!("norm {} {o} none none", show_vec(&v))); }
            }
            // exactly singular
            let s = singular(&mut rng, n);
            emit_solves(out, &mut rng, &s, &[2]);
            out(format!("det {}", show_mat(&s))); out(format!("det_elim {}", show_mat(&s)));
            // stacks
            if r % 2 == 0 && n <= 5 {
                let cnt = 1 + rng.below(3);
                let mats: Vec<M> = (0..cnt).map(|t| if t % 2 == 0 { rand_conditioned(&mut rng, n) } else { pivot_forcing(&mut rng, n) }).collect();
                let e: Vec<i64> = mats.iter().flatten().flatten().copied().collect();
                out(format!("det {}", show_shape(&[cnt, n, n], &e))); out(format!("qr {}", show_shape(&[cnt, n, n], &e)));
                if cnt == 2 && n <= 4 {
                    let e2: Vec<i64> = e.iter().chain(e.iter().rev()).copied().collect();
                    out(format!("det {}", show_shape(&[2, 2, n, n], &e2)));
                    let mut e3: Vec<i64> = vec![];
                    for _ in 0..3 { e3.extend(rand_conditioned(&mut rng, n).into_iter().flatten()); }
                    e3.extend(e.iter().copied());
                    e3.extend(rand_conditioned(&mut rng, n).into_iter().flatten());
                    out(format!("qr {}", show_shape(&[3, 2, n, n], &e3))); out(format!("det {}", show_shape(&[2, 3, n, n], &e3)));
                }
            }
        }
    }
    // ---- norm: order / axis / keepdims dispatch, every combination on fixed arrays
    gen_norms(out, thorough);
    // ---- robustness streams: sizes, zero-length axes, element types, exact scales (both receivers are exercised by every case)
    gen_streams(out, &mut rng, thorough);
    // ---- robustness streams, part 2: hidden state (look-alike matrices, colliding shapes, refused-then-valid, types back to back), huge inputs
    gen_hidden_state(out, &mut rng, thorough);
    gen_huge(out, &mut rng, thorough);
    // ---- robustness streams, part 4: magnitude bands (tiny-but-non-zero entries, columns / blocks on their own scales, every power of
    // two as a uniform scale, exact special values through norm)
    gen_bands(out, seed, thorough);
    gen_giant(out, thorough);
    // ---- malformed
    for line in [
        "solve 2,3:1,2,3,4,5,6 2:1,2", "solve 3,2:1,2,3,4,5,6 3:1,2,3", "solve 4:1,2,3,4 2:1,2", "solve 1,1:5 1:10", "solve 2,2,2:1,2,3,4,5,6,7,9 2:1,2",
        "solve 2,2:1,2,3,5 3:1,2,3", "solve 2,2:1,2,3,5 3,2:1,2,3,4,5,6", "solve 2,2:1,2,3,5 2,2,1:1,2,3,4", "solve 2,2:1,2,3,5 2,1,2:1,2,3,4", "solve 2,2:1,2,3,5 2,2,2:1,2,3,4,5,6,7,8",
        "solve 2,2:1,2,3,5 1:7", "solve 3,3:1,2,3,4,5,6,7,8,10 3,1,1:1,2,3",
        "det 1,1:5", "det 2,3:1,2,3,4,5,6", "det 3:1,2,3", "det 1:4", "det 2,2,3:1,2,3,4,5,6,7,8,9,10,11,12", "det 2,1,1:3,4", "det 1,2,2:2,1,1,3", "det 3,2,2:2,1,1,3,0,1,1,0,1,2,3,5",
        "qr 3:1,2,3", "qr 2,3:1,2,3,4,5,6", "qr 1,1:4", "qr 2,2,3:1,2,3,4,5,6,7,8,9,10,11,12", "qr 3,3,2:1,2,3,4,5,6,7,8,9,10,11,12,13,14,15,16,17,18", "qr 1,2,2:2,1,1,3",
        "qr 2,1,1:3,4",
    ] { out(line.into()); }
    // ---- seeded random stream beyond the enumerated scope
    let n_rand = if thorough { 4000 } else { 300 };
    for _ in 0..n_rand {
        let n = 2 + rng.below(5);
        let m = match rng.below(6) { 0 => perm_diag_dominant(&mut rng, n), 1 => pivot_forcing(&mut rng, n), 2 => singular(&mut rng, n), _ => rand_conditioned(&mut rng, n) };
        let a = show_mat(&m);
        let k = 1 + rng.below(5);
        match rng.below(8) {
            0 => out(format!("solve {a} {}", show_vec(&rand_rhs(&mut rng, n, 1)))),
            1 | 2 | 3 => out(format!("solve {a} {}", show_shape(&[n, k], &rand_rhs(&mut rng, n, k)))),
            4 => out(format!("qr {a}")),
            5 => out(format!("det_mul {a} {}", show_mat(&rand_mat(&mut rng, n, 9)))),
            6 => out(format!("det_swap {a} {} {}", rng.below(n), rng.below(n))),
            _ => out(format!("det_elim {a}")),
        }
    }
}

// ---------------------------------------------------------------- executor

fn arr_f64(s: &str) -> Option<Array<f64>> {
    let (shape, elems) = parse_arr_raw(s);
    Array::new(elems.into_iter().map(|x| x as f64).collect(), shape).ok()
}
fn parse_rat(s: &str) -> Option<f64> {
    let (n, d) = s.split_once('/')?;
    // numerators / denominators beyond the f64 range (2^-1074 has 324 digits): the quotient of the 25 leading digits, the decimal
    // exponent added in the TEXT of the quotient so that the final rounding (also into the subnormal range) is the decimal parser's
    let digits = |t: &str| t.trim_start_matches('-').len();
    if digits(n).max(digits(d)) <= 290 { return Some(n.parse::<f64>().ok()? / d.parse::<f64>().ok()?) }
    let lead = |t: &str| -> Option<(f64, i64)> { let keep = t.len().min(26); Some((t[..keep].parse::<f64>().ok()?, (t.len() - keep) as i64)) };
    let ((nl, ne), (dl, de)) = (lead(n)?, lead(d)?);
    if nl == 0. { return Some(0.) }
    let q = format!("{:e}", nl / dl);
    let (mant, ex) = q.split_once('e')?;
    format!("{mant}e{}", ex.parse::<i64>().ok()? + ne - de).parse::<f64>().ok()
}
/// `ok <shape>:<rat>,<rat>` -> (shape, values)
fn parse_expected_arr(body: &str) -> Option<(Vec<usize>, Vec<f64>)> {
    let (sh, el) = body.split_once(':')?;
    let vals = if el == "-" { vec![] } else { el.split(',').map(parse_rat).collect::<Option<Vec<f64>>>()? };
    Some((parse_usize_list(sh), vals))
}
fn close(code: f64, model: f64) -> bool { (code - model).abs() <= TOL * (1. + model.abs()) }
fn show_f(a: &Array<f64>) -> String {
    format!("{}:{}", show_list(&a.get_shape().unwrap()), a.get_elements().unwrap().iter().map(|x| format!("{:e}", x)).collect::<Vec<_>>().join(","))
}
fn mismatch(observed: String, detail: String) -> Option<Verdict> { Some(Verdict::Mismatch { observed, detail }) }

/// compare a real array with the model's rational array, element by element to rounding accuracy
fn cmp_arr(real: &Result<Array<f64>, ArrayError>, expected: &str, exact_err: bool) -> Result<String, (String, String)> {
    let observed = show_res(real, show_f);
    match real {
        Err(e) => {
            if class_of(expected) == "err" && (!exact_err || expected == format!("err {}", err_name(e))) { Ok(observed) }
            else { Err((observed, format!("model says `{}`", truncate(expected, 300)))) }
        }
        Ok(a) => {
            if !consistent(a) { return Err((observed, "inconsistent array (C01 monitor)".into())) }
            let Some(body) = expected.strip_prefix("ok ") else { return Err((observed, format!("model says `{}`", truncate(expected, 300)))) };
            let Some((shape, vals)) = parse_expected_arr(body) else { return Err((observed, "harness: cannot parse the model's answer".into())) };
            let (rs, re) = (a.get_shape().unwrap(), a.get_elements().unwrap());
            if rs != shape { return Err((observed, format!("shape: model {:?}", shape))) }
            for (p, (&c, &m)) in re.iter().zip(&vals).enumerate() {
                if !close(c, m) { return Err((observed, format!("element {p}: code {c:e}, exact model {m:e} (tolerance 1e-9 relative)"))) }
            }
            Ok(observed)
        }
    }
}

fn to_verdict(r: Result<String, (String, String)>) -> Option<Verdict> {
    match r { Ok(o) => Some(Verdict::Match(o)), Err((observed, detail)) => mismatch(observed, detail) }
}

fn mat_of(s: &str) -> (usize, Vec<f64>) { let (shape, e) = parse_arr_raw(s); (shape[0], e.into_iter().map(|x| x as f64).collect()) }

/// residual bound of an f64 solve: "to rounding accuracy".  Elimination with partial pivoting is backward stable, so whatever the
/// condition number |A x - b| stays within a small multiple of eps * (n |A| |x| + |b|) - for A, x as given and for every column scaling
/// A D^-1, D x, the elimination being the same arithmetic; the smaller of the two is taken; 1e-13 is ~450 eps (the largest ratio observed on
/// the pinned tree over all streams, both tiers, seeds 0-3, is below 2e-15).  Judged COLUMN BY COLUMN of the right-hand side (the columns are solved
/// independently), so a column of tiny entries is not hidden behind a column of ordinary ones.
const RES_TOL: f64 = 1e-13;
fn residual_cols(n: usize, av: &[f64], xv: &[f64], bv: &[f64], tol: f64, slack: f64) -> Result<(), String> {
    if bv.len() != xv.len() || n == 0 || bv.len() % n != 0 || av.len() != n * n { return Err("solution has another element count than the right-hand side".into()) }
    let k = bv.len() / n;
    let na = (0..n).map(|i| (0..n).map(|t| av[i * n + t].abs()).sum::<f64>()).fold(0., f64::max);
    for c in 0..k {
        let nx = (0..n).fold(0f64, |m, t| m.max(xv[t * k + c].abs()));
        let nb = (0..n).fold(0f64, |m, i| m.max(bv[i * k + c].abs()));
        if !nx.is_finite() { return Err(format!("solution column {c} is not finite")) }
        // the same bound for the column-equilibrated system A D^-1 (D x), D = diag of the column maxima: ||A D^-1||_inf <= n
        let ny = (0..n).fold(0f64, |m, t| m.max(xv[t * k + c].abs() * col_max(n, n, av, t))) * n as f64;
        for i in 0..n {
            let r: f64 = (0..n).map(|t| av[i * n + t] * xv[t * k + c]).sum::<f64>() - bv[i * k + c];
            let bound = tol * ((na * nx).min(ny) * n as f64 + nb) + slack;
            if !(r.abs() <= bound) { return Err(format!("residual (A x - b)[{i}][{c}] = {r:e} exceeds rounding accuracy ({bound:e})")) }
        }
    }
    Ok(())
}

fn exec_solve(args: &[&str], expected: &str) -> Option<Verdict> {
    let (a, b) = (arr_f64(args[0])?, arr_f64(args[1])?);
    if b.ndim().ok()? == 0 { // `other.get_shape()[0]` on a 0-d right-hand side: the outcome class belongs to C09, not to this property
        let o = guarded(|| show_res(&a.solve(&b), show_f));
        // modelled (`Res.idx b.shape 0` of solveArr; theorem solve_zero_dim_rhs): a square matrix -> the index panics, otherwise the
        // validation error that comes first.  The outcome CLASS is compared (that it ought to be an error value is C09's business).
        return Some(compare_default(o, expected));
    }
    let real = match std::panic::catch_unwind(std::panic::AssertUnwindSafe(|| a.solve(&b))) { Ok(r) => r, Err(_) => return Some(compare_default("panic".into(), expected)) };
    if let Some(d) = recv_arr(&real, || { let r: Result<Array<f64>, ArrayError> = Ok(a.clone()); r.solve(&b) }) { return Some(d) }
    // a singular matrix must be refused with exactly the singular-matrix error
    let exact_err = expected == "err SingularMatrix";
    let first = cmp_arr(&real, expected, exact_err);
    if let (Ok(_), Ok(x)) = (&first, &real) {
        // (ii) residual oracle on the code's own answer, per column: |A x - b| <= 1e-13 * (n ||A||_inf ||x||_inf + ||b||_inf)
        let (n, av) = mat_of(args[0]);
        let bv: Vec<f64> = parse_arr_raw(args[1]).1.into_iter().map(|v| v as f64).collect();
        let xv = x.get_elements().unwrap();
        if let Err(d) = residual_cols(n, &av, &xv, &bv, RES_TOL, 0.) { return mismatch(show_f(x), d) }
    }
    to_verdict(first)
}

fn exec_det(args: &[&str], expected: &str) -> Option<Verdict> {
    let a = arr_f64(args[0])?;
    let real = match std::panic::catch_unwind(std::panic::AssertUnwindSafe(|| a.det())) { Ok(r) => r, Err(_) => return Some(compare_default("panic".into(), expected)) };
    if let Some(d) = recv_arr(&real, || { let r: Result<Array<f64>, ArrayError> = Ok(a.clone()); r.det() }) { return Some(d) }
    to_verdict(cmp_arr(&real, expected, false))
}

fn det_of(m: &M) -> Result<f64, String> {
    let a = Array::new(m.iter().flatten().map(|&x| x as f64).collect::<Vec<f64>>(), vec![m.len(), m.len()]).map_err(|e| format!("err {}", err_name(&e)))?;
    // both receivers: the chained call must give the same bits
    let chained = std::panic::catch_unwind(std::panic::AssertUnwindSafe(|| { let r: Result<Array<f64>, ArrayError> = Ok(a.clone()); r.det() }));
    match std::panic::catch_unwind(std::panic::AssertUnwindSafe(|| a.det())) {
        Ok(Ok(d)) => {
            match chained { Ok(Ok(c)) if same_arr(&d, &c) => {}, _ => return Err("RECEIVER-DIVERGENCE: det on Ok(array) differs from det on the array".into()) }
            let e = d.get_elements().unwrap(); if e.len() == 1 { Ok(e[0]) } else { Err(format!("det returned {} values", e.len())) } }
        Ok(Err(e)) => Err(format!("err {}", err_name(&e))),
        Err(_) => Err("panic".into()),
    }
}
fn int_mat(s: &str) -> M { let (shape, e) = parse_arr_raw(s); e.chunks(shape[1]).map(|r| r.to_vec()).collect() }
fn expected_scalar(expected: &str) -> Option<f64> { parse_rat(expected.strip_prefix("ok ")?) }

fn exec_det_mul(args: &[&str], expected: &str) -> Option<Verdict> {
    let (a, b) = (int_mat(args[0]), int_mat(args[1]));
    let c = mat_mul(&a, &b);
    let m = expected_scalar(expected)?;
    match (det_of(&a), det_of(&b), det_of(&c)) {
        (Ok(da), Ok(db), Ok(dc)) => {
            let obs = format!("ok det(A)={da:e} det(B)={db:e} det(AB)={dc:e}");
            if !close(dc, m) { return mismatch(obs, format!("det(AB): exact model {m:e}")) }
            if !close(dc, da * db) { return mismatch(obs, "det(AB) != det(A) det(B)".into()) }
            Some(Verdict::Match(obs))
        }
        (x, y, z) => mismatch(format!("{:?} {:?} {:?}", x, y, z), "det refused a square matrix".into()),
    }
}

fn exec_det_swap(args: &[&str], expected: &str) -> Option<Verdict> {
    let a = int_mat(args[0]);
    let (i, j): (usize, usize) = (args[1].parse().ok()?, args[2].parse().ok()?);
    let mut s = a.clone(); s.swap(i, j);
    let m = expected_scalar(expected)?;
    match (det_of(&a), det_of(&s)) {
        (Ok(da), Ok(ds)) => {
            let obs = format!("ok det(A)={da:e} det(swapped)={ds:e}");
            if !close(ds, m) { return mismatch(obs, format!("det(swapped): exact model {m:e}")) }
            let want = if i == j { da } else { -da };
            if !close(ds, want) { return mismatch(obs, "a row exchange must flip the sign of det".into()) }
            Some(Verdict::Match(obs))
        }
        (x, y) => mismatch(format!("{:?} {:?}", x, y), "det refused a square matrix".into()),
    }
}

fn exec_det_elim(args: &[&str], expected: &str) -> Option<Verdict> {
    let a = int_mat(args[0]);
    let m = expected_scalar(expected)?;
    match det_of(&a) {
        Ok(d) => {
            let obs = format!("ok {d:e}");
            let exact = det_exact(&a) as f64;
            if !close(d, m) { return mismatch(obs, format!("det by cofactors {d:e}, by elimination (exact model) {m:e}")) }
            if !close(d, exact) { return mismatch(obs, format!("det {d:e}, exact integer determinant {exact:e}")) }
            Some(Verdict::Match(obs))
        }
        Err(o) => mismatch(o, "det refused a square matrix".into()),
    }
}

fn sym_val(s: &str) -> Option<(f64, bool)> {
    if let Some(rest) = s.strip_prefix('r') {
        let (p, q) = rest.split_once('=')?;
        let (p, q) = (p.parse::<u32>().ok()?, parse_rat(q)?);
        Some((if p == 2 { q.sqrt() } else { q.powf(1. / p as f64) }, p == 2))
    } else { Some((parse_rat(s)?, true)) }
}

fn exec_norm(args: &[&str], expected: &str) -> Option<Verdict> {
    let a = arr_f64(args[0])?;
    let axis: Option<Vec<isize>> = if args[2] == "none" { None } else { Some(parse_isize_list(args[2])) };
    let keep: Option<bool> = match args[3] { "none" => None, "true" => Some(true), "false" => Some(false), _ => return None };
    let real = match std::panic::catch_unwind(std::panic::AssertUnwindSafe(|| call_norm(&a, args[1], &axis, keep))) { Ok(r) => r, Err(_) => {
        if expected == "open" { return Some(Verdict::Open("panic".into())) }
        return Some(compare_default("panic".into(), expected)) } };
    if let Some(d) = recv_arr(&real, || { let r: Result<Array<f64>, ArrayError> = Ok(a.clone()); call_norm(&r, args[1], &axis, keep) }) { return Some(d) }
    let observed = show_res(&real, show_f);
    if expected == "open" { return Some(Verdict::Open(observed)) }
    // an empty operand is modelled since `normX` (ArrModel/C15Ext.lean: the reductions of the shared C08 model refuse / answer 0
    // exactly as the crate does, `is_broadcastable` refuses a zero-length axis): compared in full like every other case
    match &real {
        Err(_) => Some(compare_default(observed, expected)),
        Ok(r) => {
            if !consistent(r) { return mismatch(observed, "inconsistent array (C01 monitor)".into()) }
            let Some(body) = expected.strip_prefix("ok ") else { return mismatch(observed, format!("model says `{}`", expected)) };
            let (sh, el) = body.split_once(':')?;
            let shape = parse_usize_list(sh);
            let vals: Vec<(f64, bool)> = if el == "-" { vec![] } else { el.split(',').map(sym_val).collect::<Option<Vec<_>>>()? };
            let (rs, re) = (r.get_shape().unwrap(), r.get_elements().unwrap());
            if rs != shape { return mismatch(observed, format!("shape: model {:?}", shape)) }
            for (p, (&c, &(m, tight))) in re.iter().zip(&vals).enumerate() {
                let ok = if tight { (c - m).abs() <= 1e-12 * (1. + m.abs()) } else { close(c, m) };
                if !ok { return mismatch(observed, format!("element {p}: code {c:e}, model {m:e}")) }
            }
            // (ii) definitions evaluated natively for the forms the statement names (whole-array default, vector 1 / 2 / inf)
            let e: Vec<f64> = parse_arr_raw(args[0]).1.into_iter().map(|v| v as f64).collect();
            let nd = a.ndim().unwrap();
            if args[2] == "none" && re.len() == 1 {
                let want = match args[1] {
                    "none" => Some(e.iter().map(|x| x * x).sum::<f64>().sqrt()),
                    "i2" if nd == 1 => Some(e.iter().map(|x| x * x).sum::<f64>().sqrt()),
                    "i1" if nd == 1 => Some(e.iter().map(|x| x.abs()).sum::<f64>()),
                    "inf" if nd == 1 => Some(e.iter().fold(0f64, |m, x| m.max(x.abs()))),
                    _ => None,
                };
                if let Some(w) = want { if !((re[0] - w).abs() <= 1e-12 * (1. + w.abs())) { return mismatch(observed, format!("definition gives {w:e}")) } }
            }
            Some(Verdict::Match(observed))
        }
    }
}

fn exec_qr(args: &[&str], expected: &str) -> Option<Verdict> {
    let a = arr_f64(args[0])?;
    let real = match std::panic::catch_unwind(std::panic::AssertUnwindSafe(|| a.qr())) { Ok(r) => r, Err(_) => return Some(compare_default("panic".into(), expected)) };
    if let Some(d) = recv_qr(&real, || { let r: Result<Array<f64>, ArrayError> = Ok(a.clone()); r.qr() }) { return Some(d) }
    let observed = match &real { Ok(v) => format!("ok {} pair(s)", v.len()), Err(e) => format!("err {}", err_name(e)) };
    let pairs = match &real { Err(_) => return Some(compare_default(observed, expected)), Ok(v) => v };
    let Some(body) = expected.strip_prefix("ok ") else { return mismatch(observed, format!("model says `{}`", truncate(expected, 200))) };
    let exp: Vec<&str> = body.split(';').collect();
    if exp.len() != pairs.len() { return mismatch(observed, format!("model has {} factor pairs", exp.len())) }
    let (shape, elems) = parse_arr_raw(args[0]);
    let n = shape[shape.len() - 1];
    let mut open = false;
    for (t, ((q, r), e)) in pairs.iter().zip(&exp).enumerate() {
        let parts: Vec<&str> = e.split('|').collect();
        let rats = |s: &str| -> Option<Vec<f64>> { s.split(',').map(parse_rat).collect() };
        let (us, nrm2, ru) = (rats(parts[0])?, rats(parts[1])?, rats(parts[2])?);
        let av: Vec<f64> = elems[t * n * n..(t + 1) * n * n].iter().map(|&x| x as f64).collect();
        // linearly dependent columns: Gram–Schmidt divides by a zero norm; the statement is about well-conditioned matrices
        if nrm2.iter().any(|&x| x == 0.) { open = true; continue }
        if q.get_shape().unwrap() != vec![n, n] || r.get_shape().unwrap() != vec![n, n] { return mismatch(observed, format!("pair {t}: shapes {:?} {:?}", q.get_shape(), r.get_shape())) }
        let (qv, rv) = (q.get_elements().unwrap(), r.get_elements().unwrap());
        let scale = av.iter().fold(1f64, |m, x| m.max(x.abs())) * n as f64;
        for i in 0..n { for k in 0..n {
            // (i) against the exact Gram–Schmidt vectors with the root taken here
            let (mq, mr) = (us[k * n + i] / nrm2[k].sqrt(), ru[k * n + i] / nrm2[k].sqrt());
            if !((qv[i * n + k] - mq).abs() <= TOL * scale) { return mismatch(observed, format!("pair {t}: Q[{i}][{k}] = {:e}, model {:e}", qv[i * n + k], mq)) }
            if !((rv[k * n + i] - mr).abs() <= TOL * scale * scale) { return mismatch(observed, format!("pair {t}: R[{k}][{i}] = {:e}, model {:e}", rv[k * n + i], mr)) }
            // (ii) defining equations on the code's own factors
            let qtq: f64 = (0..n).map(|s| qv[s * n + i] * qv[s * n + k]).sum();
            if !((qtq - if i == k { 1. } else { 0. }).abs() <= TOL * scale) { return mismatch(observed, format!("pair {t}: (Q^T Q)[{i}][{k}] = {qtq:e}")) }
            if i > k && !(rv[i * n + k].abs() <= TOL * scale * scale) { return mismatch(observed, format!("pair {t}: R[{i}][{k}] = {:e} below the diagonal", rv[i * n + k])) }
            let qr: f64 = (0..n).map(|s| qv[i * n + s] * rv[s * n + k]).sum();
            if !((qr - av[i * n + k]).abs() <= TOL * scale * scale) { return mismatch(observed, format!("pair {t}: (Q R)[{i}][{k}] = {qr:e}, A = {:e}", av[i * n + k])) }
        } }
    }
    if open { Some(Verdict::Open(observed)) } else { Some(Verdict::Match(observed)) }
}

// ---------------------------------------------------------------- both receivers

fn bits_eq(a: f64, b: f64) -> bool { a.to_bits() == b.to_bits() || (a.is_nan() && b.is_nan()) }
fn same_arr<T: Numeric>(p: &Array<T>, c: &Array<T>) -> bool {
    let (pe, ce) = (p.get_elements().unwrap(), c.get_elements().unwrap());
    p.get_shape().unwrap() == c.get_shape().unwrap() && pe.len() == ce.len() && pe.iter().zip(&ce).all(|(x, y)| bits_eq(x.to_f64(), y.to_f64()))
}
fn show_t<T: Numeric>(a: &Array<T>) -> String {
    format!("{}:{}", show_list(&a.get_shape().unwrap()), a.get_elements().unwrap().iter().map(|x| format!("{:e}", x.to_f64())).collect::<Vec<_>>().join(","))
}
/// the chained call (`Ok(array).op(..)` through `impl … for Result<Array<N>, ArrayError>`) must give the plain call's answer bit for bit
fn recv_arr<T: Numeric>(plain: &Result<Array<T>, ArrayError>, chained: impl FnOnce() -> Result<Array<T>, ArrayError>) -> Option<Verdict> {
    let c = match std::panic::catch_unwind(std::panic::AssertUnwindSafe(chained)) {
        Ok(c) => c,
        Err(_) => return mismatch(format!("RECEIVER-DIVERGENCE chained call panics, plain call `{}`", truncate(&show_res(plain, show_t), 300)), "the call on Ok(array) must behave like the call on the array".into()),
    };
    let same = match (plain, &c) { (Ok(p), Ok(c)) => same_arr(p, c), (Err(p), Err(c)) => err_name(p) == err_name(c), _ => false };
    if same { None } else {
        mismatch(format!("RECEIVER-DIVERGENCE chained call gives `{}`, plain call `{}`", truncate(&show_res(&c, show_t), 300), truncate(&show_res(plain, show_t), 300)),
                 "the call on Ok(array) must behave like the call on the array".into())
    }
}
fn recv_qr<T: Numeric>(plain: &Result<Vec<(Array<T>, Array<T>)>, ArrayError>, chained: impl FnOnce() -> Result<Vec<(Array<T>, Array<T>)>, ArrayError>) -> Option<Verdict> {
    let cls = |r: &Result<Vec<(Array<T>, Array<T>)>, ArrayError>| match r { Ok(v) => format!("ok {} pair(s)", v.len()), Err(e) => format!("err {}", err_name(e)) };
    let c = match std::panic::catch_unwind(std::panic::AssertUnwindSafe(chained)) {
        Ok(c) => c,
        Err(_) => return mismatch(format!("RECEIVER-DIVERGENCE chained call panics, plain call `{}`", cls(plain)), "the call on Ok(array) must behave like the call on the array".into()),
    };
    let same = match (plain, &c) {
        (Ok(p), Ok(c)) => p.len() == c.len() && p.iter().zip(c).all(|((pq, pr), (cq, cr))| same_arr(pq, cq) && same_arr(pr, cr)),
        (Err(p), Err(c)) => err_name(p) == err_name(c), _ => false };
    if same { None } else { mismatch(format!("RECEIVER-DIVERGENCE chained call gives `{}` (different factors), plain call `{}`", cls(&c), cls(plain)), "the call on Ok(array) must behave like the call on the array".into()) }
}

// ---------------------------------------------------------------- element types and exact scales (the `x…` ops)

trait El: NumericOps {
    const INT: bool;
    /// model-vs-code relative tolerance (rounding of the element type)
    const RTOL: f64;
    /// the same for values the model has in closed form (sums, maxima, one square root)
    const RTOL_TIGHT: f64;
    /// residual of solve relative to n |A| |x| + |b| (the crate eliminates in f64 whatever the element type; f32 rounds the answer once)
    const RES: f64;
    fn of(v: f64) -> Self { <Self as Numeric>::from_f64(v) }
}
impl El for f64 { const INT: bool = false; const RTOL: f64 = TOL; const RTOL_TIGHT: f64 = 1e-12; const RES: f64 = RES_TOL; }
impl El for f32 { const INT: bool = false; const RTOL: f64 = 2e-5; const RTOL_TIGHT: f64 = 2e-6; const RES: f64 = 2e-6; }
impl El for i32 { const INT: bool = true; const RTOL: f64 = 0.; const RTOL_TIGHT: f64 = 0.; const RES: f64 = 0.; }
impl El for i64 { const INT: bool = true; const RTOL: f64 = 0.; const RTOL_TIGHT: f64 = 0.; const RES: f64 = 0.; }

#[derive(Clone, Copy)]
struct Scale { v: f64, pow2: bool }
fn parse_scale(s: &str) -> Option<Scale> {
    match s.split_once('^') {
        None => { let v: i64 = s.parse().ok()?; Some(Scale { v: v as f64, pow2: v == 1 }) }
        Some((b, e)) => {
            let (b, e): (u32, i32) = (b.parse().ok()?, e.parse().ok()?);
            match b { 2 => Some(Scale { v: 2f64.powi(e), pow2: true }), 10 => Some(Scale { v: format!("1e{e}").parse().ok()?, pow2: false }), _ => None }
        }
    }
}
struct Variant<'a> { ty: &'a str, sa: Scale, sb: Scale }
fn parse_variant(s: &str) -> Option<Variant<'_>> {
    let mut it = s.split('/');
    let (ty, sa, sb) = (it.next()?, parse_scale(it.next()?)?, parse_scale(it.next()?)?);
    if it.next().is_some() { return None }
    Some(Variant { ty, sa, sb })
}
fn arr_t<T: El>(s: &str, sc: f64) -> Option<Array<T>> {
    let (shape, elems) = parse_arr_raw(s);
    Array::new(elems.into_iter().map(|x| T::of(x as f64 * sc)).collect(), shape).ok()
}
/// what the element type can hold of the exact value (`N::from(f64)`: truncation for the integer types)
fn want<T: El>(m: f64) -> f64 { T::of(m).to_f64() }
fn close_t<T: El>(code: f64, model: f64, unit: f64, tight: bool, int_slack: f64) -> bool {
    let w = want::<T>(model);
    if T::INT { (code - w).abs() <= int_slack }
    else { (code - w).abs() <= (if tight { T::RTOL_TIGHT } else { T::RTOL }) * (unit + w.abs()) }
}

/// typed analogue of `cmp_arr`: tolerance relative to `unit`, the natural magnitude of the answer
fn cmp_arr_t<T: El>(real: &Result<Array<T>, ArrayError>, expected: &str, exact_err: bool, unit: f64, int_slack: f64) -> Result<String, (String, String)> {
    let observed = show_res(real, show_t);
    match real {
        Err(e) => {
            if class_of(expected) == "err" && (!exact_err || expected == format!("err {}", err_name(e))) { Ok(observed) }
            else { Err((observed, format!("model says `{}`", truncate(expected, 300)))) }
        }
        Ok(a) => {
            if !consistent(a) { return Err((observed, "inconsistent array (C01 monitor)".into())) }
            let Some(body) = expected.strip_prefix("ok ") else { return Err((observed, format!("model says `{}`", truncate(expected, 300)))) };
            let Some((shape, vals)) = parse_expected_arr(body) else { return Err((observed, "harness: cannot parse the model's answer".into())) };
            let (rs, re) = (a.get_shape().unwrap(), a.get_elements().unwrap());
            if rs != shape { return Err((observed, format!("shape: model {:?}", shape))) }
            if re.len() != vals.len() { return Err((observed, format!("{} elements, the model has {}", re.len(), vals.len()))) }
            for (p, (c, &m)) in re.iter().zip(&vals).enumerate() {
                let c = c.to_f64();
                if !close_t::<T>(c, m, unit, false, int_slack) { return Err((observed, format!("element {p}: code {c:e}, exact model {m:e} (relative to the unit {unit:e})"))) }
            }
            Ok(observed)
        }
    }
}

/// the scale-equivariance oracles apply to f64 and an exactly representable scale other than 1
const EQV_TOL: f64 = 1e-13;
fn equivariant<T: El>(s: Scale) -> bool { !T::INT && T::RTOL == TOL && s.pow2 && s.v != 1. }

fn x_det<T: El>(a_s: &str, v: &Variant, expected: &str) -> Option<Verdict> {
    let a = arr_t::<T>(a_s, v.sa.v)?;
    let real = match std::panic::catch_unwind(std::panic::AssertUnwindSafe(|| a.det())) { Ok(r) => r, Err(_) => return Some(compare_default("panic".into(), expected)) };
    if let Some(d) = recv_arr(&real, || { let r: Result<Array<T>, ArrayError> = Ok(a.clone()); r.det() }) { return Some(d) }
    let (shape, ints) = parse_arr_raw(a_s);
    let n = shape.last().copied().unwrap_or(0);
    let unit = v.sa.v.powi(n as i32);
    let first = cmp_arr_t(&real, expected, false, unit, 0.);
    // native oracle: the exact integer determinant (Bareiss) of every matrix of the stack, scaled
    if let (Ok(_), Ok(d), true) = (&first, &real, shape.len() >= 2 && n >= 2 && shape[shape.len() - 2] == n) {
        for (t, (blk, c)) in ints.chunks(n * n).zip(d.get_elements().unwrap()).enumerate() {
            let m: M = blk.chunks(n).map(|r| r.to_vec()).collect();
            let exact = det_exact(&m) as f64 * unit;
            if !close_t::<T>(c.to_f64(), exact, unit, false, 0.) { return mismatch(show_t(d), format!("matrix {t}: det {:e}, exact integer determinant x scale^n {exact:e}", c.to_f64())) }
        }
        // scale equivariance (power-of-two scale, exact in f64): det(s A) = s^n det(A) to the last bits
        if equivariant::<T>(v.sa) && unit.is_normal() {
            if let Some(Ok(d0)) = arr_t::<T>(a_s, 1.).map(|p| p.det()) {
                for (t, (c, c0)) in d.get_elements().unwrap().iter().zip(d0.get_elements().unwrap()).enumerate() {
                    let (c, w) = (c.to_f64(), c0.to_f64() * unit);
                    if !((c - w).abs() <= EQV_TOL * w.abs()) { return mismatch(show_t(d), format!("matrix {t}: det(s A) = {c:e}, s^n det(A) = {w:e} (s = {:e})", v.sa.v)) }
                }
            }
        }
    }
    to_verdict(first)
}

fn x_solve<T: El>(a_s: &str, b_s: &str, v: &Variant, expected: &str) -> Option<Verdict> {
    let (a, b) = (arr_t::<T>(a_s, v.sa.v)?, arr_t::<T>(b_s, v.sb.v)?);
    if b.ndim().ok()? == 0 { return Some(compare_default(guarded(|| show_res(&a.solve(&b), show_t)), expected)) }
    let real = match std::panic::catch_unwind(std::panic::AssertUnwindSafe(|| a.solve(&b))) { Ok(r) => r, Err(_) => return Some(compare_default("panic".into(), expected)) };
    if let Some(d) = recv_arr(&real, || { let r: Result<Array<T>, ArrayError> = Ok(a.clone()); r.solve(&b) }) { return Some(d) }
    let (ash, aints) = parse_arr_raw(a_s);
    let square = ash.len() == 2 && ash[0] == ash[1] && ash[0] >= 2;
    let n = ash.first().copied().unwrap_or(0);
    // residual of the code's own answer, relative: ||A x - b||_inf <= tol * (n ||A||_inf ||x||_inf + ||b||_inf)
    let residual_ok = |x: &Array<T>| -> Result<(), String> {
        let av: Vec<f64> = a.get_elements().unwrap().iter().map(|e| e.to_f64()).collect();
        let bv: Vec<f64> = b.get_elements().unwrap().iter().map(|e| e.to_f64()).collect();
        let xv: Vec<f64> = x.get_elements().unwrap().iter().map(|e| e.to_f64()).collect();
        // integer element types: the solution is truncated, each component may be off by one unit; f64: rounding level, per column
        let na = (0..n).map(|i| (0..n).map(|t| av.get(i * n + t).map_or(0., |v| v.abs())).sum::<f64>()).fold(0., f64::max);
        residual_cols(n, &av, &xv, &bv, if T::INT { 0. } else { T::RES }, if T::INT { na } else { 0. })
    };
    if square && expected == "err SingularMatrix" {
        let m: M = aints.chunks(n).map(|r| r.to_vec()).collect();
        let d = det_exact(&m);
        if d != 0 {
            // OPEN FINDING fixes/C15-solve-absolute-singularity-threshold.md: `|det| < 1e-12` is an absolute test; a well-conditioned matrix with
            // small entries is refused (model and code agree on that).  Not compared; a correct solution is accepted as well.
            return Some(match &real {
                Err(ArrayError::SingularMatrix) => Verdict::Open("err SingularMatrix (well-conditioned matrix with small entries: absolute 1e-12 determinant test)".into()),
                Ok(x) if residual_ok(x).is_ok() => Verdict::Open(format!("ok {} (solved; the model's absolute determinant test refuses)", show_t(x))),
                other => Verdict::Mismatch { observed: show_res(other, show_t), detail: "well-conditioned scaled system: neither refused by the absolute determinant test nor solved".into() },
            })
        }
        if !v.sa.pow2 {
            // exactly singular integer matrix times a decimal scale: the cofactor determinant carries rounding noise far above 1e-12 (same finding)
            if let Ok(x) = &real { return Some(Verdict::Open(format!("ok {} (singular matrix, decimal scale: rounding noise of det exceeds the absolute 1e-12 test)", truncate(&show_t(x), 200)))) }
        }
    }
    let exact_err = expected == "err SingularMatrix";
    let unit = v.sb.v / v.sa.v;
    let first = cmp_arr_t(&real, expected, exact_err, unit, 1.);
    if let (Ok(_), Ok(x)) = (&first, &real) {
        if let Err(d) = residual_ok(x) { return mismatch(show_t(x), d) }
        // scale equivariance: solve(sa A, sb b) = (sb / sa) solve(A, b) to the last bits for power-of-two scales (the pivots, multipliers
        // and substitutions are the same numbers up to the exponent)
        if !T::INT && T::RTOL == TOL && v.sa.pow2 && v.sb.pow2 && (v.sa.v != 1. || v.sb.v != 1.) {
            if let (Some(a0), Some(b0)) = (arr_t::<T>(a_s, 1.), arr_t::<T>(b_s, 1.)) { if let Ok(x0) = a0.solve(&b0) {
                let (xv, x0v): (Vec<f64>, Vec<f64>) = (x.get_elements().unwrap().iter().map(|e| e.to_f64()).collect(), x0.get_elements().unwrap().iter().map(|e| e.to_f64()).collect());
                if xv.len() == x0v.len() && n > 0 {
                    let k = xv.len() / n;
                    for c in 0..k {
                        let cm = col_max(n, k, &x0v, c) * unit;
                        for i in 0..n {
                            let w = x0v[i * k + c] * unit;
                            if !((xv[i * k + c] - w).abs() <= EQV_TOL * cm) { return mismatch(show_t(x), format!("x[{i}][{c}] = {:e}, but (sb/sa) * solve(A, b) = {w:e} for the unscaled system", xv[i * k + c])) }
                        }
                    }
                }
            } }
        }
    }
    to_verdict(first)
}

/// the order argument in its three spellings: enum (`inf`, `i2`, …), `&str` (`s<hex>`), `String` (`S<hex>`)
fn hex_text(h: &str) -> String { String::from_utf8((0..h.len() / 2).filter_map(|i| u8::from_str_radix(h.get(2 * i..2 * i + 2)?, 16).ok()).collect()).unwrap_or_default() }

fn call_norm<T: El, R: ArrayLinalgNorms<T>>(recv: &R, o: &str, axis: &Option<Vec<isize>>, keep: Option<bool>) -> Result<Array<T>, ArrayError> {
    let unhex = |h: &str| -> String { String::from_utf8((0..h.len() / 2).map(|i| u8::from_str_radix(&h[2 * i..2 * i + 2], 16).unwrap()).collect()).unwrap() };
    if o == "none" { recv.norm(None::<NormOrd>, axis.clone(), keep) }
    else if let Some(h) = o.strip_prefix('s') { let text = unhex(h); recv.norm(Some(text.as_str()), axis.clone(), keep) }
    else if let Some(h) = o.strip_prefix('S') { recv.norm(Some(unhex(h)), axis.clone(), keep) }
    else {
        let ord = match o { "inf" => NormOrd::Inf, "ninf" => NormOrd::NegInf, "fro" => NormOrd::Fro, "nuc" => NormOrd::Nuc, _ => NormOrd::Int(o[1..].parse().unwrap()) };
        recv.norm(Some(ord), axis.clone(), keep)
    }
}

fn x_norm<T: El>(args: &[&str], v: &Variant, expected: &str) -> Option<Verdict> {
    let a = arr_t::<T>(args[0], v.sa.v)?;
    let axis: Option<Vec<isize>> = if args[2] == "none" { None } else { Some(parse_isize_list(args[2])) };
    let keep: Option<bool> = match args[3] { "none" => None, "true" => Some(true), "false" => Some(false), _ => return None };
    let neg_ord = args[1].strip_prefix('i').and_then(|t| t.parse::<i64>().ok()).or_else(|| args[1].strip_prefix(['s', 'S']).and_then(|h| hex_text(h).parse::<i64>().ok())).map_or(false, |p| p < 0);
    let neg_int = neg_ord && (v.ty == "i32" || v.ty == "i64");
    let real = match std::panic::catch_unwind(std::panic::AssertUnwindSafe(|| call_norm(&a, args[1], &axis, keep))) { Ok(r) => r, Err(_) => {
        // integer element type, negative order, a zero in the array: `N::from(f64::INFINITY)` panics (fixes/C15-norm-negative-order-integer-panic.md)
        if expected == "open" || neg_int { return Some(Verdict::Open("panic".into())) }
        return Some(compare_default("panic".into(), expected)) } };
    if let Some(d) = recv_arr(&real, || { let r: Result<Array<T>, ArrayError> = Ok(a.clone()); call_norm(&r, args[1], &axis, keep) }) { return Some(d) }
    let observed = show_res(&real, show_t);
    if expected == "open" { return Some(Verdict::Open(observed)) }
    // an empty operand is modelled since `normX` (see exec_norm): compared in full.  Negative orders of the one-axis arm on the INTEGER
    // element types stay open: `N::from` truncates 1/|x| to 0 between the two `float_power` calls, which the rational model does not do
    if neg_int { return Some(Verdict::Open(observed)) }
    match &real {
        Err(_) => Some(compare_default(observed, expected)),
        Ok(r) => {
            if !consistent(r) { return mismatch(observed, "inconsistent array (C01 monitor)".into()) }
            let Some(body) = expected.strip_prefix("ok ") else { return mismatch(observed, format!("model says `{}`", expected)) };
            let (sh, el) = body.split_once(':')?;
            let shape = parse_usize_list(sh);
            let vals: Vec<(f64, bool)> = if el == "-" { vec![] } else { el.split(',').map(sym_val).collect::<Option<Vec<_>>>()? };
            let (rs, re) = (r.get_shape().unwrap(), r.get_elements().unwrap());
            if rs != shape { return mismatch(observed, format!("shape: model {:?}", shape)) }
            if re.len() != vals.len() { return mismatch(observed, format!("{} elements, the model has {}", re.len(), vals.len())) }
            let unit = v.sa.v;
            for (p, (c, &(m, tight))) in re.iter().zip(&vals).enumerate() {
                let c = c.to_f64();
                if !close_t::<T>(c, m, unit, tight, 0.) { return mismatch(observed, format!("element {p}: code {c:e}, model {m:e} (relative to the scale {unit:e})")) }
            }
            // definitions evaluated natively on the very elements the crate received
            let e: Vec<f64> = a.get_elements().unwrap().iter().map(|x| x.to_f64()).collect();
            let nd = a.ndim().unwrap();
            if args[2] == "none" && re.len() == 1 {
                let o = args[1];
                let want_v = if o == "none" || (o == "i2" && nd == 1) || (o == "fro" && nd == 2) { Some(e.iter().map(|x| x * x).sum::<f64>().sqrt()) }
                    else if o == "i1" && nd == 1 { Some(e.iter().map(|x| x.abs()).sum::<f64>()) }
                    else if o == "inf" && nd == 1 { Some(e.iter().fold(0f64, |m, x| m.max(x.abs()))) }
                    else { None };
                if let Some(w) = want_v { if !close_t::<T>(re[0].to_f64(), w, unit, true, 0.) { return mismatch(observed, format!("definition gives {w:e}")) } }
            }
            // scale equivariance: norm(s A) = s norm(A) (order 0 counts: unchanged) for a power-of-two scale
            if equivariant::<T>(v.sa) {
                if let Some(Ok(r0)) = arr_t::<T>(args[0], 1.).map(|p| call_norm(&p, args[1], &axis, keep)) {
                    let zero_ord = args[1] == "i0" || args[1].strip_prefix(['s', 'S']).map_or(false, |h| hex_text(h).parse::<i64>() == Ok(0));
                    for (p, (c, c0)) in re.iter().zip(r0.get_elements().unwrap()).enumerate() {
                        let (c, w) = (c.to_f64(), if zero_ord { c0.to_f64() } else { c0.to_f64() * unit });
                        if !((c - w).abs() <= EQV_TOL * w.abs()) { return mismatch(observed, format!("element {p}: norm(s A) = {c:e}, s norm(A) = {w:e} (s = {unit:e})")) }
                    }
                }
            }
            Some(Verdict::Match(observed))
        }
    }
}

fn x_qr<T: El>(a_s: &str, v: &Variant, expected: &str) -> Option<Verdict> {
    let a = arr_t::<T>(a_s, v.sa.v)?;
    let real = match std::panic::catch_unwind(std::panic::AssertUnwindSafe(|| a.qr())) { Ok(r) => r, Err(_) => return Some(compare_default("panic".into(), expected)) };
    if let Some(d) = recv_qr(&real, || { let r: Result<Array<T>, ArrayError> = Ok(a.clone()); r.qr() }) { return Some(d) }
    let observed = match &real { Ok(v) => format!("ok {} pair(s)", v.len()), Err(e) => format!("err {}", err_name(e)) };
    let pairs = match &real { Err(_) => return Some(compare_default(observed, expected)), Ok(v) => v };
    let Some(body) = expected.strip_prefix("ok ") else { return mismatch(observed, format!("model says `{}`", truncate(expected, 200))) };
    let exp: Vec<&str> = body.split(';').collect();
    if exp.len() != pairs.len() { return mismatch(observed, format!("model has {} factor pairs", exp.len())) }
    let (shape, elems) = parse_arr_raw(a_s);
    let n = shape[shape.len() - 1];
    let s = v.sa.v;
    // f32 Gram–Schmidt: the factors carry the rounding of the element type times the (bounded) condition number
    let tol = if T::RTOL > TOL { 50. * T::RTOL } else { TOL };
    let av_all: Vec<f64> = a.get_elements().unwrap().iter().map(|x| x.to_f64()).collect();
    let plain = if equivariant::<T>(v.sa) { arr_t::<T>(a_s, 1.).and_then(|p| p.qr().ok()) } else { None };
    let mut open = false;
    for (t, ((q, r), e)) in pairs.iter().zip(&exp).enumerate() {
        let parts: Vec<&str> = e.split('|').collect();
        let rats = |s: &str| -> Option<Vec<f64>> { s.split(',').map(parse_rat).collect() };
        let (us, nrm2, ru) = (rats(parts[0])?, rats(parts[1])?, rats(parts[2])?);
        let av = &av_all[t * n * n..(t + 1) * n * n];
        if nrm2.iter().any(|&x| x == 0.) { open = true; continue }
        if q.get_shape().unwrap() != vec![n, n] || r.get_shape().unwrap() != vec![n, n] { return mismatch(observed, format!("pair {t}: shapes {:?} {:?}", q.get_shape(), r.get_shape())) }
        let (qv, rv): (Vec<f64>, Vec<f64>) = (q.get_elements().unwrap().iter().map(|x| x.to_f64()).collect(), r.get_elements().unwrap().iter().map(|x| x.to_f64()).collect());
        // magnitudes of the UNSCALED integer matrix: Q is scale free, R and Q R carry the scale once
        let scale = elems[t * n * n..(t + 1) * n * n].iter().fold(1f64, |m, &x| m.max((x as f64).abs())) * n as f64;
        for i in 0..n { for k in 0..n {
            let (mq, mr) = (us[k * n + i] / nrm2[k].sqrt(), ru[k * n + i] / nrm2[k].sqrt());
            if !((qv[i * n + k] - mq).abs() <= tol * scale) { return mismatch(observed, format!("pair {t}: Q[{i}][{k}] = {:e}, model {:e}", qv[i * n + k], mq)) }
            if !((rv[k * n + i] - mr).abs() <= tol * scale * scale * s) { return mismatch(observed, format!("pair {t}: R[{k}][{i}] = {:e}, model {:e}", rv[k * n + i], mr)) }
            let qtq: f64 = (0..n).map(|w| qv[w * n + i] * qv[w * n + k]).sum();
            if !((qtq - if i == k { 1. } else { 0. }).abs() <= tol * scale) { return mismatch(observed, format!("pair {t}: (Q^T Q)[{i}][{k}] = {qtq:e}")) }
            if i > k && !(rv[i * n + k].abs() <= tol * scale * scale * s) { return mismatch(observed, format!("pair {t}: R[{i}][{k}] = {:e} below the diagonal (scale {s:e})", rv[i * n + k])) }
            let qr: f64 = (0..n).map(|w| qv[i * n + w] * rv[w * n + k]).sum();
            if !((qr - av[i * n + k]).abs() <= tol * scale * scale * s) { return mismatch(observed, format!("pair {t}: (Q R)[{i}][{k}] = {qr:e}, A = {:e}", av[i * n + k])) }
        } }
        // scale equivariance: qr(s A) has the same Q and s R (power-of-two scale, exact in f64)
        if let Some(pl) = &plain { if let Some((q0, r0)) = pl.get(t) {
            let (q0, r0): (Vec<f64>, Vec<f64>) = (q0.get_elements().unwrap().iter().map(|x| x.to_f64()).collect(), r0.get_elements().unwrap().iter().map(|x| x.to_f64()).collect());
            if q0.len() == n * n && r0.len() == n * n { for p in 0..n * n {
                if !((qv[p] - q0[p]).abs() <= EQV_TOL) { return mismatch(observed, format!("pair {t}: Q[{}][{}] = {:e}, but {:e} for the unscaled matrix", p / n, p % n, qv[p], q0[p])) }
                if !((rv[p] - r0[p] * s).abs() <= EQV_TOL * scale * s) { return mismatch(observed, format!("pair {t}: R[{}][{}] = {:e}, but s R = {:e} for the unscaled matrix", p / n, p % n, rv[p], r0[p] * s)) }
            } }
        } }
    }
    if open { Some(Verdict::Open(observed)) } else { Some(Verdict::Match(observed)) }
}

// ---------------------------------------------------------------- magnitude bands (round 5): every ENTRY carries its own exact scale

/// m * 2^e without an intermediate overflow / underflow (the result is representable for every pair the generator emits)
fn ldexp(m: f64, e: i64) -> f64 {
    let (mut v, mut e) = (m, e);
    while e > 1000 { v *= 2f64.powi(1000); e -= 1000; }
    while e < -1000 { v *= 2f64.powi(-1000); e += 1000; }
    v * 2f64.powi(e as i32)
}
/// x = m * 2^e with an odd (or zero) integer m: ANY finite f64 is spelled exactly as a band entry of base 2
fn decomp(x: f64) -> (i64, i64) {
    if x == 0. { return (0, 0) }
    let bits = x.to_bits();
    let (neg, ex, frac) = (bits >> 63 == 1, ((bits >> 52) & 0x7ff) as i64, (bits & ((1u64 << 52) - 1)) as i64);
    let (mut m, mut e) = if ex == 0 { (frac, -1074) } else { (frac | (1i64 << 52), ex - 1075) };
    while m & 1 == 0 { m >>= 1; e += 1; }
    (if neg { -m } else { m }, e)
}
/// the f64 values of a band array: integer * base^exponent — exact for base 2, correctly rounded decimal for base 10
fn band(a_s: &str, e_s: &str, base: &str) -> Option<(Vec<usize>, Vec<f64>)> {
    let (shape, m) = parse_arr_raw(a_s);
    let (es, e) = parse_arr_raw(e_s);
    if shape != es || m.len() != e.len() { return None }
    let vals: Option<Vec<f64>> = m.iter().zip(&e).map(|(&m, &e)| match base {
        "2" => Some(ldexp(m as f64, e)),
        "10" => format!("{m}e{e}").parse::<f64>().ok(),
        _ => None }).collect();
    Some((shape, vals?))
}
fn col_max(n: usize, k: usize, v: &[f64], c: usize) -> f64 { (0..n).fold(0f64, |m, i| m.max(v[i * k + c].abs())) }

/// solve with a band matrix / band right-hand side (well-conditioned by construction, cond_inf <= 1e3): the exact model solution
/// within 1e-11 (in column-equilibrated variables), and the residual of the code's own answer at rounding level, column by column
fn p_solve(args: &[&str], expected: &str) -> Option<Verdict> {
    let ((ash, av), (bsh, bv)) = (band(args[0], args[1], args[4])?, band(args[2], args[3], args[4])?);
    let (a, b) = (Array::new(av.clone(), ash.clone()).ok()?, Array::new(bv.clone(), bsh.clone()).ok()?);
    let real = match std::panic::catch_unwind(std::panic::AssertUnwindSafe(|| a.solve(&b))) { Ok(r) => r, Err(_) => return Some(compare_default("panic".into(), expected)) };
    if let Some(d) = recv_arr(&real, || { let r: Result<Array<f64>, ArrayError> = Ok(a.clone()); r.solve(&b) }) { return Some(d) }
    let observed = show_res(&real, show_f);
    let x = match &real { Err(_) => return Some(compare_default(observed, expected)), Ok(x) => x };
    if !consistent(x) { return mismatch(observed, "inconsistent array (C01 monitor)".into()) }
    let Some(body) = expected.strip_prefix("ok ") else { return mismatch(observed, format!("model says `{}`", truncate(expected, 300))) };
    let (shape, vals) = parse_expected_arr(body)?;
    let xv = x.get_elements().unwrap();
    if x.get_shape().unwrap() != shape || xv.len() != vals.len() { return mismatch(observed, format!("shape: model {:?}", shape)) }
    let n = ash[0];
    let k = if n == 0 { 0 } else { xv.len() / n };
    // in column-equilibrated variables y_t = x_t * max|A[.][t]| (elimination with partial pivoting commutes with a column scaling of A, so its
    // forward error is relative to the greatest y, not to the greatest x: a component that belongs to a column of entries 2^-37 carries 2^37
    // times the absolute error of the others)
    let cw: Vec<f64> = (0..n).map(|t| { let m = col_max(n, n, &av, t); if m > 0. { m } else { 1. } }).collect();
    for c in 0..k {
        let unit = (0..n).fold(0f64, |m, t| m.max(vals[t * k + c].abs() * cw[t]));
        for i in 0..n {
            let (cv, mv) = (xv[i * k + c], vals[i * k + c]);
            if !((cv - mv).abs() * cw[i] <= 1e-11 * unit) { return mismatch(observed, format!("x[{i}][{c}]: code {cv:e}, exact model {mv:e} (tolerance 1e-11 of the greatest |x_t| max|A[.][t]| = {unit:e}, weight {:e})", cw[i])) }
        }
    }
    if let Err(d) = residual_cols(n, &av, &xv, &bv, RES_TOL, 0.) { return mismatch(observed, d) }
    Some(Verdict::Match(observed))
}

/// det of a band matrix / stack: exact model value within 1e-14 of the product of the absolute row sums (the cofactor expansion adds
/// products of one entry per row, so its rounding error is a few eps of that product)
fn p_det(args: &[&str], expected: &str) -> Option<Verdict> {
    let (shape, av) = band(args[0], args[1], args[2])?;
    let a = Array::new(av.clone(), shape.clone()).ok()?;
    let real = match std::panic::catch_unwind(std::panic::AssertUnwindSafe(|| a.det())) { Ok(r) => r, Err(_) => return Some(compare_default("panic".into(), expected)) };
    if let Some(d) = recv_arr(&real, || { let r: Result<Array<f64>, ArrayError> = Ok(a.clone()); r.det() }) { return Some(d) }
    let observed = show_res(&real, show_f);
    let d = match &real { Err(_) => return Some(compare_default(observed, expected)), Ok(d) => d };
    let Some(body) = expected.strip_prefix("ok ") else { return mismatch(observed, format!("model says `{}`", truncate(expected, 300))) };
    let (mshape, vals) = parse_expected_arr(body)?;
    let dv = d.get_elements().unwrap();
    if d.get_shape().unwrap() != mshape || dv.len() != vals.len() { return mismatch(observed, format!("shape: model {:?}", mshape)) }
    let n = *shape.last()?;
    if shape.len() < 2 || n < 2 { return Some(compare_default(observed, expected)) }
    for (t, (&c, &m)) in dv.iter().zip(&vals).enumerate() {
        let blk = &av[t * n * n..(t + 1) * n * n];
        let unit: f64 = (0..n).map(|i| (0..n).map(|j| blk[i * n + j].abs()).sum::<f64>()).product();
        if !((c - m).abs() <= 1e-14 * unit) { return mismatch(observed, format!("matrix {t}: det {c:e}, exact model {m:e} (tolerance 1e-14 of the product of the row sums {unit:e})")) }
    }
    Some(Verdict::Match(observed))
}

/// qr of a band matrix / stack (columns or blocks of very different magnitude; well-conditioned after the columns are brought to the
/// same scale): Q against the exact Gram-Schmidt vectors, Q^T Q = I, R upper triangular, Q R = A — every bound RELATIVE TO THE COLUMN
/// the entry belongs to (3e-12 of n * the column's greatest entry; cond <= 100 after equilibration).  When the exponents are constant along every column (base 2) the
/// factors are also compared with those of the unscaled matrix: the same Q, R with its columns scaled (Gram-Schmidt commutes exactly
/// with a power-of-two column scaling).
fn p_qr(args: &[&str], expected: &str) -> Option<Verdict> {
    const QTOL: f64 = 3e-12;
    let (shape, av_all) = band(args[0], args[1], args[2])?;
    let a = Array::new(av_all.clone(), shape.clone()).ok()?;
    let real = match std::panic::catch_unwind(std::panic::AssertUnwindSafe(|| a.qr())) { Ok(r) => r, Err(_) => return Some(compare_default("panic".into(), expected)) };
    if let Some(d) = recv_qr(&real, || { let r: Result<Array<f64>, ArrayError> = Ok(a.clone()); r.qr() }) { return Some(d) }
    let observed = match &real { Ok(v) => format!("ok {} pair(s)", v.len()), Err(e) => format!("err {}", err_name(e)) };
    let pairs = match &real { Err(_) => return Some(compare_default(observed, expected)), Ok(v) => v };
    let Some(body) = expected.strip_prefix("ok ") else { return mismatch(observed, format!("model says `{}`", truncate(expected, 200))) };
    let exp: Vec<&str> = body.split(';').collect();
    if exp.len() != pairs.len() { return mismatch(observed, format!("model has {} factor pairs", exp.len())) }
    let n = *shape.last()?;
    let (_, ints) = parse_arr_raw(args[0]);
    let (_, exps) = parse_arr_raw(args[1]);
    let col_const = args[2] == "2" && (0..exps.len()).all(|p| exps[p] == exps[p - (p % (n * n)) + p % n]);
    let plain = if col_const { Array::new(ints.iter().map(|&x| x as f64).collect::<Vec<f64>>(), shape.clone()).ok().and_then(|p| p.qr().ok()) } else { None };
    for (t, ((q, r), e)) in pairs.iter().zip(&exp).enumerate() {
        let parts: Vec<&str> = e.split('|').collect();
        let rats = |s: &str| -> Option<Vec<f64>> { s.split(',').map(parse_rat).collect() };
        let (us, nrm2, ru) = (rats(parts[0])?, rats(parts[1])?, rats(parts[2])?);
        let av = &av_all[t * n * n..(t + 1) * n * n];
        if nrm2.iter().any(|&x| x == 0.) { return Some(Verdict::Open(observed)) }
        if q.get_shape().unwrap() != vec![n, n] || r.get_shape().unwrap() != vec![n, n] { return mismatch(observed, format!("pair {t}: shapes {:?} {:?}", q.get_shape(), r.get_shape())) }
        let (qv, rv) = (q.get_elements().unwrap(), r.get_elements().unwrap());
        let cs: Vec<f64> = (0..n).map(|c| col_max(n, n, av, c) * n as f64).collect();
        for i in 0..n { for k in 0..n {
            let (mq, mr) = (us[k * n + i] / nrm2[k].sqrt(), ru[k * n + i] / nrm2[k].sqrt());
            if !((qv[i * n + k] - mq).abs() <= QTOL) { return mismatch(observed, format!("pair {t}: Q[{i}][{k}] = {:e}, model {:e}", qv[i * n + k], mq)) }
            if !((rv[k * n + i] - mr).abs() <= QTOL * cs[i]) { return mismatch(observed, format!("pair {t}: R[{k}][{i}] = {:e}, model {:e} (column scale {:e})", rv[k * n + i], mr, cs[i])) }
            let qtq: f64 = (0..n).map(|w| qv[w * n + i] * qv[w * n + k]).sum();
            if !((qtq - if i == k { 1. } else { 0. }).abs() <= QTOL) { return mismatch(observed, format!("pair {t}: (Q^T Q)[{i}][{k}] = {qtq:e}")) }
            if i > k && !(rv[i * n + k].abs() <= QTOL * cs[k]) { return mismatch(observed, format!("pair {t}: R[{i}][{k}] = {:e} below the diagonal (column scale {:e})", rv[i * n + k], cs[k])) }
            let qr: f64 = (0..n).map(|w| qv[i * n + w] * rv[w * n + k]).sum();
            if !((qr - av[i * n + k]).abs() <= QTOL * cs[k]) { return mismatch(observed, format!("pair {t}: (Q R)[{i}][{k}] = {qr:e}, A = {:e}", av[i * n + k])) }
        } }
        if let Some(pl) = &plain {
            let (q0, r0) = (pl[t].0.get_elements().unwrap(), pl[t].1.get_elements().unwrap());
            for i in 0..n { for k in 0..n {
                if !((qv[i * n + k] - q0[i * n + k]).abs() <= 1e-13) { return mismatch(observed, format!("pair {t}: Q[{i}][{k}] = {:e}, but {:e} for the same matrix without the power-of-two column scales", qv[i * n + k], q0[i * n + k])) }
                let want = ldexp(r0[i * n + k], exps[t * n * n + k]);
                if !((rv[i * n + k] - want).abs() <= 1e-13 * cs[k]) { return mismatch(observed, format!("pair {t}: R[{i}][{k}] = {:e}, but {want:e} = 2^e * R of the matrix without the column scales", rv[i * n + k])) }
            } }
        }
    }
    Some(Verdict::Match(observed))
}

/// norm of a band array (entries of very different magnitude; any finite f64 can be spelled, so also the mathematical constants, powers
/// of two with their neighbours, subnormals): the model's exact value within 1e-12 of ITSELF (every norm is a sum of non-negative
/// terms - no cancellation), counts / maxima / minima exactly; vectors additionally against the definitions evaluated here
fn p_norm(args: &[&str], expected: &str) -> Option<Verdict> {
    let (shape, av) = band(args[0], args[1], args[2])?;
    let a = Array::new(av.clone(), shape.clone()).ok()?;
    let (o, ax, kp) = (args[3], args[4], args[5]);
    let axis: Option<Vec<isize>> = if ax == "none" { None } else { Some(parse_isize_list(ax)) };
    let keep: Option<bool> = match kp { "none" => None, "true" => Some(true), "false" => Some(false), _ => return None };
    let real = match std::panic::catch_unwind(std::panic::AssertUnwindSafe(|| call_norm(&a, o, &axis, keep))) { Ok(r) => r, Err(_) => return Some(compare_default("panic".into(), expected)) };
    if let Some(d) = recv_arr(&real, || { let r: Result<Array<f64>, ArrayError> = Ok(a.clone()); call_norm(&r, o, &axis, keep) }) { return Some(d) }
    let observed = show_res(&real, show_f);
    let r = match &real { Err(_) => return Some(compare_default(observed, expected)), Ok(r) => r };
    if !consistent(r) { return mismatch(observed, "inconsistent array (C01 monitor)".into()) }
    let Some(body) = expected.strip_prefix("ok ") else { return mismatch(observed, format!("model says `{}`", truncate(expected, 300))) };
    let (sh, el) = body.split_once(':')?;
    let vals: Vec<(f64, bool)> = if el == "-" { vec![] } else { el.split(',').map(sym_val).collect::<Option<Vec<_>>>()? };
    let re = r.get_elements().unwrap();
    if r.get_shape().unwrap() != parse_usize_list(sh) || re.len() != vals.len() { return mismatch(observed, format!("shape: model {sh}")) }
    // (one unit of the subnormal grid where the value itself is subnormal)
    let rel = |c: f64, m: f64| (c - m).abs() <= 1e-12 * m.abs() + if m.abs() < 1e-300 { 5e-324 } else { 0. };
    for (p, (&c, &(m, _))) in re.iter().zip(&vals).enumerate() {
        if !rel(c, m) { return mismatch(observed, format!("element {p}: code {c:e}, model {m:e} (relative tolerance 1e-12)")) }
    }
    if shape.len() == 1 && ax == "none" && re.len() == 1 {
        let p: Option<i32> = match o { "none" => Some(2), "inf" | "ninf" | "fro" | "nuc" => None, _ => o.strip_prefix('i').and_then(|t| t.parse().ok()) };
        let abs = || av.iter().map(|x| x.abs());
        let want = match (o, p) {
            ("inf", _) => Some(abs().fold(0., f64::max)), ("ninf", _) => Some(abs().fold(f64::INFINITY, f64::min)),
            (_, Some(0)) => Some(av.iter().filter(|&&x| x != 0.).count() as f64),
            (_, Some(1)) => Some(abs().sum::<f64>()),
            (_, Some(2)) => Some(av.iter().map(|x| x * x).sum::<f64>().sqrt()),
            (_, Some(p)) => Some(abs().map(|x| x.powi(p)).sum::<f64>().powf(1. / p as f64)),
            _ => None };
        if let Some(w) = want { if !rel(re[0], w) { return mismatch(observed, format!("definition gives {w:e}")) } }
    }
    Some(Verdict::Match(observed))
}

// ---------------------------------------------------------------- giant norms (more than 2^20 elements): harness-native reference

/// the digit array of the `gnorm` lines: values -9 … 9, zeros included (the same formula as `digitArr` in Driver/C15.lean)
fn digit(i: usize) -> i64 { ((i * 7 + i / 13 + i / 1021) % 19) as i64 - 9 }
/// `f64@p`: the unique greatest magnitude (-12) at flat position p; `f64#p`: the unique least magnitude (0) at p, every other zero
/// replaced by 5 — a reduction that loses the first / last element or an element at a block boundary loses the extreme
#[derive(Clone, Copy)]
enum Spike { None, Max(usize), Min(usize) }
impl Spike {
    fn parse(ty: &str) -> Option<(&str, Spike)> {
        if let Some((t, p)) = ty.split_once('@') { Some((t, Spike::Max(p.parse().ok()?))) }
        else if let Some((t, p)) = ty.split_once('#') { Some((t, Spike::Min(p.parse().ok()?))) }
        else { Some((ty, Spike::None)) }
    }
    fn at(self, i: usize) -> i64 {
        match self { Spike::None => digit(i), Spike::Max(p) => if i == p { -12 } else { digit(i) }, Spike::Min(p) => if i == p { 0 } else if digit(i) == 0 { 5 } else { digit(i) } }
    }
}
/// one lane reduced in exact integer arithmetic, one square root at most
fn lane_norm(ord: &str, lane: impl Iterator<Item = i64>) -> Option<f64> {
    Some(match ord {
        "i1" => lane.map(|x| x.abs()).sum::<i64>() as f64,
        "i2" | "none" | "fro" => (lane.map(|x| x * x).sum::<i64>() as f64).sqrt(),
        "inf" => lane.map(|x| x.abs()).max()? as f64,
        "ninf" => lane.map(|x| x.abs()).min()? as f64,
        "i0" => lane.filter(|&x| x != 0).count() as f64,
        _ => return None })
}
/// the definitions, written out directly: (shape, values) of `norm(ord, axis)` of the digit array of this shape.  Forms: a vector or a
/// matrix as a whole (default / 2 / Frobenius; vector 1, inf, -inf, 0), one axis of a matrix, the two matrix norms 1 / inf over (0,1), (1,0)
fn gnorm_ref(shape: &[usize], ord: &str, axis: &str, spike: Spike) -> Option<(Vec<usize>, Vec<f64>)> {
    let cnt: usize = shape.iter().product();
    let digit = |i: usize| spike.at(i);
    match (shape.len(), axis) {
        (1, "none") => Some((vec![1], vec![lane_norm(ord, (0..cnt).map(digit))?])),
        (2, "none") if ord == "none" || ord == "fro" => Some((vec![1], vec![lane_norm("i2", (0..cnt).map(digit))?])),
        (2, "0") | (2, "-2") => { let (r, c) = (shape[0], shape[1]); Some((vec![c], (0..c).map(|j| lane_norm(ord, (0..r).map(|i| digit(i * c + j)))).collect::<Option<Vec<f64>>>()?)) }
        (2, "1") | (2, "-1") => { let (r, c) = (shape[0], shape[1]); Some((vec![r], (0..r).map(|i| lane_norm(ord, (0..c).map(|j| digit(i * c + j)))).collect::<Option<Vec<f64>>>()?)) }
        (2, "0,1") | (2, "1,0") => {
            let (r, c) = (shape[0], shape[1]);
            // order 1 over (0,1): greatest column sum; order inf: greatest row sum; the other way round over (1,0)
            let cols = (ord == "i1") == (axis == "0,1");
            if ord != "i1" && ord != "inf" { return None }
            let sums: Vec<i64> = if cols { (0..c).map(|j| (0..r).map(|i| digit(i * c + j).abs()).sum()).collect() } else { (0..r).map(|i| (0..c).map(|j| digit(i * c + j).abs()).sum()).collect() };
            Some((vec![1], vec![*sums.iter().max()? as f64]))
        }
        _ => None,
    }
}
fn g_norm<T: El>(args: &[&str], spike: Spike, expected: &str) -> Option<Verdict> {
    let shape = parse_usize_list(args[0]);
    let cnt: usize = shape.iter().product();
    let (ord, ax) = (args[2], args[3]);
    let (rshape, rvals) = gnorm_ref(&shape, ord, ax, spike)?;
    // the reference is itself compared with the model wherever the model answers (every `gnorm` line of at most 6000 elements)
    if expected != "native" {
        let body = expected.strip_prefix("ok ")?;
        let (sh, el) = body.split_once(':')?;
        let vals: Vec<(f64, bool)> = el.split(',').map(sym_val).collect::<Option<Vec<_>>>()?;
        if parse_usize_list(sh) != rshape || vals.len() != rvals.len() || vals.iter().zip(&rvals).any(|(&(m, _), &w)| !((m - w).abs() <= 1e-12 * w.abs())) {
            return mismatch(format!("harness-native reference {:?}:{:?}", rshape, &rvals[..rvals.len().min(4)]), format!("the native norm reference disagrees with the model `{}`", truncate(expected, 200)))
        }
    }
    let a = Array::new((0..cnt).map(|i| T::of(spike.at(i) as f64)).collect::<Vec<T>>(), shape.clone()).ok()?;
    let axis: Option<Vec<isize>> = if ax == "none" { None } else { Some(parse_isize_list(ax)) };
    let real = match std::panic::catch_unwind(std::panic::AssertUnwindSafe(|| call_norm(&a, ord, &axis, None))) { Ok(r) => r, Err(_) => return mismatch("panic".into(), "norm of a digit array panics".into()) };
    // both receivers (giant arrays: on every other line, the clone doubles the cost)
    if cnt <= 6000 || cnt % 2 == 1 { if let Some(d) = recv_arr(&real, || { let r: Result<Array<T>, ArrayError> = Ok(a.clone()); call_norm(&r, ord, &axis, None) }) { return Some(d) } }
    drop(a);
    let r = match &real { Err(e) => return mismatch(format!("err {}", err_name(e)), format!("reference: shape {:?}", rshape)), Ok(r) => r };
    if !consistent(r) { return mismatch("inconsistent array".into(), "inconsistent array (C01 monitor)".into()) }
    let (gs, ge) = (r.get_shape().unwrap(), r.get_elements().unwrap());
    let observed = format!("ok {}:{}", show_list(&gs), ge.iter().take(4).map(|x| format!("{:e}", x.to_f64())).collect::<Vec<_>>().join(","));
    if gs != rshape || ge.len() != rvals.len() { return mismatch(observed, format!("reference: shape {:?}", rshape)) }
    for (p, (c, &w)) in ge.iter().zip(&rvals).enumerate() {
        let (c, w) = (c.to_f64(), want::<T>(w));
        if !((c - w).abs() <= if T::INT { 0. } else { 1e-12 * w.abs() }) { return mismatch(observed, format!("element {p}: code {c:e}, the definition (exact integer sums, one root) gives {w:e}")) }
    }
    Some(Verdict::Match(observed))
}

fn exec_x(op: &str, args: &[&str], expected: &str) -> Option<Verdict> {
    let v = parse_variant(args.last()?)?;
    macro_rules! on_ty { ($f:ident, $($arg:expr),*) => { match v.ty {
        "f64" => $f::<f64>($($arg),*), "f32" => $f::<f32>($($arg),*), "i32" => $f::<i32>($($arg),*), "i64" => $f::<i64>($($arg),*), _ => None } } }
    if (v.ty == "i32" || v.ty == "i64") && (v.sa.v != 1. || v.sb.v != 1.) { return None }
    match op {
        "xdet" => on_ty!(x_det, args[0], &v, expected),
        "xsolve" => on_ty!(x_solve, args[0], args[1], &v, expected),
        "xnorm" => on_ty!(x_norm, &args[..4], &v, expected),
        "xqr" => match v.ty { "f64" => x_qr::<f64>(args[0], &v, expected), "f32" => x_qr::<f32>(args[0], &v, expected), _ => None },
        _ => None,
    }
}

thread_local! {
    /// the previous case of this thread (line, model answer, what the crate answered) — for the A–B–A discipline
    static PREV: std::cell::RefCell<Option<(String, Vec<String>, String, String)>> = const { std::cell::RefCell::new(None) };
    static SEQ: std::cell::Cell<u64> = const { std::cell::Cell::new(0) };
}
fn verdict_text(v: &Option<Verdict>) -> String {
    match v { None => "harness-error".into(), Some(Verdict::Match(o)) => format!("match {o}"), Some(Verdict::Open(o)) => format!("open {o}"), Some(Verdict::Mismatch { observed, .. }) => format!("mismatch {observed}") }
}

/// A–B–A: every third case B is followed by a re-run of the case A executed just before it; the crate must answer A exactly as it did
/// the first time (a memo / cache / accumulator that survives a call makes the answer depend on the call in between).
fn exec(op: &str, args: &[&str], expected: &str) -> Option<Verdict> {
    let v = exec_case(op, args, expected);
    let seq = SEQ.with(|s| { let x = s.get() + 1; s.set(x); x });
    let size: usize = args.iter().map(|a| a.len()).sum();
    let prev = PREV.with(|p| p.borrow_mut().take());
    let mut out = v;
    if let Some((pop, pargs, pexp, ptext)) = &prev {
        let differs = pop != op || pargs.iter().map(String::as_str).ne(args.iter().copied());
        if differs && seq % 3 == 0 && !matches!(out, Some(Verdict::Mismatch { .. }) | None) {
            let pa: Vec<&str> = pargs.iter().map(String::as_str).collect();
            let again = verdict_text(&exec_case(pop, &pa, pexp));
            if again != *ptext {
                out = mismatch(format!("A-B-A: `{} {}` answered `{}` before this case and `{}` after it", pop, truncate(&pa.join(" "), 300), truncate(ptext, 300), truncate(&again, 300)),
                               "the answer to a call must not depend on the calls made before it (hidden state)".into());
            }
        }
    }
    // huge case lines are not kept (the re-run would double their cost)
    let keep = size <= 20_000;
    let text = verdict_text(&out);
    PREV.with(|p| *p.borrow_mut() = if keep { Some((op.to_string(), args.iter().map(|a| a.to_string()).collect(), expected.to_string(), text)) } else { None });
    out
}

fn exec_case(op: &str, args: &[&str], expected: &str) -> Option<Verdict> {
    match op {
        "solve" => exec_solve(args, expected),
        "det" => exec_det(args, expected),
        "det_mul" => exec_det_mul(args, expected),
        "det_swap" => exec_det_swap(args, expected),
        "det_elim" => exec_det_elim(args, expected),
        "norm" => exec_norm(args, expected),
        "qr" => exec_qr(args, expected),
        "xdet" | "xsolve" | "xnorm" | "xqr" => exec_x(op, args, expected),
        "gnorm" if args.len() == 4 => { let (ty, spike) = Spike::parse(args[1])?; match ty { "f64" => g_norm::<f64>(args, spike, expected), "i64" => g_norm::<i64>(args, spike, expected), "i32" => g_norm::<i32>(args, spike, expected), _ => None } }
        "psolve" if args.len() == 5 => p_solve(args, expected),
        "pdet" if args.len() == 3 => p_det(args, expected),
        "pqr" if args.len() == 3 => p_qr(args, expected),
        "pnorm" if args.len() == 6 => p_norm(args, expected),
        _ => None,
    }
}

/// non-trivial: solve whose first column needs a row exchange or with >= 2 right-hand sides; det/qr of size >= 3 or of a stack;
/// norm with an explicit order or axis, or of an array with >= 2 axes
fn nontrivial(op: &str, args: &[&str]) -> bool {
    if op == "gnorm" { return true }
    let (shape, e) = parse_arr_raw(args[0]);
    match op {
        "solve" | "xsolve" | "psolve" => {
            if shape.len() != 2 || shape[0] != shape[1] { return false }
            let n = shape[0];
            let exch = (1..n).any(|i| e[i * n].abs() > e[0].abs());
            let (bs, _) = parse_arr_raw(args[if op == "psolve" { 2 } else { 1 }]);
            exch || (bs.len() >= 2 && bs[1] >= 2)
        }
        "norm" | "xnorm" => shape.len() >= 2 || args[1] != "none" || args[2] != "none",
        "pnorm" => shape.len() >= 2 || args[3] != "none" || args[4] != "none",
        _ => shape.len() >= 3 || shape.iter().all(|&d| d >= 3),
    }
}

fn main() {
    harness_main(Spec { prop: "C15", gen, exec, nontrivial, hang_secs: 30,
        rule: "integer matrices |x|<=9 as f64. exhaustive: all 2x2 over -2..2 and all 3x3 over -1..1 (det, elimination, exchange, product, solve with 1..3 columns, qr; quick: solve/qr on every 4th 3x3), 4x4 over {0,1} (all thorough / every 16th quick); families n=2..6: cond_inf<=1e4 random, row-permuted diagonally dominant, upper/lower triangular, pivot-forcing (zero/small leading entry), exactly singular, stacks [s,n,n] [s,t,n,n]; norm: every order spelling x axis spelling x keepdims on 14 fixed arrays rank<=3; malformed shapes; seeded random stream. robustness streams: EVERY call also on Ok(array) (bit-identical answer required); x-ops = same integer array as f64/f32/i32/i64 times an exact scale 2^+-30 2^+-40 10^+-9 10^+-12 (qr/norm also 2^+-200), model evaluated at the scaled rationals, tolerances relative to the unit of the answer (s^n det, s norm/R, sb/sa solve, 1 Q); norm of 63..4900 elements (every count mod 8, all orders, enum/&str/String spellings, axes, keepdims); n=7,8 families; singular n=2..8 in five recipes (last-pivot deficiency included); stacks with leading axes 7..40 (300 thorough); zero-length axes (det/qr/solve and norm compared in full); 0-d operands, negative vector orders, matrix norms of rank-3 arrays on every ordered axis pair (gen_ext; norm cases up to 300 elements answered by normX over the shared C08 reductions and cross-checked with the lane form). part-2 streams: every matrix directly followed by its look-alikes (transpose, P A P^T, 180-degree rotation, anti-transpose, row / column permutation, same multiset rearranged; original again after each) through solve / det / qr / norm, as stacks, and with the same arguments on f64 f32 i32 i64 back to back; refused-then-valid calls; collision_shape_pairs A,B,A for norm and colliding leading axes for det / qr; A-B-A re-run of the previous case on every third case; norm of 8 193 ... 131 073 elements (counts not multiples of 1000 / 4096 / 6000; whole-array forms on tags to 140 000, digit vectors on f64 f32 i32 i64, lane reductions and axis forms to 20 011, stacks of 1500 / 2001 / 4100 matrices) answered by the model driver itself. part-4 streams (round 5, magnitude bands): p-ops = every ENTRY with its own exact scale (integer * 2^e or 10^e, exponent array on the wire, model at the exact rationals): psolve / pdet on well-conditioned matrices (cond_inf<=1e3) with tiny-but-non-zero entries 2^-7..2^-60 / 1e-3..1e-16 in seven patterns (one entry, strictly lower, strictly upper, a column but one entry, random third, lower + row permutation, lower with one common exponent), n=2..6, right-hand sides plain / every column on its own scale 2^-60..2^60 / single tiny entries; pqr / pdet with every column resp. every block of a stack resp. every row (det) on its own scale, Q also compared with the unscaled call; uniform scale sweep EVERY 2^k, k=-60..60, through xsolve (A and b alike / A only / b only / opposite) xqr xdet xnorm on five matrices with the exactly rescaled answer of the unscaled call demanded as well (1e-13); pnorm: mixed-magnitude vectors and matrices (12 orders), every integer -1100..1100, 41 constants (E PI LN_2 ... with negatives and reciprocals), every 2^k k=-1074..1023 with both neighbours (any f64 is spelled exactly as odd-integer * 2^e), relative tolerance 1e-12 of the value itself. residual oracle of EVERY f64 solve now at rounding level: |A x - b| <= 1e-13 (n |A| |x_c| + |b_c|) column by column. part-3 stream: gnorm = norm of digit arrays of 2^20+1 ... 2^21+3 elements (vectors: default 1 2 inf -inf 0; [2,m] / [m,2]: Frobenius, one axis, matrix 1 / inf norms; f64 i64 i32) against a harness-native reference in exact integer arithmetic that is compared with the model on ~300 smaller gnorm lines of the same run. open: scaled solve where the absolute |det|<1e-12 test decides (fixes/C15-solve-absolute-singularity-threshold.md). tolerance 1e-9 relative (model vs code), residuals 1e-13. non-trivial = solve needing a row exchange in column 0 or >=2 right-hand sides; det/qr of size>=3 or a stack; norm with explicit order/axis or rank>=2" });
}
