//! C15 — solve, QR, determinant and norm satisfy their defining equations.
//!
//! Inputs are integer matrices (|x| <= 9), handed to the real crate as `f64`.  The model driver answers in exact
//! rationals (`num/den`); here a float tolerance IS the property ("to rounding accuracy"):
//!   (i)  model vs code:   |x_code - x_model| <= 1e-9 * (1 + |x_model|)
//!   (ii) property oracle evaluated natively on the code's answer: residual of A x = b, Q^T Q = I, R upper
//!        triangular, Q R = A, det(AB) = det A det B, row exchange flips the sign, norms against their definitions.
use arrharness::*;

const TOL: f64 = 1e-9;

// ---------------------------------------------------------------- small exact / float linear algebra (harness side)

type M = Vec<Vec<i64>>;

fn show_mat(m: &M) -> String {
    let n = m.len();
    let c = if n == 0 { 0 } else { m[0].len() };
    format!("{},{}:{}", n, c, show_list(&m.iter().flatten().copied().collect::<Vec<i64>>()))
}
fn show_vec(v: &[i64]) -> String { format!("{}:{}", v.len(), show_list(v)) }
fn show_shape(shape: &[usize], e: &[i64]) -> String { format!("{}:{}", show_list(shape), show_list(e)) }

/// exact determinant (fraction-free Bareiss elimination, i128)
fn det_exact(m: &M) -> i128 {
    let n = m.len();
    let mut a: Vec<Vec<i128>> = m.iter().map(|r| r.iter().map(|&x| x as i128).collect()).collect();
    let mut sign = 1i128; let mut prev = 1i128;
    for k in 0..n {
        if a[k][k] == 0 {
            match (k + 1..n).find(|&i| a[i][k] != 0) { Some(p) => { a.swap(k, p); sign = -sign; } None => return 0 }
        }
        for i in k + 1..n { for j in k + 1..n { a[i][j] = (a[i][j] * a[k][k] - a[i][k] * a[k][j]) / prev; } }
        prev = a[k][k];
    }
    sign * a[n - 1][n - 1]
}

/// infinity-norm condition number by Gauss–Jordan in f64 (only used to *select* inputs)
fn cond_inf(m: &M) -> f64 {
    let n = m.len();
    let mut a: Vec<Vec<f64>> = m.iter().map(|r| r.iter().map(|&x| x as f64).collect()).collect();
    let mut inv: Vec<Vec<f64>> = (0..n).map(|i| (0..n).map(|j| if i == j { 1. } else { 0. }).collect()).collect();
    for c in 0..n {
        let p = (c..n).max_by(|&x, &y| a[x][c].abs().partial_cmp(&a[y][c].abs()).unwrap()).unwrap();
        if a[p][c] == 0. { return f64::INFINITY }
        a.swap(c, p); inv.swap(c, p);
        let d = a[c][c];
        for j in 0..n { a[c][j] /= d; inv[c][j] /= d; }
        for i in 0..n { if i != c { let f = a[i][c]; if f != 0. { for j in 0..n { a[i][j] -= f * a[c][j]; inv[i][j] -= f * inv[c][j]; } } } }
    }
    let norm = |x: &Vec<Vec<f64>>| x.iter().map(|r| r.iter().map(|v| v.abs()).sum::<f64>()).fold(0., f64::max);
    let na = m.iter().map(|r| r.iter().map(|&v| (v as f64).abs()).sum::<f64>()).fold(0., f64::max);
    na * norm(&inv)
}

fn mat_mul(a: &M, b: &M) -> M {
    let n = a.len();
    (0..n).map(|i| (0..b[0].len()).map(|j| (0..b.len()).map(|t| a[i][t] * b[t][j]).sum()).collect()).collect()
}

// ---------------------------------------------------------------- generator

fn rand_mat(rng: &mut Rng, n: usize, lim: i64) -> M { (0..n).map(|_| (0..n).map(|_| rng.range(-lim, lim)).collect()).collect() }

/// random integer matrix with bounded condition number
fn rand_conditioned(rng: &mut Rng, n: usize) -> M {
    loop { let m = rand_mat(rng, n, 9); if det_exact(&m) != 0 && cond_inf(&m) <= 1e4 { return m } }
}
/// strictly diagonally dominant rows, then rows permuted: every column needs its own exchange pattern
fn perm_diag_dominant(rng: &mut Rng, n: usize) -> M {
    let lim = (8 / (n as i64 - 1)).max(1);
    let mut m: M = (0..n).map(|i| (0..n).map(|j| if i == j { 0 } else { rng.range(-lim, lim) }).collect()).collect();
    for i in 0..n { let s: i64 = m[i].iter().map(|x| x.abs()).sum(); m[i][i] = (s + 1 + rng.range(0, 2)).min(9) * if rng.below(2) == 0 { 1 } else { -1 }; }
    let p = rng.perm(n);
    (0..n).map(|i| m[p[i]].clone()).collect()
}
fn triangular(rng: &mut Rng, n: usize, upper: bool) -> M {
    (0..n).map(|i| (0..n).map(|j| {
        if i == j { let d = rng.range(1, 9); if rng.below(2) == 0 { d } else { -d } }
        else if (j > i) == upper { rng.range(-9, 9) } else { 0 }
    }).collect()).collect()
}
/// leading entry zero or small against the column below it (an exchange is forced at the first step, often later too)
fn pivot_forcing(rng: &mut Rng, n: usize) -> M {
    loop {
        let mut m = rand_mat(rng, n, 9);
        m[0][0] = if rng.below(2) == 0 { 0 } else { 1 };
        let r = 1 + rng.below(n - 1); m[r][0] = if rng.below(2) == 0 { 9 } else { -8 };
        if n > 2 && rng.below(2) == 0 { m[1][1] = 0; }
        if det_exact(&m) != 0 && cond_inf(&m) <= 1e4 { return m }
    }
}
fn singular(rng: &mut Rng, n: usize) -> M {
    let mut m = rand_mat(rng, n, 9);
    match rng.below(4) {
        0 => { let r = rng.below(n); m[r] = vec![0; n]; }
        1 => { let (r, s) = (rng.below(n), rng.below(n)); let s = if s == r { (r + 1) % n } else { s }; m[r] = m[s].clone(); }
        2 => { let c = rng.below(n); let d = (c + 1) % n; for i in 0..n { m[i][c] = m[i][d]; } }
        _ => { // rank one
            let u: Vec<i64> = (0..n).map(|_| rng.range(-3, 3)).collect(); let v: Vec<i64> = (0..n).map(|_| rng.range(-3, 3)).collect();
            m = (0..n).map(|i| (0..n).map(|j| u[i] * v[j]).collect()).collect();
        }
    }
    m
}
fn rand_rhs(rng: &mut Rng, n: usize, k: usize) -> Vec<i64> { (0..n * k).map(|_| rng.range(-9, 9)).collect() }

fn emit_solves(out: &mut dyn FnMut(String), rng: &mut Rng, m: &M, ks: &[usize]) {
    let n = m.len();
    let a = show_mat(m);
    out(format!("solve {a} {}", show_vec(&rand_rhs(rng, n, 1))));
    for &k in ks { out(format!("solve {a} {}", show_shape(&[n, k], &rand_rhs(rng, n, k)))); }
}

fn all_mats(n: usize, vals: &[i64]) -> Vec<M> {
    boxes(&vec![vals.len(); n * n]).into_iter().map(|c| (0..n).map(|i| (0..n).map(|j| vals[c[i * n + j]]).collect()).collect()).collect()
}

fn hex(s: &str) -> String { s.bytes().map(|b| format!("{:02x}", b)).collect() }

fn gen_norms(out: &mut dyn FnMut(String), thorough: bool) {
    let ords_enum = ["none", "i0", "i1", "i2", "i3", "i4", "i-1", "i-2", "inf", "ninf", "fro", "nuc"];
    let ords_str = ["inf", "-inf", "fro", "nuc", "INF", "-Inf", "Fro", "NUC", "0", "1", "2", "3", "-1", "x", "1.5", "", "two", "99999999999"];
    let mut ords: Vec<String> = ords_enum.iter().map(|s| s.to_string()).collect();
    ords.extend(ords_str.iter().map(|s| format!("s{}", hex(s))));
    let keeps = ["none", "true", "false"];
    let arrays: Vec<(Vec<usize>, Vec<i64>)> = vec![
        (vec![1], vec![-7]), (vec![2], vec![3, -4]), (vec![3], vec![0, -2, 2]), (vec![4], vec![1, -5, 0, 3]), (vec![5], vec![-9, 8, -7, 6, 0]),
        (vec![2, 2], vec![1, -2, -3, 4]), (vec![2, 3], vec![1, -2, 3, -4, 5, -6]), (vec![3, 2], vec![0, 7, -7, 1, 2, -9]), (vec![1, 3], vec![2, 0, -6]),
        (vec![3, 1], vec![2, 0, -6]), (vec![3, 3], vec![-4, -3, -2, -1, 0, 1, 2, 3, 4]),
        (vec![2, 2, 3], vec![1, -2, 3, -4, 5, -6, 7, -8, 9, 0, -1, 2]), (vec![2, 3, 2], vec![5, 0, -3, 3, 1, -1, 8, -8, 2, 4, -6, 0]),
        (vec![3, 1, 2], vec![1, 2, -3, -4, 5, 6]),
    ];
    for (shape, elems) in &arrays {
        let a = show_shape(shape, elems);
        let nd = shape.len() as i64;
        let mut axes: Vec<String> = vec!["none".into()];
        for ax in -nd - 1..=nd { axes.push(ax.to_string()); }
        for a0 in -nd..nd { for a1 in -nd..nd { axes.push(format!("{a0},{a1}")); } }
        axes.push(format!("0,{nd}")); axes.push("0,1,2".into()); axes.push("-".into());
        for ord in &ords { for ax in &axes { for keep in keeps {
            if !thorough && keep == "false" { continue }
            out(format!("norm {a} {ord} {ax} {keep}"));
        } } }
    }
}

fn gen(tier: &str, seed: u64, out: &mut dyn FnMut(String)) {
    let thorough = tier == "thorough";
    let mut rng = Rng::new(seed);
    // ---- corpus of past failures
    out("solve 2,2:0,1,1,0 2:2,3".into());
    out("solve 3,3:4,1,0,1,5,1,0,1,6 3,2:1,2,3,4,5,6".into());
    out("solve 3,3:1,1,0,4,5,1,0,1,6 3,3:1,2,3,4,5,6,7,8,9".into());
    out("qr 3,2,2:2,1,1,3,0,1,1,0,1,2,3,5".into());
    out("qr 2,3,3:2,1,0,1,3,1,0,1,4,0,1,2,1,0,3,4,-3,8".into());
    // ---- exhaustive small scope
    // every 2x2 matrix over -2..2: det, elimination, row exchange, product with a fixed partner, solve (vector, 1, 2, 3 columns), qr
    let fixed: M = vec![vec![2, -1], vec![1, 3]];
    for m in all_mats(2, &[-2, -1, 0, 1, 2]) {
        let a = show_mat(&m);
        out(format!("det {a}")); out(format!("det_elim {a}")); out(format!("det_swap {a} 0 1")); out(format!("det_mul {a} {}", show_mat(&fixed)));
        out(format!("solve {a} 2:1,-2")); out(format!("solve {a} 2,1:3,1")); out(format!("solve {a} 2,2:1,0,2,-1")); out(format!("solve {a} 2,3:1,2,3,-3,0,5"));
        out(format!("qr {a}"));
    }
    // every 3x3 matrix over -1..1 (19683): det and elimination on all; solve / qr / swap / product on all (thorough) or every 4th (quick)
    let partner: M = vec![vec![1, 2, 0], vec![0, 1, -1], vec![2, 0, 1]];
    for (idx, m) in all_mats(3, &[-1, 0, 1]).into_iter().enumerate() {
        let a = show_mat(&m);
        out(format!("det {a}")); out(format!("det_elim {a}"));
        if thorough || idx % 4 == 0 {
            out(format!("solve {a} 3:1,-2,3")); out(format!("solve {a} 3,2:1,0,2,-1,-3,4"));
            out(format!("qr {a}"));
            out(format!("det_swap {a} {} {}", idx % 3, (idx / 3 + 1 + idx % 3) % 3)); out(format!("det_mul {a} {}", show_mat(&partner)));
        }
    }
    // 4x4 over {0,1} with a zero-heavy pattern: all 65536 in thorough, every 16th in quick (many need exchanges at several steps; many singular)
    for (idx, m) in all_mats(4, &[0, 1]).into_iter().enumerate() {
        if !(thorough || idx % 16 == 5) { continue }
        let a = show_mat(&m);
        out(format!("det {a}")); out(format!("solve {a} 4,2:1,2,3,4,5,6,7,8"));
        if idx % 8 == 5 { out(format!("det_elim {a}")); out(format!("qr {a}")); out(format!("solve {a} 4:1,-1,2,-2")); }
    }
    // ---- structured families, n = 2..6 (seeded)
    let reps = if thorough { 120 } else { 14 };
    for n in 2..=6usize {
        for r in 0..reps {
            let fams: Vec<M> = vec![rand_conditioned(&mut rng, n), perm_diag_dominant(&mut rng, n), triangular(&mut rng, n, true), triangular(&mut rng, n, false), pivot_forcing(&mut rng, n)];
            for m in &fams {
                let a = show_mat(m);
                let kk = 1 + rng.below(4);
                emit_solves(out, &mut rng, m, &[1, 2, kk, n]);
                out(format!("det {a}")); out(format!("det_elim {a}")); out(format!("qr {a}"));
                let (i, j) = (rng.below(n), rng.below(n));
                out(format!("det_swap {a} {i} {j}"));
                out(format!("det_mul {a} {}", show_mat(&rand_mat(&mut rng, n, 9))));
                out(format!("norm {a} none none none")); out(format!("norm {a} fro none none")); out(format!("norm {a} i1 none none")); out(format!("norm {a} inf none none"));
                out(format!("norm {a} i2 {} none", rng.below(2))); out(format!("norm {a} i1 {} none", rng.below(2))); out(format!("norm {a} inf {} none", -(rng.below(2) as i64) - 1));
                let v = rand_rhs(&mut rng, n, 1);
                for o in ["none", "i1", "i2", "inf", "ninf", "i0", "i3"] { out(format!("norm {} {o} none none", show_vec(&v))); }
            }
            // exactly singular
            let s = singular(&mut rng, n);
            emit_solves(out, &mut rng, &s, &[2]);
            out(format!("det {}", show_mat(&s))); out(format!("det_elim {}", show_mat(&s)));
            // stacks
            if r % 2 == 0 && n <= 5 {
                let cnt = 1 + rng.below(3);
                let mats: Vec<M> = (0..cnt).map(|t| if t % 2 == 0 { rand_conditioned(&mut rng, n) } else { pivot_forcing(&mut rng, n) }).collect();
                let e: Vec<i64> = mats.iter().flatten().flatten().copied().collect();
                out(format!("det {}", show_shape(&[cnt, n, n], &e))); out(format!("qr {}", show_shape(&[cnt, n, n], &e)));
                if cnt == 2 && n <= 4 {
                    let e2: Vec<i64> = e.iter().chain(e.iter().rev()).copied().collect();
                    out(format!("det {}", show_shape(&[2, 2, n, n], &e2)));
                    let mut e3: Vec<i64> = vec![];
                    for _ in 0..3 { e3.extend(rand_conditioned(&mut rng, n).into_iter().flatten()); }
                    e3.extend(e.iter().copied());
                    e3.extend(rand_conditioned(&mut rng, n).into_iter().flatten());
                    out(format!("qr {}", show_shape(&[3, 2, n, n], &e3))); out(format!("det {}", show_shape(&[2, 3, n, n], &e3)));
                }
            }
        }
    }
    // ---- norm: order / axis / keepdims dispatch, every combination on fixed arrays
    gen_norms(out, thorough);
    // ---- malformed
    for line in [
        "solve 2,3:1,2,3,4,5,6 2:1,2", "solve 3,2:1,2,3,4,5,6 3:1,2,3", "solve 4:1,2,3,4 2:1,2", "solve 1,1:5 1:10", "solve 2,2,2:1,2,3,4,5,6,7,9 2:1,2",
        "solve 2,2:1,2,3,5 3:1,2,3", "solve 2,2:1,2,3,5 3,2:1,2,3,4,5,6", "solve 2,2:1,2,3,5 2,2,1:1,2,3,4", "solve 2,2:1,2,3,5 2,1,2:1,2,3,4", "solve 2,2:1,2,3,5 2,2,2:1,2,3,4,5,6,7,8",
        "solve 2,2:1,2,3,5 1:7", "solve 3,3:1,2,3,4,5,6,7,8,10 3,1,1:1,2,3",
        "det 1,1:5", "det 2,3:1,2,3,4,5,6", "det 3:1,2,3", "det 1:4", "det 2,2,3:1,2,3,4,5,6,7,8,9,10,11,12", "det 2,1,1:3,4", "det 1,2,2:2,1,1,3", "det 3,2,2:2,1,1,3,0,1,1,0,1,2,3,5",
        "qr 3:1,2,3", "qr 2,3:1,2,3,4,5,6", "qr 1,1:4", "qr 2,2,3:1,2,3,4,5,6,7,8,9,10,11,12", "qr 3,3,2:1,2,3,4,5,6,7,8,9,10,11,12,13,14,15,16,17,18", "qr 1,2,2:2,1,1,3",
        "qr 2,1,1:3,4",
    ] { out(line.into()); }
    // ---- seeded random stream beyond the enumerated scope
    let n_rand = if thorough { 4000 } else { 300 };
    for _ in 0..n_rand {
        let n = 2 + rng.below(5);
        let m = match rng.below(6) { 0 => perm_diag_dominant(&mut rng, n), 1 => pivot_forcing(&mut rng, n), 2 => singular(&mut rng, n), _ => rand_conditioned(&mut rng, n) };
        let a = show_mat(&m);
        let k = 1 + rng.below(5);
        match rng.below(8) {
            0 => out(format!("solve {a} {}", show_vec(&rand_rhs(&mut rng, n, 1)))),
            1 | 2 | 3 => out(format!("solve {a} {}", show_shape(&[n, k], &rand_rhs(&mut rng, n, k)))),
            4 => out(format!("qr {a}")),
            5 => out(format!("det_mul {a} {}", show_mat(&rand_mat(&mut rng, n, 9)))),
            6 => out(format!("det_swap {a} {} {}", rng.below(n), rng.below(n))),
            _ => out(format!("det_elim {a}")),
        }
    }
}

// ---------------------------------------------------------------- executor

fn arr_f64(s: &str) -> Option<Array<f64>> {
    let (shape, elems) = parse_arr_raw(s);
    Array::new(elems.into_iter().map(|x| x as f64).collect(), shape).ok()
}
fn parse_rat(s: &str) -> Option<f64> {
    let (n, d) = s.split_once('/')?;
    Some(n.parse::<f64>().ok()? / d.parse::<f64>().ok()?)
}
/// `ok <shape>:<rat>,<rat>` -> (shape, values)
fn parse_expected_arr(body: &str) -> Option<(Vec<usize>, Vec<f64>)> {
    let (sh, el) = body.split_once(':')?;
    let vals = if el == "-" { vec![] } else { el.split(',').map(parse_rat).collect::<Option<Vec<f64>>>()? };
    Some((parse_usize_list(sh), vals))
}
fn close(code: f64, model: f64) -> bool { (code - model).abs() <= TOL * (1. + model.abs()) }
fn show_f(a: &Array<f64>) -> String {
    format!("{}:{}", show_list(&a.get_shape().unwrap()), a.get_elements().unwrap().iter().map(|x| format!("{:e}", x)).collect::<Vec<_>>().join(","))
}
fn mismatch(observed: String, detail: String) -> Option<Verdict> { Some(Verdict::Mismatch { observed, detail }) }

/// compare a real array with the model's rational array, element by element to rounding accuracy
fn cmp_arr(real: &Result<Array<f64>, ArrayError>, expected: &str, exact_err: bool) -> Result<String, (String, String)> {
    let observed = show_res(real, show_f);
    match real {
        Err(e) => {
            if class_of(expected) == "err" && (!exact_err || expected == format!("err {}", err_name(e))) { Ok(observed) }
            else { Err((observed, format!("model says `{}`", truncate(expected, 300)))) }
        }
        Ok(a) => {
            if !consistent(a) { return Err((observed, "inconsistent array (C01 monitor)".into())) }
            let Some(body) = expected.strip_prefix("ok ") else { return Err((observed, format!("model says `{}`", truncate(expected, 300)))) };
            let Some((shape, vals)) = parse_expected_arr(body) else { return Err((observed, "harness: cannot parse the model's answer".into())) };
            let (rs, re) = (a.get_shape().unwrap(), a.get_elements().unwrap());
            if rs != shape { return Err((observed, format!("shape: model {:?}", shape))) }
            for (p, (&c, &m)) in re.iter().zip(&vals).enumerate() {
                if !close(c, m) { return Err((observed, format!("element {p}: code {c:e}, exact model {m:e} (tolerance 1e-9 relative)"))) }
            }
            Ok(observed)
        }
    }
}

fn to_verdict(r: Result<String, (String, String)>) -> Option<Verdict> {
    match r { Ok(o) => Some(Verdict::Match(o)), Err((observed, detail)) => mismatch(observed, detail) }
}

fn mat_of(s: &str) -> (usize, Vec<f64>) { let (shape, e) = parse_arr_raw(s); (shape[0], e.into_iter().map(|x| x as f64).collect()) }

fn exec_solve(args: &[&str], expected: &str) -> Option<Verdict> {
    let (a, b) = (arr_f64(args[0])?, arr_f64(args[1])?);
    if b.ndim().ok()? == 0 { // `other.get_shape()[0]` on a 0-d right-hand side: the outcome class belongs to C09, not to this property
        let o = guarded(|| show_res(&a.solve(&b), show_f));
        return Some(Verdict::Open(o));
    }
    let real = match std::panic::catch_unwind(std::panic::AssertUnwindSafe(|| a.solve(&b))) { Ok(r) => r, Err(_) => return Some(compare_default("panic".into(), expected)) };
    // a singular matrix must be refused with exactly the singular-matrix error
    let exact_err = expected == "err SingularMatrix";
    let first = cmp_arr(&real, expected, exact_err);
    if let (Ok(_), Ok(x)) = (&first, &real) {
        // (ii) residual oracle on the code's own answer: ||A x - b||_inf <= 1e-9 * (||A||_inf ||x||_inf + ||b||_inf)
        let (n, av) = mat_of(args[0]);
        let bv: Vec<f64> = parse_arr_raw(args[1]).1.into_iter().map(|v| v as f64).collect();
        let xv = x.get_elements().unwrap();
        let k = bv.len() / n;
        let na = (0..n).map(|i| (0..n).map(|t| av[i * n + t].abs()).sum::<f64>()).fold(0., f64::max);
        let nx = xv.iter().fold(0f64, |m, v| m.max(v.abs()));
        let nb = bv.iter().fold(0f64, |m, v| m.max(v.abs()));
        for i in 0..n { for c in 0..k {
            let r: f64 = (0..n).map(|t| av[i * n + t] * xv[t * k + c]).sum::<f64>() - bv[i * k + c];
            if !(r.abs() <= TOL * (na * nx * n as f64 + nb)) { return mismatch(show_f(x), format!("residual (A x - b)[{i}][{c}] = {r:e}")) }
        } }
    }
    to_verdict(first)
}

fn exec_det(args: &[&str], expected: &str) -> Option<Verdict> {
    let a = arr_f64(args[0])?;
    let real = match std::panic::catch_unwind(std::panic::AssertUnwindSafe(|| a.det())) { Ok(r) => r, Err(_) => return Some(compare_default("panic".into(), expected)) };
    to_verdict(cmp_arr(&real, expected, false))
}

fn det_of(m: &M) -> Result<f64, String> {
    let a = Array::new(m.iter().flatten().map(|&x| x as f64).collect::<Vec<f64>>(), vec![m.len(), m.len()]).map_err(|e| format!("err {}", err_name(&e)))?;
    match std::panic::catch_unwind(std::panic::AssertUnwindSafe(|| a.det())) {
        Ok(Ok(d)) => { let e = d.get_elements().unwrap(); if e.len() == 1 { Ok(e[0]) } else { Err(format!("det returned {} values", e.len())) } }
        Ok(Err(e)) => Err(format!("err {}", err_name(&e))),
        Err(_) => Err("panic".into()),
    }
}
fn int_mat(s: &str) -> M { let (shape, e) = parse_arr_raw(s); e.chunks(shape[1]).map(|r| r.to_vec()).collect() }
fn expected_scalar(expected: &str) -> Option<f64> { parse_rat(expected.strip_prefix("ok ")?) }

fn exec_det_mul(args: &[&str], expected: &str) -> Option<Verdict> {
    let (a, b) = (int_mat(args[0]), int_mat(args[1]));
    let c = mat_mul(&a, &b);
    let m = expected_scalar(expected)?;
    match (det_of(&a), det_of(&b), det_of(&c)) {
        (Ok(da), Ok(db), Ok(dc)) => {
            let obs = format!("ok det(A)={da:e} det(B)={db:e} det(AB)={dc:e}");
            if !close(dc, m) { return mismatch(obs, format!("det(AB): exact model {m:e}")) }
            if !close(dc, da * db) { return mismatch(obs, "det(AB) != det(A) det(B)".into()) }
            Some(Verdict::Match(obs))
        }
        (x, y, z) => mismatch(format!("{:?} {:?} {:?}", x, y, z), "det refused a square matrix".into()),
    }
}

fn exec_det_swap(args: &[&str], expected: &str) -> Option<Verdict> {
    let a = int_mat(args[0]);
    let (i, j): (usize, usize) = (args[1].parse().ok()?, args[2].parse().ok()?);
    let mut s = a.clone(); s.swap(i, j);
    let m = expected_scalar(expected)?;
    match (det_of(&a), det_of(&s)) {
        (Ok(da), Ok(ds)) => {
            let obs = format!("ok det(A)={da:e} det(swapped)={ds:e}");
            if !close(ds, m) { return mismatch(obs, format!("det(swapped): exact model {m:e}")) }
            let want = if i == j { da } else { -da };
            if !close(ds, want) { return mismatch(obs, "a row exchange must flip the sign of det".into()) }
            Some(Verdict::Match(obs))
        }
        (x, y) => mismatch(format!("{:?} {:?}", x, y), "det refused a square matrix".into()),
    }
}

fn exec_det_elim(args: &[&str], expected: &str) -> Option<Verdict> {
    let a = int_mat(args[0]);
    let m = expected_scalar(expected)?;
    match det_of(&a) {
        Ok(d) => {
            let obs = format!("ok {d:e}");
            let exact = det_exact(&a) as f64;
            if !close(d, m) { return mismatch(obs, format!("det by cofactors {d:e}, by elimination (exact model) {m:e}")) }
            if !close(d, exact) { return mismatch(obs, format!("det {d:e}, exact integer determinant {exact:e}")) }
            Some(Verdict::Match(obs))
        }
        Err(o) => mismatch(o, "det refused a square matrix".into()),
    }
}

fn sym_val(s: &str) -> Option<(f64, bool)> {
    if let Some(rest) = s.strip_prefix('r') {
        let (p, q) = rest.split_once('=')?;
        let (p, q) = (p.parse::<u32>().ok()?, parse_rat(q)?);
        Some((if p == 2 { q.sqrt() } else { q.powf(1. / p as f64) }, p == 2))
    } else { Some((parse_rat(s)?, true)) }
}

fn exec_norm(args: &[&str], expected: &str) -> Option<Verdict> {
    let a = arr_f64(args[0])?;
    let axis: Option<Vec<isize>> = if args[2] == "none" { None } else { Some(parse_isize_list(args[2])) };
    let keep: Option<bool> = match args[3] { "none" => None, "true" => Some(true), "false" => Some(false), _ => return None };
    let call = |a: &Array<f64>| -> Result<Array<f64>, ArrayError> {
        let o = args[1];
        if o == "none" { a.norm(None::<NormOrd>, axis.clone(), keep) }
        else if let Some(h) = o.strip_prefix('s') {
            let bytes: Vec<u8> = (0..h.len() / 2).map(|i| u8::from_str_radix(&h[2 * i..2 * i + 2], 16).unwrap()).collect();
            let text = String::from_utf8(bytes).unwrap();
            a.norm(Some(text.as_str()), axis.clone(), keep)
        } else {
            let ord = match o { "inf" => NormOrd::Inf, "ninf" => NormOrd::NegInf, "fro" => NormOrd::Fro, "nuc" => NormOrd::Nuc, _ => NormOrd::Int(o[1..].parse().unwrap()) };
            a.norm(Some(ord), axis.clone(), keep)
        }
    };
    let real = match std::panic::catch_unwind(std::panic::AssertUnwindSafe(|| call(&a))) { Ok(r) => r, Err(_) => {
        if expected == "open" { return Some(Verdict::Open("panic".into())) }
        return Some(compare_default("panic".into(), expected)) } };
    let observed = show_res(&real, show_f);
    if expected == "open" { return Some(Verdict::Open(observed)) }
    match &real {
        Err(_) => Some(compare_default(observed, expected)),
        Ok(r) => {
            if !consistent(r) { return mismatch(observed, "inconsistent array (C01 monitor)".into()) }
            let Some(body) = expected.strip_prefix("ok ") else { return mismatch(observed, format!("model says `{}`", expected)) };
            let (sh, el) = body.split_once(':')?;
            let shape = parse_usize_list(sh);
            let vals: Vec<(f64, bool)> = el.split(',').map(sym_val).collect::<Option<Vec<_>>>()?;
            let (rs, re) = (r.get_shape().unwrap(), r.get_elements().unwrap());
            if rs != shape { return mismatch(observed, format!("shape: model {:?}", shape)) }
            for (p, (&c, &(m, tight))) in re.iter().zip(&vals).enumerate() {
                let ok = if tight { (c - m).abs() <= 1e-12 * (1. + m.abs()) } else { close(c, m) };
                if !ok { return mismatch(observed, format!("element {p}: code {c:e}, model {m:e}")) }
            }
            // (ii) definitions evaluated natively for the forms the statement names (whole-array default, vector 1 / 2 / inf)
            let e: Vec<f64> = parse_arr_raw(args[0]).1.into_iter().map(|v| v as f64).collect();
            let nd = a.ndim().unwrap();
            if args[2] == "none" && re.len() == 1 {
                let want = match args[1] {
                    "none" => Some(e.iter().map(|x| x * x).sum::<f64>().sqrt()),
                    "i2" if nd == 1 => Some(e.iter().map(|x| x * x).sum::<f64>().sqrt()),
                    "i1" if nd == 1 => Some(e.iter().map(|x| x.abs()).sum::<f64>()),
                    "inf" if nd == 1 => Some(e.iter().fold(0f64, |m, x| m.max(x.abs()))),
                    _ => None,
                };
                if let Some(w) = want { if !((re[0] - w).abs() <= 1e-12 * (1. + w.abs())) { return mismatch(observed, format!("definition gives {w:e}")) } }
            }
            Some(Verdict::Match(observed))
        }
    }
}

fn exec_qr(args: &[&str], expected: &str) -> Option<Verdict> {
    let a = arr_f64(args[0])?;
    let real = match std::panic::catch_unwind(std::panic::AssertUnwindSafe(|| a.qr())) { Ok(r) => r, Err(_) => return Some(compare_default("panic".into(), expected)) };
    let observed = match &real { Ok(v) => format!("ok {} pair(s)", v.len()), Err(e) => format!("err {}", err_name(e)) };
    let pairs = match &real { Err(_) => return Some(compare_default(observed, expected)), Ok(v) => v };
    let Some(body) = expected.strip_prefix("ok ") else { return mismatch(observed, format!("model says `{}`", truncate(expected, 200))) };
    let exp: Vec<&str> = body.split(';').collect();
    if exp.len() != pairs.len() { return mismatch(observed, format!("model has {} factor pairs", exp.len())) }
    let (shape, elems) = parse_arr_raw(args[0]);
    let n = shape[shape.len() - 1];
    let mut open = false;
    for (t, ((q, r), e)) in pairs.iter().zip(&exp).enumerate() {
        let parts: Vec<&str> = e.split('|').collect();
        let rats = |s: &str| -> Option<Vec<f64>> { s.split(',').map(parse_rat).collect() };
        let (us, nrm2, ru) = (rats(parts[0])?, rats(parts[1])?, rats(parts[2])?);
        let av: Vec<f64> = elems[t * n * n..(t + 1) * n * n].iter().map(|&x| x as f64).collect();
        // linearly dependent columns: Gram–Schmidt divides by a zero norm; the statement is about well-conditioned matrices
        if nrm2.iter().any(|&x| x == 0.) { open = true; continue }
        if q.get_shape().unwrap() != vec![n, n] || r.get_shape().unwrap() != vec![n, n] { return mismatch(observed, format!("pair {t}: shapes {:?} {:?}", q.get_shape(), r.get_shape())) }
        let (qv, rv) = (q.get_elements().unwrap(), r.get_elements().unwrap());
        let scale = av.iter().fold(1f64, |m, x| m.max(x.abs())) * n as f64;
        for i in 0..n { for k in 0..n {
            // (i) against the exact Gram–Schmidt vectors with the root taken here
            let (mq, mr) = (us[k * n + i] / nrm2[k].sqrt(), ru[k * n + i] / nrm2[k].sqrt());
            if !((qv[i * n + k] - mq).abs() <= TOL * scale) { return mismatch(observed, format!("pair {t}: Q[{i}][{k}] = {:e}, model {:e}", qv[i * n + k], mq)) }
            if !((rv[k * n + i] - mr).abs() <= TOL * scale * scale) { return mismatch(observed, format!("pair {t}: R[{k}][{i}] = {:e}, model {:e}", rv[k * n + i], mr)) }
            // (ii) defining equations on the code's own factors
            let qtq: f64 = (0..n).map(|s| qv[s * n + i] * qv[s * n + k]).sum();
            if !((qtq - if i == k { 1. } else { 0. }).abs() <= TOL * scale) { return mismatch(observed, format!("pair {t}: (Q^T Q)[{i}][{k}] = {qtq:e}")) }
            if i > k && !(rv[i * n + k].abs() <= TOL * scale * scale) { return mismatch(observed, format!("pair {t}: R[{i}][{k}] = {:e} below the diagonal", rv[i * n + k])) }
            let qr: f64 = (0..n).map(|s| qv[i * n + s] * rv[s * n + k]).sum();
            if !((qr - av[i * n + k]).abs() <= TOL * scale * scale) { return mismatch(observed, format!("pair {t}: (Q R)[{i}][{k}] = {qr:e}, A = {:e}", av[i * n + k])) }
        } }
    }
    if open { Some(Verdict::Open(observed)) } else { Some(Verdict::Match(observed)) }
}

fn exec(op: &str, args: &[&str], expected: &str) -> Option<Verdict> {
    match op {
        "solve" => exec_solve(args, expected),
        "det" => exec_det(args, expected),
        "det_mul" => exec_det_mul(args, expected),
        "det_swap" => exec_det_swap(args, expected),
        "det_elim" => exec_det_elim(args, expected),
        "norm" => exec_norm(args, expected),
        "qr" => exec_qr(args, expected),
        _ => None,
    }
}

/// non-trivial: solve whose first column needs a row exchange or with >= 2 right-hand sides; det/qr of size >= 3 or of a stack;
/// norm with an explicit order or axis, or of an array with >= 2 axes
fn nontrivial(op: &str, args: &[&str]) -> bool {
    let (shape, e) = parse_arr_raw(args[0]);
    match op {
        "solve" => {
            if shape.len() != 2 || shape[0] != shape[1] { return false }
            let n = shape[0];
            let exch = (1..n).any(|i| e[i * n].abs() > e[0].abs());
            let (bs, _) = parse_arr_raw(args[1]);
            exch || (bs.len() >= 2 && bs[1] >= 2)
        }
        "norm" => shape.len() >= 2 || args[1] != "none" || args[2] != "none",
        _ => shape.len() >= 3 || shape.iter().all(|&d| d >= 3),
    }
}

fn main() {
    harness_main(Spec { prop: "C15", gen, exec, nontrivial, hang_secs: 30,
        rule: "integer matrices |x|<=9 as f64. exhaustive: all 2x2 over -2..2 and all 3x3 over -1..1 (det, elimination, exchange, product, solve with 1..3 columns, qr; quick: solve/qr on every 4th 3x3), 4x4 over {0,1} (all thorough / every 16th quick); families n=2..6: cond_inf<=1e4 random, row-permuted diagonally dominant, upper/lower triangular, pivot-forcing (zero/small leading entry), exactly singular, stacks [s,n,n] [s,t,n,n]; norm: every order spelling x axis spelling x keepdims on 14 fixed arrays rank<=3; malformed shapes; seeded random stream. tolerance 1e-9 relative (model vs code and residual oracles). non-trivial = solve needing a row exchange in column 0 or >=2 right-hand sides; det/qr of size>=3 or a stack; norm with explicit order/axis or rank>=2" });
}
