//! C17 — string-array operations apply the per-string function at every position.
//!
//! Strings cross the boundary hex-encoded (`.` = empty).  Arrays `shape:e,e,…`.
//! Exhaustive small scope over the alphabet {a,b,A,B,0,1,' ','-',',','\n','\r'}, packed into arrays of rank 1..3,
//! then a seeded random stream (strings up to 24 bytes, patterns cut out of the subject), then malformed calls,
//! then the robustness streams of FRAMEWORK.md (`robust`): sizes, zero-length axes, long strings / large widths, argument-shape
//! combinations in every argument position, and part 2 (`robust2`): huge arrays, colliding shapes A–B–A, value fingerprints, refused-then-valid,
//! exact lengths, aliasing, ranks 4..6, and part 3 (`robust3`): look-alike pairs no rolling / sampled / symmetric hash tells apart (Thue–Morse words
//! against their letter-swapped twin, one-position differences, anagram windows, birthday collisions of 23 weak hashes) through every substring
//! operation, long common stems through the comparisons, giant arrays (`iota:` spelled, above 2^20 strings) judged by a native per-string
//! reference that is compared with the model on every smaller case it covers (`refstats`).  `exec` runs EVERY case on both receivers (`Array<String>` and `Result<Array<String>, _>`), re-runs
//! the previous case after every third one (A–B–A) and passes the receiver itself as second operand when both are spelled alike.
use arrharness::*;

/// Unequal-but-broadcastable argument shapes (rank >= 2 against `[1]`, `[2,3]` against `[3]`, `[2,1]` against `[1,3]`, …).
/// The snapshot's `broadcast` was defective for those (property C03); the repair is in /repo since `e71698d`
/// ("fix: broadcasting aligns shapes at the trailing axis"), so this is on.  C17_FULL_BROADCAST=0 restricts the
/// generator to equal shapes + rank-1 against `[1]` (what the snapshot handled correctly).
const FULL_BROADCAST: bool = true;
fn full_broadcast() -> bool { std::env::var("C17_FULL_BROADCAST").map_or(FULL_BROADCAST, |v| v == "1") }

const ALPHA: [char; 11] = ['a', 'b', 'A', 'B', '0', '1', ' ', '-', ',', '\n', '\r'];
const SMALL: [char; 3] = ['a', 'b', '-'];

// ------------------------------------------------------------------ text

fn hex(s: &str) -> String {
    if s.is_empty() { return ".".to_string(); }
    let mut o = String::with_capacity(2 * s.len());
    for b in s.bytes() { o.push(char::from_digit((b >> 4) as u32, 16).unwrap()); o.push(char::from_digit((b & 15) as u32, 16).unwrap()); }
    o
}
fn unhex(h: &str) -> Option<String> {
    if h == "." { return Some(String::new()); }
    if h.is_empty() || h.len() % 2 != 0 { return None; }
    let b = h.as_bytes();
    let mut v = Vec::with_capacity(b.len() / 2);
    for i in (0..b.len()).step_by(2) { v.push(u8::from_str_radix(std::str::from_utf8(&b[i..i + 2]).ok()?, 16).ok()?); }
    String::from_utf8(v).ok()
}
fn split_arr(s: &str) -> Option<(Vec<usize>, Vec<&str>)> {
    let (sh, el) = s.split_once(':')?;
    Some((parse_usize_list(sh), if el == "-" { vec![] } else { el.split(',').collect() }))
}
/// `iota:<shape>+<off>` names the array whose flat element k is `subj(k + off)`, `iotap:<shape>+<off>` the one of `pat(k + off)` — giant
/// arrays (above 2^20 strings) are built here from the name and never written into a case line
fn iota_arg(s: &str) -> Option<(bool, Vec<usize>, usize)> {
    let (is_pat, rest) = if let Some(r) = s.strip_prefix("iotap:") { (true, r) } else { (false, s.strip_prefix("iota:")?) };
    let (sh, off) = rest.split_once('+')?;
    Some((is_pat, parse_usize_list(sh), off.parse().ok()?))
}
fn p_sarr(s: &str) -> Option<Array<String>> {
    if let Some((is_pat, sh, off)) = iota_arg(s) {
        let n: usize = sh.iter().product();
        return Array::new((0..n).map(|k| if is_pat { pat(k + off) } else { subj(k + off) }).collect(), sh).ok();
    }
    let (sh, el) = split_arr(s)?;
    Array::new(el.into_iter().map(unhex).collect::<Option<Vec<_>>>()?, sh).ok()
}
fn p_narr(s: &str) -> Option<Array<usize>> {
    let (sh, el) = split_arr(s)?;
    Array::new(el.into_iter().map(|x| x.parse().ok()).collect::<Option<Vec<usize>>>()?, sh).ok()
}
fn p_carr(s: &str) -> Option<Array<char>> {
    let (sh, el) = split_arr(s)?;
    Array::new(el.into_iter().map(|x| unhex(x).and_then(|t| { let mut c = t.chars(); let f = c.next()?; if c.next().is_some() { None } else { Some(f) } })).collect::<Option<Vec<char>>>()?, sh).ok()
}
fn p_barr(s: &str) -> Option<Array<bool>> {
    let (sh, el) = split_arr(s)?;
    Array::new(el.into_iter().map(|x| match x { "1" => Some(true), "0" => Some(false), _ => None }).collect::<Option<Vec<bool>>>()?, sh).ok()
}
fn p_opt<T>(s: &str, f: impl Fn(&str) -> Option<T>) -> Option<Option<T>> { if s == "none" { Some(None) } else { f(s).map(Some) } }

/// `ok shape:elems` — with the C01 monitor on every array received
fn fmt<T: ArrayElement>(r: &Result<Array<T>, ArrayError>, f: impl Fn(&T) -> String) -> String {
    match r {
        Ok(a) => {
            if !consistent(a) { return format!("inconsistent-array shape={:?} len={}", a.get_shape().unwrap(), a.get_elements().unwrap().len()); }
            format!("ok {}:{}", show_list(&a.get_shape().unwrap()), a.get_elements().unwrap().iter().map(f).collect::<Vec<_>>().join(","))
        }
        Err(e) => format!("err {}", err_name(e)),
    }
}
fn f_s(r: &Result<Array<String>, ArrayError>) -> String { fmt(r, |s| hex(s)) }
fn f_b(r: &Result<Array<bool>, ArrayError>) -> String { fmt(r, |b| if *b { "1".into() } else { "0".into() }) }
fn f_n(r: &Result<Array<usize>, ArrayError>) -> String { fmt(r, |n| n.to_string()) }
fn f_i(r: &Result<Array<isize>, ArrayError>) -> String { fmt(r, |n| n.to_string()) }
fn f_l(r: &Result<Array<List<String>>, ArrayError>) -> String {
    fmt(r, |l| if l.0.is_empty() { "~".into() } else { l.0.iter().map(|s| hex(s)).collect::<Vec<_>>().join("|") })
}
fn f_t(r: &Result<Array<Tuple3<String, String, String>>, ArrayError>) -> String { fmt(r, |t| format!("{}|{}|{}", hex(&t.0), hex(&t.1), hex(&t.2))) }

// ------------------------------------------------------------------ exec

/// everything a string array can be asked — implemented by the crate for `Array<String>` AND for
/// `Result<Array<String>, ArrayError>` (the chained form); `run` is generic, so both receivers execute the very same calls
trait Recv: ArrayStringManipulate<String> + ArrayStringCompare<String> + ArrayStringIndexing<String> + ArrayStringValidate<String> {}
impl<T: ArrayStringManipulate<String> + ArrayStringCompare<String> + ArrayStringIndexing<String> + ArrayStringValidate<String>> Recv for T {}

fn cmp_enum(o: &str) -> Option<CompareOp> {
    Some(match o.to_lowercase().as_str() {
        "==" | "equals" => CompareOp::Equals, "!=" | "not_equals" => CompareOp::NotEquals, ">" | "greater" => CompareOp::Greater,
        "<" | "less" => CompareOp::Less, ">=" | "greater_equal" => CompareOp::GreaterEqual, "<=" | "less_equal" => CompareOp::LessEqual,
        _ => return None,
    })
}

/// one call on the receiver `r` (the first argument of the case line is the receiver's array and is NOT re-read here)
fn run<R: Recv>(r: &R, op: &str, args: &[&str]) -> Option<String> {
    let sa = |i: usize| -> Option<Array<String>> { p_sarr(args.get(i)?) };
    macro_rules! two { ($f:ident, $m:path) => {{ let b = sa(1)?; guarded(|| $f(&$m(r, &b))) }} }
    Some(match op {
        "add" => two!(f_s, ArrayStringManipulate::add),
        "join" => two!(f_s, ArrayStringManipulate::join),
        "partition" => two!(f_t, ArrayStringManipulate::partition),
        "rpartition" => two!(f_t, ArrayStringManipulate::rpartition),
        "equal" => two!(f_b, ArrayStringCompare::equal),
        "not_equal" => two!(f_b, ArrayStringCompare::not_equal),
        "greater_equal" => two!(f_b, ArrayStringCompare::greater_equal),
        "less_equal" => two!(f_b, ArrayStringCompare::less_equal),
        "greater" => two!(f_b, ArrayStringCompare::greater),
        "less" => two!(f_b, ArrayStringCompare::less),
        "count" => two!(f_n, ArrayStringIndexing::count),
        "starts_with" => two!(f_b, ArrayStringIndexing::starts_with),
        "ends_with" => two!(f_b, ArrayStringIndexing::ends_with),
        "find" => two!(f_i, ArrayStringIndexing::find),
        "rfind" => two!(f_i, ArrayStringIndexing::rfind),
        "index" => two!(f_i, ArrayStringIndexing::index),
        "rindex" => two!(f_i, ArrayStringIndexing::rindex),
        "compare" => {
            // the three spellings of the option: `&str`, `String`, and (for the valid names) the enum
            let b = sa(1)?; let o = unhex(args.get(2)?)?;
            let by_str = guarded(|| f_b(&ArrayStringCompare::compare(r, &b, o.as_str())));
            let by_string = guarded(|| f_b(&ArrayStringCompare::compare(r, &b, o.clone())));
            if by_string != by_str { return Some(format!("SPELLING-DIVERGENCE String spelling gives `{}`, &str spelling `{}`", truncate(&by_string, 200), truncate(&by_str, 200))); }
            if let Some(e) = cmp_enum(&o) {
                let by_enum = guarded(|| f_b(&ArrayStringCompare::compare(r, &b, e)));
                if by_enum != by_str { return Some(format!("SPELLING-DIVERGENCE enum spelling gives `{}`, &str spelling `{}`", truncate(&by_enum, 200), truncate(&by_str, 200))); }
            }
            by_str
        }
        "multiply" => { let n = p_narr(args.get(1)?)?; guarded(|| f_s(&ArrayStringManipulate::multiply(r, &n))) }
        "capitalize" => guarded(|| f_s(&ArrayStringManipulate::capitalize(r))),
        "lower" => guarded(|| f_s(&ArrayStringManipulate::lower(r))),
        "upper" => guarded(|| f_s(&ArrayStringManipulate::upper(r))),
        "swapcase" => guarded(|| f_s(&ArrayStringManipulate::swapcase(r))),
        "center" | "ljust" | "rjust" => {
            let w = p_narr(args.get(1)?)?; let f = p_opt(args.get(2)?, p_carr)?;
            guarded(|| f_s(&match op { "center" => ArrayStringManipulate::center(r, &w, f), "ljust" => ArrayStringManipulate::ljust(r, &w, f), _ => ArrayStringManipulate::rjust(r, &w, f) }))
        }
        "zfill" => { let w: usize = args.get(1)?.parse().ok()?; guarded(|| f_s(&ArrayStringManipulate::zfill(r, w))) }
        "translate" => {
            let t = args.get(1)?;
            let table: Vec<(char, char)> = if *t == "-" { vec![] } else { t.split(',').map(|x| { let s = unhex(x)?; let mut c = s.chars(); Some((c.next()?, c.next()?)) }).collect::<Option<Vec<_>>>()? };
            guarded(|| f_s(&ArrayStringManipulate::translate(r, table)))
        }
        "split" | "rsplit" => {
            let s = p_opt(args.get(1)?, p_sarr)?; let m = p_opt(args.get(2)?, p_narr)?;
            guarded(|| f_l(&if op == "split" { ArrayStringManipulate::split(r, s, m) } else { ArrayStringManipulate::rsplit(r, s, m) }))
        }
        "splitlines" => { let k = p_opt(args.get(1)?, p_barr)?; guarded(|| f_l(&ArrayStringManipulate::splitlines(r, k))) }
        "replace" => {
            let o = sa(1)?; let n = sa(2)?; let c: Option<usize> = p_opt(args.get(3)?, |x| x.parse().ok())?;
            guarded(|| f_s(&ArrayStringManipulate::replace(r, &o, &n, c)))
        }
        "strip" | "lstrip" | "rstrip" => {
            let c = p_opt(args.get(1)?, p_sarr)?;
            guarded(|| f_s(&match op { "strip" => ArrayStringManipulate::strip(r, c), "lstrip" => ArrayStringManipulate::lstrip(r, c), _ => ArrayStringManipulate::rstrip(r, c) }))
        }
        "str_len" => guarded(|| f_n(&ArrayStringIndexing::str_len(r))),
        "is_alpha" => guarded(|| f_b(&ArrayStringValidate::is_alpha(r))),
        "is_alnum" => guarded(|| f_b(&ArrayStringValidate::is_alnum(r))),
        "is_decimal" => guarded(|| f_b(&ArrayStringValidate::is_decimal(r))),
        "is_numeric" => guarded(|| f_b(&ArrayStringValidate::is_numeric(r))),
        "is_digit" => guarded(|| f_b(&ArrayStringValidate::is_digit(r))),
        "is_space" => guarded(|| f_b(&ArrayStringValidate::is_space(r))),
        "is_lower" => guarded(|| f_b(&ArrayStringValidate::is_lower(r))),
        "is_upper" => guarded(|| f_b(&ArrayStringValidate::is_upper(r))),
        _ => return None,
    })
}

/// the SAME object on both sides (`a.op(&a)`): a shortcut decided by `ptr::eq` must still give what two equal arrays give
fn run_alias(a: &Array<String>, op: &str) -> Option<String> {
    Some(match op {
        "add" => guarded(|| f_s(&a.add(a))), "join" => guarded(|| f_s(&a.join(a))),
        "partition" => guarded(|| f_t(&a.partition(a))), "rpartition" => guarded(|| f_t(&a.rpartition(a))),
        "equal" => guarded(|| f_b(&a.equal(a))), "not_equal" => guarded(|| f_b(&a.not_equal(a))), "greater_equal" => guarded(|| f_b(&a.greater_equal(a))),
        "less_equal" => guarded(|| f_b(&a.less_equal(a))), "greater" => guarded(|| f_b(&a.greater(a))), "less" => guarded(|| f_b(&a.less(a))),
        "count" => guarded(|| f_n(&a.count(a))), "starts_with" => guarded(|| f_b(&a.starts_with(a))), "ends_with" => guarded(|| f_b(&a.ends_with(a))),
        "find" => guarded(|| f_i(&a.find(a))), "rfind" => guarded(|| f_i(&a.rfind(a))), "index" => guarded(|| f_i(&a.index(a))), "rindex" => guarded(|| f_i(&a.rindex(a))),
        _ => return None,
    })
}

/// BOTH receivers on every case: the plain `Array<String>` call, the same call on `Ok(array)` through
/// `impl … for Result<Array<String>, ArrayError>` (must give the same answer), and on an `Err(..)` receiver (must stay an error)
fn exec_case(op: &str, args: &[&str], expected: &str) -> Option<Verdict> {
    if is_giant(args) { return exec_giant(op, args, expected); }
    // the native reference (used in place of the model on the giant cases) is compared with the model on every case it covers
    if args.iter().map(|a| a.len()).sum::<usize>() <= 200_000 {
        let t0 = std::time::Instant::now();
        let nat = native_case(op, args);
        REF_MICROS.fetch_add(t0.elapsed().as_micros() as usize, Relaxed);
        if let Some(nat) = nat {
            REF_VALIDATED.fetch_add(1, Relaxed);
            if nat != expected {
                REF_BROKEN.fetch_add(1, Relaxed);
                return Some(Verdict::Mismatch { observed: "n/a".into(), detail: format!("HARNESS: the native reference says `{}`, the model `{}`", truncate(&nat, 300), truncate(expected, 300)) });
            }
        }
    }
    let a = p_sarr(args.first()?)?;
    let plain = run(&a, op, args)?;
    let ok_recv: Result<Array<String>, ArrayError> = Ok(a.clone());
    let chained = run(&ok_recv, op, args)?;
    let err_recv: Result<Array<String>, ArrayError> = Err(ArrayError::NotImplemented);
    let on_err = run(&err_recv, op, args)?;
    // aliasing: a second operand spelled exactly like the receiver is ALSO passed as the very same object
    let aliased = if args.len() == 2 && args[1] == args[0] { run_alias(&a, op) } else if op == "replace" && args.len() == 4 && args[1] == args[0] && args[2] == args[0] {
        let c: Option<usize> = p_opt(args[3], |x| x.parse().ok())?; Some(guarded(|| f_s(&a.replace(&a, &a, c)))) } else { None };
    let observed =
        if chained != plain { format!("RECEIVER-DIVERGENCE chained call on Ok(array) gives `{}`, plain call `{}`", truncate(&chained, 300), truncate(&plain, 300)) }
        else if class_of(&on_err) != "err" { format!("RECEIVER-DIVERGENCE the call on an Err(..) receiver gives `{}`", truncate(&on_err, 300)) }
        else if aliased.as_ref().is_some_and(|x| *x != plain) { format!("ALIAS-DIVERGENCE `a.{op}(&a)` gives `{}`, the call with an equal second array `{}`", truncate(&aliased.unwrap(), 300), truncate(&plain, 300)) }
        else { plain };
    Some(compare_default(observed, expected))
}

thread_local! {
    /// the previous case of this thread (op, arguments, model answer, what the crate answered) — for the A–B–A discipline
    static PREV: std::cell::RefCell<Option<(String, Vec<String>, String, String)>> = const { std::cell::RefCell::new(None) };
    static SEQ: std::cell::Cell<u64> = const { std::cell::Cell::new(0) };
}
fn verdict_text(v: &Option<Verdict>) -> String {
    match v { None => "harness-error".into(), Some(Verdict::Match(o)) => format!("match {o}"), Some(Verdict::Open(o)) => format!("open {o}"), Some(Verdict::Mismatch { observed, .. }) => format!("mismatch {observed}") }
}

/// A–B–A: every third case B is followed by a re-run of the case A executed just before it; the crate must answer A exactly as it did
/// the first time (a memo / cache that survives a call makes the answer depend on the call in between).
fn exec(op: &str, args: &[&str], expected: &str) -> Option<Verdict> {
    if op == "refstats" {
        let (v, u, b) = (REF_VALIDATED.load(Relaxed), REF_USED.load(Relaxed), REF_BROKEN.load(Relaxed));
        let text = format!("ok native reference (naive per-string search / count / comparison / class loops, applied position by position): compared with the model on {v} cases of this run ({b} disagreements), used in place of the model on {u} giant cases");
        eprintln!("C17 {} (the comparisons took {:.1} s)", &text[3..], REF_MICROS.load(Relaxed) as f64 / 1e6);
        if expected != "native" { return None; }
        return Some(if b > 0 || (u > 0 && v < 1000) { Verdict::Mismatch { observed: text, detail: "the native reference was used without (enough) validation against the model in the same run".into() } } else { Verdict::Match(text) });
    }
    let t0 = std::time::Instant::now();
    let mut out = exec_case(op, args, expected);
    let seq = SEQ.with(|s| { let x = s.get() + 1; s.set(x); x });
    let prev = PREV.with(|p| p.borrow_mut().take());
    if let Some((pop, pargs, pexp, ptext)) = &prev {
        let differs = pop != op || pargs.iter().map(String::as_str).ne(args.iter().copied());
        if differs && seq % 3 == 0 && !matches!(out, Some(Verdict::Mismatch { .. }) | None) {
            let pa: Vec<&str> = pargs.iter().map(String::as_str).collect();
            let again = verdict_text(&exec_case(pop, &pa, pexp));
            if again != *ptext {
                out = Some(Verdict::Mismatch { observed: format!("A-B-A: `{} {}` answered `{}` before this case and `{}` after it", pop, truncate(&pa.join(" "), 300), truncate(ptext, 300), truncate(&again, 300)),
                                               detail: "the answer to a call must not depend on the calls made before it (hidden state)".into() });
            }
        }
    }
    // huge cases are not kept (the re-run would double their cost)
    let keep = args.iter().map(|a| a.len()).sum::<usize>() <= 30_000 && !is_giant(args);
    let text = verdict_text(&out);
    // C17_SLOW=<ms>: report every case (its A-B-A re-run included) that took longer — the per-case watchdog is `hang_secs`
    if let Some(ms) = std::env::var("C17_SLOW").ok().and_then(|v| v.parse::<u128>().ok()) {
        if t0.elapsed().as_millis() >= ms { eprintln!("C17 slow case: {} ms  {} {}", t0.elapsed().as_millis(), op, truncate(&args.join(" "), 120)); }
    }
    PREV.with(|p| *p.borrow_mut() = if keep { Some((op.to_string(), args.iter().map(|a| a.to_string()).collect(), expected.to_string(), text)) } else { None });
    out
}

// ------------------------------------------------------------------ native reference (giant cases), validated against the model

use std::sync::atomic::{AtomicUsize, Ordering::Relaxed};
static REF_VALIDATED: AtomicUsize = AtomicUsize::new(0);
static REF_USED: AtomicUsize = AtomicUsize::new(0);
static REF_BROKEN: AtomicUsize = AtomicUsize::new(0);
static REF_MICROS: AtomicUsize = AtomicUsize::new(0);

fn is_giant(args: &[&str]) -> bool { args.iter().any(|a| a.starts_with("iota")) }

fn nat_find(s: &[u8], p: &[u8]) -> Option<usize> { if p.len() > s.len() { None } else { (0..=s.len() - p.len()).find(|&i| &s[i..i + p.len()] == p) } }
fn nat_rfind(s: &[u8], p: &[u8]) -> Option<usize> { if p.len() > s.len() { None } else { (0..=s.len() - p.len()).rev().find(|&i| &s[i..i + p.len()] == p) } }
fn nat_count(s: &[u8], p: &[u8]) -> usize {
    if p.is_empty() { return s.len() + 1; }
    let (mut i, mut c) = (0usize, 0usize);
    while i + p.len() <= s.len() { if &s[i..i + p.len()] == p { c += 1; i += p.len(); } else { i += 1; } }
    c
}
fn nat_trim(s: &[u8]) -> &[u8] { let mut n = s.len(); while n > 0 && s[n - 1] == b' ' { n -= 1; } &s[..n] }
/// first differing byte decides; a proper prefix is smaller
fn nat_cmp(a: &[u8], b: &[u8]) -> std::cmp::Ordering {
    for i in 0..a.len().min(b.len()) { if a[i] != b[i] { return if a[i] < b[i] { std::cmp::Ordering::Less } else { std::cmp::Ordering::Greater }; } }
    a.len().cmp(&b.len())
}
fn bit(b: bool) -> String { if b { "1".into() } else { "0".into() } }
fn signed(o: Option<usize>) -> String { o.map_or("-1".to_string(), |i| i.to_string()) }
const NATIVE_PAIR: &[&str] = &["count", "find", "rfind", "index", "rindex", "starts_with", "ends_with", "equal", "not_equal", "greater_equal", "less_equal", "greater", "less", "add"];
const NATIVE_UNARY: &[&str] = &["str_len", "upper", "lower", "swapcase", "capitalize", "is_alpha", "is_alnum", "is_decimal", "is_numeric", "is_digit", "is_space", "is_lower", "is_upper"];

/// what ONE position of the result must hold (in the wire form of `fmt`): plain loops over ASCII bytes, no call shared with the crate's implementation
fn native_elem(op: &str, s: &str, p: &str) -> Option<String> {
    if !s.is_ascii() || !p.is_ascii() { return None; }
    let (sb, pb) = (s.as_bytes(), p.as_bytes());
    let ord = || nat_cmp(nat_trim(sb), nat_trim(pb));
    let letters = || sb.iter().filter(|c| c.is_ascii_alphabetic());
    Some(match op {
        "count" => nat_count(sb, pb).to_string(),
        "find" | "index" => signed(nat_find(sb, pb)),
        "rfind" | "rindex" => signed(nat_rfind(sb, pb)),
        "starts_with" => bit(sb.len() >= pb.len() && &sb[..pb.len()] == pb),
        "ends_with" => bit(sb.len() >= pb.len() && &sb[sb.len() - pb.len()..] == pb),
        "equal" => bit(ord().is_eq()), "not_equal" => bit(ord().is_ne()), "greater_equal" => bit(ord().is_ge()),
        "less_equal" => bit(ord().is_le()), "greater" => bit(ord().is_gt()), "less" => bit(ord().is_lt()),
        "add" => hex(&format!("{s}{p}")),
        "str_len" => sb.len().to_string(),
        "upper" => hex(&sb.iter().map(|&c| if c.is_ascii_lowercase() { (c - 32) as char } else { c as char }).collect::<String>()),
        "lower" => hex(&sb.iter().map(|&c| if c.is_ascii_uppercase() { (c + 32) as char } else { c as char }).collect::<String>()),
        "swapcase" => hex(&sb.iter().map(|&c| if c.is_ascii_lowercase() { (c - 32) as char } else if c.is_ascii_uppercase() { (c + 32) as char } else { c as char }).collect::<String>()),
        "capitalize" => hex(&sb.iter().enumerate().map(|(i, &c)| if i == 0 && c.is_ascii_lowercase() { (c - 32) as char } else { c as char }).collect::<String>()),
        "is_alpha" => bit(!sb.is_empty() && sb.iter().all(|c| c.is_ascii_alphabetic())),
        "is_alnum" => bit(!sb.is_empty() && sb.iter().all(|c| c.is_ascii_alphanumeric())),
        "is_decimal" | "is_numeric" => bit(!sb.is_empty() && sb.iter().all(|c| c.is_ascii_digit())),
        "is_digit" => bit(sb.len() == 1 && sb[0].is_ascii_digit()),
        "is_space" => bit(!sb.is_empty() && sb.iter().all(|&c| (9..=13).contains(&c) || c == 32)),
        "is_lower" => bit(letters().count() > 0 && letters().all(|c| c.is_ascii_lowercase())),
        "is_upper" => bit(letters().count() > 0 && letters().all(|c| c.is_ascii_uppercase())),
        _ => return None,
    })
}

/// the second operand sits at flat position `k` of the result when it has the receiver's shape, at 0 when it is scalar-like (one element, rank
/// not above the receiver's); other partner shapes are not covered by the reference
fn partner_index(sa: &[usize], sb: &[usize]) -> Option<fn(usize) -> usize> {
    if sa == sb { Some(|k| k) } else if sb.iter().all(|&d| d == 1) && sb.len() <= sa.len() && !sb.is_empty() { Some(|_| 0) } else { None }
}

/// the reference's answer to a whole (small) case, in the model's wire form — `None` where the reference does not apply
fn native_case(op: &str, args: &[&str]) -> Option<String> {
    let pair = NATIVE_PAIR.contains(&op);
    if !(pair && args.len() == 2) && !(NATIVE_UNARY.contains(&op) && args.len() == 1) { return None; }
    let a = p_sarr(args[0])?;
    let (sa, ea) = (a.get_shape().ok()?, a.get_elements().ok()?);
    if ea.is_empty() { return None; }
    let elems: Vec<String> = if pair {
        let b = p_sarr(args[1])?;
        let (sb, eb) = (b.get_shape().ok()?, b.get_elements().ok()?);
        let at = partner_index(&sa, &sb)?;
        (0..ea.len()).map(|k| native_elem(op, &ea[k], &eb[at(k)])).collect::<Option<Vec<_>>>()?
    } else { ea.iter().map(|s| native_elem(op, s, "")).collect::<Option<Vec<_>>>()? };
    Some(format!("ok {}:{}", show_list(&sa), elems.join(",")))
}

/// compare a giant result with the reference IN PLACE: shape, length, then position by position; only the first differing position is printed
fn judge_giant<T: ArrayElement>(r: &Result<Array<T>, ArrayError>, shape: &[usize], render: impl Fn(&T) -> String, want: &dyn Fn(usize) -> String) -> String {
    match r {
        Err(e) => format!("err {}", err_name(e)),
        Ok(arr) => {
            if !consistent(arr) { return "inconsistent-array".into(); }
            let (sh, el) = (arr.get_shape().unwrap(), arr.get_elements().unwrap());
            if sh != shape { return format!("shape {} instead of {}", show_list(&sh), show_list(shape)); }
            for (k, e) in el.iter().enumerate() { let (got, w) = (render(e), want(k)); if got != w { return format!("flat position {k} of {}: `{}` instead of `{}`", el.len(), truncate(&got, 80), truncate(&w, 80)); } }
            format!("ok giant {} positions agree with the native reference", el.len())
        }
    }
}

fn exec_giant(op: &str, args: &[&str], expected: &str) -> Option<Verdict> {
    if expected != "native" { return None; }
    let pair = NATIVE_PAIR.contains(&op);
    if !(pair && args.len() == 2) && !(NATIVE_UNARY.contains(&op) && args.len() == 1) { return None; }
    let a = p_sarr(args[0])?;
    let b = if pair { p_sarr(args[1])? } else { Array::new(vec![String::new()], vec![1]).ok()? };
    let (sa, ea, eb) = (a.get_shape().ok()?, a.get_elements().ok()?, b.get_elements().ok()?);
    let at = if pair { partner_index(&sa, &b.get_shape().ok()?)? } else { |_| 0 };
    let want = |k: usize| native_elem(op, &ea[k], &eb[at(k)]).unwrap_or_else(|| "?".into());
    REF_USED.fetch_add(1, Relaxed);
    // every third giant case goes through the Result receiver instead of the plain one
    let chained = REF_USED.load(Relaxed) % 3 == 0;
    macro_rules! go { ($call:expr, $render:expr) => {{ guarded(|| { let r = $call; judge_giant(&r, &sa, $render, &want) }) }} }
    macro_rules! recv { ($m:ident $(, $x:expr)*) => { if chained { let r: Result<Array<String>, ArrayError> = Ok(a.clone()); r.$m($($x),*) } else { a.$m($($x),*) } } }
    let hs = |s: &String| hex(s); let hb = |x: &bool| bit(*x); let hn = |x: &usize| x.to_string(); let hi = |x: &isize| x.to_string();
    let observed = match op {
        "count" => go!(recv!(count, &b), hn), "str_len" => go!(recv!(str_len), hn),
        "find" => go!(recv!(find, &b), hi), "rfind" => go!(recv!(rfind, &b), hi), "index" => go!(recv!(index, &b), hi), "rindex" => go!(recv!(rindex, &b), hi),
        "starts_with" => go!(recv!(starts_with, &b), hb), "ends_with" => go!(recv!(ends_with, &b), hb),
        "equal" => go!(recv!(equal, &b), hb), "not_equal" => go!(recv!(not_equal, &b), hb), "greater_equal" => go!(recv!(greater_equal, &b), hb),
        "less_equal" => go!(recv!(less_equal, &b), hb), "greater" => go!(recv!(greater, &b), hb), "less" => go!(recv!(less, &b), hb),
        "add" => go!(recv!(add, &b), hs), "upper" => go!(recv!(upper), hs), "lower" => go!(recv!(lower), hs), "swapcase" => go!(recv!(swapcase), hs), "capitalize" => go!(recv!(capitalize), hs),
        "is_alpha" => go!(recv!(is_alpha), hb), "is_alnum" => go!(recv!(is_alnum), hb), "is_decimal" => go!(recv!(is_decimal), hb), "is_numeric" => go!(recv!(is_numeric), hb),
        "is_digit" => go!(recv!(is_digit), hb), "is_space" => go!(recv!(is_space), hb), "is_lower" => go!(recv!(is_lower), hb), "is_upper" => go!(recv!(is_upper), hb),
        _ => return None,
    };
    Some(if observed.starts_with("ok giant") { Verdict::Match(observed) } else { Verdict::Mismatch { observed, detail: "the native reference (validated against the model on the smaller cases of this run) gives another result".into() } })
}

// ------------------------------------------------------------------ generation

fn strings_upto(alpha: &[char], n: usize) -> Vec<String> {
    let mut out = vec![String::new()];
    let mut last = vec![String::new()];
    for _ in 0..n {
        let mut nxt = Vec::with_capacity(last.len() * alpha.len());
        for s in &last { for &c in alpha { let mut t = s.clone(); t.push(c); nxt.push(t); } }
        out.extend(nxt.iter().cloned());
        last = nxt;
    }
    out
}

/// shapes the packed cases cycle through (rank 1..3, with unit axes)
const SHAPES: &[&[usize]] = &[&[7], &[2, 3], &[2, 2, 2], &[1], &[12], &[3, 4], &[2, 3, 2], &[1, 1], &[5, 1], &[1, 6], &[1, 1, 1], &[3, 1, 2],
    &[16], &[4, 4], &[2, 2, 4], &[2], &[1, 3, 1], &[3, 3, 3]];

/// cut parallel columns (already in wire form) into arrays of equal shape cycling through SHAPES; `line(arrays)` = the case text
fn pack(cols: &[Vec<String>], start: usize, out: &mut dyn FnMut(String), line: &dyn Fn(&[String]) -> String) {
    let n = cols[0].len();
    let (mut i, mut k) = (0usize, start);
    while i < n {
        let mut shape: Vec<usize> = SHAPES[k % SHAPES.len()].to_vec();
        k += 1;
        let mut cnt: usize = shape.iter().product();
        if i + cnt > n { cnt = n - i; shape = vec![cnt]; }
        let sh = show_list(&shape);
        let arrays: Vec<String> = cols.iter().map(|c| format!("{}:{}", sh, c[i..i + cnt].join(","))).collect();
        out(line(&arrays));
        i += cnt;
    }
}

/// rank-1 arrays of the first column against a `[1]`-shaped second argument (scalar-like)
fn pack_scalar(subjects: &[String], out: &mut dyn FnMut(String), line: &dyn Fn(&str) -> String) {
    for (j, chunk) in subjects.chunks(9).enumerate() {
        let _ = j;
        out(line(&format!("{}:{}", chunk.len(), chunk.join(","))));
    }
}

const PAIR_OPS: &[&str] = &["add", "join", "partition", "rpartition", "count", "starts_with", "ends_with", "find", "rfind",
    "equal", "not_equal", "greater_equal", "less_equal", "greater", "less", "index", "rindex"];
const STRIP_OPS: &[&str] = &["lstrip", "rstrip", "strip"];
const PAD_OPS: &[&str] = &["center", "ljust", "rjust"];
const UNARY_OPS: &[&str] = &["capitalize", "lower", "upper", "swapcase", "str_len", "is_alpha", "is_alnum", "is_decimal", "is_numeric",
    "is_digit", "is_space", "is_lower", "is_upper"];

fn corpus(out: &mut dyn FnMut(String), late: &mut Vec<String>) {
    // minimised past failures (pinned tree): see fixes/C17-*.md
    out(format!("rsplit 1:{} 1:{} none", hex("ab-cd-ef"), hex("-")));
    out(format!("rsplit 1:{} 1:{} none", hex("a<>b<>c"), hex("<>")));
    out(format!("rsplit 2:{},{} 1:{} 1:2", hex("ab-cd-ef"), hex("x-y"), hex("-")));
    out(format!("capitalize 2:{},{}", hex(""), hex("ab")));
    out(format!("split 1:{} 1:{} 1:0", hex("a-b"), hex("-")));
    out(format!("rsplit 1:{} 1:{} 1:0", hex("a-b"), hex("-")));
    out(format!("center 1:{} 3:3,4,5 none", hex("a")));
    out(format!("ljust 1:{} 3:3,4,5 none", hex("a")));
    out(format!("rjust 1:{} 2:3,4 2:2a,23", hex("a")));
    out(format!("zfill 2:{},{} 0", hex("-5"), hex("5")));
    out(format!("replace 1:{} 1:{} 1:{} 2", hex("aab"), hex("ab"), hex("b")));
    out(format!("replace 1:{} 1:{} 1:{} 2", hex("ab"), hex("a"), hex("ba")));
    // round-3 seeded change: 20 000 strings against ONE pattern (block-wise path forgetting the last len % 16384 positions)
    out(format!("count {} 1:{}", warr(&[20000], |k| hex(&subj(k))), hex("a")));
    out(format!("starts_with {} 1,1:{}", warr(&[130, 127], |k| hex(&subj(k))), hex("")));
    late.push(format!("replace 1:{} 1:{} 1:{} none", hex("a"), hex("a"), hex("aa")));
    late.push(format!("replace 1:{} 1:{} 1:{} none", hex("ab"), hex(""), hex("-")));
}

fn gen(tier: &str, seed: u64, out: &mut dyn FnMut(String)) {
    let thorough = tier == "thorough";
    let full = full_broadcast();
    // `replace` cases of the corpus / broadcast / random sections are emitted with the replace block at the very end:
    // on the snapshot some of them never return, and the watchdog gives up after a dozen hangs
    let mut late: Vec<String> = vec![];
    corpus(out, &mut late);

    // ---- one-argument operations: every string up to length 4 (quick: 3)
    let uni: Vec<String> = strings_upto(&ALPHA, if thorough { 4 } else { 3 }).iter().map(|s| hex(s)).collect();
    for (k, op) in UNARY_OPS.iter().enumerate() { pack(&[uni.clone()], k, out, &|a| format!("{op} {}", a[0])); }
    {   // every ASCII code point, alone and after a letter: the borders of the case / class tables
        let ascii: Vec<String> = (0u8..128).flat_map(|b| { let c = b as char; [hex(&c.to_string()), hex(&format!("a{c}")), hex(&format!("{c}Z"))] }).collect();
        for (k, op) in UNARY_OPS.iter().enumerate() { pack(&[ascii.clone()], k + 2, out, &|a| format!("{op} {}", a[0])); }
        pack(&[ascii.clone()], 0, out, &|a| format!("splitlines {} 1:1", a[0]));
        pack(&[ascii.clone()], 1, out, &|a| format!("strip {} none", a[0]));
        pack(&[ascii.clone()], 1, out, &|a| format!("translate {} 4061,5b62,6063,7b64,2f65,3a66", a[0]));
    }
    pack(&[uni.clone()], 3, out, &|a| format!("splitlines {} none", a[0]));
    {   // keep_ends as a broadcast array: alternate per position; and as [1]-shaped scalar
        let keep: Vec<String> = (0..uni.len()).map(|i| if (i / 3) % 2 == 0 { "1".to_string() } else { "0".to_string() }).collect();
        pack(&[uni.clone(), keep], 5, out, &|a| format!("splitlines {} {}", a[0], a[1]));
        pack_scalar(&uni[..uni.len().min(1464)], out, &|a| format!("splitlines {a} 1:1"));
    }
    // translate: fixed tables incl. duplicate keys (first row wins) and chains (no re-translation)
    for t in ["-", "6162", "6162,6163", "6162,6261", "2d2c,0a20,4161"] { pack(&[uni[..uni.len().min(1464)].to_vec()], 1, out, &|a| format!("translate {} {t}", a[0])); }

    // ---- padding: strings up to length 3 x width 0..6 x fill
    {
        let subj = strings_upto(&ALPHA, if thorough { 3 } else { 2 });
        let (mut s, mut w, mut f) = (vec![], vec![], vec![]);
        for (i, x) in subj.iter().enumerate() { for width in 0..7usize { s.push(hex(x)); w.push(width.to_string()); f.push(if (i + width) % 2 == 0 { "2a" } else { "20" }.to_string()); } }
        for op in ["center", "ljust", "rjust"] {
            pack(&[s.clone(), w.clone(), f.clone()], 0, out, &|a| format!("{op} {} {} {}", a[0], a[1], a[2]));
            pack(&[s.clone(), w.clone()], 2, out, &|a| format!("{op} {} {} none", a[0], a[1]));
            // scalar-like width / fill, and a scalar-like receiver against array widths
            for width in [0usize, 2, 5] { pack_scalar(&subj.iter().take(133).map(|x| hex(x)).collect::<Vec<_>>(), out, &|a| format!("{op} {a} 1:{width} 1:23")); }
            out(format!("{op} 1:{} 4:0,1,4,5 none", hex("ab")));
            out(format!("{op} 1:{} 3:3,6,2 3:2a,23,40", hex("ab")));
        }
        // multiply
        let (mut s, mut n) = (vec![], vec![]);
        for x in strings_upto(&ALPHA, 2) { for c in 0..4usize { s.push(hex(&x)); n.push(c.to_string()); } }
        pack(&[s.clone(), n], 0, out, &|a| format!("multiply {} {}", a[0], a[1]));
        pack_scalar(&s[..200], out, &|a| format!("multiply {a} 1:3"));
        out(format!("multiply 1:{} 3:0,2,3", hex("ab")));
    }

    // ---- zfill: numeric strings (the operation refuses the whole array otherwise)
    {
        let num: Vec<String> = strings_upto(&['0', '1', '-', '5'], if thorough { 4 } else { 3 }).into_iter()
            .filter(|s| { let b = s.strip_prefix('-').unwrap_or(s); !b.is_empty() && b.bytes().all(|c| c.is_ascii_digit()) }).map(|s| hex(&s)).collect();
        for w in 0..7usize { pack(&[num.clone()], w, out, &|a| format!("zfill {} {w}", a[0])); }
        for lit in ["1e5", "1E-2", ".5", "5.", "+5", "-.5e+1", "inf", "-Infinity", "NaN", "+nan", "1e", ".", "e5", "1.2.3", "", "-", "--1", " 1", "1 ", "0x1", "infinit", "1e+", "+-1", "1_0",
            "infinity", "INF", "iNf", "-nan", "+inf", "1e5e", "1e-", "e", "1e1.5", "..", ".e1", "1.e1", "1.e", "  ", "00", "-0", "1E+05", "in", "na", "infinityy", "+", "+.", "1+1", "1e 5"] {
            out(format!("zfill 2:{},{} 6", hex("12"), hex(lit)));
            out(format!("zfill 1:{} 9", hex(lit)));
        }
    }

    // ---- two-argument operations: subjects up to length 3 (quick: 2) x patterns up to length 2, both varying inside one array
    {
        let subj = strings_upto(&ALPHA, if thorough { 3 } else { 2 });
        let pats = strings_upto(&ALPHA, 2);
        let (mut s, mut p, mut m) = (Vec::with_capacity(subj.len() * pats.len()), Vec::with_capacity(subj.len() * pats.len()), Vec::with_capacity(subj.len() * pats.len()));
        for (i, x) in subj.iter().enumerate() { let hx = hex(x); for (j, y) in pats.iter().enumerate() { s.push(hx.clone()); p.push(hex(y)); m.push(((i + j) % 5).to_string()); } }
        for (k, op) in PAIR_OPS.iter().enumerate() { pack(&[s.clone(), p.clone()], k, out, &|a| format!("{op} {} {}", a[0], a[1])); }
        for (k, op) in ["lstrip", "rstrip", "strip"].iter().enumerate() { pack(&[s.clone(), p.clone()], k + 1, out, &|a| format!("{op} {} {}", a[0], a[1])); }
        for op in ["split", "rsplit"] {
            pack(&[s.clone(), p.clone()], 4, out, &|a| format!("{op} {} {} none", a[0], a[1]));
            pack(&[s.clone(), p.clone(), m.clone()], 7, out, &|a| format!("{op} {} {} {}", a[0], a[1], a[2]));
        }
        // every (subject<=2, pattern<=2, limit 0..4) triple, the pattern and the limit scalar-like
        let small: Vec<String> = strings_upto(&ALPHA, 2).iter().map(|x| hex(x)).collect();
        for y in &pats {
            let hy = hex(y);
            for op in ["split", "rsplit"] { for lim in 0..5usize { pack_scalar(&small, out, &|a| format!("{op} {a} 1:{hy} 1:{lim}")); } }
            if thorough { for op in PAIR_OPS.iter().chain(["lstrip", "rstrip", "strip"].iter()) { pack_scalar(&small, out, &|a| format!("{op} {a} 1:{hy}")); } }
        }
        // default arguments (separator / strip set = one space) and a scalar-like receiver
        for op in ["split", "rsplit"] { pack(&[small.clone()], 0, out, &|a| format!("{op} {} none none", a[0])); pack_scalar(&small, out, &|a| format!("{op} {a} none 1:2")); }
        for op in ["lstrip", "rstrip", "strip"] { pack(&[small.clone()], 0, out, &|a| format!("{op} {} none", a[0])); }
        for op in PAIR_OPS { out(format!("{op} 1:{} 4:{},{},{},{}", hex("a-b"), hex("-"), hex("a"), hex(""), hex("a-b "))); }
        for op in ["split", "rsplit"] { out(format!("{op} 1:{} 3:{},{},{} 1:2", hex("a-b-a"), hex("-"), hex("a"), hex("b-"))); }
        // compare: all spellings
        for o in ["==", "!=", ">", "<", ">=", "<=", "equals", "not_equals", "greater", "less", "greater_equal", "less_equal", "EQUALS", "Less_Equal", "=", "", "lt", "=>"] {
            pack(&[s[..266].to_vec(), p[..266].to_vec()], 2, out, &|a| format!("compare {} {} {}", a[0], a[1], hex(o)));
        }
        // comparisons want long-ish operands on both sides too: pairs up to length 2 x up to length 2 are above; add trailing-space variants
        let (mut s2, mut p2) = (vec![], vec![]);
        for x in strings_upto(&['a', 'b', ' '], 3) { for y in strings_upto(&['a', 'b', ' '], 3) { s2.push(hex(&x)); p2.push(hex(&y)); } }
        for (k, op) in ["equal", "not_equal", "greater_equal", "less_equal", "greater", "less"].iter().enumerate() { pack(&[s2.clone(), p2.clone()], k, out, &|a| format!("{op} {} {}", a[0], a[1])); }
    }

    // ---- repetitive texts: subjects up to length 6 (quick 4) x patterns up to length 3 over {a,b,-} (overlapping occurrences)
    {
        let subj = strings_upto(&SMALL, if thorough { 6 } else { 4 });
        let pats = strings_upto(&SMALL, 3);
        let (mut s, mut p, mut m) = (vec![], vec![], vec![]);
        for (i, x) in subj.iter().enumerate() { let hx = hex(x); for (j, y) in pats.iter().enumerate() { s.push(hx.clone()); p.push(hex(y)); m.push(((i + 2 * j) % 6).to_string()); } }
        for (k, op) in ["partition", "rpartition", "count", "find", "rfind", "starts_with", "ends_with", "strip"].iter().enumerate() { pack(&[s.clone(), p.clone()], k, out, &|a| format!("{op} {} {}", a[0], a[1])); }
        for op in ["split", "rsplit"] {
            pack(&[s.clone(), p.clone()], 9, out, &|a| format!("{op} {} {} none", a[0], a[1]));
            pack(&[s.clone(), p.clone(), m.clone()], 11, out, &|a| format!("{op} {} {} {}", a[0], a[1], a[2]));
        }
    }

    // ---- full broadcasting
    if full {
        let strs: Vec<String> = ["a-b", "", "ab-", "-", "b a-", "A1", " a ", "a,b", "aa", "b-b-b", "x", "-a-", "ba", "0", "a\nb", "  "].iter().map(|x| hex(x)).collect();
        let take = |n: usize, off: usize| -> String { (0..n).map(|i| strs[(i + off) % strs.len()].clone()).collect::<Vec<_>>().join(",") };
        let pairs: &[(&[usize], &[usize])] = &[(&[2, 3], &[3]), (&[3], &[2, 3]), (&[2, 1], &[1, 3]), (&[2, 3], &[1]), (&[1], &[2, 3]), (&[2, 3, 2], &[3, 1]), (&[2, 1, 2], &[3, 1]),
            (&[3, 1], &[2, 1, 2]), (&[2, 2, 2], &[1, 1, 1]), (&[2, 3], &[2, 1]), (&[1, 3], &[2, 3]), (&[2, 2], &[2, 2, 2]), (&[2, 3], &[2]), (&[2, 3], &[2, 2])];
        for (sa, sb) in pairs {
            let (na, nb): (usize, usize) = (sa.iter().product(), sb.iter().product());
            let (a, b) = (format!("{}:{}", show_list(sa), take(na, 0)), format!("{}:{}", show_list(sb), take(nb, 5)));
            let nums = |n: usize| (0..n).map(|i| (i % 6).to_string()).collect::<Vec<_>>().join(",");
            for op in PAIR_OPS.iter().chain(["lstrip", "rstrip", "strip"].iter()) { out(format!("{op} {a} {b}")); }
            for op in ["split", "rsplit"] { out(format!("{op} {a} {b} none")); out(format!("{op} {a} {b} 1:2")); out(format!("{op} {a} {b} {}:{}", show_list(sb), nums(nb))); }
            late.push(format!("replace {a} {b} 1:{} none", hex("+")));
            late.push(format!("replace {a} 1:{} {b} 1", hex("-")));
            out(format!("multiply {a} {}:{}", show_list(sb), nums(nb)));
            out(format!("splitlines {a} {}:{}", show_list(sb), (0..nb).map(|i| (i % 2).to_string()).collect::<Vec<_>>().join(",")));
            for op in ["center", "ljust", "rjust"] {
                out(format!("{op} {a} {}:{} none", show_list(sb), nums(nb)));
                out(format!("{op} {a} 1:5 {}:{}", show_list(sb), (0..nb).map(|i| if i % 2 == 0 { "2a" } else { "23" }).collect::<Vec<_>>().join(",")));
            }
        }
    }

    // ---- seeded random stream: strings up to 24 bytes, patterns cut out of the subject so that they occur
    {
        let mut rng = Rng::new(seed);
        let wide: Vec<char> = ALPHA.iter().copied().chain(['z', 'Z', '9', '.', '_', '\t', 'c', 'C', '+', 'e']).collect();
        let n_cases = if thorough { 2500 } else { 250 };
        let rand_str = |rng: &mut Rng, max: usize, alpha: &[char]| -> String { let l = rng.below(max + 1); (0..l).map(|_| *rng.pick(alpha)).collect() };
        for case in 0..n_cases {
            let shape = rng.shape(1, 3, 3);
            let n: usize = shape.iter().product();
            let sh = show_list(&shape);
            let alpha: &[char] = if case % 3 == 0 { &wide } else if case % 3 == 1 { &ALPHA } else { &SMALL };
            let subj: Vec<String> = (0..n).map(|_| rand_str(&mut rng, 24, alpha)).collect();
            let pat: Vec<String> = subj.iter().map(|s| {
                if s.is_empty() || rng.below(5) == 0 { rand_str(&mut rng, 3, alpha) } else { let i = rng.below(s.len()); let l = 1 + rng.below(3.min(s.len() - i)); s[i..i + l].to_string() }
            }).collect();
            let new: Vec<String> = (0..n).map(|i| if rng.below(3) == 0 { format!("{}{}", pat[i], rand_str(&mut rng, 2, alpha)) } else { rand_str(&mut rng, 3, alpha) }).collect();
            let a = format!("{sh}:{}", subj.iter().map(|s| hex(s)).collect::<Vec<_>>().join(","));
            let scalar = shape.len() == 1 && rng.below(3) == 0;
            if full && case % 4 == 3 {
                // a second operand of a different, broadcastable shape: unit axes and dropped leading axes
                let mut sb: Vec<usize> = shape.iter().map(|&d| if rng.below(2) == 0 { 1 } else { d }).collect();
                let dropn = rng.below(sb.len()); sb.drain(..dropn);
                let nb: usize = sb.iter().product();
                let bb = format!("{}:{}", show_list(&sb), (0..nb).map(|i| hex(&pat[i % n])).collect::<Vec<_>>().join(","));
                let nn = format!("{}:{}", show_list(&sb), (0..nb).map(|_| rng.below(7).to_string()).collect::<Vec<_>>().join(","));
                let op = *rng.pick(PAIR_OPS);
                out(format!("{op} {a} {bb}")); out(format!("{op} {bb} {a}"));
                let sp = *rng.pick(&["split", "rsplit"]);
                out(format!("{sp} {a} {bb} {nn}")); out(format!("{sp} {bb} {a} none"));
                out(format!("{} {a} {bb}", rng.pick(&["lstrip", "rstrip", "strip"])));
                out(format!("{} {a} {nn} none", rng.pick(&["center", "ljust", "rjust"])));
                out(format!("{} {bb} {sh}:{} 1:2a", rng.pick(&["center", "ljust", "rjust"]), (0..n).map(|_| rng.below(9).to_string()).collect::<Vec<_>>().join(",")));
                out(format!("multiply {a} {nn}"));
                late.push(format!("replace {a} {bb} 1:{} {}", hex("+"), rng.pick(&["none", "1", "2"])));
            }
            let b = if scalar { format!("1:{}", hex(&pat[0])) } else { format!("{sh}:{}", pat.iter().map(|s| hex(s)).collect::<Vec<_>>().join(",")) };
            let c = format!("{sh}:{}", new.iter().map(|s| hex(s)).collect::<Vec<_>>().join(","));
            let lim = if scalar { format!("1:{}", rng.below(5)) } else { format!("{sh}:{}", (0..n).map(|_| rng.below(6).to_string()).collect::<Vec<_>>().join(",")) };
            let op = *rng.pick(PAIR_OPS);
            out(format!("{op} {a} {b}"));
            out(format!("{} {a} {b}", rng.pick(&["lstrip", "rstrip", "strip"])));
            let sp = *rng.pick(&["split", "rsplit"]);
            out(format!("{sp} {a} {b} none"));
            out(format!("{sp} {a} {b} {lim}"));
            out(format!("{} {a} {b}", rng.pick(&["partition", "rpartition", "count", "find", "rfind"])));
            out(format!("{} {a}", rng.pick(UNARY_OPS)));
            out(format!("splitlines {a} {}", rng.pick(&["none", "1:1", "1:0"])));
            let cnt = if rng.below(2) == 0 { "none".to_string() } else { rng.below(5).to_string() };
            if !scalar { late.push(format!("replace {a} {b} {c} {cnt}")); }
            let w = format!("{sh}:{}", (0..n).map(|_| rng.below(30).to_string()).collect::<Vec<_>>().join(","));
            out(format!("{} {a} {w} {}", rng.pick(&["center", "ljust", "rjust"]), rng.pick(&["none", "1:2a", "1:30"])));
        }
    }

    // ---- malformed: non-broadcastable shapes must be refused
    {
        let (a2, a3) = (format!("2:{},{}", hex("a-b"), hex("b")), format!("3:{},{},{}", hex("-"), hex("a"), hex("b")));
        let a23 = format!("2,3:{}", vec![hex("ab"); 6].join(","));
        for op in PAIR_OPS.iter().chain(["lstrip", "rstrip", "strip"].iter()) { out(format!("{op} {a2} {a3}")); out(format!("{op} {a3} {a2}")); out(format!("{op} {a23} {a2}")); }
        for op in ["split", "rsplit"] { out(format!("{op} {a2} {a3} none")); out(format!("{op} {a2} {a2} 3:1,2,3")); }
        out(format!("replace {a2} {a3} {a2} none")); out(format!("replace {a2} {a2} {a3} 1"));
        out(format!("multiply {a2} 3:1,2,3")); out(format!("splitlines {a2} 3:0,1,0"));
        for op in ["center", "ljust", "rjust"] { out(format!("{op} {a2} 3:1,2,3 none")); out(format!("{op} {a2} 2:1,2 3:2a,2a,2a")); }
    }

    robust(thorough, seed, out, &mut late);
    // ---- part 2: huge arrays, colliding shapes (A, B, A), value fingerprints, refused-then-valid, exact lengths, aliasing, ranks 4..6
    robust2(thorough, seed, out, &mut late);
    // ---- part 3: values related in a way random data never is — look-alike pairs for the substring operations, long common stems for the comparisons
    robust3(thorough, out, &mut late);
    // ---- (11) giant arrays: 2^20 < count <= 2.1 million short strings, named `iota:<shape>+<offset>` and built by the executor; the model driver
    //      answers `native`, the executor judges them in place by the native reference that it compares with the model on every smaller case
    {
        let gs = giant_shapes();
        let partner = |i: usize, s: &[usize]| -> String {
            if i % 3 == 2 { format!("iotap:{}+{}", show_list(s), i) } else { format!("{}:{}", show_list(&vec![1; 1 + i % s.len().min(3)]), hex(["a", "-", "", "aa", "b"][i % 5])) }
        };
        if thorough {
            for (i, op) in NATIVE_PAIR.iter().chain(NATIVE_UNARY.iter()).enumerate() {
                for t in 0..2usize {
                    let s = &gs[(i * 3 + t * 5) % gs.len()];
                    if NATIVE_PAIR.contains(op) { out(format!("{op} iota:{}+{} {}", show_list(s), i + t, partner(i + 2 * t, s))); } else { out(format!("{op} iota:{}+{}", show_list(s), i + t)); }
                }
            }
        } else {
            for (i, (op, g)) in [("count", 0usize), ("find", 1), ("rindex", 3), ("ends_with", 4), ("less", 6), ("upper", 8)].into_iter().enumerate() {
                let s = &gs[g];
                if NATIVE_PAIR.contains(&op) { out(format!("{op} iota:{}+{} {}", show_list(s), i, partner(i, s))); } else { out(format!("{op} iota:{}+{}", show_list(s), i)); }
            }
        }
    }

    // ---- replace, last (on the pinned tree some of these never return): alphabet {a,b,-}
    {
        let subj = strings_upto(&SMALL, if thorough { 4 } else { 3 });
        let pats = strings_upto(&SMALL, 2);
        let counts: &[&str] = if thorough { &["none", "0", "1", "2", "3"] } else { &["none", "1", "2"] };
        // (a) patterns that cannot re-create themselves, (b) the rest (new contains old, or old empty)
        for risky in [false, true] {
            if risky { for l in late.drain(..) { out(l); } }
            let (mut s, mut o, mut n) = (vec![], vec![], vec![]);
            for x in &subj { for old in &pats { for new in &pats {
                let r = rescans(x, old, new);
                if r == risky { s.push(hex(x)); o.push(hex(old)); n.push(hex(new)); }
            } } }
            for (k, c) in counts.iter().enumerate() { pack(&[s.clone(), o.clone(), n.clone()], k, out, &|a| format!("replace {} {} {} {c}", a[0], a[1], a[2])); }
            if !risky { for old in ["a", "ab", "-"] { pack_scalar(&subj.iter().map(|x| hex(x)).collect::<Vec<_>>(), out, &|a| format!("replace {a} 1:{} 1:{} none", hex(old), hex("b-"))); } }
        }
    }
    // the last line of a run: how many times the native reference was compared with the model / used in its place
    out("refstats".to_string());
}

// ------------------------------------------------------------------ robustness streams (FRAMEWORK.md)

/// wire form of an array of the given shape whose element at flat position k is `f(k)` (already in wire form)
fn warr(shape: &[usize], f: impl Fn(usize) -> String) -> String {
    let n: usize = shape.iter().product();
    format!("{}:{}", show_list(shape), if n == 0 { "-".to_string() } else { (0..n).map(f).collect::<Vec<_>>().join(",") })
}

/// short strings with borders ("aa" in "aaa", "aba" in "ababa", "--" in "a---b"), blanks, case, digits, separators, line breaks
const POOL: &[&str] = &["aaa", "ababa", "a---b", "", "aa", " a b ", "Ab1", "x\ny", "b-b-b", "a,b", "-", "aba", "--", "aaaa", "0", " ", "B", "-a-", "ab\r\nc", "a-", "baab", "-5", "12", "a  ", "abab", "Z9z"];
const PATS: &[&str] = &["aa", "aba", "--", "a", "-", "", "b", "ab", " ", "aaa", "\n", "-b", "a-", "A", "ba"];
const NUMS: &[&str] = &["5", "-5", "12", "-0", "007", "1e5", "-1.5", ".5", "33", "-120"];

fn subj(k: usize) -> String { let base = POOL[(k * 7 + k / 5) % POOL.len()]; match k % 4 { 0 => base.to_string(), 1 => format!("{base}a"), 2 => format!("-{base}"), _ => format!("{base}{}", k % 10) } }
fn pat(k: usize) -> String { PATS[(k * 5 + k / 3) % PATS.len()].to_string() }
fn fill(k: usize) -> String { hex(["*", "#", " ", "0", "-"][(k + k / 4) % 5]) }

/// partner shapes of `s` under broadcasting: the same shape, `[1]`, the trailing axis alone, a unit leading axis, a unit trailing axis
fn partners(s: &[usize]) -> Vec<Vec<usize>> {
    let mut v = vec![s.to_vec(), vec![1]];
    if s.len() >= 2 {
        v.push(s[s.len() - 1..].to_vec());
        let mut t = s.to_vec(); t[0] = 1; v.push(t);
        let mut t = s.to_vec(); *t.last_mut().unwrap() = 1; v.push(t);
    }
    v
}

/// long strings (up to a few hundred bytes) in which the patterns overlap themselves
fn long_subjects() -> Vec<String> {
    vec!["a".repeat(257), "a".repeat(300), format!("{}a", "ab".repeat(150)), "aba".repeat(100), "-".repeat(301), format!("{}-", "a--".repeat(90)),
         "word ".repeat(52), format!("x{}", "aa".repeat(128)), "line\n".repeat(60), "l1\r\nl2\rl3\n".repeat(30), format!("{}b", "a".repeat(256)), format!("b{}", "a".repeat(256)),
         format!("{}{}", " ".repeat(130), "a".repeat(130)), format!("{}{}", "ab".repeat(70), " ".repeat(140)), "Ab1 ".repeat(64), format!("{}ababa{}", "-".repeat(128), "-".repeat(128)),
         "aaa".to_string(), "ababa".to_string(), "a---b".to_string(), "aaaaa".to_string(), "abababa".to_string(), String::new(), "0".repeat(260), format!("-{}", "7".repeat(258))]
}
fn long_patterns() -> Vec<String> {
    vec!["aa".into(), "aba".into(), "--".into(), "a".into(), "aaa".into(), "ab".repeat(20), "a".repeat(100), "".into(), " ".into(), "---".into(), "abab".into(), "\n".into(), "\r\n".into(),
         "a".repeat(256), "a".repeat(257), "ba".into(), "d ".into(), "b".into(), "1 A".into(), "-a".into()]
}

fn robust(thorough: bool, seed: u64, out: &mut dyn FnMut(String), late: &mut Vec<String>) {
    let hs = |k: usize| hex(&subj(k));
    let hp = |k: usize| hex(&pat(k));
    // ---- (1) sizes: axis lengths 7..17 in every position, element counts > 256 / 1024 / 4096, every operation
    for s in big_shapes() {
        let n: usize = s.iter().product();
        // quick tier: on the four shapes above 700 elements a rotating share of the operations (every lifting path of the model is hit on each of them;
        // the model's index loops are quadratic); the thorough tier runs every operation on every shape
        let huge = n > 700 && !thorough;
        let a = warr(&s, hs);
        for (j, op) in UNARY_OPS.iter().enumerate() { if !huge || j % 4 == n % 4 { out(format!("{op} {a}")); } }
        out(format!("splitlines {a} none"));
        out(format!("translate {a} 6162,2d2b,4161"));
        out(format!("zfill {} {}", warr(&s, |k| hex(NUMS[(k + k / 7) % NUMS.len()])), 3 + n % 5));
        for (pi, ps) in partners(&s).iter().enumerate() {
            if huge && pi > 1 && !thorough { continue; }
            let b = warr(ps, |k| hp(k + pi));
            let nums = warr(ps, |k| ((k * 3 + pi) % 7).to_string());
            for (j, op) in PAIR_OPS.iter().chain(STRIP_OPS.iter()).enumerate() { if !huge || (j + pi) % 5 == n % 5 { out(format!("{op} {a} {b}")); } }
            out(format!("multiply {a} {}", warr(ps, |k| ((k + pi) % 4).to_string())));
            out(format!("splitlines {a} {}", warr(ps, |k| ((k / 2 + pi) % 2).to_string())));
            for (j, op) in PAD_OPS.iter().enumerate() {
                if huge && (j + pi) % 3 != n % 3 { continue; }
                out(format!("{op} {a} {} none", warr(ps, |k| ((k * 5 + pi) % 9).to_string())));
                out(format!("{op} {a} 1:6 {}", warr(ps, fill)));
                out(format!("{op} {a} {} {}", warr(ps, |k| ((k * 5 + pi) % 9).to_string()), warr(&s, fill)));
            }
            for (j, op) in ["split", "rsplit"].iter().enumerate() {
                if huge && (j + pi) % 2 != n % 2 { continue; }
                out(format!("{op} {a} {b} none"));
                out(format!("{op} {a} {b} {nums}"));
                out(format!("{op} {a} none {nums}"));
            }
            if !huge || pi == 0 {
                late.push(format!("replace {a} {b} {} none", warr(&s, |k| hex(["+", "", "xy", "-"][k % 4]))));
                late.push(format!("replace {a} 1:{} {b} 1", hex("a")));
            }
        }
    }
    // ---- (2) zero-length axes: every operation; operands of the same empty shape, `[1]`, and a non-empty partner
    for z in zero_shapes() {
        let a = warr(&z, hs);
        let others: Vec<String> = vec![a.clone(), format!("1:{}", hex("a")), format!("2:{},{}", hex("a"), hex("-"))];
        for op in UNARY_OPS { out(format!("{op} {a}")); }
        out(format!("splitlines {a} none")); out(format!("splitlines {a} 1:1")); out(format!("splitlines {a} {}", warr(&z, |_| "1".into())));
        out(format!("translate {a} 6162")); out(format!("translate {a} -"));
        out(format!("zfill {a} 4")); out(format!("zfill {a} 0"));
        for op in PAD_OPS {
            out(format!("{op} {a} 1:3 none")); out(format!("{op} {a} {} none", warr(&z, |_| "3".into())));
            out(format!("{op} {a} 1:3 {}", warr(&z, |_| "2a".into()))); out(format!("{op} {a} 1:3 1:2a"));
            out(format!("{op} 1:{} {} none", hex("ab"), warr(&z, |_| "3".into())));
            out(format!("{op} 1:{} 1:4 {}", hex("ab"), warr(&z, |_| "2a".into())));
        }
        out(format!("multiply {a} 1:2")); out(format!("multiply {a} {}", warr(&z, |_| "2".into()))); out(format!("multiply 1:{} {}", hex("ab"), warr(&z, |_| "2".into())));
        for b in &others {
            for op in PAIR_OPS.iter().chain(STRIP_OPS.iter()) { out(format!("{op} {a} {b}")); if *b != a { out(format!("{op} {b} {a}")); } }
            for op in ["split", "rsplit"] {
                out(format!("{op} {a} {b} none")); out(format!("{op} {a} {b} 1:2")); out(format!("{op} {a} {b} {}", warr(&z, |_| "2".into())));
                out(format!("{op} {b} {a} none")); out(format!("{op} {b} none {}", warr(&z, |_| "2".into())));
            }
            late.push(format!("replace {a} {b} {b} none")); late.push(format!("replace {b} {a} {b} 1")); late.push(format!("replace {b} {b} {a} none"));
        }
        for op in STRIP_OPS { out(format!("{op} {a} none")); }
        for op in ["split", "rsplit"] { out(format!("{op} {a} none none")); }
        for o in ["==", "less", "bogus"] { out(format!("compare {a} {a} {}", hex(o))); out(format!("compare {a} 1:{} {}", hex("a"), hex(o))); }
    }
    // ---- (3) value classes: long strings (257..300 bytes) with self-overlapping patterns, widths / counts above 255
    {
        let subs = long_subjects();
        let pats = long_patterns();
        // every (long subject, pattern) pair; packed so that both vary inside one array, rank 1 and 2
        let (mut cs, mut cp) = (vec![], vec![]);
        for x in &subs { for y in &pats { cs.push(hex(x)); cp.push(hex(y)); } }
        let chunk = 12usize;
        for (ci, i) in (0..cs.len()).step_by(chunk).enumerate() {
            let m = chunk.min(cs.len() - i);
            let shape: Vec<usize> = if m == 12 && ci % 2 == 0 { vec![3, 4] } else { vec![m] };
            let a = warr(&shape, |k| cs[i + k].clone());
            let b = warr(&shape, |k| cp[i + k].clone());
            for op in PAIR_OPS.iter().chain(STRIP_OPS.iter()) { out(format!("{op} {a} {b}")); }
            for op in ["split", "rsplit"] {
                out(format!("{op} {a} {b} none"));
                out(format!("{op} {a} {b} {}", warr(&shape, |k| [0usize, 1, 2, 3, 100, 300, 129][(k + ci) % 7].to_string())));
            }
            for c in ["none", "0", "1", "2", "7", "300"] { late.push(format!("replace {a} {b} {} {c}", warr(&shape, |k| hex(["+", "", "xy", "a", "aa", "-a-"][(k + ci) % 6])))); }
        }
        // each long subject as the whole array against one scalar-like pattern (the `[1]` path), and the other way round
        let all = warr(&[subs.len()], |k| hex(&subs[k]));
        for y in &pats {
            let b = format!("1:{}", hex(y));
            for op in ["find", "rfind", "index", "rindex", "count", "partition", "rpartition"] { out(format!("{op} {all} {b}")); }
            for op in ["split", "rsplit"] { out(format!("{op} {all} {b} none")); out(format!("{op} {all} {b} 1:2")); out(format!("{op} {all} {b} 1:3")); }
            late.push(format!("replace {all} {b} 1:{} none", hex("+")));
            late.push(format!("replace {all} {b} 1:{} 2", hex("ab")));
        }
        for op in UNARY_OPS { out(format!("{op} {all}")); }
        out(format!("splitlines {all} none")); out(format!("splitlines {all} 1:1"));
        out(format!("translate {all} 6162,2d2b,4161,0a7c"));
        for w in [0usize, 3, 255, 256, 257, 300, 301, 302, 700, 1000] {
            for op in PAD_OPS { out(format!("{op} {all} 1:{w} none")); out(format!("{op} {all} 1:{w} 1:2a")); }
        }
        for c in [0usize, 1, 2, 17, 256, 300] { out(format!("multiply {all} 1:{c}")); out(format!("multiply {} 1:{c}", warr(&[POOL.len()], |k| hex(POOL[k])))); }
        let nums = warr(&[6], |k| hex(&["0".repeat(260), format!("-{}", "7".repeat(258)), "5".into(), "-5".into(), "1e5".into(), "12".repeat(64)][k]));
        for w in [0usize, 1, 100, 255, 256, 257, 260, 261, 300, 600] { out(format!("zfill {nums} {w}")); }
        // comparisons that are decided beyond byte 256, and by trailing blanks / line breaks beyond it
        let base = "ab".repeat(140);
        let vars: Vec<String> = vec![base.clone(), format!("{base} "), format!("{base}{}", " ".repeat(260)), format!("{base}a"), format!("{base}\n"), format!("{base} \n"), format!("{}c{}", &base[..270], &base[271..]),
            format!("{}A{}", &base[..256], &base[257..]), format!("{base}\t"), format!(" {base}"), base[..279].to_string(), " ".repeat(300), String::new(), "\n".to_string()];
        let (mut l, mut r) = (vec![], vec![]);
        for x in &vars { for y in &vars { l.push(hex(x)); r.push(hex(y)); } }
        for (ci, i) in (0..l.len()).step_by(14).enumerate() {
            let m = 14.min(l.len() - i);
            let shape: Vec<usize> = if m == 14 && ci % 2 == 1 { vec![2, 7] } else { vec![m] };
            let (a, b) = (warr(&shape, |k| l[i + k].clone()), warr(&shape, |k| r[i + k].clone()));
            for op in ["equal", "not_equal", "greater_equal", "less_equal", "greater", "less", "starts_with", "ends_with", "add"] { out(format!("{op} {a} {b}")); }
            out(format!("compare {a} {b} {}", hex(["==", "!=", ">", "<", ">=", "<=", "EQUALS", "Less_Equal"][ci % 8])));
        }
        // short strings differing only in trailing white space other than blanks
        let tails = ["", " ", "\n", "\t", "\r\n", " \n", "\n ", "  ", "\r", "\x0b", "\x0c"];
        let (mut l, mut r) = (vec![], vec![]);
        for x in tails { for y in tails { for stem in ["ab", ""] { l.push(hex(&format!("{stem}{x}"))); r.push(hex(&format!("{stem}{y}"))); } } }
        pack(&[l.clone(), r.clone()], 3, out, &|a| format!("equal {} {}", a[0], a[1]));
        for (k, op) in ["not_equal", "greater_equal", "less_equal", "greater", "less"].iter().enumerate() { pack(&[l.clone(), r.clone()], k, out, &|a| format!("{op} {} {}", a[0], a[1])); }
    }
    // ---- (5) argument combinations: every pair / triple of argument shapes out of a set that needs a real two-sided stretch
    //      ([3] with [2,1], [1,2] with [2,1], …), for EVERY argument position of every multi-argument operation; values differ per position
    {
        let set: &[&[usize]] = &[&[1], &[2], &[3], &[2, 1], &[1, 2], &[1, 3], &[2, 3], &[2, 1, 1], &[1, 1, 3], &[2, 2]];
        let sarr = |s: &[usize], off: usize| warr(s, |k| hex(&subj(k + off)));
        let parr = |s: &[usize], off: usize| warr(s, |k| hex(&pat(k + off)));
        let narr = |s: &[usize], off: usize, m: usize| warr(s, |k| ((k * 2 + off) % m).to_string());
        for (i, sa) in set.iter().enumerate() { for (j, sb) in set.iter().enumerate() {
            let (a, b) = (sarr(sa, i), parr(sb, j));
            for op in PAIR_OPS.iter().chain(STRIP_OPS.iter()) { out(format!("{op} {a} {b}")); }
            out(format!("multiply {a} {}", narr(sb, j, 4)));
            out(format!("splitlines {a} {}", narr(sb, j, 2)));
            out(format!("compare {a} {b} {}", hex(["<", ">=", "not_equals"][(i + j) % 3])));
            for op in ["split", "rsplit"] { out(format!("{op} {a} {b} none")); out(format!("{op} {a} none {}", narr(sb, j, 4))); }
            for op in PAD_OPS { out(format!("{op} {a} {} none", narr(sb, j, 8))); out(format!("{op} {a} 1:5 {}", warr(sb, |k| fill(k + j)))); }
            for (l, sc) in set.iter().enumerate() {
                if !thorough && (i + 2 * j + 3 * l) % 2 == 1 && sa.len() + sb.len() + sc.len() > 4 { continue; }
                for op in PAD_OPS { out(format!("{op} {a} {} {}", narr(sb, j, 8), warr(sc, |k| fill(k + l)))); }
                for op in ["split", "rsplit"] { out(format!("{op} {a} {b} {}", narr(sc, l, 4))); }
                let c = warr(sc, |k| hex(["+", "", "xy", "aa"][(k + l) % 4]));
                late.push(format!("replace {a} {b} {c} {}", ["none", "1", "2", "0"][(i + j + l) % 4]));
            }
        } }
    }
    // ---- seeded: random big / odd shapes (axis lengths 5..17, rank 1..4) with a random partner shape, random operation
    {
        let mut rng = Rng::new(seed ^ 0x17_17);
        for _ in 0..(if thorough { 400 } else { 60 }) {
            let r = 1 + rng.below(3);
            let s: Vec<usize> = (0..r).map(|_| if rng.below(4) == 0 { 1 } else { 2 + rng.below(if r == 1 { 400 } else { 16 }) }).collect();
            let ps = partners(&s);
            let p = rng.pick(&ps).clone();
            let off = rng.below(100);
            let a = warr(&s, |k| hs(k + off)); let b = warr(&p, |k| hp(k + off));
            let swap = rng.below(3) == 0;
            let (x, y) = if swap { (&b, &a) } else { (&a, &b) };
            out(format!("{} {x} {y}", rng.pick(PAIR_OPS)));
            out(format!("{} {x} {y}", rng.pick(STRIP_OPS)));
            out(format!("{} {x} {y} {}", rng.pick(&["split", "rsplit"]), if rng.below(2) == 0 { "none".to_string() } else { warr(&p, |k| ((k + off) % 5).to_string()) }));
            out(format!("{} {a} {} {}", rng.pick(PAD_OPS), warr(&p, |k| ((k + off) % 11).to_string()), if rng.below(2) == 0 { "none".to_string() } else { warr(&ps[rng.below(ps.len())], fill) }));
            out(format!("{} {a}", rng.pick(UNARY_OPS)));
            out(format!("multiply {a} {}", warr(&p, |k| ((k + off) % 4).to_string())));
            late.push(format!("replace {a} {b} {} {}", warr(&ps[rng.below(ps.len())], |k| hex(["+", "", "xy"][k % 3])), rng.pick(&["none", "1", "3"])));
        }
    }
}


// ------------------------------------------------------------------ robustness streams, part 2 (FRAMEWORK.md)

const INDEX_OPS: &[&str] = &["count", "find", "rfind", "index", "rindex", "starts_with", "ends_with"];

fn robust2(thorough: bool, seed: u64, out: &mut dyn FnMut(String), late: &mut Vec<String>) {
    let hs = |k: usize| hex(&subj(k));
    let hp = |k: usize| hex(&pat(k));
    let other_pairs: Vec<&str> = PAIR_OPS.iter().chain(STRIP_OPS.iter()).copied().filter(|o| !INDEX_OPS.contains(o)).collect();
    // ---- (7) huge arrays (16 384 … 140 000 short strings): every operation; a scalar-like argument `[1]`, `[1,1]`, `[1,1,1]` (rank <= the
    //      rank of the array), the same shape, the trailing axis, unit axes.  The scalar patterns "", "a", "-" occur in most subjects, so a
    //      position left at its pre-filled "missing" value (0 / -1 / false) shows.  The model driver lifts in linear time here.
    let mut huge: Vec<Vec<usize>> = vec![vec![16385], vec![20000], vec![33000], vec![70001], vec![130, 127], vec![129, 131], vec![2, 3, 5000], vec![100, 200], vec![40, 30, 30]];
    if thorough { huge.extend([vec![16384], vec![32768], vec![65537], vec![2, 70000], vec![70000, 2], vec![10, 11, 12, 13], vec![300, 300], vec![130, 130]]); }
    let spats = ["a", "", "-", "aa", "b", "ab"];
    for (si, s) in huge.iter().enumerate() {
        let n: usize = s.iter().product();
        let a = warr(s, |k| hs(k + 3 * si));
        let scal: Vec<Vec<usize>> = (1..=s.len().min(3)).map(|r| vec![1; r]).collect();
        let sc = |j: usize| -> String { format!("{}:{}", show_list(&scal[(j + si) % scal.len()]), hex(spats[(j + si) % spats.len()])) };
        // quick tier (and the eight extra shapes of the thorough tier): the seven search operations always, a rotating share of the rest;
        // thorough tier on the nine primary shapes: every operation (a case of 20 000 strings costs ~0.1 s in the model driver and ~0.05 s here)
        let lean = !thorough || si >= 9;
        // substring search / counting / prefix tests: every one, on every huge shape
        for (j, op) in INDEX_OPS.iter().enumerate() { out(format!("{op} {a} {}", sc(j))); if !lean && j % 2 == 0 { out(format!("{op} {a} {}", sc(j + 1))); } }
        for (j, op) in other_pairs.iter().enumerate() { if !lean || (j + si) % 3 == 0 { out(format!("{op} {a} {}", sc(j))); } }
        for (j, op) in UNARY_OPS.iter().enumerate() { if !lean || (j + si) % 6 == 0 { out(format!("{op} {a}")); } }
        for (j, op) in PAD_OPS.iter().enumerate() {
            if lean && (j + si) % 3 != 0 { continue }
            out(format!("{op} {a} 1:6 none")); if !lean { out(format!("{op} {a} 1:7 1:2a")); out(format!("{op} {a} {} {}", warr(&s[s.len() - 1..], |k| ((k * 5) % 9).to_string()), warr(&scal[0], fill))); }
        }
        for (j, op) in ["split", "rsplit"].iter().enumerate() {
            if lean && (j + si) % 2 != 0 { continue }
            out(format!("{op} {a} {} none", sc(j + 1))); if !lean { out(format!("{op} {a} {} 1:1", sc(j))); out(format!("{op} {a} none 1:2")); }
        }
        let misc: Vec<String> = vec![format!("multiply {a} 1:2"), format!("splitlines {a} none"), format!("splitlines {a} 1:1"), format!("translate {a} 6162,2d2b,4161"),
            format!("zfill {} 4", warr(s, |k| hex(NUMS[(k + k / 7) % NUMS.len()]))), format!("compare {a} {} {}", sc(1), hex(["<", "==", ">="][si % 3])), format!("multiply {a} {}", warr(&s[s.len() - 1..], |k| (k % 3).to_string()))];
        for (j, l) in misc.iter().enumerate() { if !lean || (j + si) % 4 == 0 { out(l.clone()); } }
        // (the model's three-operand lifting is quadratic: 0.8 s at 16 385, 15 s at 70 001 — replace stays at <= 20 000 / 33 000 elements)
        if (!lean && n <= 33000) || (n <= 20000 && si % 2 == 0) { late.push(format!("replace {a} {} 1:{} none", sc(0), hex("xy"))); late.push(format!("replace {a} 1:{} 1:{} 1", hex("a"), hex(""))); }
        // array partners: same shape, trailing axis, unit axes
        if n <= 40000 {
            let ps = partners(s);
            for (pi, p) in ps.iter().enumerate() {
                if pi == 1 { continue }   // `[1]` is above
                let b = warr(p, |k| hp(k + pi));
                let all: Vec<&str> = PAIR_OPS.iter().chain(STRIP_OPS.iter()).copied().collect();
                for t in 0..(if lean { 2 } else { 5 }) { let op = all[(si * 5 + pi * 3 + t * 7) % all.len()]; out(format!("{op} {a} {b}")); }
                if !lean && pi != 0 { out(format!("split {a} {b} none")); out(format!("center {a} {} none", warr(p, |k| (k % 9).to_string()))); }
            }
        }
    }
    // ---- (6b) shapes that collide under the weak polynomial hashes: A, B, A with a scalar-like, a same-shape and a trailing-axis partner
    for (i, (sa, sb)) in collision_shape_pairs().into_iter().enumerate() {
        let nb: usize = sb.iter().product();
        if nb > 600 && !thorough && i % 3 != 0 { continue }
        let all: Vec<&str> = PAIR_OPS.iter().chain(STRIP_OPS.iter()).copied().collect();
        let (xa, xb) = (warr(&sa, |k| hs(k + i)), warr(&sb, |k| hs(k + i + 1)));
        for t in 0..3usize {
            let op = all[(i * 3 + t) % all.len()];
            match t {
                0 => { let p = format!("1:{}", hp(i)); for x in [&xa, &xb, &xa] { out(format!("{op} {x} {p}")); } }
                1 => { for (x, sh) in [(&xa, &sa), (&xb, &sb), (&xa, &sa)] { out(format!("{op} {x} {}", warr(sh, |k| hp(k + i)))); } }
                _ => { for (x, sh) in [(&xa, &sa), (&xb, &sb), (&xa, &sa)] { out(format!("{op} {x} {}", warr(&sh[sh.len() - 1..], |k| hp(k + i)))); } }
            }
        }
        let u = UNARY_OPS[i % UNARY_OPS.len()];
        for x in [&xa, &xb, &xa] { out(format!("{u} {x}")); }
        let pd = PAD_OPS[i % 3];
        for (x, sh) in [(&xa, &sa), (&xb, &sb), (&xa, &sa)] { out(format!("{pd} {x} {} none", warr(&sh[sh.len() - 1..], |k| (k % 7).to_string()))); }
        let sp = ["split", "rsplit"][i % 2];
        for x in [&xa, &xb, &xa] { out(format!("{sp} {x} 1:{} 1:2", hex("-"))); }
        if i % 4 == 0 { for (x, sh) in [(&xa, &sa), (&xb, &sb), (&xa, &sa)] { out(format!("multiply {x} {}", warr(sh, |k| (k % 3).to_string()))); } }
    }
    // ---- (6a) value fingerprints: anagrams / equal length and byte sum next to one another inside an array, and arrays holding the same
    //      strings in another order directly after one another
    {
        let groups: &[&[&str]] = &[&["ab", "ba"], &["abc", "bca", "cab", "acb"], &["Az", "zA"], &["a-b", "-ab", "ab-", "b-a"], &["aab", "aba", "baa"], &["a b", " ab", "ab "], &["ad", "bc", "cb", "da"],
            &["lazy dogs, LAZY DOGS: 1234", "LAZY dogs, lazy DOGS: 4321", "1234 :SGOD YZAL ,sgod yzal"], &["12", "21"], &["-5", "5-"], &["aZ", "Za", "bY", "Yb"], &["x\ny", "y\nx", "\nxy"]];
        let flat: Vec<String> = groups.iter().flat_map(|g| g.iter().map(|x| hex(x))).collect();
        let n = flat.len();
        let orders: Vec<Vec<usize>> = vec![(0..n).collect(), (0..n).rev().collect(), (0..n).map(|k| (k * 7 + 3) % n).collect(), (0..n).map(|k| if k % 2 == 0 { k + 1 - 2 * ((k + 1 >= n) as usize) } else { k - 1 }).collect(), (0..n).collect()];
        let arrs: Vec<String> = orders.iter().map(|o| warr(&[n], |k| flat[o[k] % n].clone())).collect();
        for op in UNARY_OPS { for a in &arrs { out(format!("{op} {a}")); } }
        for op in PAIR_OPS.iter().chain(STRIP_OPS.iter()) { for p in ["a", "b", "ab"] { for a in &arrs { out(format!("{op} {a} 1:{}", hex(p))); } } }
        for op in PAIR_OPS.iter().chain(STRIP_OPS.iter()) { for (t, a) in arrs.iter().enumerate() { out(format!("{op} {a} {}", arrs[(t + 1) % arrs.len()])); } }
        for op in PAD_OPS { for a in &arrs { out(format!("{op} {a} 1:9 1:2a")); } }
        for op in ["split", "rsplit"] { for a in &arrs { out(format!("{op} {a} 1:{} none", hex("a"))); out(format!("{op} {a} none 1:1")); } }
        for a in &arrs { out(format!("multiply {a} 1:2")); out(format!("splitlines {a} 1:1")); out(format!("translate {a} 6162,6261")); late.push(format!("replace {a} 1:{} 1:{} 1", hex("a"), hex("b"))); }
    }
    // ---- (6c) a refused call directly followed by a valid one on the same thread (and the same operands in the other order)
    {
        let (a2, a3, a6) = (format!("2:{},{}", hex("a-b"), hex("b")), format!("3:{},{},{}", hex("-"), hex("a"), hex("b")), warr(&[2, 3], hs));
        for op in PAIR_OPS.iter().chain(STRIP_OPS.iter()) { out(format!("{op} {a2} {a3}")); out(format!("{op} {a6} {a3}")); out(format!("{op} {a6} {a2}")); out(format!("{op} {a2} {a2}")); }
        for op in ["split", "rsplit"] { out(format!("{op} {a2} {a3} none")); out(format!("{op} {a2} {a2} none")); out(format!("{op} {a2} {a2} 3:1,2,3")); out(format!("{op} {a6} {a3} 1:1")); }
        for op in PAD_OPS { out(format!("{op} {a2} 3:1,2,3 none")); out(format!("{op} {a2} 2:4,5 none")); out(format!("{op} {a2} 2:1,2 3:2a,2a,2a")); out(format!("{op} {a6} 3:7,8,9 1:2a")); }
        out(format!("multiply {a2} 3:1,2,3")); out(format!("multiply {a2} 2:1,2")); out(format!("splitlines {a2} 3:0,1,0")); out(format!("splitlines {a2} 2:0,1"));
        out(format!("zfill 2:{},{} 6", hex("12"), hex("x"))); out(format!("zfill 2:{},{} 6", hex("12"), hex("-7")));
        out(format!("compare {a2} {a2} {}", hex("bogus"))); out(format!("compare {a2} {a2} {}", hex("<=")));
        late.push(format!("replace {a2} {a3} {a2} none")); late.push(format!("replace {a2} {a2} {a2} none"));
    }
    // ---- (8) exact lengths: every string length 1..130 and 255, 256, 257, 300 (word-wise / blocked scans with a scalar tail), over
    //      alphabets that hold only the LAST letter of a range ('Z' / 'z'), only digits, the pattern at the very end
    {
        let lens: Vec<usize> = (1..=130usize).chain([191, 255, 256, 257, 300]).collect();
        let gens: Vec<Box<dyn Fn(usize) -> String>> = vec![
            Box::new(|l| "Z".repeat(l)), Box::new(|l| "z".repeat(l)), Box::new(|l| (0..l).map(|i| b"aZzA-0 yY9"[i % 10] as char).collect()),
            Box::new(|l| format!("{}ab", "-".repeat(l.saturating_sub(2)))), Box::new(|l| format!("{}Z", "a".repeat(l - 1))), Box::new(|l| format!("{}{}", " ".repeat(l / 2), "9".repeat(l - l / 2))),
            Box::new(|l| (0..l).map(|i| if i % 9 == 8 { '\n' } else { b"abAB"[i % 4] as char }).collect())];
        for (gi, g) in gens.iter().enumerate() {
            if !thorough && gi >= 5 { continue }
            let a = warr(&[lens.len()], |k| hex(&g(lens[k])));
            for op in UNARY_OPS { out(format!("{op} {a}")); }
            for (j, op) in PAIR_OPS.iter().chain(STRIP_OPS.iter()).enumerate() { if thorough || (j + gi) % 2 == 0 || INDEX_OPS.contains(op) { out(format!("{op} {a} 1:{}", hex(["ab", "Z", "z", "-", "a", "9", "B"][(gi + j) % 7]))); } }
            out(format!("splitlines {a} none")); out(format!("translate {a} 5a7a,7a5a,2d2b")); out(format!("multiply {a} 1:2"));
            for op in ["split", "rsplit"] { out(format!("{op} {a} 1:{} none", hex(["Z", "z", "a", "-", "a", " ", "\n"][gi]))); out(format!("{op} {a} none 1:3")); }
            late.push(format!("replace {a} 1:{} 1:{} none", hex(["Z", "z", "zA", "-", "a", "9", "AB"][gi]), hex("+")));
        }
        // every width 0..300 against one short string per position (padding by a table / block of blanks)
        let w = warr(&[301], |k| k.to_string());
        for op in PAD_OPS { out(format!("{op} 1:{} {w} none", hex("abc"))); out(format!("{op} 1:{} {w} 1:2a", hex("ab"))); out(format!("{op} {} {w} none", warr(&[301], |k| hs(k)))); }
        out(format!("multiply 1:{} {}", hex("ab"), warr(&[131], |k| k.to_string())));
        out(format!("zfill {} 300", warr(&[10], |k| hex(NUMS[k])))); for wd in [31usize, 37, 49, 63, 64, 65, 127, 128, 129] { out(format!("zfill {} {wd}", warr(&[10], |k| hex(NUMS[k])))); }
    }
    // ---- (9) aliasing: the second operand IS the receiver (`a.op(&a)`); `exec` passes the very same object when both are spelled alike
    for s in [vec![1usize], vec![7], vec![2, 3], vec![2, 2, 2], vec![17, 16], vec![300], vec![0], vec![2, 0]] {
        for off in [0usize, 11] {
            let a = warr(&s, |k| hs(k + off));
            for op in PAIR_OPS { out(format!("{op} {a} {a}")); }
            late.push(format!("replace {a} {a} {a} none")); late.push(format!("replace {a} {a} {a} 1"));
        }
    }
    // ---- (10) ranks 4..6 (the statement names ranks 1..3; the lifting is rank-generic)
    for (s, p) in [(vec![2usize, 1, 2, 3], vec![2usize, 3]), (vec![2, 1, 2, 1, 2], vec![2, 1, 1]), (vec![1, 2, 1, 2, 1, 3], vec![3]), (vec![2, 2, 2, 2], vec![1]), (vec![3, 1, 1, 2], vec![3, 2, 1, 2])] {
        let (a, b) = (warr(&s, hs), warr(&p, hp));
        for op in PAIR_OPS.iter().chain(STRIP_OPS.iter()) { out(format!("{op} {a} {b}")); }
        for op in UNARY_OPS { out(format!("{op} {a}")); }
        for op in PAD_OPS { out(format!("{op} {a} {} none", warr(&p, |k| (k % 8).to_string()))); }
        for op in ["split", "rsplit"] { out(format!("{op} {a} {b} none")); out(format!("{op} {a} {b} {}", warr(&p, |k| (k % 3).to_string()))); }
        out(format!("multiply {a} {}", warr(&p, |k| (k % 3).to_string()))); out(format!("splitlines {a} {}", warr(&p, |k| (k % 2).to_string())));
        late.push(format!("replace {a} {b} 1:{} none", hex("+")));
    }
    let _ = seed;
}

// ------------------------------------------------------------------ robustness streams, part 3 (FRAMEWORK.md): values related in a way random data never is

/// Thue–Morse word of length 2^k over (x, y).  `tm(k, y, x)` is its letter-swapped twin.  For every ODD base b the polynomial hashes
/// Σ s[i]·b^(n-1-i) of the two differ by (x-y)·Π_{i<k}(b^(2^i) - 1), which 2^(1+3+4+…+(k+1)) divides: equal mod 2^32 from k = 7 (128 letters),
/// equal mod 2^64 from k = 10 (1024 letters) — for 31, 33, 37, 131, 257, 65599, 1000003, … alike.
fn tm(k: usize, x: char, y: char) -> String { (0..1usize << k).map(|i| if i.count_ones() % 2 == 0 { x } else { y }).collect() }

/// deterministic pseudo-random lower-case letters (seed-independent: the cases are the same in every run)
fn letters(tag: u64, n: usize) -> String {
    let mut s = tag.wrapping_mul(0x9E3779B97F4A7C15) ^ 0xD1B54A32D192ED03;
    (0..n).map(|_| { s ^= s << 13; s ^= s >> 7; s ^= s << 17; (b'a' + ((s >> 33) % 26) as u8) as char }).collect()
}
fn bump(c: u8) -> u8 { match c { b'z' => b'a', b'Z' => b'A', b'9' => b'0', b' ' => b'-', c if c.is_ascii_alphanumeric() => c + 1, _ => b'a' } }
/// `s` with the byte at `pos` replaced by its successor
fn with_bump(s: &str, pos: usize) -> String { let mut b = s.as_bytes().to_vec(); b[pos] = bump(b[pos]); String::from_utf8(b).unwrap() }

/// weak 32-bit (or narrower) string hashes in common use: polynomial base/modulus pairs of competitive-programming and textbook
/// Rabin–Karp code (with the byte itself and with `c - 'a' + 1` as digit), Java's hashCode, djb2, sdbm, FNV-1 / FNV-1a, Adler-32, CRC-32,
/// a 64-bit polynomial folded to 32 bits.  A birthday search over 10-letter words finds a colliding pair for each of them.
fn weak_hashes() -> Vec<(&'static str, Box<dyn Fn(&[u8]) -> u32>)> {
    fn poly(base: u64, m: u64, off: bool) -> Box<dyn Fn(&[u8]) -> u32> {
        Box::new(move |s| s.iter().fold(0u64, |h, &c| (h * base + if off { (c - b'a' + 1) as u64 } else { c as u64 }) % m) as u32)
    }
    fn wrap32(init: u32, base: u32) -> Box<dyn Fn(&[u8]) -> u32> { Box::new(move |s| s.iter().fold(init, |h, &c| h.wrapping_mul(base).wrapping_add(c as u32))) }
    vec![("31 mod 1e9+7", poly(31, 1_000_000_007, false)), ("131 mod 1e9+7", poly(131, 1_000_000_007, false)), ("257 mod 1e9+9", poly(257, 1_000_000_009, false)),
         ("256 mod 1e9+7", poly(256, 1_000_000_007, false)), ("31 mod 998244353", poly(31, 998_244_353, false)), ("131 mod 2^31-1", poly(131, 2_147_483_647, false)),
         ("137 mod 1e9+7", poly(137, 1_000_000_007, false)), ("911382323 mod 972663749", poly(911_382_323, 972_663_749, false)), ("256 mod 101", poly(256, 101, false)),
         ("31 mod 1e9+9, a=1", poly(31, 1_000_000_009, true)), ("53 mod 1e9+9, a=1", poly(53, 1_000_000_009, true)), ("29 mod 1e9+7, a=1", poly(29, 1_000_000_007, true)),
         ("java 31 u32", wrap32(0, 31)), ("djb2", wrap32(5381, 33)), ("sdbm 65599", wrap32(0, 65599)), ("131 u32", wrap32(0, 131)), ("1000003 u32", wrap32(0, 1_000_003)),
         ("fnv1a-32", Box::new(|s| s.iter().fold(0x811C9DC5u32, |h, &c| (h ^ c as u32).wrapping_mul(16_777_619)))),
         ("fnv1-32", Box::new(|s| s.iter().fold(0x811C9DC5u32, |h, &c| h.wrapping_mul(16_777_619) ^ c as u32))),
         ("adler32", Box::new(|s| { let (mut a, mut b) = (1u32, 0u32); for &c in s { a = (a + c as u32) % 65521; b = (b + a) % 65521; } (b << 16) | a })),
         ("crc32", Box::new(|s| { let mut c = !0u32; for &b in s { c ^= b as u32; for _ in 0..8 { c = if c & 1 != 0 { (c >> 1) ^ 0xEDB88320 } else { c >> 1 }; } } !c })),
         ("131 u64 folded", Box::new(|s| { let h = s.iter().fold(0u64, |h, &c| h.wrapping_mul(131).wrapping_add(c as u64)); (h ^ (h >> 32)) as u32 })),
         ("rotate-xor", Box::new(|s| s.iter().fold(0u32, |h, &c| h.rotate_left(5) ^ c as u32)))]
}

/// for every weak hash one pair (thorough: two) of different 10-letter words with the same hash value
fn birthday_pairs(per_hash: usize) -> Vec<(String, String)> {
    let word = |i: u64| -> Vec<u8> { let mut x = i.wrapping_mul(0x9E3779B97F4A7C15).wrapping_add(0x632BE59BD9B4E019); x ^= x >> 29; x = x.wrapping_mul(0xBF58476D1CE4E5B9); x ^= x >> 32;
        (0..10).map(|_| { let c = b'a' + (x % 26) as u8; x /= 26; c }).collect() };
    let mut out = vec![];
    for (name, h) in weak_hashes() {
        let mut seen: std::collections::HashMap<u32, u64> = std::collections::HashMap::with_capacity(1 << 18);
        let mut found = 0usize;
        for i in 0..400_000u64 {
            let w = word(i);
            match seen.insert(h(&w), i) {
                Some(j) if word(j) != w => { out.push((String::from_utf8(word(j)).unwrap(), String::from_utf8(w).unwrap())); found += 1; if found >= per_hash { break } }
                _ => {}
            }
        }
        assert!(found > 0, "no colliding pair of 10-letter words found for the weak hash `{name}`");
    }
    out
}

/// adversarial (pattern, look-alike) pairs of equal length: every pair is DIFFERENT text that a rolling / sampled / symmetric hash cannot tell apart
fn adversarial_pairs(thorough: bool) -> Vec<Vec<(String, String)>> {
    let mut groups: Vec<Vec<(String, String)>> = vec![];
    // (a) Thue–Morse words of length 2^k, k = 1..11, against their letter-swapped twin — several alphabets (letter distance 1, 25, 32, 13; digits; a blank)
    let alphabets: &[(char, char)] = if thorough { &[('a', 'b'), ('0', '1'), ('A', 'a'), ('a', 'z'), ('x', '-'), ('N', 'A'), ('a', ' '), ('b', 'a')] } else { &[('a', 'b'), ('0', '1'), ('A', 'a')] };
    for (ai, &(x, y)) in alphabets.iter().enumerate() {
        let kmax = if thorough || ai == 0 { 11 } else { 10 };
        groups.push((1..=kmax).map(|k| (tm(k, x, y), tm(k, y, x))).collect());
        if thorough || ai == 0 { groups.push((1..=kmax).rev().map(|k| (tm(k, y, x), tm(k, x, y))).collect()); }
    }
    // … and inside a common frame (equal first and last bytes: a hash match "confirmed" by looking at the ends only)
    groups.push([7usize, 8, 9, 10, 11].iter().map(|&k| (format!("xyz{}zyx", tm(k, 'a', 'b')), format!("xyz{}zyx", tm(k, 'b', 'a')))).collect());
    // (b) equal except in ONE position — first, second, middle, 9th from the end, last but one, last — lengths around 32 / 64 / 256 / 1024 / 2048;
    //     random letters, the period-2 word, one repeated letter (even bases mod 2^64 only see the last 64 / 8 bytes, sampled hashes only some bytes)
    let lens: &[usize] = if thorough { &[31, 32, 33, 63, 64, 65, 100, 255, 256, 257, 1024, 1025, 2048] } else { &[33, 65, 256, 1024] };
    for kind in 0..3usize {
        let mut g = vec![];
        for (li, &l) in lens.iter().enumerate() {
            if !thorough && kind == 1 && l > 256 { continue }
            let base: String = match kind { 0 => letters(l as u64, l), 1 => "ab".repeat(l / 2 + 1)[..l].to_string(), _ => "a".repeat(l) };
            let all = [0usize, 1, l / 2, l - 9, l - 2, l - 1];
            let pos: Vec<usize> = if thorough { all.to_vec() } else { vec![all[(li + kind) % 2], all[2 + (li + kind) % 2], all[4 + (li + kind + 1) % 2]] };
            for p in pos { g.push((base.clone(), with_bump(&base, p))); }
        }
        if !thorough && kind == 2 { g.truncate(6); }
        for c in g.chunks(12) { groups.push(c.to_vec()); }
    }
    // (c) anagram windows (equal byte multiset => equal sum, xor, product and every other symmetric fingerprint): reversed, rotated, one late
    //     transposition; and equal sum + equal xor without being an anagram ("ef" / "dg")
    {
        let mut g = vec![];
        for &l in if thorough { &[2usize, 3, 4, 5, 8, 9, 16, 17, 33, 64, 65, 256, 1024][..] } else { &[2usize, 3, 4, 8, 16, 33, 64, 256][..] } {
            let w = letters(1000 + l as u64, l);
            let b = w.as_bytes();
            let rev: String = w.chars().rev().collect();
            let rot = format!("{}{}", &w[1..], &w[..1]);
            let mut sw = b.to_vec(); let i = (0..l - 1).rev().find(|&i| sw[i] != sw[i + 1]); if let Some(i) = i { sw.swap(i, i + 1); }
            for v in [rev, rot, String::from_utf8(sw).unwrap()] { if v != w { g.push((w.clone(), v)); } }
        }
        for n in [1usize, 4, 16, 100] { g.push(("ef".repeat(n), "dg".repeat(n))); g.push(("ad".repeat(n), "bc".repeat(n))); g.push((format!("ef{}", "q".repeat(n)), format!("dg{}", "q".repeat(n)))); }
        for c in g.chunks(12) { groups.push(c.to_vec()); }
    }
    // (d) birthday collisions of 23 weak 32-bit hashes
    for c in birthday_pairs(if thorough { 2 } else { 1 }).chunks(12) { groups.push(c.to_vec()); }
    groups
}

/// the look-alike `q` (and the pattern `p` itself) in eight surroundings; the pattern of every case is `p`
fn surround(c: usize, p: &str, q: &str) -> String {
    match c {
        0 => q.to_string(),
        1 => format!("{q}{p}"),
        2 => format!("{p}{q}{p}"),
        3 => format!("x{q}yz{p}{q}"),
        4 => format!("{p}{q}"),
        5 => format!("{}{q}{}", &p[..p.len() - 1], &p[1..]),
        6 => format!("{q}{q}{}", &p[..p.len() / 2]),
        _ => p.to_string(),
    }
}

const SUB2_OPS: &[&str] = &["count", "find", "rfind", "index", "rindex", "partition", "rpartition", "starts_with", "ends_with", "equal", "not_equal", "less", "greater_equal"];
const CMP_OPS: &[&str] = &["equal", "not_equal", "greater_equal", "less_equal", "greater", "less", "starts_with", "ends_with"];
const CMP_NAMES: &[&str] = &["==", "!=", ">", "<", ">=", "<=", "GREATER", "less_equal"];

fn robust3(thorough: bool, out: &mut dyn FnMut(String), late: &mut Vec<String>) {
    // ---- (13a) substring operations against look-alikes: count / find / rfind / index / rindex / partition / rpartition / starts_with / ends_with /
    //      split / rsplit / replace (and equality, should it ever go through a fingerprint) — every operation sees every kind of pair in every surrounding;
    //      quick tier: the Thue–Morse and one-position groups in full; of the reversed a/b group and of every second anagram / birthday group a rotating third of (operation, surrounding)
    for (gi, g) in adversarial_pairs(thorough).iter().enumerate() {
        let full = thorough || (gi != 1 && gi < 9) || (gi > 1 && gi % 2 == 0);
        let n = g.len();
        let shape: Vec<usize> = if n % 2 == 0 && n >= 4 && gi % 2 == 1 { vec![2, n / 2] } else { vec![n] };
        let b = warr(&shape, |i| hex(&g[i].0));
        for c in 0..8usize {
            let a = warr(&shape, |i| hex(&surround(c, &g[i].0, &g[i].1)));
            let mut j = 0usize;
            let mut want = |always: bool| -> bool { j += 1; full || always || (j + c + gi) % 3 == 0 };
            for op in SUB2_OPS { if want(false) { out(format!("{op} {a} {b}")); } }
            for op in ["split", "rsplit"] {
                if want(false) { out(format!("{op} {a} {b} none")); }
                if want(false) { out(format!("{op} {a} {b} 1:{}", 1 + (c + gi) % 3)); }
            }
            if want(false) { late.push(format!("replace {a} {b} 1:{} none", hex("+"))); }
            if want(false) { late.push(format!("replace {a} {b} 1:{} 1", hex(""))); }
            if want(false) { out(format!("compare {a} {b} {}", hex(CMP_NAMES[(c + gi) % CMP_NAMES.len()]))); }
        }
        // the look-alike AS the pattern, one scalar-like pattern against the whole array, and the array against itself in the other order
        if full || gi % 3 == 0 {
            let whole = warr(&shape, |i| hex(&surround(3, &g[i].0, &g[i].1)));
            let last = &g[n - 1];
            for (j, op) in SUB2_OPS.iter().take(9).enumerate() { if full || j % 2 == gi % 2 { out(format!("{op} {whole} 1:{}", hex(&last.1))); out(format!("{op} {} {}", warr(&shape, |i| hex(&g[i].1)), b)); } }
        }
    }
    // ---- (8 for comparisons) EVERY stem length 0..130 (word-wise / blocked comparisons with a scalar tail): a shorter-but-greater ending, a one-byte
    //      difference right after the stem, one the prefix of the other, a difference hidden behind trailing blanks
    for kind in 0..2usize {
        let stem = |s: usize| -> String { if kind == 0 { letters(4242, 130)[..s].to_string() } else { "a".repeat(s) } };
        for (pi, (x, y)) in [("b", "ab"), ("a", "b"), ("", "a"), ("ab  ", "ab c"), ("a ", "a"), ("b", "b")].into_iter().enumerate() {
            if !thorough && pi >= 4 { continue }
            let (a, b) = (warr(&[131], |s| hex(&format!("{}{x}", stem(s)))), warr(&[131], |s| hex(&format!("{}{y}", stem(s)))));
            for (j, op) in CMP_OPS.iter().enumerate() { out(format!("{op} {a} {b}")); if thorough || j % 4 == kind + 2 * (pi % 2) { out(format!("{op} {b} {a}")); } }
            out(format!("compare {a} {b} {}", hex(CMP_NAMES[(kind * 3 + x.len() + y.len()) % CMP_NAMES.len()])));
        }
    }
    // ---- (13b) long common stems (31 … 2048 bytes) before the first difference: the six comparisons (and compare by name), starts_with / ends_with;
    //      every ordered pair of endings — differing in the byte right after the stem, one the prefix of the other, a shorter one that is greater,
    //      trailing blanks — as `stem + ending`, as `stem + ending + common tail`, and mirrored (`ending + stem`: a long common SUFFIX)
    {
        let slens: &[usize] = if thorough { &[31, 32, 33, 63, 64, 65, 127, 128, 129, 255, 256, 257, 1023, 1024, 1025, 2048] } else { &[32, 33, 64, 65, 256, 1024] };
        for (si, &sl) in slens.iter().enumerate() {
            for kind in 0..4usize {
                if !thorough && sl >= 256 && kind != 0 && kind != 3 { continue }     // quick: long stems with random letters / blanks inside only
                let stem: String = match kind { 0 => letters(77 + sl as u64, sl), 1 => "a".repeat(sl), 2 => "ab".repeat(sl / 2 + 1)[..sl].to_string(),
                    _ => { let mut s = letters(78 + sl as u64, sl).into_bytes(); for i in (3..sl.saturating_sub(1)).step_by(7) { s[i] = b' '; } String::from_utf8(s).unwrap() } };
                let ends: &[&str] = if sl >= (if thorough { 1000 } else { 256 }) { &["", "b", "ab", "b ", "ac"] } else { &["", "a", "b", "ab", "b ", "ba", "aab", "a  ", "B"] };
                let (mut l, mut r) = (vec![], vec![]);
                for x in ends { for y in ends { l.push(*x); r.push(*y); } }
                let m = l.len();
                let shape: Vec<usize> = if m == 25 { vec![5, 5] } else if m == 81 && kind % 2 == 0 { vec![9, 9] } else { vec![m] };
                let layouts: Vec<Box<dyn Fn(&str) -> String + '_>> = vec![Box::new(|e| format!("{stem}{e}")), Box::new(|e| format!("{stem}{e}{}", &stem[..stem.len().min(40)])), Box::new(|e| format!("{e}{stem}"))];
                for (li, lay) in layouts.iter().enumerate() {
                    if !thorough && li >= 1 && (if sl >= 256 { li == 1 && kind != 0 } else { kind == 1 || kind == 2 }) { continue }
                    let (a, b) = (warr(&shape, |k| hex(&lay(l[k]))), warr(&shape, |k| hex(&lay(r[k]))));
                    for (j, op) in CMP_OPS.iter().enumerate() { if thorough || sl < 256 || li == 0 || (j + si + kind) % 2 == 0 { out(format!("{op} {a} {b}")); } }
                    out(format!("compare {a} {b} {}", hex(CMP_NAMES[(si + kind + li) % CMP_NAMES.len()])));
                    if thorough { out(format!("compare {a} {b} {}", hex(CMP_NAMES[(si + kind + li + 3) % CMP_NAMES.len()]))); }
                }
            }
        }
    }
}

/// would the pinned (unrepaired) loop run forever on this input? (only used to ORDER the cases: those go last)
fn rescans(s: &str, old: &str, new: &str) -> bool {
    let mut t = s.to_string();
    for _ in 0..64 { match t.find(old) { Some(i) => t.replace_range(i..i + old.len(), new), None => return false } }
    true
}

/// non-trivial: the subject array holds at least two distinct strings, one of them non-empty
fn nontrivial(op: &str, args: &[&str]) -> bool {
    if op == "refstats" { return false; }
    if is_giant(args) { return true; }
    let Some((_, el)) = args.first().and_then(|a| split_arr(a)) else { return false };
    let mut d: Vec<&str> = el.clone(); d.sort(); d.dedup();
    d.len() >= 2
}

fn main() {
    // per-case watchdog: the slowest cases are the giant arrays (1.0 - 1.5 s each at load 24 on 16 cores, ~3 s for 2 097 153 strings in the thorough
    // tier; everything else stays below 0.35 s, the 2048-letter look-alikes below 0.1 s) — 40 s keeps a >= 20x margin on a loaded machine
    harness_main(Spec { prop: "C17", gen, exec, nontrivial, hang_secs: 40,
        rule: "exhaustive over the alphabet {a,b,A,B,0,1,space,-,comma,LF,CR}: one-argument operations on every string of length <=4 (quick <=3); two-argument operations on every (subject<=3 (quick <=2), pattern<=2) pair, split/rsplit limits 0..4; padding widths 0..6; replace on every (subject<=4 (quick <=3), old<=2, new<=2, count) over {a,b,-}; all packed into equal-shape arrays of rank 1..3 plus [1]-shaped scalar-like arguments; + seeded random strings up to 24 bytes with patterns cut from the subject; + non-broadcastable shapes; + robustness streams: both receivers (Array<String>, Ok(array) and Err(..) through the Result impls) on EVERY case, compare with &str/String/enum spellings, every operation on big_shapes() (axes 7..17, up to 4900 elements) and zero_shapes() with same-shape/[1]/trailing/unit-axis partners, long strings 257..301 bytes with self-overlapping patterns and widths/counts 255..1000, every pair/triple of argument shapes needing two-sided stretches in every argument position; part-2 streams: huge arrays of 16 385 ... 70 001 short strings ([130,127], [2,3,5000], [40,30,30] ...; thorough to 140 000) - all seven search operations against ONE pattern spelled [1] / [1,1] / [1,1,1] on every huge shape, a rotating share (thorough: all) of the other operations, array partners to 40 000, replace to 20 000 / 33 000; collision_shape_pairs A,B,A; anagram arrays and the same strings in five orders; refused-then-valid calls; A-B-A re-run of the previous case on every third case; every string length 1..130, 191, 255..257, 300 over seven alphabets ('Z' only, 'z' only, ...); every width 0..300; `a.op(&a)` with the very same object; ranks 4..6; part-3 streams: look-alike (pattern, subject) pairs of equal length for count/find/rfind/index/rindex/partition/rpartition/starts_with/ends_with/split/rsplit/replace/equality - Thue-Morse words of 2..2048 letters against their letter-swapped twin over a/b, 0/1, A/a (thorough 8 alphabets) and inside a common frame, texts of 33..1024 (thorough 31..2048) bytes equal except in one position (first/second/middle/9th from the end/last but one/last), anagram windows and equal-sum-and-xor words, birthday collisions of 10-letter words for 23 weak 32-bit hashes - the look-alike in eight surroundings of the pattern; long common stems 32,33,64,65,256,1024 (thorough 31..2048) of four kinds x every ordered pair of 9 (5) endings as prefix, infix and suffix, and every stem length 0..130, through the six comparisons, compare by name, starts_with, ends_with; giant arrays iota:<shape>+<off> of 1 048 581 ... 1 200 003 strings (thorough to 2 097 153; 6 cases quick, 54 thorough) judged in place by a native per-string reference that is compared with the model on every smaller case it covers (closing refstats line; fails if used with < 1000 comparisons). distinct = distinct case lines; non-trivial = subject array with >=2 distinct strings" });
}
