//! C10 — sorting and order queries: flat forms, and every axis (both spellings) of n-D arrays through apply_along_axis.
//!
//! ops (all on explicit integer arrays `shape:elems`, value protocol on i64 tags with duplicates):
//!   sort    <arr> <axis> <kind>        axis = none | int ; kind = none | e:<Variant> | s:<hex of &str> | o:<hex of String>
//!   argsort <arr> <axis> <kind>
//!   argmax  <arr> <axis> <keepdims>    keepdims = none | true | false
//!   argmin  <arr> <axis> <keepdims>
//!   unique  <arr> <axis>
//!   argmax_f / argmin_f <farr> none <keepdims>   f64 array, elements are integers or `n` (NaN) — exercises the NaN arm
//! robustness streams (FRAMEWORK.md) — typed ops, first argument `<ty>:<rc>`:
//!   tsort / targsort <ty>:<rc> <arr> <axis> <kind>,  tunique <ty>:<rc> <arr> <axis>,  targmax / targmin <ty>:<rc> <arr> <axis> <keepdims>
//!   ty = i64 | u8 | i8 | str (integer lane, mapped order-preservingly into the element type; str through `STR_TABLE`)
//!      | f64 (float tokens: integer, `z` = -0.0, `e`/`-e` = ±smallest subnormal, `I`/`-I` = ±inf, `n` = NaN)
//!   rc = p (plain `Array<T>` receiver, called twice) | r (`Ok(array)` through `impl … for Result<Array<T>, ArrayError>`)
//!      | b (both; all runs must agree bit-wise)
//!   The answer is compared at VALUE level (0.0 and -0.0 are the same value: both print `0`, which is what the statement's
//!   "distinct values … without repetition" demands); in addition `tsort` must keep the multiset of bit patterns.
//!   Lanes containing NaN are outside the statement for sort / unique / argsort (no linear order): reported as open region
//!   after a weak oracle (sort keeps the multiset of bit patterns; unique keeps the set of non-NaN values).
//! Part 2 (after the third round of seeded changes):
//!  * typed case lines may end in `ref` and may spell the array as a generator `G<pattern>.<seed>.<hi>:<shape>` (values 0..=hi from the
//!    harness RNG; hi <= 100 unless the element type is i64 / f64): cases beyond the reach of the quadratic list-backed model (16 384 … 140 000 elements; axis sweeps).  The driver
//!    answers `ref`; the harness judges the real result by its NATIVE REFERENCE `native_answer` (lane membership by coordinate
//!    arithmetic + std's stable sort / stable ranking / first extreme, first NaN wins).  That reference is compared with the MODEL's
//!    answer on every sort / argsort / argmax / argmin case the model answers (non-empty, NaN-free for the sorts) — the closing
//!    `refstats` line reports how many — so the chain is model -> reference -> crate.
//!  * hidden state: colliding shapes back to back in both orders, permuted / reversed / one-off value sets, failing calls directly
//!    followed by valid ones, the same lane through every element type back to back, and A-B-A re-runs in `exec`.
//!  * strictly descending runs closed by one larger element (whole lane and every aligned run of the run-merging sort); every lane
//!    length 1..300 in trailing / inner position; ranks 6..8.
//! Part 3 (after the fourth round of seeded changes):
//!  * element LAYOUT: `ty` may be `L3 | L6 | L9 | L12 | L16 | L20 | L24 | L28 | L32 | L32s | L40 | L48s | L72 | L88 | L120` — tuples / nested tuples of that
//!    many bytes (`s`: with String members, not plain-old-data), ordered lexicographically by their derived `PartialOrd`; the integer
//!    tags 0..=255 of the lane are mapped STRICTLY MONOTONICALLY into the type (`Enc` / `spread`: mixed radix, pseudo-random low-order
//!    components), so the model's answer on the tags is the expected answer.  `sl<k>`: Strings that share a stem of k bytes.
//!  * value relations: all-`==` float lanes (0.0 / -0.0 in seven sign patterns) of every length, constant lanes on every type.
//!  * GIANT arrays (> 200 000 elements, `ref` lines): the result is compared IN PLACE with the structured native reference `native_core`
//!    (no text is built; first differing position only) — the same `native_core` whose text form is validated against the model on every
//!    ordinary case.  One lane of 2^20+5 elements, `giant_shapes()`, more than 65 536 lanes.
//!  * axis values that survive a narrowing cast.
use arrharness::*;
use std::cell::{Cell, RefCell};
use std::panic::{catch_unwind, AssertUnwindSafe};

// ---------------------------------------------------------------- lanes

const KINDS: [&str; 4] = ["Quicksort", "Mergesort", "Heapsort", "Stable"];
fn lower_name(k: &str) -> String { k.to_lowercase() }
fn hex(s: &str) -> String { if s.is_empty() { "-".into() } else { s.bytes().map(|b| format!("{b:02x}")).collect() } }
fn unhex(s: &str) -> String {
    if s == "-" { return String::new(); }
    let b: Vec<u8> = (0..s.len() / 2).map(|i| u8::from_str_radix(&s[2 * i..2 * i + 2], 16).unwrap()).collect();
    String::from_utf8(b).unwrap()
}
fn mixed(s: &str, phase: usize) -> String {
    s.chars().enumerate().map(|(i, c)| if (i + phase) % 2 == 0 { c.to_ascii_uppercase() } else { c.to_ascii_lowercase() }).collect()
}
/// the spellings of one selector: enum, lower, UPPER, MiXeD (both phases), owned String
fn spellings(k: &str) -> Vec<String> {
    let l = lower_name(k);
    vec![format!("e:{k}"), format!("s:{}", hex(&l)), format!("s:{}", hex(&l.to_uppercase())), format!("s:{}", hex(&mixed(&l, 0))),
         format!("s:{}", hex(&mixed(&l, 1))), format!("o:{}", hex(&l)), format!("o:{}", hex(&mixed(&l, 0)))]
}

fn pattern(p: usize, n: usize, rng: &mut Rng) -> Vec<i64> {
    let n_i = n as i64;
    match p {
        0 => vec![7; n],                                                       // all equal
        1 => (0..n_i).collect(),                                               // sorted, distinct
        2 => (0..n_i).rev().collect(),                                         // reversed
        3 => (0..n_i).map(|i| if i < n_i / 2 { i } else { n_i - 1 - i }).collect(), // organ pipe (duplicates)
        4 => (0..n).map(|_| rng.range(0, 3)).collect(),                        // few distinct
        5 => (0..n).map(|_| rng.range(-(n_i.max(1)), n_i.max(1))).collect(),   // random, some duplicates
        6 => (0..n_i).map(|i| i / 3).collect(),                                // sorted with runs of duplicates
        7 => (0..n_i).map(|i| (i * 7919) % (n_i.max(1))).collect(),            // deterministic scramble
        _ => (0..n_i).map(|i| if i % 2 == 0 { i } else { -i }).collect(),      // saw with negatives
    }
}

fn arr1(v: &[i64]) -> String { format!("{}:{}", v.len(), show_list(v)) }
fn arr_shaped(shape: &[usize], v: &[i64]) -> String { format!("{}:{}", show_list(shape), show_list(v)) }

fn emit_lane(out: &mut dyn FnMut(String), a: &str, kinds: &[String], axes: &[&str], queries: bool) {
    for ax in axes {
        for k in kinds {
            out(format!("sort {a} {ax} {k}"));
            out(format!("argsort {a} {ax} {k}"));
        }
        if queries {
            for kd in ["none", "true", "false"] {
                out(format!("argmax {a} {ax} {kd}"));
                out(format!("argmin {a} {ax} {kd}"));
            }
            out(format!("unique {a} {ax}"));
        }
    }
}

/// all words over {0..alpha-1} of length `len`
fn words(alpha: i64, len: usize) -> Vec<Vec<i64>> {
    let mut out = vec![vec![]];
    for _ in 0..len {
        let mut nxt = vec![];
        for w in &out { for x in 0..alpha { let mut w2 = w.clone(); w2.push(x); nxt.push(w2); } }
        out = nxt;
    }
    out
}

/// `calc_min_run`
fn min_run(mut n: usize) -> usize { let mut r = 0; while n >= 32 { r |= n & 1; n >>= 1; } n + r }
/// lane lengths <= max at which some merge pass of the run-merging sort gets a right run of exactly one element
fn one_element_right_run_lengths(max: usize) -> Vec<usize> {
    let mut out = vec![];
    for n in 2..=max {
        let mut size = min_run(n);
        let mut hit = false;
        while size < n && !hit {
            let mut left = 0;
            while left < n {
                let mid = (n - 1).min(left + size - 1);
                let right = (left + 2 * size - 1).min(n - 1);
                if mid < right && right - mid == 1 { hit = true; }
                left += 2 * size;
            }
            size *= 2;
        }
        if hit { out.push(n); }
    }
    out
}

fn gen(tier: &str, seed: u64, out: &mut dyn FnMut(String)) {
    let thorough = tier == "thorough";
    let mut rng = Rng::new(seed);
    let enum_kinds: Vec<String> = KINDS.iter().map(|k| format!("e:{k}")).collect();
    let mut all_spellings: Vec<String> = vec!["none".into()];
    for k in KINDS { all_spellings.extend(spellings(k)); }

    // (i) corpus of past failures: the run-merging sort at the first lengths that merge, and the empty lane
    for n in [0usize, 1, 2, 63, 64, 65, 96, 128, 129, 200] {
        let v = pattern(2, n, &mut rng);
        out(format!("sort {} none e:Stable", arr1(&v)));
        out(format!("sort {} none s:{}", arr1(&v), hex("stable")));
        out(format!("argsort {} none e:Stable", arr1(&v)));
    }

    // (ii-a) exhaustive small scope: every lane over {0,1,2} of length <= 6 (7 thorough) and over {0..3} of length <= 4,
    //        x 4 kinds x every query, axis none and 0
    let max_len = if thorough { 7 } else { 6 };
    for len in 0..=max_len {
        for w in words(3, len) { emit_lane(out, &arr1(&w), &enum_kinds, &["none", "0"], true); }
    }
    for len in 1..=4 { for w in words(4, len) { if w.contains(&3) { emit_lane(out, &arr1(&w), &enum_kinds, &["none"], true); } } }
    // every permutation of 0..n, n <= 6 (distinct elements: every comparison outcome sequence)
    for n in 2..=(if thorough { 7 } else { 6 }) {
        for p in permutations(n) { let v: Vec<i64> = p.iter().map(|&x| x as i64).collect(); emit_lane(out, &arr1(&v), &enum_kinds, &["none"], n <= 5); }
    }

    // (ii-b) every length 0..=130 x 9 content patterns x 4 kinds x every spelling (enum, lower, UPPER, MiXeD, String)
    for n in 0..=130usize {
        for p in 0..9 {
            let v = pattern(p, n, &mut rng);
            let a = arr1(&v);
            // all spellings on three patterns per length, enum on the rest
            let kinds: &[String] = if p == 2 || p == 4 || p == 5 { &all_spellings } else { &enum_kinds };
            for k in kinds { out(format!("sort {a} none {k}")); }
            for k in &enum_kinds { out(format!("argsort {a} none {k}")); }
            let ax = if n % 2 == 0 { "0" } else { "-1" };
            for k in &enum_kinds { out(format!("sort {a} {ax} {k}")); }
            out(format!("argsort {a} {ax} {}", enum_kinds[(n + p) % 4]));
            for kd in ["none", "true"] { out(format!("argmax {a} none {kd}")); out(format!("argmin {a} none {kd}")); }
            out(format!("argmax {a} {ax} none")); out(format!("argmin {a} {ax} false"));
            out(format!("unique {a} none")); out(format!("unique {a} {ax}"));
        }
    }

    // (ii-c) flat form (axis none) on n-D arrays: the result is 1-D whatever the input shape; keepdims goes through atleast(ndim)
    for s in [vec![2usize, 3], vec![3, 2], vec![1, 4], vec![2, 2, 2], vec![2, 3, 2], vec![1, 1, 3], vec![2, 1, 2, 2], vec![2, 2, 2, 2, 2], vec![0, 3], vec![2, 0]] {
        let n: usize = s.iter().product();
        for p in [2usize, 4, 5] {
            let v = pattern(p, n, &mut rng);
            emit_lane(out, &arr_shaped(&s, &v), &enum_kinds, &["none"], true);
        }
    }

    // (ii-d) the NaN arm of argmax / argmin (f64 arrays; `n` = NaN)
    for len in 1..=4usize {
        for w in words(3, len) {
            // symbol 2 stands for NaN
            let toks: Vec<String> = w.iter().map(|&x| if x == 2 { "n".to_string() } else { x.to_string() }).collect();
            let a = format!("{}:{}", len, toks.join(","));
            for kd in ["none", "true"] { out(format!("argmax_f {a} none {kd}")); out(format!("argmin_f {a} none {kd}")); }
        }
    }

    // (ii-e) run-merging boundary lengths: lanes where some merge pass meets a ONE-element right run (first at 528),
    //        an arm no length <= 130 reaches
    for (bi, n) in one_element_right_run_lengths(if thorough { 2000 } else { 1000 }).into_iter().enumerate() {
        // (the list-backed model is quadratic: beyond 1000 every third such length, one content)
        if n > 1000 && bi % 3 != 0 { continue; }
        for p in [2usize, 5] {
            if n > 1000 && p == 2 { continue; }
            let v = pattern(p, n, &mut rng);
            out(format!("sort {} none e:Stable", arr1(&v)));
        }
    }

    // (ii-f) axis forms: every axis, in both spellings, of every shape of rank <= 4 with axes of length 1..3
    //        (+ rank 5 and longer lanes), duplicate-heavy and distinct contents
    let mut axis_shapes = shapes(1, 4, 1, 3);
    axis_shapes.extend(vec![vec![2, 2, 2, 2, 2], vec![1, 2, 1, 2, 3], vec![40, 3], vec![3, 40], vec![2, 35, 2], vec![2, 2, 70], vec![64, 2], vec![5, 4, 6]]);
    if thorough { axis_shapes.extend(shapes(5, 5, 1, 2)); axis_shapes.extend(vec![vec![3, 130], vec![100, 2, 2], vec![4, 4, 4, 4], vec![2, 600]]); }
    for (si, s) in axis_shapes.iter().enumerate() {
        let n: usize = s.iter().product();
        let rank = s.len() as isize;
        let dup: Vec<i64> = (0..n).map(|_| rng.range(0, 2)).collect();
        let scr: Vec<i64> = { let q = rng.perm(n); q.iter().map(|&j| j as i64).collect() };
        let (a_dup, a_scr) = (arr_shaped(s, &dup), arr_shaped(s, &scr));
        for k in 0..rank {
            for ax in [k, k - rank] {
                for kd in &enum_kinds { out(format!("sort {a_dup} {ax} {kd}")); }
                out(format!("sort {a_scr} {ax} {}", enum_kinds[(si + k as usize) % 4]));
                out(format!("argsort {a_dup} {ax} {}", enum_kinds[(si + k as usize) % 4]));
                out(format!("argsort {a_dup} {ax} {}", enum_kinds[(si + k as usize + 1) % 4]));
                out(format!("argsort {a_scr} {ax} {}", enum_kinds[(si + k as usize + 2) % 4]));
                for kdim in ["none", "true", "false"] {
                    out(format!("argmax {a_dup} {ax} {kdim}")); out(format!("argmin {a_dup} {ax} {kdim}"));
                }
                out(format!("argmax {a_scr} {ax} true")); out(format!("argmin {a_scr} {ax} none"));
                out(format!("unique {a_dup} {ax}")); out(format!("unique {a_scr} {ax}"));
            }
        }
        // string selector with an axis
        out(format!("sort {a_dup} {} s:{}", rank - 1, hex("STABLE")));
        out(format!("argsort {a_dup} 0 o:{}", hex("HeapSort")));
    }
    // zero-length axes and axes outside the rank (error values, never a panic)
    for s in [vec![0usize], vec![0, 3], vec![2, 0], vec![2, 0, 3], vec![3], vec![2, 3], vec![2, 3, 2], vec![2, 1, 2, 2]] {
        let n: usize = s.iter().product();
        let v: Vec<i64> = (0..n).map(|_| rng.range(0, 3)).collect();
        let a = arr_shaped(&s, &v);
        let rank = s.len() as isize;
        let mut axes: Vec<isize> = vec![rank, rank + 1, -rank - 1, -rank - 2, 7, -9];
        if n == 0 { axes.extend(0..rank); axes.extend((0..rank).map(|k| k - rank)); }
        for ax in axes {
            out(format!("sort {a} {ax} e:Stable")); out(format!("sort {a} {ax} e:Quicksort")); out(format!("argsort {a} {ax} e:Heapsort"));
            out(format!("argmax {a} {ax} none")); out(format!("argmax {a} {ax} true")); out(format!("argmin {a} {ax} false"));
            out(format!("unique {a} {ax}"));
        }
    }

    // (iii) seeded random stream beyond the small scope: lengths to 400 (quick) / 2000 (thorough)
    //       (the list-backed model is quadratic in the lane length, so most lanes stay below half the maximum and
    //        every 7th one sits at the maximum)
    let (n_rand, max_n) = if thorough { (168, 2000) } else { (40, 400) };
    for i in 0..n_rand {
        let n = if i % 7 == 0 { max_n - rng.below(8) } else { 131 + rng.below(max_n / 2 - 130) };
        let p = if i % 3 == 0 { 5 } else { rng.below(9) };
        let mut v = pattern(p, n, &mut rng);
        if i % 4 == 1 { let k = 1 + rng.below(6) as i64; for x in v.iter_mut() { *x = x.rem_euclid(k); } }   // duplicate-heavy
        if i % 7 == 2 { let q = rng.perm(n); v = q.iter().map(|&j| v[j]).collect(); }
        let a = arr1(&v);
        for k in KINDS {
            let sp = spellings(k);
            out(format!("sort {a} none {}", sp[rng.below(sp.len())]));
        }
        if n <= 1000 { out(format!("sort {a} 0 e:Stable")); }
        if n <= 1000 || i % 14 == 0 { out(format!("argsort {a} none {}", enum_kinds[i % 4])); }
        out(format!("argmax {a} none none")); out(format!("argmin {a} none none")); out(format!("unique {a} none"));
    }
    // random small lanes, all queries
    for _ in 0..(if thorough { 600 } else { 120 }) {
        let n = rng.below(40);
        let hi = *rng.pick(&[1i64, 2, 5, 100]);
        let v: Vec<i64> = (0..n).map(|_| rng.range(-hi, hi)).collect();
        emit_lane(out, &arr1(&v), &enum_kinds, &["none", "0"], true);
    }

    // (iv) malformed selectors: unknown names must be refused with an error value
    let v = pattern(5, 9, &mut rng);
    let a = arr1(&v);
    for bad in ["", "quick", "merge", "heap", "timsort", "stable ", " stable", "quicksort\n", "quick sort", "mergesort1", "Stabl", "sort", "none", "heapsort,", "QUICK_SORT"] {
        for op in ["sort", "argsort"] {
            out(format!("{op} {a} none s:{}", hex(bad)));
            out(format!("{op} {a} none o:{}", hex(bad)));
            out(format!("{op} {a} 0 s:{}", hex(bad)));
        }
        out(format!("sort 0:- none s:{}", hex(bad)));
    }

    gen_robust(thorough, &mut rng, out, &enum_kinds, &all_spellings);
    gen_part2(thorough, &mut rng, out, &enum_kinds, &all_spellings);
    gen_part3(thorough, &mut rng, out, &enum_kinds, &all_spellings);
    // the last line of a run: how many times the native reference was compared with the model / used in its place
    out("refstats".to_string());
}

// ---------------------------------------------------------------- robustness streams (typed ops)

const TYS: [&str; 5] = ["i64", "u8", "i8", "str", "f64"];
/// float tokens of an integer lane; `zmode` 1: every other zero is -0.0, 2: every zero is -0.0
fn f64_tokens(v: &[i64], zmode: usize) -> Vec<String> {
    let mut zc = 0usize;
    v.iter().map(|&x| if x == 0 { zc += 1; if zmode == 2 || (zmode == 1 && zc % 2 == 0) { "z".to_string() } else { "0".to_string() } } else { x.to_string() }).collect()
}
/// the lane `v` (values valid for every element type: 0..=100) spelled for element type `ty`
fn lane_ty(ty: &str, shape: &[usize], v: &[i64], zmode: usize) -> String {
    if ty == "f64" { let t = f64_tokens(v, zmode); format!("{}:{}", show_list(shape), if t.is_empty() { "-".to_string() } else { t.join(",") }) }
    else { arr_shaped(shape, v) }
}
fn emit_typed(out: &mut dyn FnMut(String), tr: &str, a: &str, axes: &[String], kinds: &[String], argsort_kinds: &[String], keeps: &[&str], unique: bool) {
    for ax in axes {
        for k in kinds { out(format!("tsort {tr} {a} {ax} {k}")); }
        for k in argsort_kinds { out(format!("targsort {tr} {a} {ax} {k}")); }
        for kd in keeps { out(format!("targmax {tr} {a} {ax} {kd}")); out(format!("targmin {tr} {a} {ax} {kd}")); }
        if unique { out(format!("tunique {tr} {a} {ax}")); }
    }
}
fn sv(v: &[&str]) -> Vec<String> { v.iter().map(|x| x.to_string()).collect() }

fn gen_robust(thorough: bool, rng: &mut Rng, out: &mut dyn FnMut(String), enum_kinds: &[String], all_spellings: &[String]) {
    let none_ax = sv(&["none"]);
    // (R-a) element types: every lane over {0,1,2} of length <= 4 (5 thorough) on u8 / i8 / String / f64 (zeros of both signs),
    //       both receivers, every query; axis none, and axis 0 / -1 on the longest words
    let wl = if thorough { 5 } else { 4 };
    for len in 0..=wl {
        for w in words(3, len) {
            for (ti, ty) in ["u8", "i8", "str", "f64"].iter().enumerate() {
                let a = lane_ty(ty, &[len], &w, 1 + (len + ti) % 2);
                let axes: Vec<String> = if len == wl { sv(&["none", if ti % 2 == 0 { "0" } else { "-1" }]) } else { none_ax.clone() };
                emit_typed(out, &format!("{ty}:b"), &a, &axes, enum_kinds, enum_kinds, &["none"], true);
            }
        }
    }
    // (R-b) float lanes over {0.0, -0.0, 1, NaN} of length <= 4 (5 thorough): argmax / argmin exactly (first NaN wins),
    //       sort x 4 kinds and unique (value level; lanes with NaN: open region + weak oracle), argsort on NaN-free lanes
    let ftok = ["0", "z", "1", "n"];
    for len in 1..=(if thorough { 5 } else { 4 }) {
        for w in words(4, len) {
            let toks: Vec<&str> = w.iter().map(|&x| ftok[x as usize]).collect();
            let a = format!("{}:{}", len, toks.join(","));
            let has_nan = w.contains(&3);
            let tr = if w.iter().sum::<i64>() % 3 == 0 { "f64:b" } else if w.iter().sum::<i64>() % 3 == 1 { "f64:p" } else { "f64:r" };
            for kd in ["none", "true"] { out(format!("targmax {tr} {a} none {kd}")); out(format!("targmin {tr} {a} none {kd}")); }
            out(format!("targmax {tr} {a} 0 false")); out(format!("targmin {tr} {a} -1 none"));
            for k in enum_kinds { out(format!("tsort {tr} {a} none {k}")); }
            out(format!("tunique {tr} {a} none"));
            if !has_nan { for k in enum_kinds { out(format!("targsort {tr} {a} none {k}")); } out(format!("tunique {tr} {a} 0")); }
        }
    }
    // longer float lanes mixing both zeros, subnormals and infinities; NaN placed first / in the middle / last for the extreme queries
    let fpool = ["0", "z", "1", "-1", "e", "-e", "I", "-I", "2", "z", "0"];
    for i in 0..(if thorough { 160 } else { 60 }) {
        let n = [2usize, 3, 5, 8, 12, 21, 33, 65, 100, 130][i % 10];
        let mut toks: Vec<&str> = (0..n).map(|_| *rng.pick(&fpool)).collect();
        let a = format!("{}:{}", n, toks.join(","));
        emit_typed(out, "f64:b", &a, &sv(&["none", if i % 2 == 0 { "0" } else { "-1" }]), enum_kinds, &enum_kinds[i % 4..i % 4 + 1], &["none", "true"], true);
        let pos = match i % 3 { 0 => 0, 1 => n / 2, _ => n - 1 };
        toks[pos] = "n"; if i % 4 == 0 { toks[n - 1] = "n"; }
        let a = format!("{}:{}", n, toks.join(","));
        for kd in ["none", "true", "false"] { out(format!("targmax f64:b {a} none {kd}")); out(format!("targmin f64:b {a} 0 {kd}")); }
        if n <= 8 { out(format!("tsort f64:b {a} none {}", enum_kinds[i % 4])); out(format!("tunique f64:b {a} none")); }
    }
    // (R-c) value classes: i64 beyond 2^53 (an f64 round trip loses bits) and at the ends of the range; u8 near 255; i8 near +-127;
    //       String lanes (empty string, blanks, prefixes, upper/lower case, non-ASCII)
    let p53 = 1i64 << 53;
    let pools: [(&str, Vec<i64>); 4] = [
        ("i64", vec![p53 - 1, p53, p53 + 1, p53 + 2, -p53, -p53 - 1, i64::MAX, i64::MAX - 1, i64::MIN, i64::MIN + 1, 0, -1]),
        ("u8", vec![0, 1, 127, 128, 254, 255]),
        ("i8", vec![-128, -127, -1, 0, 1, 126, 127]),
        ("str", vec![0, 1, 2, 3, 4, 5, 6, 7, 8, 9, 10, 11, 12, 13, 14, 15, 40, 1000]),
    ];
    for (ty, pool) in &pools {
        // every lane of length <= 3 over the first six values of the pool
        for len in 1..=3usize { for w in words(6, len) {
            let v: Vec<i64> = w.iter().map(|&x| pool[x as usize]).collect();
            emit_typed(out, &format!("{ty}:b"), &arr1(&v), &none_ax, &enum_kinds[(len + w[0] as usize) % 4..(len + w[0] as usize) % 4 + 1], &enum_kinds[(w[0] as usize) % 4..(w[0] as usize) % 4 + 1], &["none"], true);
        } }
        for i in 0..(if thorough { 120 } else { 40 }) {
            let n = [2usize, 4, 7, 10, 21, 33, 65, 100][i % 8];
            let v: Vec<i64> = (0..n).map(|_| *rng.pick(pool)).collect();
            let rc = ["b", "p", "r"][i % 3];
            emit_typed(out, &format!("{ty}:{rc}"), &arr1(&v), &sv(&["none", if i % 2 == 0 { "0" } else { "-1" }]), enum_kinds, enum_kinds, &["none", "true"], true);
        }
    }
    // (R-d) ties above the 20-element insertion-sort threshold of std's unstable sort: argsort must rank equal elements in
    //       order of appearance — lanes of 21.. elements over {0,1} / {0,1,2} / one value / runs / alternating, 4 kinds, every type
    let mut tie_lens = vec![21usize, 22, 32, 33, 40, 64, 65, 100, 130, 257, 528, 1030];
    if thorough { tie_lens.extend([2100, 4100]); }
    for (li, &n) in tie_lens.iter().enumerate() {
        for c in 0..5usize {
            let v: Vec<i64> = match c {
                0 => (0..n).map(|_| rng.range(0, 1)).collect(),
                1 => (0..n).map(|_| rng.range(0, 2)).collect(),
                2 => vec![5; n],
                3 => (0..n as i64).map(|i| (i / 3) % 100).collect(),
                _ => (0..n as i64).map(|i| i % 2).collect(),
            };
            let ty = TYS[(li + c) % 5];
            let a = lane_ty(ty, &[n], &v, 1);
            if n > 1000 && !thorough && c % 2 == 1 { continue; }
            let ks: &[String] = if n > 1100 { &enum_kinds[c % 4..c % 4 + 1] } else if n > 500 && !thorough { &enum_kinds[c % 3..c % 3 + 2] } else { enum_kinds };
            for k in ks { out(format!("targsort {ty}:b {a} none {k}")); }
            out(format!("targsort {ty}:b {a} {} {}", if c % 2 == 0 { "0" } else { "-1" }, enum_kinds[(li + c) % 4]));
            if c == 0 && n <= 130 { for k in all_spellings { out(format!("targsort {ty}:b {a} none {k}")); out(format!("targsort {ty}:r {a} -1 {k}")); } }
        }
    }
    // … and as lanes inside n-D arrays
    for (si, s) in [vec![21usize, 2], vec![2, 33], vec![2, 65, 2], vec![3, 100], vec![22, 3, 2], vec![2, 2, 40]].iter().enumerate() {
        let n: usize = s.iter().product();
        let v: Vec<i64> = (0..n).map(|_| rng.range(0, 1 + (si % 2) as i64)).collect();
        let ty = TYS[si % 5];
        let a = lane_ty(ty, s, &v, 1);
        let rank = s.len() as isize;
        for k in 0..rank { for ax in [k, k - rank] {
            for kd in enum_kinds { out(format!("targsort {ty}:b {a} {ax} {kd}")); }
            out(format!("tsort {ty}:b {a} {ax} {}", all_spellings[(si * 7 + (ax + rank) as usize * 3) % all_spellings.len()]));
        } }
    }
    // (R-e) sizes: `big_shapes()` — every axis of every shape (both spellings), all queries, element type rotating.
    //       Shapes with more than 2000 elements ([4100], [70,70]) get a fixed handful of cases in the quick tier (the list-backed
    //       model needs ~0.1–3 s for each of them) and the full treatment in the thorough tier.
    for (si, s) in big_shapes().iter().enumerate() {
        let n: usize = s.iter().product();
        let rank = s.len() as isize;
        let ty = TYS[(si + 1) % 5];
        let dup: Vec<i64> = (0..n).map(|_| rng.range(0, 2)).collect();
        let scr: Vec<i64> = { let q = rng.perm(n); q.iter().map(|&j| (j % 101) as i64).collect() };
        let (a_dup, a_scr) = (lane_ty(ty, s, &dup, 1), lane_ty(ty, s, &scr, 1));
        let heavy = n > 2000;
        if heavy {
            if rank == 1 {
                out(format!("tsort {ty}:b {a_dup} none e:Quicksort")); out(format!("tsort {ty}:b {a_scr} 0 e:Mergesort")); out(format!("tsort {ty}:b {a_dup} -1 e:Heapsort"));
                out(format!("targsort {ty}:b {a_dup} none e:Mergesort"));
                out(format!("targmax {ty}:b {a_dup} none none")); out(format!("targmin {ty}:b {a_scr} -1 true"));
                out(format!("tunique {ty}:b {a_scr} none")); out(format!("tunique {ty}:b {a_dup} 0"));
                if thorough { out(format!("tsort {ty}:b {a_scr} none e:Stable")); out(format!("targsort {ty}:b {a_scr} 0 e:Heapsort")); out(format!("targmax {ty}:b {a_scr} 0 true")); out(format!("targmin {ty}:b {a_dup} none false")); }
            } else {
                out(format!("tsort {ty}:b {a_dup} 0 e:Stable"));
                out(format!("targsort {ty}:b {a_dup} 1 e:Heapsort"));
                out(format!("targmin {ty}:b {a_scr} -1 true"));
                out(format!("tunique {ty}:b {a_dup} none"));
                if thorough {
                    out(format!("tsort {ty}:b {a_scr} -1 e:Quicksort")); out(format!("tsort {ty}:b {a_dup} 1 e:Mergesort")); out(format!("tsort {ty}:b {a_scr} -2 e:Heapsort"));
                    out(format!("targsort {ty}:b {a_scr} -2 e:Quicksort")); out(format!("targmax {ty}:b {a_dup} 0 none")); out(format!("targmax {ty}:b {a_scr} 1 false")); out(format!("tunique {ty}:b {a_dup} 0"));
                }
            }
            continue;
        }
        // quick tier: shapes of rank >= 3 take each axis in one spelling (alternating), shapes above 1000 elements two kinds per axis
        let mid = n > 1000 && !thorough;
        let mut axes: Vec<String> = vec!["none".into()];
        for k in 0..rank { if (rank <= 2 || thorough) && !(heavy && rank >= 2) { axes.push(k.to_string()); axes.push((k - rank).to_string()); } else { axes.push(if (k as usize + si) % 2 == 0 { k.to_string() } else { (k - rank).to_string() }); } }
        for (ai, ax) in axes.iter().enumerate() {
            let ks: Vec<String> = if heavy || mid { vec![enum_kinds[(si + ai) % 4].clone(), enum_kinds[(si + ai + 2) % 4].clone()] } else { enum_kinds.to_vec() };
            for k in &ks { out(format!("tsort {ty}:b {a_dup} {ax} {k}")); }
            if !mid || ai % 2 == 0 { out(format!("tsort {ty}:b {a_scr} {ax} {}", enum_kinds[(si + ai + 1) % 4])); }
            out(format!("targsort {ty}:b {a_dup} {ax} {}", enum_kinds[(si + ai) % 4]));
            if !heavy && !mid { out(format!("targsort {ty}:b {a_scr} {ax} {}", enum_kinds[(si + ai + 3) % 4])); }
            let kd = ["none", "true", "false"][(si + ai) % 3];
            out(format!("targmax {ty}:b {a_dup} {ax} {kd}")); out(format!("targmin {ty}:b {a_dup} {ax} {kd}"));
            out(format!("targmax {ty}:b {a_scr} {ax} true")); out(format!("targmin {ty}:b {a_scr} {ax} none"));
            out(format!("tunique {ty}:b {a_dup} {ax}"));
            if ax == "none" { out(format!("tunique {ty}:b {a_scr} {ax}")); }
        }
        // spelled selectors on big arrays
        out(format!("tsort {ty}:r {a_dup} {} s:{}", rank - 1, hex("MergeSort")));
        out(format!("targsort {ty}:r {a_dup} -1 o:{}", hex("STABLE")));
    }
    // lanes longer than 4096 with repeated extreme values: first position of the largest / smallest, distinct values.
    // quick: one placement pattern per element type (i64, u8, f64); thorough: every pattern and a 5000-element lane for i64, two patterns for u8 / f64 / i8
    let ext: [(&str, i64, i64, i64, i64); 4] = [("i64", i64::MIN, i64::MAX, -1000, 1000), ("u8", 0, 255, 1, 254), ("f64", -(1i64 << 53), 1i64 << 53, -50, 50), ("i8", -128, 127, -127, 126)];
    for (ei, (ty, lo, hi, mlo, mhi)) in ext.iter().enumerate() {
        if !thorough && ei == 3 { continue; }
        for (pi, n) in [(0usize, 4100usize), (1, 4100), (2, 4100), (3, 5000)] {
            if !thorough && pi != [1usize, 2, 0][ei] { continue; }
            if pi == 3 && ei != 0 { continue; }
            if thorough && ei != 0 && pi != [1usize, 2, 0, 1][ei] && pi != [2usize, 0, 1, 0][ei] { continue; }
            let mut v: Vec<i64> = (0..n).map(|_| rng.range(*mlo, *mhi)).collect();
            let at: Vec<usize> = match pi { 0 => vec![n - 1], 1 => vec![0, n / 2, n - 1], 2 => vec![4097, 4098, n - 2], _ => vec![17, 4096, 4999] };
            for (j, &p) in at.iter().enumerate() { v[p] = *hi; let q = (p + n - 7 - j) % n; if !at.contains(&q) { v[q] = *lo; } }
            let a = if *ty == "f64" { let mut t = f64_tokens(&v, 1); if pi <= 1 { t[n / 3] = "I".into(); t[n / 3 + 1] = "-I".into(); t[n / 4] = "I".into(); } format!("{}:{}", n, t.join(",")) } else { arr1(&v) };
            let kd = ["none", "true", "false"][pi % 3];
            out(format!("targmax {ty}:b {a} none {kd}")); out(format!("targmin {ty}:b {a} none {kd}"));
            out(format!("tunique {ty}:b {a} none"));
            out(format!("tsort {ty}:b {a} none e:Quicksort"));
            if thorough || ei == 0 { out(format!("targmax {ty}:b {a} 0 {kd}")); out(format!("targmin {ty}:b {a} -1 {kd}")); }
            if ei == 0 || (thorough && pi == 2) { out(format!("tsort {ty}:b {a} none e:Stable")); }
            if thorough { out(format!("tsort {ty}:b {a} none e:Mergesort")); out(format!("targsort {ty}:b {a} none e:Mergesort")); if pi == 1 { out(format!("tsort {ty}:b {a} none e:Heapsort")); } }
        }
        // one value only, 4100 times (for f64: zeros of both signs)
        if thorough || ei == 1 || ei == 2 {
            let v = vec![*hi; 4100];
            let a = if *ty == "f64" { format!("4100:{}", (0..4100).map(|i| if i % 3 == 0 { "0" } else { "z" }).collect::<Vec<_>>().join(",")) } else { arr1(&v) };
            out(format!("targmax {ty}:b {a} none none")); out(format!("tunique {ty}:b {a} none"));
            if thorough { out(format!("targmin {ty}:b {a} none true")); out(format!("tunique {ty}:b {a} 0")); }
        }
    }
    // (R-f) zero-length axes: `zero_shapes()` x every axis (both spellings, and just outside the rank) x every query x element types
    for (si, s) in zero_shapes().iter().enumerate() {
        let rank = s.len() as isize;
        let a = format!("{}:-", show_list(s));
        let mut axes: Vec<String> = vec!["none".into(), rank.to_string(), (-rank - 1).to_string()];
        for k in 0..rank { axes.push(k.to_string()); axes.push((k - rank).to_string()); }
        for (ti, ty) in ["i64", "f64", "u8", "str"].iter().enumerate() {
            let ks = [enum_kinds[(si + ti) % 4].clone(), enum_kinds[(si + ti + 1) % 4].clone(), all_spellings[(si * 5 + ti * 11) % all_spellings.len()].clone()];
            emit_typed(out, &format!("{ty}:b"), &a, &axes, &ks, &ks[1..], &["none", "true", "false"], true);
        }
    }
    // (R-g) selector spellings x receivers x sizes: every valid spelling on typed lanes with an axis; blank / whitespace /
    //       wrong names (incl. non-ASCII) as &str and String on big (600 elements) and zero-size arrays
    let big600: Vec<i64> = (0..600).map(|_| rng.range(0, 9)).collect();
    let lanes: Vec<(&str, String)> = vec![("i64", arr_shaped(&[600], &big600)), ("u8", arr_shaped(&[2, 300], &big600)), ("f64", lane_ty("f64", &[3, 200], &big600, 1)),
        ("i64", "0:-".to_string()), ("f64", "2,0:-".to_string()), ("str", arr_shaped(&[2, 3], &[3, 1, 2, 0, 0, 5]))];
    for (ty, a) in &lanes {
        let small = a.len() < 40;
        for k in all_spellings { if small || k.len() % 3 == 0 { out(format!("tsort {ty}:b {a} -1 {k}")); out(format!("targsort {ty}:b {a} 0 {k}")); out(format!("tsort {ty}:r {a} none {k}")); } }
        for bad in ["", " ", "  ", "\t", "\n", "stable ", " stable", "Stable\n", "quick", "QUICK SORT", "merge_sort", "heap", "none", "default", "0", "stablé", "ｓｔａｂｌｅ", "\u{feff}stable", "ſtable", "quicksort\u{0}"] {
            for sp in ["s", "o"] {
                out(format!("tsort {ty}:b {a} none {sp}:{}", hex(bad)));
                out(format!("targsort {ty}:b {a} -1 {sp}:{}", hex(bad)));
                out(format!("tsort {ty}:r {a} 7 {sp}:{}", hex(bad)));
            }
        }
    }
}

// ---------------------------------------------------------------- part 2: hidden state, exact lengths, high ranks, huge sizes

/// groups of same-rank shapes that collide under a key a per-shape cache could plausibly use
fn c10_collision_groups() -> Vec<Vec<Vec<usize>>> {
    let mut g: Vec<Vec<Vec<usize>>> = vec![];
    // equal rank, equal ELEMENT COUNT, equal polynomial hash `h = h*m + d`: [c+k, c*m] and [c, (c+k)*m]
    for &m in &[31usize, 33, 37, 131, 257, 256] {
        for (c, k) in [(1usize, 1usize), (2, 1), (1, 2)] {
            let (a, b) = (vec![c + k, c * m], vec![c, (c + k) * m]);
            g.push(vec![a.clone(), b.clone()]);
            if m <= 37 && k == 1 { g.push(vec![[vec![3], a.clone()].concat(), [vec![3], b.clone()].concat()]); g.push(vec![[a.clone(), vec![2]].concat(), [b.clone(), vec![2]].concat()]); }
        }
    }
    for (a, b) in collision_shape_pairs() { g.push(vec![a, b]); }
    // order-blind keys (element count + rank, sum / product / xor / sorted axis lengths); packed keys (axis lengths modulo 2^8)
    g.push(vec![vec![2, 3, 4], vec![4, 3, 2], vec![3, 4, 2], vec![2, 4, 3], vec![2, 2, 6]]);
    g.push(vec![vec![2, 6], vec![6, 2], vec![3, 4], vec![4, 3], vec![1, 12], vec![12, 1]]);
    g.push(vec![vec![16, 17], vec![17, 16], vec![8, 34]]);
    g.push(vec![vec![2, 3], vec![2, 259], vec![258, 3]]);
    g.push(vec![vec![3, 2, 4], vec![3, 258, 4], vec![3, 2, 260]]);
    g
}

/// one descending-run lane: every aligned run of the run-merging sort (`calc_min_run(n)` elements, the whole lane below 32) is
/// strictly descending except for its LAST element, which is not smaller than its predecessor (`bump` 0: equal, 1: larger, 2: the largest)
fn descending_runs(n: usize, bump: usize) -> Vec<i64> {
    let run = if n < 32 { n.max(1) } else { min_run(n) };
    let mut v = vec![0i64; n];
    let mut start = 0;
    while start < n {
        let end = (start + run).min(n);
        let len = end - start;
        for j in 0..len { v[start + j] = (1000 + len - j) as i64; }
        if len >= 2 { v[end - 1] = match bump { 0 => v[end - 2], 1 => v[end - 2] + 1, _ => 5000 + start as i64 }; }
        start = end;
    }
    v
}

fn gen_part2(thorough: bool, rng: &mut Rng, out: &mut dyn FnMut(String), enum_kinds: &[String], all_spellings: &[String]) {
    let keeps = ["none", "true", "false"];
    let mut k = 0usize;
    // every query on one typed lane; `model`: tied to the model, otherwise a `ref` case (no unique there: no native reference)
    let emit_all = |out: &mut dyn FnMut(String), k: usize, ty: &str, a: &str, ax: &str, model: bool| {
        let sfx = if model { "" } else { " ref" };
        out(format!("tsort {ty}:b {a} {ax} {}{sfx}", enum_kinds[k % 4]));
        out(format!("tsort {ty}:b {a} {ax} {}{sfx}", enum_kinds[(k + 1) % 4]));
        out(format!("targsort {ty}:b {a} {ax} {}{sfx}", enum_kinds[(k + 2) % 4]));
        out(format!("targmax {ty}:b {a} {ax} {}{sfx}", keeps[k % 3]));
        out(format!("targmin {ty}:b {a} {ax} {}{sfx}", keeps[(k + 1) % 3]));
        if model { out(format!("tunique {ty}:b {a} {ax}")); }
    };
    // ---- (6a) hidden state: colliding shapes back to back, both orders, same axis, every query.  Members above 250 elements are
    //      `ref` cases in the quick tier (the model needs ~n^2 for an axis), all members are tied to the model in the thorough tier
    for (gi, g) in c10_collision_groups().into_iter().enumerate() {
        let nd = g[0].len() as isize;
        let arrs: Vec<(String, bool)> = g.iter().map(|s| {
            let n: usize = s.iter().product();
            let small = n <= if thorough { 700 } else { 250 };
            let spec = format!("G{}.{}.{}:{}", gi % 2, rng.next() % 100000, [3, 100, 1, 9][gi % 4], show_list(s));
            if small { let v = gen_values(spec.split(':').next().unwrap(), n).unwrap(); (lane_ty(if TYS[gi % 5] == "f64" { "f64" } else { "i64" }, s, &v, 1), true) } else { (spec, false) }
        }).collect();
        let ty = if TYS[gi % 5] == "str" && g.iter().any(|s| s.iter().product::<usize>() > 64) { "i64" } else { TYS[gi % 5] };
        for a in 0..nd {
            k += 1;
            if g.iter().any(|s| s.iter().product::<usize>() > 600) && a != gi as isize % nd { continue; }
            let ax = (if k % 2 == 0 { a } else { a - nd }).to_string();
            let mut seq: Vec<usize> = (0..g.len()).collect();
            seq.push(0); seq.extend((1..g.len()).rev()); seq.push(0); seq.push(1);
            let ops: [(&str, String); 5] = [("tsort", enum_kinds[k % 4].clone()), ("targsort", enum_kinds[(k + 1) % 4].clone()), ("targmax", keeps[k % 3].to_string()), ("targmin", keeps[(k + 2) % 3].to_string()), ("tunique", String::new())];
            for (op, arg) in &ops {
                for &m in &seq {
                    let (a_txt, model) = &arrs[m];
                    if *op == "tunique" { if *model { out(format!("tunique {ty}:b {a_txt} {ax}")); } continue; }
                    out(format!("{op} {ty}:b {a_txt} {ax} {arg}{}", if *model { "" } else { " ref" }));
                }
            }
        }
    }
    // ---- (6b) hidden state keyed by the VALUES: a lane, the same values reversed / rotated / permuted (same multiset, sum, xor), and the
    //      lane with one element moved by one, each between two runs of the original
    for (i, n) in [5usize, 8, 9, 16, 21, 33, 40, 64, 100].iter().enumerate() {
        for c in 0..(if thorough { 4 } else { 2 }) {
            let v: Vec<i64> = (0..*n).map(|_| rng.range(0, if c % 2 == 0 { 3 } else { 100 })).collect();
            let rev: Vec<i64> = v.iter().rev().copied().collect();
            let rot: Vec<i64> = (0..*n).map(|j| v[(j + 1) % n]).collect();
            let perm: Vec<i64> = rng.perm(*n).into_iter().map(|j| v[j]).collect();
            let mut off = v.clone(); off[n / 2] = (off[n / 2] + 1).min(100);
            let ty = TYS[(i + c) % 5];
            for (shape, ax) in [(vec![*n], "none"), (vec![*n], "0")] {
                for (oi, op) in ["tsort", "targsort", "targmax", "targmin", "tunique"].iter().enumerate() {
                    let arg = match oi { 0 | 1 => format!(" {}", enum_kinds[(i + c + oi) % 4]), 2 | 3 => format!(" {}", keeps[(i + c) % 3]), _ => String::new() };
                    for w in [&v, &rev, &v, &rot, &v, &perm, &v, &off, &v] { out(format!("{op} {ty}:b {} {ax}{arg}", lane_ty(ty, &shape, w, 1))); }
                }
            }
        }
    }
    // ---- (6c) a failing call (axis outside the rank / unknown selector) directly followed by the valid call on the same array
    for (si, s) in [vec![7usize], vec![2, 3], vec![3, 4, 2], vec![2, 31], vec![1, 62]].iter().enumerate() {
        let n: usize = s.iter().product();
        let v: Vec<i64> = (0..n).map(|_| rng.range(0, 5)).collect();
        let nd = s.len() as isize;
        let ty = TYS[si % 5];
        let a = lane_ty(ty, s, &v, 1);
        for (j, bad) in [nd, -nd - 1, nd + 3].iter().enumerate() {
            let good = if j % 2 == 0 { nd - 1 } else { -nd };
            for kd in enum_kinds { out(format!("tsort {ty}:b {a} {bad} {kd}")); out(format!("tsort {ty}:b {a} {good} {kd}")); }
            out(format!("targsort {ty}:b {a} {bad} {}", enum_kinds[j])); out(format!("targsort {ty}:b {a} {good} {}", enum_kinds[j]));
            for kd in keeps { out(format!("targmax {ty}:b {a} {bad} {kd}")); out(format!("targmax {ty}:b {a} {good} {kd}")); out(format!("targmin {ty}:b {a} {bad} {kd}")); out(format!("targmin {ty}:b {a} {good} {kd}")); }
            out(format!("tunique {ty}:b {a} {bad}")); out(format!("tunique {ty}:b {a} {good}"));
        }
        for bad in ["", "quick", "stable ", "ſtable", "quıcksort"] {
            for sp in ["s", "o"] {
                let good = &all_spellings[1 + (si * 3 + bad.len()) % (all_spellings.len() - 1)];
                out(format!("tsort {ty}:b {a} none {sp}:{}", hex(bad))); out(format!("tsort {ty}:b {a} none {good}"));
                out(format!("targsort {ty}:b {a} -1 {sp}:{}", hex(bad))); out(format!("targsort {ty}:b {a} -1 {good}"));
            }
        }
    }
    // ---- (6d) the same lane through every element type back to back (a static shared by all instantiations)
    for (i, n) in [3usize, 6, 9, 17, 33, 65].iter().enumerate() {
        let v: Vec<i64> = (0..*n).map(|_| rng.range(0, if i % 2 == 0 { 2 } else { 100 })).collect();
        for (shape, ax) in [(vec![*n], "none".to_string()), (vec![*n], "-1".to_string()), (if n % 3 == 0 { vec![3, n / 3] } else { vec![1, *n] }, "1".to_string())] {
            for round in 0..2 { for ty in TYS { let _ = round; k += 1;
                let a = lane_ty(ty, &shape, &v, 1);
                out(format!("tsort {ty}:b {a} {ax} {}", enum_kinds[i % 4])); } }
            for ty in TYS { out(format!("targsort {ty}:b {} {ax} {}", lane_ty(ty, &shape, &v, 1), enum_kinds[(i + 1) % 4])); }
            for ty in TYS { out(format!("targmax {ty}:b {} {ax} {}", lane_ty(ty, &shape, &v, 1), keeps[i % 3])); }
            for ty in TYS { out(format!("tunique {ty}:b {} {ax}", lane_ty(ty, &shape, &v, 1))); }
        }
    }
    // ---- (8a) exact values: strictly descending runs closed by one element that is not smaller (whole lane below 32 elements, every
    //      aligned run of the run-merging sort above), every length 2..=130 (thorough ..=200) and lengths around the run sizes (255..257; thorough 300, 511..513, 528)
    let mut lens: Vec<usize> = (2..=(if thorough { 200 } else { 130 })).collect();
    lens.extend([255usize, 256, 257]);
    if thorough { lens.extend([300usize, 511, 512, 513, 528]); }
    for &n in &lens {
        for bump in 0..3 {
            let v = descending_runs(n, bump);
            let a = arr1(&v);
            out(format!("sort {a} none e:Stable"));
            out(format!("argsort {a} none e:Stable"));
            if bump == 1 || n <= 40 { for kd in &enum_kinds[..3] { out(format!("sort {a} none {kd}")); } out(format!("sort {a} 0 s:{}", hex("STABLE"))); out(format!("argmax {a} none none")); out(format!("argmin {a} 0 true")); }
        }
        // ... and as lanes of a 2-D array (axis 1: the lanes are the rows; axis 0 after transposition by hand)
        if n <= 64 {
            let (r0, r1) = (descending_runs(n, 1), descending_runs(n, 2));
            let rows: Vec<i64> = r0.iter().chain(r1.iter()).copied().collect();
            let cols: Vec<i64> = (0..n).flat_map(|j| [r0[j], r1[j]]).collect();
            out(format!("sort {} 1 e:Stable", arr_shaped(&[2, n], &rows))); out(format!("sort {} 0 e:Stable", arr_shaped(&[n, 2], &cols)));
            out(format!("argsort {} -1 e:Stable", arr_shaped(&[2, n], &rows)));
        }
    }
    // ---- (8b) exact lengths: EVERY lane length 1..300 in the trailing position ([2,d], both axes) and in an inner position ([3,d,2]).
    //      The model answers the lengths up to 48 and a selection above (it needs ~d^2 per axis call), the native reference all of them.
    let model_len = |d: usize| d <= 48 || [49, 50, 64, 97, 100, 128, 129, 200, 256, 257, 300].contains(&d) || (thorough && d % 6 == 0);
    for d in 1..=300usize {
        k += 1;
        let ty = if d <= 20 { TYS[d % 5] } else { ["i64", "u8", "f64", "i8"][d % 4] };
        let two = format!("G{}.{}.{}:2,{d}", d % 3, rng.next() % 100000, [2, 100, 7][d % 3]);
        let three = format!("G{}.{}.{}:3,{d},2", (d + 1) % 3, rng.next() % 100000, [100, 3, 9][d % 3]);
        for (spec, shape, axes) in [(&two, vec![2, d], vec!["1", "0", "-1"]), (&three, vec![3, d, 2], vec!["1", "-2"])] {
            for (ai, ax) in axes.iter().enumerate() {
                if ai == 2 && (d % 8 != 0 || !thorough) { continue; }
                if shape.len() == 3 && ai != d % 2 && !thorough { continue; }
                emit_all(out, k + ai, ty, spec, ax, false);
                if model_len(d) && (ai == 0 || shape.len() == 3 || d <= 48) && (shape.len() == 2 || d <= 129 || thorough) {
                    let v = gen_values(spec.split(':').next().unwrap(), shape.iter().product()).unwrap();
                    emit_all(out, k + ai, ty, &lane_ty(ty, &shape, &v, 1), ax, true);
                }
            }
        }
    }
    // ---- (10) ranks 6..8: every axis in both spellings, every query
    let mut high = vec![vec![2usize; 6], vec![2; 7], vec![2; 8], vec![1, 2, 1, 2, 1, 2, 1, 2], vec![2, 1, 1, 3, 1, 1, 2], vec![3, 2, 1, 2, 2, 3]];
    if thorough { high.extend([vec![3, 1, 2, 1, 2, 1, 1, 2], vec![2, 3, 2, 1, 2, 3, 2]]); }
    for (si, s) in high.iter().enumerate() {
        let n: usize = s.iter().product();
        let nd = s.len() as isize;
        let ty = TYS[si % 5];
        let v: Vec<i64> = (0..n).map(|_| rng.range(0, if si % 2 == 0 { 2 } else { 100 })).collect();
        let a = lane_ty(ty, s, &v, 1);
        for ax in 0..nd { for sp in [ax, ax - nd] { if !thorough && n > 100 && (ax + (sp < 0) as isize) % 2 == 0 { continue; } k += 1; emit_all(out, k, ty, &a, &sp.to_string(), true); } }
        emit_all(out, k, ty, &a, "none", true);
        for bad in [nd, -nd - 1] { out(format!("tsort {ty}:b {a} {bad} e:Stable")); out(format!("targmax {ty}:b {a} {bad} true")); out(format!("tunique {ty}:b {a} {bad}")); }
    }
    // ---- (7) huge sizes (`ref` cases, generator spelling): 12 600 .. 140 000 elements.  Rank 3 / 4 with the LAST axis (contiguous
    //      lanes) and every other axis (strided lanes); rank 2; one axis above 65 536; flat forms.  Lanes beyond 5000 elements are
    //      spelled with distinct-ish values (pattern 1 / 2 with hi = 100 would give many repeats: the crate's quicksort is quadratic
    //      on repeats), so long lanes use sort kinds merge / heap / stable and argmax / argmin only up to 5000-element lanes.
    let mut huge: Vec<(Vec<usize>, Vec<&str>)> = vec![
        (vec![16, 32, 40], vec!["2", "-1", "1", "0"]), (vec![4, 8, 16, 40], vec!["3", "1"]), (vec![3, 60, 70], vec!["1", "-2", "0", "2"]),
        (vec![26, 26, 26], vec!["-1", "0"]), (vec![2, 3, 5, 7, 11, 13], vec!["5"]),
        (vec![130, 130], vec!["0", "1"]), (vec![129, 131], vec!["-1"]), (vec![100, 200], vec!["1"]), (vec![2, 8200], vec!["1", "0"]), (vec![8200, 2], vec!["0", "-1"]),
        (vec![16385], vec!["0"]), (vec![33000], vec!["none"]), (vec![2, 70000], vec!["1"]), (vec![70000, 2], vec!["0"]), (vec![40, 30, 30], vec!["2"]),
        (vec![10, 11, 12, 13], vec!["1"]), (vec![5, 4, 10, 10, 10], vec!["4", "0"]), (vec![300, 300], vec!["1"])];
    if thorough { huge.extend([(vec![70000], vec!["0", "none"]), (vec![140001], vec!["-1"]), (vec![7, 131, 151], vec!["2", "1"]), (vec![1, 66000, 2, 1], vec!["1"]), (vec![3, 5, 7, 11, 13, 2], vec!["4", "-1", "0"]), (vec![100, 200], vec!["0"]),
        (vec![4, 8, 16, 40], vec!["-1", "-4"]), (vec![26, 26, 26], vec!["1"]), (vec![2, 3, 5, 7, 11, 13], vec!["-1", "0", "2"]), (vec![300, 300], vec!["0"]), (vec![129, 131], vec!["-2"]), (vec![40, 30, 30], vec!["0"]), (vec![10, 11, 12, 13], vec!["3"]), (vec![5, 4, 10, 10, 10], vec!["2"])]); }
    for (hi, (s, axes)) in huge.iter().enumerate() {
        let n: usize = s.iter().product();
        for (ai, ax) in axes.iter().enumerate() {
            k += 1;
            let lane = match ax.parse::<isize>() { Ok(a) => s[(if a < 0 { a + s.len() as isize } else { a }) as usize], Err(_) => n };
            // (String arrays are slow in the crate: seconds per call at 20 000 elements)
            let ty = if lane > 5000 { ["i64", "f64"][k % 2] } else { ["i64", "u8", "f64", "i8"][(hi + ai) % 4] };
            let reps = 1;
            for r in 0..reps {
                let (p, top) = if lane > 5000 { (1, 1000000) } else { ([0usize, 1, 4, 2][(k + r) % 4], [100, 3, 100, 50][(k + r) % 4]) };
                let a = format!("G{p}.{}.{top}:{}", rng.next() % 100000, show_list(s));
                if lane > 5000 {
                    for kd in ["e:Mergesort", "e:Heapsort", "e:Stable"] { if thorough || kd != "e:Heapsort" { out(format!("tsort {ty}:b {a} {ax} {kd} ref")); } }
                } else if thorough {
                    for kd in enum_kinds { out(format!("tsort {ty}:b {a} {ax} {kd} ref")); }
                    out(format!("tsort {ty}:r {a} {ax} s:{} ref", hex(["STABLE", "MergeSort", "quicksort", "Heapsort"][k % 4])));
                    // (the crate's argsort is cubic in the lane length)
                    if lane <= 600 { out(format!("targsort {ty}:b {a} {ax} {} ref", enum_kinds[k % 4])); }
                    for kd in keeps { out(format!("targmax {ty}:b {a} {ax} {kd} ref")); out(format!("targmin {ty}:b {a} {ax} {kd} ref")); }
                } else {
                    // quick tier: two kinds + one spelled selector on the chained receiver, one ranking, one extreme query each way;
                    // more than 4000 lanes (the crate's lane splitting is quadratic in their number): one sort and one query
                    let many = n / lane.max(1) > 4000;
                    out(format!("tsort {ty}:b {a} {ax} {} ref", enum_kinds[k % 4]));
                    out(format!("targmax {ty}:b {a} {ax} {} ref", keeps[k % 3]));
                    if !many {
                        out(format!("tsort {ty}:b {a} {ax} {} ref", enum_kinds[(k + 1) % 4]));
                        out(format!("tsort {ty}:r {a} {ax} s:{} ref", hex(["STABLE", "MergeSort", "quicksort", "Heapsort"][k % 4])));
                        if lane <= 600 { out(format!("targsort {ty}:b {a} {ax} {} ref", enum_kinds[(k + 2) % 4])); }
                        out(format!("targmin {ty}:b {a} {ax} {} ref", keeps[(k + 1) % 3]));
                    }
                }
            }
        }
    }
}

// ---------------------------------------------------------------- part 3: layouts, value relations, giant sizes (fourth round of seeded changes)

/// sign pattern of an all-zero float lane (every element `==` every other, bit patterns differ): 0 alternating, 1 all -0.0 but the first,
/// 2 all 0.0 but the last, 3 random, 4 Thue-Morse, 5 blocks of 7, 6 all -0.0
fn zero_mix(n: usize, mode: usize, rng: &mut Rng) -> Vec<&'static str> {
    (0..n).map(|i| { let neg = match mode { 0 => i % 2 == 1, 1 => i != 0, 2 => i == n - 1, 3 => rng.below(2) == 1, 4 => (i as u64).count_ones() % 2 == 1, 5 => (i / 7) % 2 == 1, _ => true }; if neg { "z" } else { "0" } }).collect()
}
fn heap_ty(ty: &str) -> bool { ty.ends_with('s') || ty == "str" || ty.starts_with("sl") }

fn gen_part3(thorough: bool, rng: &mut Rng, out: &mut dyn FnMut(String), enum_kinds: &[String], all_spellings: &[String]) {
    let keeps = ["none", "true", "false"];
    let mut k = 0usize;
    for (have, (ty, want)) in ladder_sizes().iter().zip(LADDER.iter()) { assert_eq!(have, want, "harness: layout {ty} does not have the size its name says"); }
    let emit_all = |out: &mut dyn FnMut(String), k: usize, ty: &str, a: &str, ax: &str, model: bool, ranks: bool| {
        let sfx = if model { "" } else { " ref" };
        out(format!("tsort {ty}:b {a} {ax} {}{sfx}", enum_kinds[k % 4]));
        out(format!("tsort {ty}:b {a} {ax} {}{sfx}", enum_kinds[(k + 1) % 4]));
        if ranks { out(format!("targsort {ty}:b {a} {ax} {}{sfx}", enum_kinds[(k + 2) % 4])); }
        out(format!("targmax {ty}:b {a} {ax} {}{sfx}", keeps[k % 3]));
        out(format!("targmin {ty}:b {a} {ax} {}{sfx}", keeps[(k + 1) % 3]));
        if model { out(format!("tunique {ty}:b {a} {ax}")); }
    };
    // ---- (12a) element LAYOUT: the ladder of element sizes 3, 6, 9, 12, 16, 20, 24, 28, 32 (Copy), 32 (with a String), 40, 48 (two
    //      Strings), 72, 88, 120 bytes (tuples and nested tuples; tags mapped strictly monotonically, so the model's answer on the tags is the
    //      expected answer).  Small scope: every lane over {0,1,2} of length <= 3, every permutation of 0..n for n = 3, 4 and half of
    //      n = 5 (the other half in the thorough tier) - among them every sorting permutation that is not an involution -, x 4 kinds,
    //      ranks, extremes, unique, both receivers
    let mut small: Vec<Vec<i64>> = vec![];
    for len in 0..=3 { small.extend(words(3, len)); }
    for n in 3..=5 { for p in permutations(n) { small.push(p.iter().map(|&x| x as i64 * if n == 4 { 60 } else { 1 }).collect()); } }
    for (ti, (ty, _)) in LADDER.iter().enumerate() {
        for (li, w) in small.iter().enumerate() {
            if w.len() == 5 && !thorough && (li + ti) % 2 == 0 { continue; }
            let a = arr1(w);
            let ax = if w.len() == 4 { ["0", "-1"][li % 2] } else { "none" };
            for kd in enum_kinds { out(format!("tsort {ty}:b {a} {ax} {kd}")); }
            if thorough { for kd in enum_kinds { out(format!("targsort {ty}:b {a} {ax} {kd}")); } } else { out(format!("targsort {ty}:b {a} {ax} {}", enum_kinds[(li + ti) % 4])); }
            out(format!("targmax {ty}:b {a} {ax} {}", keeps[li % 3])); out(format!("targmin {ty}:b {a} {ax} {}", keeps[(li + 1) % 3]));
            out(format!("tunique {ty}:b {a} {ax}"));
        }
    }
    // ---- (12b) longer lanes on every layout: duplicate-heavy and spread values, all kinds + a spelled selector on the chained receiver
    for (ti, (ty, _)) in LADDER.iter().enumerate() {
        let mut lens = vec![2usize, 3, 5, 8, 13, 21, 33, 65, 100, 130];
        if !heap_ty(ty) || thorough { lens.extend([257, 528]); }
        if thorough && !heap_ty(ty) { lens.extend([1030, 2100]); }
        for (li, &n) in lens.iter().enumerate() {
            let hi = if (li + ti) % 2 == 0 { 3 } else { 255 };
            let v: Vec<i64> = (0..n).map(|_| rng.range(0, hi)).collect();
            let a = arr1(&v);
            let ax = ["none", "0", "-1"][(li + ti) % 3];
            for kd in enum_kinds { out(format!("tsort {ty}:b {a} {ax} {kd}")); }
            out(format!("tsort {ty}:r {a} {ax} {}", all_spellings[(li * 5 + ti * 3) % all_spellings.len()]));
            if n <= 130 { out(format!("targsort {ty}:b {a} {ax} {}", enum_kinds[(li + ti) % 4])); out(format!("targsort {ty}:p {a} none {}", enum_kinds[(li + ti + 1) % 4])); }
            out(format!("targmax {ty}:b {a} {ax} {}", keeps[li % 3])); out(format!("targmin {ty}:b {a} {ax} {}", keeps[(li + 2) % 3]));
            out(format!("tunique {ty}:b {a} {ax}"));
        }
    }
    // ---- (12c) every layout as lanes of n-D arrays: every axis (both spellings in the thorough tier, alternating in the quick tier)
    let nd_shapes: Vec<Vec<usize>> = vec![vec![3, 4], vec![4, 3], vec![2, 3, 4], vec![5, 7], vec![2, 2, 2, 2], vec![8, 3], vec![17, 16], vec![3, 1, 5], vec![2, 40]];
    for (ti, (ty, _)) in LADDER.iter().enumerate() {
        for (si, s) in nd_shapes.iter().enumerate() {
            if !thorough && (si + ti) % 3 == 2 { continue; }
            let n: usize = s.iter().product();
            let nd = s.len() as isize;
            let v: Vec<i64> = if (si + ti) % 2 == 0 { (0..n).map(|_| rng.range(0, 4)).collect() } else { rng.perm(n).into_iter().map(|j| (j % 256) as i64).collect() };
            let a = arr_shaped(s, &v);
            for ax in 0..nd { for sp in [ax, ax - nd] { if !thorough && ((ax + (sp < 0) as isize) as usize + si + ti) % 2 == 0 { continue; } k += 1; emit_all(out, k, ty, &a, &sp.to_string(), true, true); } }
            emit_all(out, k, ty, &a, "none", true, true);
            out(format!("tsort {ty}:b {a} {nd} e:Stable")); out(format!("targmax {ty}:b {a} {} true", -nd - 1));
        }
        // zero-length axes on every layout
        for j in 0..(if thorough { 9 } else { 3 }) {
            let zs = zero_shapes(); let s = &zs[(ti + j * 4) % zs.len()];
            let a = format!("{}:-", show_list(s));
            let nd = s.len() as isize;
            for ax in ["none".to_string(), "0".to_string(), "-1".to_string(), nd.to_string()] { k += 1; emit_all(out, k, ty, &a, &ax, true, true); }
        }
    }
    // ---- (12d) the same lane through every layout (and the five plain element types) directly after one another
    for (i, n) in [3usize, 5, 9, 17, 33].iter().enumerate() {
        let v: Vec<i64> = (0..*n).map(|_| rng.range(0, if i % 2 == 0 { 100 } else { 3 })).collect();
        let all_tys: Vec<&str> = LADDER.iter().map(|x| x.0).chain(TYS).collect();
        for (shape, ax) in [(vec![*n], "none"), (if n % 3 == 0 { vec![3, n / 3] } else { vec![1, *n] }, "1")] {
            for ty in &all_tys { out(format!("tsort {ty}:b {} {ax} {}", lane_ty(ty, &shape, &v, 1), enum_kinds[i % 4])); }
            for ty in all_tys.iter().rev() { out(format!("targsort {ty}:b {} {ax} {}", lane_ty(ty, &shape, &v, 1), enum_kinds[(i + 1) % 4])); }
            for ty in &all_tys { out(format!("targmax {ty}:b {} {ax} {}", lane_ty(ty, &shape, &v, 1), keeps[i % 3])); out(format!("tunique {ty}:p {} {ax}", lane_ty(ty, &shape, &v, 1))); }
        }
    }
    // ---- (12e) layouts x sizes (`ref` cases, generator spelling, values 0..=255): contiguous and strided lanes of 12 600 .. 33 000-element
    //      arrays for the Copy layouts, up to 4 900 elements for the layouts that own Strings (the crate clones them per lane call)
    let copy_huge: Vec<(Vec<usize>, &str)> = vec![(vec![16, 32, 40], "2"), (vec![16, 32, 40], "1"), (vec![130, 130], "0"), (vec![129, 131], "-1"), (vec![16385], "none"), (vec![2, 8200], "1"),
        (vec![3, 60, 70], "0"), (vec![33000], "0"), (vec![26, 26, 26], "1"), (vec![10, 11, 12, 13], "-2"), (vec![300, 300], "1"), (vec![8200, 2], "0")];
    let heap_huge: Vec<(Vec<usize>, &str)> = vec![(vec![70, 70], "0"), (vec![4100], "none"), (vec![16, 17, 18], "1"), (vec![70, 70], "-1"), (vec![2, 2050], "1"), (vec![4900], "0")];
    for (ti, (ty, bytes)) in LADDER.iter().enumerate() {
        let pool = if heap_ty(ty) { &heap_huge } else { &copy_huge };
        // (quick tier: one per layout up to 24 bytes, two above, from the first six (Copy layouts) / three (String layouts) of the pool)
        let (cnt, span) = if thorough { (pool.len(), pool.len()) } else { (if *bytes > 24 { 2 } else { 1 }, pool.len() / 2) };
        for j in 0..cnt {
            let (s, ax) = &pool[(ti * 5 + j * 7) % span];
            k += 1;
            let n: usize = s.iter().product();
            let lane = match ax.parse::<isize>() { Ok(a) => s[(if a < 0 { a + s.len() as isize } else { a }) as usize], Err(_) => n };
            let a = format!("G{}.{}.255:{}", [0, 1, 4][k % 3], rng.next() % 100000, show_list(s));
            // (lanes beyond 5000 elements: 256 distinct values = long runs of repeats, on which the crate's quicksort is quadratic)
            let kinds: Vec<&String> = if lane > 5000 { enum_kinds[1..].iter().collect() } else { enum_kinds.iter().collect() };
            out(format!("tsort {ty}:b {a} {ax} {} ref", kinds[k % kinds.len()]));
            if thorough { out(format!("tsort {ty}:p {a} {ax} {} ref", kinds[(k + 1) % kinds.len()])); out(format!("tsort {ty}:r {a} {ax} {} ref", kinds[(k + 2) % kinds.len()])); }
            if lane <= 300 && !heap_ty(ty) { out(format!("targsort {ty}:b {a} {ax} {} ref", enum_kinds[k % 4])); }
            if lane <= 5000 && n / lane.max(1) <= 4000 { out(format!("targmax {ty}:b {a} {ax} {} ref", keeps[k % 3])); out(format!("targmin {ty}:p {a} {ax} {} ref", keeps[(k + 1) % 3])); }
        }
    }
    // ---- (13a) VALUE RELATIONS: float lanes whose elements are all `==` but not bit-identical (0.0 / -0.0 in seven sign patterns), every
    //      length 1..=40 and 48, 63..65, 100, 130, 257, 528, 1030 (thorough 2100, 4100): sort x 4 kinds (value level + multiset of
    //      bit patterns), ranks (order of appearance: 0, 1, 2, …), extremes (position 0), unique (one zero); the same lanes with ONE element
    //      that differs (a 1, or the smallest negative subnormal) at the front / middle / end; as rows and columns of 2-D arrays
    let mut zl: Vec<usize> = (1..=40).collect();
    zl.extend([48usize, 63, 64, 65, 100, 130, 257, 528, 1030]);
    if thorough { zl.extend([2100usize, 4100]); }
    for (li, &n) in zl.iter().enumerate() {
        let modes: Vec<usize> = if thorough && n <= 130 { (0..7).collect() } else { vec![li % 7, (li * 3 + 1) % 7] };
        for (mi, &m) in modes.iter().enumerate() {
            let toks = zero_mix(n, m, rng);
            let a = format!("{n}:{}", toks.join(","));
            let ax = ["none", "0", "-1"][(li + mi) % 3];
            let ks: &[String] = if n > 1100 { &enum_kinds[1 + (li + mi) % 3..2 + (li + mi) % 3] } else { enum_kinds };
            for kd in ks { out(format!("tsort f64:b {a} {ax} {kd}")); }
            if n <= 130 { for kd in enum_kinds { out(format!("targsort f64:b {a} {ax} {kd}")); } out(format!("targsort f64:r {a} none {}", all_spellings[(li * 3 + mi) % all_spellings.len()])); }
            else if n <= 1100 { out(format!("targsort f64:b {a} {ax} {}", enum_kinds[(li + mi) % 4])); }
            if n <= 1100 { for kd in keeps { out(format!("targmax f64:b {a} {ax} {kd}")); out(format!("targmin f64:b {a} {ax} {kd}")); } }
            out(format!("tunique f64:b {a} {ax}"));
            // one element differs
            if n >= 2 && n <= 1100 {
                let mut t2 = toks.clone();
                let pos = [0, n / 2, n - 1][(li + mi) % 3];
                t2[pos] = ["1", "-e", "e", "-1"][(li + mi) % 4];
                let a2 = format!("{n}:{}", t2.join(","));
                out(format!("tsort f64:b {a2} {ax} {}", enum_kinds[(li + mi) % 4])); out(format!("tsort f64:b {a2} {ax} {}", enum_kinds[(li + mi + 1) % 4]));
                if n <= 130 { out(format!("targsort f64:b {a2} {ax} {}", enum_kinds[(li + mi + 2) % 4])); }
                out(format!("targmax f64:b {a2} {ax} none")); out(format!("targmin f64:b {a2} {ax} true")); out(format!("tunique f64:b {a2} {ax}"));
            }
        }
        if [2usize, 3, 8, 21, 33, 65].contains(&n) {
            let (r0, r1) = (zero_mix(n, 0, rng), zero_mix(n, 4, rng));
            let rows = format!("2,{n}:{},{}", r0.join(","), r1.join(","));
            let cols = format!("{n},2:{}", (0..n).map(|j| format!("{},{}", r0[j], r1[j])).collect::<Vec<_>>().join(","));
            for (a, ax) in [(&rows, "1"), (&rows, "0"), (&cols, "0"), (&cols, "-1")] { k += 1; emit_all(out, k, "f64", a, ax, true, true); }
        }
    }
    // constant lanes on every other element type and layout (a constant source: every comparison says "equal")
    for (ti, ty) in TYS.iter().filter(|t| **t != "f64").copied().chain(LADDER.iter().map(|x| x.0)).enumerate() {
        for (li, &n) in [1usize, 2, 3, 21, 33, 64, 65, 130, 257].iter().enumerate() {
            if heap_ty(ty) && n > 130 { continue; }
            let a = arr1(&vec![[0i64, 100, 7][(ti + li) % 3]; n]);
            k += 1; emit_all(out, k, ty, &a, ["none", "0", "-1"][(ti + li) % 3], true, n <= 130);
        }
    }
    // huge all-zero float arrays (`ref`; no quicksort and no extremes on lanes beyond 2000 elements: the crate's quicksort recurses once per
    // repeated element)
    for (s, ax) in [(vec![130usize, 130], "0"), (vec![130, 130], "1"), (vec![16385], "0"), (vec![2, 8200], "1"), (vec![16, 32, 40], "1")] {
        let lane = match ax.parse::<usize>() { Ok(a) => s[a], Err(_) => 0 };
        let a = format!("G0.{}.0:{}", rng.next() % 100000, show_list(&s));
        for kd in &enum_kinds[1..] { out(format!("tsort f64:b {a} {ax} {kd} ref")); }
        if lane <= 600 { out(format!("tsort f64:b {a} {ax} e:Quicksort ref")); out(format!("targsort f64:b {a} {ax} e:Stable ref")); out(format!("targmax f64:b {a} {ax} none ref")); out(format!("targmin f64:b {a} {ax} true ref")); }
    }
    // ---- (13b) VALUE RELATIONS: String lanes whose members share a stem of 32 / 33 / 64 / 65 / 1024 bytes before the first difference
    //      (one member IS the stem, a proper prefix of all the others)
    for (si, stem) in [32usize, 33, 64, 65, 1024].iter().enumerate() {
        let ty = format!("sl{stem}");
        for len in 0..=3 { for (wi, w) in words(3, len).iter().enumerate() {
            if !thorough && (wi + si) % 2 == 1 && len == 3 { continue; }
            let a = arr1(w);
            out(format!("tsort {ty}:b {a} none {}", enum_kinds[(wi + si) % 4])); out(format!("targsort {ty}:b {a} none {}", enum_kinds[(wi + si + 1) % 4]));
            out(format!("targmax {ty}:b {a} none none")); out(format!("targmin {ty}:b {a} none none")); out(format!("tunique {ty}:b {a} none"));
        } }
        for (li, &n) in [2usize, 5, 9, 21, 33, 65].iter().enumerate() {
            if *stem == 1024 && n > 21 && !thorough { continue; }
            let v: Vec<i64> = (0..n).map(|_| if li % 2 == 0 { rng.range(0, 15) } else { *rng.pick(&[0i64, 1, 5, 7, 9, 13, 14, 40, 1000]) }).collect();
            for (shape, ax) in [(vec![n], "none"), (vec![n], "0"), (vec![1, n], "-1")] {
                let a = arr_shaped(&shape, &v);
                for kd in enum_kinds { out(format!("tsort {ty}:b {a} {ax} {kd}")); }
                out(format!("targsort {ty}:b {a} {ax} {}", enum_kinds[(li + si) % 4]));
                out(format!("targmax {ty}:b {a} {ax} {}", keeps[li % 3])); out(format!("targmin {ty}:b {a} {ax} {}", keeps[(li + 1) % 3]));
                out(format!("tunique {ty}:b {a} {ax}"));
            }
        }
    }
    // ---- (15) axis values that survive a narrowing cast (`axis as u8 / u16 / u32` = a valid axis): refused like every axis outside the rank
    for s in [vec![3usize], vec![2, 3], vec![2, 3, 2]] {
        let n: usize = s.iter().product();
        let nd = s.len() as isize;
        let a = arr_shaped(&s, &(0..n as i64).map(|i| (i * 5) % 7).collect::<Vec<_>>());
        for c in 0..s.len() {
            for img in narrowing_images(c) {
                for ax in [img as isize, (c as isize - nd) - (img - c) as isize] {
                    out(format!("sort {a} {ax} e:Quicksort")); out(format!("argsort {a} {ax} e:Stable")); out(format!("argmax {a} {ax} none")); out(format!("argmin {a} {ax} true")); out(format!("unique {a} {ax}"));
                    out(format!("tsort L32s:b {a} {ax} e:Mergesort"));
                }
            }
            // ... directly followed by the valid call
            out(format!("sort {a} {c} e:Quicksort")); out(format!("argmax {a} {c} none"));
        }
    }
    // ---- (11) GIANT arrays (more than 2^20 elements; `ref` lines, generator spelling with near-distinct values, compared IN PLACE with the
    //      native reference): one lane of 2^20+5 elements (flat form and axis 0), the giant_shapes() of lib.rs on the axes that give few
    //      lanes, and MORE THAN 65 536 LANES ([65537,1] / [1,65537] on one-byte elements)
    let top = 100_000_000i64;
    let mut giant: Vec<(Vec<usize>, &str, &str, &str, &str)> = vec![
        (vec![1 << 20 | 5], "none", "tsort", "e:Mergesort", "i64:p"), (vec![1 << 20 | 5], "0", "tsort", "e:Stable", "f64:p"), (vec![1 << 20 | 5], "none", "targmax", "none", "i64:p"),
        (vec![3, 400_001], "1", "tsort", "e:Heapsort", "i64:p"), (vec![400_001, 3], "0", "tsort", "e:Mergesort", "f64:p"),
        (vec![2, 131_073, 4], "1", "tsort", "e:Stable", "i64:p"), (vec![2, 3, 174_763], "2", "tsort", "e:Quicksort", "i64:p"),
        // more than 65 536 lanes: the crate's cost is (number of lanes) x (bytes of the array) - 65 537 lanes of ONE one-byte element is the
        // cheapest such array (1-2 s per call); every lane holds another value, so a wrapped lane counter / offset shows
        (vec![65_537, 1], "1", "tsort", "e:Mergesort", "u8:p")];
    // (every giant case has to stay below ~2 s per call: axes with more than ~600 lanes of an 8 MB array are left out -
    //  [1031,1033], [600,2,1000] only on one-byte elements, [65,129,127], [4099,257] not at all)
    if thorough { giant.extend([
        (vec![1 << 20 | 5], "none", "tsort", "e:Heapsort", "i64:r"), (vec![1 << 20 | 5], "-1", "tsort", "e:Quicksort", "i64:p"), (vec![1 << 20 | 5], "0", "targmin", "true", "f64:p"),
        (vec![1 << 20 | 5], "0", "tsort", "s:535441424c45", "i64:r"), (vec![2_097_153], "none", "tsort", "e:Mergesort", "i64:p"), (vec![2_097_153], "0", "tsort", "e:Stable", "f64:p"),
        (vec![3, 400_001], "1", "tsort", "e:Stable", "i64:p"), (vec![3, 400_001], "-1", "tsort", "e:Mergesort", "f64:r"), (vec![3, 400_001], "1", "targmax", "true", "i64:p"), (vec![400_001, 3], "-2", "tsort", "e:Quicksort", "i64:p"), (vec![400_001, 3], "0", "targmax", "false", "i64:p"),
        (vec![5, 70_000, 4], "1", "tsort", "e:Mergesort", "i64:p"), (vec![5, 70_000, 4], "-2", "targmin", "false", "f64:p"), (vec![2, 131_073, 4], "-2", "tsort", "e:Heapsort", "f64:p"), (vec![2, 131_073, 4], "1", "targmax", "none", "i64:p"),
        (vec![2, 3, 174_763], "-1", "tsort", "e:Stable", "f64:p"), (vec![2, 3, 174_763], "2", "tsort", "e:Mergesort", "i64:p"),
        (vec![3, 400_001], "1", "tsort", "e:Stable", "L12:p"), (vec![2, 3, 174_763], "2", "tsort", "e:Mergesort", "L32:p"), (vec![2, 131_073, 4], "1", "tsort", "e:Heapsort", "L3:p"),
        (vec![1031, 1033], "1", "tsort", "e:Quicksort", "u8:p"), (vec![1031, 1033], "0", "tsort", "e:Stable", "u8:p"), (vec![1031, 1033], "-1", "targmin", "none", "u8:p"),
        (vec![600, 2, 1000], "2", "tsort", "e:Stable", "u8:p"), (vec![600, 2, 1000], "-1", "targmax", "none", "u8:p"),
        (vec![1, 65_537], "0", "tsort", "e:Heapsort", "u8:p"), (vec![65_537, 1], "1", "targmax", "none", "u8:p")]); }
    for (s, ax, op, arg, tr) in &giant {
        let (p, hi) = if tr.starts_with("u8") || tr.starts_with('L') { (0, 255) } else { (1, top) };
        out(format!("{op} {tr} G{p}.{}.{hi}:{} {ax} {arg} ref", rng.next() % 100000, show_list(s)));
    }
    // an all-zero (0.0 / -0.0) lane of 2^20+5 elements: merge / stable (value relation x giant size)
    out(format!("tsort f64:p G0.{}.0:{} none e:Mergesort ref", rng.next() % 100000, 1 << 20 | 5));
    if thorough { out(format!("tsort f64:p G0.{}.0:{} 0 e:Stable ref", rng.next() % 100000, 1 << 20 | 5)); out(format!("tsort f64:p G0.{}.0:3,400001 1 e:Heapsort ref", rng.next() % 100000)); }
}

// ---------------------------------------------------------------- executor

enum Kind { None, Enum(SortKind), Str(String), Owned(String) }
fn parse_kind_arg(s: &str) -> Option<Kind> {
    if s == "none" { return Some(Kind::None); }
    let (tag, body) = s.split_once(':')?;
    match tag {
        "e" => Some(Kind::Enum(match body { "Quicksort" => SortKind::Quicksort, "Mergesort" => SortKind::Mergesort, "Heapsort" => SortKind::Heapsort, "Stable" => SortKind::Stable, _ => return None })),
        "s" => Some(Kind::Str(unhex(body))),
        "o" => Some(Kind::Owned(unhex(body))),
        _ => None,
    }
}
fn parse_axis(s: &str) -> Option<Option<isize>> { if s == "none" { Some(None) } else { s.parse().ok().map(Some) } }
fn parse_keep(s: &str) -> Option<Option<bool>> { match s { "none" => Some(None), "true" => Some(Some(true)), "false" => Some(Some(false)), _ => None } }

fn parse_farr(s: &str) -> Array<f64> {
    let (sh, el) = s.split_once(':').unwrap();
    let shape = parse_usize_list(sh);
    let elems: Vec<f64> = if el == "-" { vec![] } else { el.split(',').map(|t| if t == "n" { f64::NAN } else { t.parse::<i64>().unwrap() as f64 }).collect() };
    Array::new(elems, shape).expect("harness: malformed float array literal")
}

fn checked<T: ArrayElement + std::fmt::Display>(r: Result<Array<T>, ArrayError>) -> String {
    if let Ok(a) = &r { if !consistent(a) { return format!("inconsistent {}", show_arr(a)); } }
    res_arr(&r)
}

// ---------------------------------------------------------------- typed executor (robustness streams)

/// strictly increasing in Rust's `String` order (byte-wise UTF-8): key k < 14 is `STR_TABLE[k]`, larger keys follow
const STR_TABLE: [&str; 14] = ["", " ", "0", "10", "9", "A", "B", "a", "a ", "aa", "ab", "b", "é", "日本"];

trait Lane: ArrayElement + std::fmt::Display + PartialOrd {
    fn from_tok(t: &str) -> Option<Self>;
    /// value-level protocol token (0.0 and -0.0 are the same value)
    fn tok(&self) -> String;
    /// identity of the representation (bit pattern)
    fn raw(&self) -> String;
    /// the bit pattern itself where `==` is coarser than identity (f64: 0.0 / -0.0); used by the giant cases, which never build texts
    fn bits64(&self) -> Option<u64> { None }
    /// an integer tag without the detour through text (giant generator-spelled arrays)
    fn from_i64(x: i64) -> Option<Self> { Self::from_tok(&x.to_string()) }
}
impl Lane for i64 { fn from_tok(t: &str) -> Option<Self> { t.parse().ok() } fn tok(&self) -> String { self.to_string() } fn raw(&self) -> String { self.to_string() } fn from_i64(x: i64) -> Option<Self> { Some(x) } }
impl Lane for u8 { fn from_tok(t: &str) -> Option<Self> { t.parse().ok() } fn tok(&self) -> String { self.to_string() } fn raw(&self) -> String { self.to_string() } }
impl Lane for i8 { fn from_tok(t: &str) -> Option<Self> { t.parse().ok() } fn tok(&self) -> String { self.to_string() } fn raw(&self) -> String { self.to_string() } }
thread_local! {
    /// element type `sl<k>`: every String of the lane starts with the same stem of k bytes (the first difference comes after 32 / 33 / 64 /
    /// 65 / 1024 equal bytes; the key of `STR_TABLE[0]` IS the stem: a proper prefix of all others)
    static STEM: Cell<usize> = Cell::new(0);
}
fn stem_text(k: usize) -> String { (0..k).map(|i| (b'a' + (i % 23) as u8) as char).collect() }
impl Lane for String {
    fn from_tok(t: &str) -> Option<Self> {
        let k: usize = t.parse().ok()?;
        let body = if k < STR_TABLE.len() { STR_TABLE[k].to_string() } else { format!("日本{k:09}") };
        let st = STEM.with(Cell::get);
        Some(if st == 0 { body } else { format!("{}{body}", stem_text(st)) })
    }
    fn tok(&self) -> String {
        let st = STEM.with(Cell::get);
        let stem = stem_text(st);
        let Some(body) = self.strip_prefix(stem.as_str()) else { return format!("?{self}") };
        if let Some(k) = STR_TABLE.iter().position(|x| *x == body) { return k.to_string(); }
        body.strip_prefix("日本").and_then(|d| d.parse::<usize>().ok()).map_or_else(|| format!("?{self}"), |k| k.to_string())
    }
    fn raw(&self) -> String { format!("{self:?}") }
}

// ---------------------------------------------------------------- part 3: the element-LAYOUT ladder (`size_of::<T>()` = 3 … 120 bytes)

/// strictly monotonic codes: `enc` maps 0..CAP into the type preserving `<` (tuples compare lexicographically: mixed radix),
/// `dec` is its inverse (None: not an image)
trait Enc: Sized { const CAP: i64; fn enc(c: i64) -> Self; fn dec(&self) -> Option<i64>; }
impl Enc for u8 { const CAP: i64 = 8; fn enc(c: i64) -> Self { (c * 36 + 3) as u8 } fn dec(&self) -> Option<i64> { let x = *self as i64 - 3; (x >= 0 && x % 36 == 0).then_some(x / 36) } }
impl Enc for u16 { const CAP: i64 = 8; fn enc(c: i64) -> Self { (c * 9000 + 7) as u16 } fn dec(&self) -> Option<i64> { let x = *self as i64 - 7; (x >= 0 && x % 9000 == 0).then_some(x / 9000) } }
impl Enc for i32 { const CAP: i64 = 16; fn enc(c: i64) -> Self { ((c - 8) * 100_000_007) as i32 } fn dec(&self) -> Option<i64> { let x = *self as i64; (x % 100_000_007 == 0).then_some(x / 100_000_007 + 8) } }
impl Enc for i64 { const CAP: i64 = 16; fn enc(c: i64) -> Self { (c - 8) * ((1 << 53) + 1) } fn dec(&self) -> Option<i64> { let m = (1i64 << 53) + 1; (*self % m == 0).then_some(*self / m + 8) } }
/// strictly increasing in byte order
const STR16: [&str; 16] = ["", " ", "0", "10", "9", "A", "B", "a", "a ", "aa", "ab", "b", "é", "日本", "日本0", "日本語"];
impl Enc for String { const CAP: i64 = 16; fn enc(c: i64) -> Self { STR16[c as usize].to_string() } fn dec(&self) -> Option<i64> { STR16.iter().position(|x| x == self).map(|k| k as i64) } }
impl <A: Enc + ArrayElement, B: Enc + ArrayElement> Enc for Tuple2<A, B> {
    const CAP: i64 = A::CAP * B::CAP;
    fn enc(c: i64) -> Self { Tuple2(A::enc(c / B::CAP), B::enc(c % B::CAP)) }
    fn dec(&self) -> Option<i64> { Some(self.0.dec()? * B::CAP + self.1.dec()?) }
}
impl <A: Enc + ArrayElement, B: Enc + ArrayElement, C: Enc + ArrayElement> Enc for Tuple3<A, B, C> {
    const CAP: i64 = A::CAP * B::CAP * C::CAP;
    fn enc(c: i64) -> Self { Tuple3(A::enc(c / (B::CAP * C::CAP)), B::enc(c / C::CAP % B::CAP), C::enc(c % C::CAP)) }
    fn dec(&self) -> Option<i64> { Some((self.0.dec()? * B::CAP + self.1.dec()?) * C::CAP + self.2.dec()?) }
}
/// tag 0..=255 -> code: strictly increasing, and the low-order components vary pseudo-randomly (so every component of a tuple
/// takes part in some comparison)
fn spread<T: Enc>(t: i64) -> i64 { let step = T::CAP / 256; t * step + (((t as u64 + 1).wrapping_mul(0x9E37_79B9_7F4A_7C15) >> 24) as i64) % step }
type L3 = Tuple3<u8, u8, u8>;                 // 3 bytes
type L6 = Tuple3<u16, u16, u16>;              // 6
type L9 = Tuple3<L3, L3, L3>;                 // 9
type L12 = Tuple3<i32, i32, i32>;             // 12
type L16 = Tuple2<i64, i64>;                  // 16
type L20 = Tuple2<L12, Tuple2<i32, i32>>;     // 20
type L24 = Tuple3<i64, i64, i64>;             // 24
type L28 = Tuple2<L12, Tuple2<Tuple2<i32, i32>, Tuple2<i32, i32>>>;   // 28
type L32 = Tuple2<L16, L16>;                  // 32, Copy
type L32s = Tuple2<String, i32>;              // 32, owns heap memory
type L40 = Tuple2<L24, L16>;                  // 40
type L48s = Tuple2<String, String>;           // 48, owns heap memory
type L72 = Tuple3<L24, L24, L24>;             // 72
type L88 = Tuple2<L72, L16>;                  // 88
type L120 = Tuple3<L40, L40, L40>;            // 120
const LADDER: [(&str, usize); 15] = [("L3", 3), ("L6", 6), ("L9", 9), ("L12", 12), ("L16", 16), ("L20", 20), ("L24", 24), ("L28", 28), ("L32", 32), ("L32s", 32), ("L40", 40), ("L48s", 48), ("L72", 72), ("L88", 88), ("L120", 120)];
macro_rules! ladder_lane { ($($t:ty),*) => { $(impl Lane for $t {
    fn from_tok(t: &str) -> Option<Self> { let k: i64 = t.parse().ok()?; if !(0..256).contains(&k) { return None; } Some(<$t as Enc>::enc(spread::<$t>(k))) }
    fn tok(&self) -> String {
        let Some(c) = self.dec() else { return format!("?{self:?}") };
        let k = c / (<$t as Enc>::CAP / 256);
        if k < 256 && spread::<$t>(k) == c { k.to_string() } else { format!("?{self:?}") }
    }
    fn raw(&self) -> String { format!("{self:?}") }
})* } }
ladder_lane!(L3, L6, L9, L12, L16, L20, L24, L28, L32, L32s, L40, L48s, L72, L88, L120);
/// the layouts really have the sizes their names say (checked at the start of every `gen`)
fn ladder_sizes() -> [usize; 15] {
    use std::mem::size_of as sz;
    [sz::<L3>(), sz::<L6>(), sz::<L9>(), sz::<L12>(), sz::<L16>(), sz::<L20>(), sz::<L24>(), sz::<L28>(), sz::<L32>(), sz::<L32s>(), sz::<L40>(), sz::<L48s>(), sz::<L72>(), sz::<L88>(), sz::<L120>()]
}
impl Lane for f64 {
    fn from_tok(t: &str) -> Option<Self> {
        Some(match t { "n" => f64::NAN, "z" => -0.0, "e" => f64::from_bits(1), "-e" => -f64::from_bits(1), "I" => f64::INFINITY, "-I" => f64::NEG_INFINITY,
            _ => { let k: i64 = t.parse().ok()?; if k.unsigned_abs() > 1u64 << 53 { return None; } k as f64 } })
    }
    fn tok(&self) -> String {
        if self.is_nan() { "n".into() } else if *self == f64::INFINITY { "I".into() } else if *self == f64::NEG_INFINITY { "-I".into() }
        else if self.to_bits() == 1 { "e".into() } else if self.to_bits() == (1u64 << 63) | 1 { "-e".into() }
        else if self.fract() == 0.0 && self.abs() <= 9.1e15 { (*self as i64).to_string() } else { format!("?{self:e}") }
    }
    fn raw(&self) -> String { format!("{:016x}", self.to_bits()) }
    fn bits64(&self) -> Option<u64> { Some(self.to_bits()) }
    fn from_i64(x: i64) -> Option<Self> { if x.unsigned_abs() > 1u64 << 53 { None } else { Some(x as f64) } }
}
/// the values of a generator spelling `G<pattern>.<seed>.<hi>` for `n` elements, all in 0..=hi (hi <= 100: valid for every element type)
fn gen_values(spec: &str, n: usize) -> Option<Vec<i64>> {
    let mut it = spec.strip_prefix('G')?.split('.');
    let (p, seed, hi): (usize, u64, i64) = (it.next()?.parse().ok()?, it.next()?.parse().ok()?, it.next()?.parse().ok()?);
    let mut r = Rng::new(seed ^ 0xC10);
    let m = hi + 1;
    Some(match p {
        0 => (0..n).map(|_| r.range(0, hi)).collect(),                                   // random, many repeats
        1 => r.perm(n).into_iter().map(|j| j as i64 % m).collect(),                      // scramble
        2 => (0..n as i64).map(|i| (i * 7919) % m).collect(),                            // saw
        3 => (0..n as i64).map(|i| (n as i64 - 1 - i) * m / (n as i64).max(1)).collect(),  // descending with runs of repeats
        _ => (0..n).map(|i| if i % 97 == 5 { hi } else if i % 89 == 7 { 0 } else { 1 + r.range(0, (hi - 2).max(0)) }).collect(),  // repeated extremes
    })
}
fn parse_lane<T: Lane>(s: &str) -> Option<Array<T>> {
    if s.starts_with('G') {
        let (spec, sh) = s.split_once(':')?;
        let shape = parse_usize_list(sh);
        let v = gen_values(spec, shape.iter().product())?;
        // float lanes: every other zero is -0.0 (as in `lane_ty` / `f64_tokens(_, 1)`)
        let (z, mut zc) = (T::from_tok("z"), 0usize);
        let elems: Vec<T> = v.iter().map(|&x| { if x == 0 { zc += 1; if zc % 2 == 0 && z.is_some() { return z.clone(); } } T::from_i64(x) }).collect::<Option<Vec<T>>>()?;
        return Array::new(elems, shape).ok();
    }
    let (sh, el) = s.split_once(':')?;
    let shape = parse_usize_list(sh);
    let elems: Vec<T> = if el == "-" { vec![] } else { el.split(',').map(T::from_tok).collect::<Option<Vec<T>>>()? };
    Array::new(elems, shape).ok()
}

/// one run of the real call: value-level answer, bit-level answer, and the result's elements (bit-level, value-level)
#[derive(Clone, PartialEq)]
struct Run { value: String, raw: String, raws: Vec<String>, toks: Vec<String> }
fn run_t<T: Lane>(r: Result<Array<T>, ArrayError>) -> Run {
    match r {
        Ok(a) => {
            if !consistent(&a) { let t = format!("inconsistent {}", show_arr(&a)); return Run { value: t.clone(), raw: t, raws: vec![], toks: vec![] }; }
            let (sh, el) = (a.get_shape().unwrap(), a.get_elements().unwrap());
            let toks: Vec<String> = el.iter().map(Lane::tok).collect();
            let raws: Vec<String> = el.iter().map(Lane::raw).collect();
            Run { value: format!("ok {}:{}", show_list(&sh), show_list(&toks)), raw: format!("ok {}:{}", show_list(&sh), show_list(&raws)), raws, toks }
        }
        Err(e) => Run { value: format!("err {}", err_name(&e)), raw: format!("err {e:?}"), raws: vec![], toks: vec![] },
    }
}
fn run_u(r: Result<Array<usize>, ArrayError>) -> Run {
    let raw = match &r { Err(e) => format!("err {e:?}"), Ok(_) => String::new() };
    let value = checked(r);
    Run { raw: if raw.is_empty() { value.clone() } else { raw }, value, raws: vec![], toks: vec![] }
}
macro_rules! with_kind {
    ($recv:expr, $m:ident, $axis:expr, $kind:expr) => {
        match $kind {
            Kind::None => $recv.$m($axis, None::<&str>),
            Kind::Enum(k) => $recv.$m($axis, Some(*k)),
            Kind::Str(s) => $recv.$m($axis, Some(s.as_str())),
            Kind::Owned(s) => $recv.$m($axis, Some(s.clone())),
        }
    };
}
enum TArg { Kind(Kind), Keep(Option<bool>), Nothing }

thread_local! {
    /// how often the native reference was compared with the model's answer in this run / used in place of the model
    static REF_VALIDATED: Cell<usize> = Cell::new(0);
    static REF_USED: Cell<usize> = Cell::new(0);
    static REF_BROKEN: Cell<usize> = Cell::new(0);
    /// A-B-A: the previous case (op, arguments, bit-level answer of its first call)
    static PREV: RefCell<Option<(String, Vec<String>, String)>> = RefCell::new(None);
    static LAST_RAW: RefCell<Option<String>> = RefCell::new(None);
    static ABA_RUNS: Cell<usize> = Cell::new(0);
}
fn bump(c: &'static std::thread::LocalKey<Cell<usize>>) { c.with(|x| x.set(x.get() + 1)); }

fn kind_ok(k: &Kind) -> bool {
    match k { Kind::None | Kind::Enum(_) => true, Kind::Str(s) | Kind::Owned(s) => matches!(s.to_lowercase().as_str(), "quicksort" | "mergesort" | "heapsort" | "stable") }
}

/// NATIVE REFERENCE for sort / argsort / argmax / argmin: plain Rust, nothing of the crate.  Lane membership by coordinate
/// arithmetic (lane (o, i) of axis k = positions o*len*inner + j*inner + i); per lane the standard library's STABLE sort (the sorted
/// values; for argsort the rank of every element, equal elements ranked in order of appearance) or the FIRST position of the largest / smallest
/// element, the first NaN winning.  Value-level answer text in the model's spelling.  `None`: no opinion (zero-size arrays, lanes
/// with NaN for the sorts, `unique`).
fn native_answer<T: Lane>(op: &str, shape: &[usize], el: &[T], axis: Option<isize>, arg: &TArg) -> Option<String> {
    Some(match native_core(op, shape, el, axis, arg)? {
        Nat::Err(e) => format!("err {e}"),
        Nat::Sorted { shape, src } => { let toks: Vec<String> = src.iter().map(|&p| el[p].tok()).collect(); format!("ok {}:{}", show_list(&shape), show_list(&toks)) }
        Nat::Index { shape, vals } => format!("ok {}:{}", show_list(&shape), show_list(&vals)),
    })
}
/// the native reference in structured form (the text form above is derived from it, so validating the text against the model
/// validates exactly the code the giant cases use in place)
enum Nat {
    Err(&'static str),
    /// sort: result shape; `src[p]` = flat position of the INPUT element that must stand at flat position p of the result
    Sorted { shape: Vec<usize>, src: Vec<usize> },
    /// argsort / argmax / argmin: result shape and values
    Index { shape: Vec<usize>, vals: Vec<usize> },
}
fn native_core<T: Lane>(op: &str, shape: &[usize], el: &[T], axis: Option<isize>, arg: &TArg) -> Option<Nat> {
    let n = el.len();
    let nd = shape.len();
    if n == 0 || nd == 0 { return None; }
    let sorting = matches!(op, "tsort" | "targsort");
    if !sorting && !matches!(op, "targmax" | "targmin") { return None; }
    if sorting && el.iter().any(ArrayElement::is_nan) { return None; }
    if let TArg::Kind(k) = arg { if !kind_ok(k) { return Some(Nat::Err("ParameterError")); } }
    // (outer, len, inner) of the lanes
    let (outer, len, inner, k) = match axis {
        None => (1, n, 1, usize::MAX),
        Some(a) => { let k = if a < 0 { a + nd as isize } else { a }; if k < 0 || k >= nd as isize { return Some(Nat::Err("AxisOutOfBounds")); } let k = k as usize;
            (shape[..k].iter().product::<usize>(), shape[k], shape[k + 1..].iter().product::<usize>(), k) }
    };
    let lane_idx = |o: usize, i: usize| -> Vec<usize> { (0..len).map(|j| o * len * inner + j * inner + i).collect() };
    let cmp = |a: &T, b: &T| a.partial_cmp(b).unwrap_or(std::cmp::Ordering::Equal);
    if sorting {
        let mut res = vec![0usize; n];
        for o in 0..outer { for i in 0..inner {
            let idx = lane_idx(o, i);
            let mut order: Vec<usize> = (0..len).collect();
            order.sort_by(|&x, &y| cmp(&el[idx[x]], &el[idx[y]]));                      // stable
            // sort: position j of the lane receives the j-th smallest; argsort: every element receives its RANK (its position in the
            // sorted lane, equal elements ranked in order of appearance)
            for (j, &src) in order.iter().enumerate() { if op == "tsort" { res[idx[j]] = idx[src]; } else { res[idx[src]] = j; } }
        } }
        let sh: Vec<usize> = if axis.is_none() { vec![n] } else { shape.to_vec() };
        return Some(if op == "tsort" { Nat::Sorted { shape: sh, src: res } } else { Nat::Index { shape: sh, vals: res } });
    }
    let keep = if let TArg::Keep(kd) = arg { *kd } else { None };
    let is_max = op == "targmax";
    let mut res: Vec<usize> = Vec::with_capacity(outer * inner);
    for o in 0..outer { for i in 0..inner {
        let at = |j: usize| &el[o * len * inner + j * inner + i];
        let pos = match (0..len).position(|j| at(j).is_nan()) {
            Some(p) => p,
            None => { let mut b = 0; for j in 1..len { let c = at(j).partial_cmp(at(b)); if (is_max && c == Some(std::cmp::Ordering::Greater)) || (!is_max && c == Some(std::cmp::Ordering::Less)) { b = j; } } b }
        };
        res.push(pos);
    } }
    let sh: Vec<usize> = match axis {
        None => if keep == Some(true) { if nd > 3 { return Some(Nat::Err("UnsupportedDimension")); } vec![1; nd] } else { vec![1] },
        Some(_) => { let mut sh = shape.to_vec(); if keep == Some(true) { sh[k] = 1; } else { sh.remove(k); } sh }
    };
    Some(Nat::Index { shape: sh, vals: res })
}

/// GIANT cases (more than `GIANT` elements; `ref` lines only): nothing is turned into text.  The crate's result is compared IN PLACE
/// with the structured native reference — shape, then element by element (`==`; for f64 additionally the multiset of bit patterns) —
/// and only the first differing position is reported.
const GIANT: usize = 200_000;
fn first_diff<X>(n: usize, f: impl Fn(usize) -> Option<X>) -> Option<(usize, X)> { (0..n).find_map(|p| f(p).map(|x| (p, x))) }
fn giant_sort_check<T: Lane>(name: &str, r: &Result<Array<T>, ArrayError>, nat: &Nat, input: &[T]) -> Option<String> {
    match (r, nat) {
        (Err(e), Nat::Err(want)) => if err_name(e) == *want { None } else { Some(format!("{name}: err {}, native reference: err {want}", err_name(e))) },
        (Err(e), _) => Some(format!("{name}: err {}, native reference: a result", err_name(e))),
        (Ok(_), Nat::Err(want)) => Some(format!("{name}: a result, native reference: err {want}")),
        (Ok(a), Nat::Sorted { shape, src }) => {
            if !consistent(a) { return Some(format!("{name}: inconsistent result (shape {:?})", a.get_shape().unwrap())); }
            let (sh, el) = (a.get_shape().unwrap(), a.get_elements().unwrap());
            if &sh != shape { return Some(format!("{name}: result shape {sh:?}, native reference {shape:?}")); }
            if let Some((p, d)) = first_diff(el.len(), |p| if el[p] == input[src[p]] { None } else { Some(format!("{} (bits {}) instead of {} (the input element at flat position {})", el[p].tok(), el[p].raw(), input[src[p]].tok(), src[p])) }) {
                return Some(format!("{name}: first difference at flat position {p} of {}: {d}", el.len()));
            }
            if input.first().and_then(Lane::bits64).is_some() {
                let (mut bi, mut bo): (Vec<u64>, Vec<u64>) = (input.iter().filter_map(Lane::bits64).collect(), el.iter().filter_map(Lane::bits64).collect());
                bi.sort_unstable(); bo.sort_unstable();
                if let Some((p, _)) = first_diff(bi.len(), |p| if bi[p] == bo[p] { None } else { Some(()) }) { return Some(format!("{name}: sort does not keep the multiset of bit patterns (sorted bit patterns first differ at rank {p}: {:016x} in the result, {:016x} in the input)", bo[p], bi[p])); }
            }
            None
        }
        (Ok(_), Nat::Index { .. }) => Some("harness: wrong reference form".into()),
    }
}
fn giant_index_check(name: &str, r: &Result<Array<usize>, ArrayError>, nat: &Nat) -> Option<String> {
    match (r, nat) {
        (Err(e), Nat::Err(want)) => if err_name(e) == *want { None } else { Some(format!("{name}: err {}, native reference: err {want}", err_name(e))) },
        (Err(e), _) => Some(format!("{name}: err {}, native reference: a result", err_name(e))),
        (Ok(_), Nat::Err(want)) => Some(format!("{name}: a result, native reference: err {want}")),
        (Ok(a), Nat::Index { shape, vals }) => {
            if !consistent(a) { return Some(format!("{name}: inconsistent result (shape {:?})", a.get_shape().unwrap())); }
            let (sh, el) = (a.get_shape().unwrap(), a.get_elements().unwrap());
            if &sh != shape { return Some(format!("{name}: result shape {sh:?}, native reference {shape:?}")); }
            first_diff(el.len(), |p| if el[p] == vals[p] { None } else { Some((el[p], vals[p])) }).map(|(p, (got, want))| format!("{name}: first difference at flat position {p} of {}: {got} instead of {want}", el.len()))
        }
        (Ok(_), Nat::Sorted { .. }) => Some("harness: wrong reference form".into()),
    }
}
fn typed_giant<T: Lane>(op: &str, rc: &str, a: &Array<T>, axis: Option<isize>, arg: &TArg) -> Option<Verdict> {
    let input = a.get_elements().unwrap();
    let shape = a.get_shape().unwrap();
    bump(&REF_USED);
    let nat = native_core(op, &shape, &input, axis, arg)?;
    let mut receivers: Vec<(&str, bool)> = vec![];
    if rc != "r" { receivers.push(("the plain receiver", false)); }
    if rc != "p" { receivers.push(("the chained call on Ok(array)", true)); }
    let mut summary = String::new();
    for (name, chained) in receivers {
        let res: Result<Array<T>, ArrayError> = Ok(a.clone());
        let bad = catch_unwind(AssertUnwindSafe(|| match (op, arg) {
            ("tsort", TArg::Kind(k)) => giant_sort_check(name, &if chained { with_kind!(res, sort, axis, k) } else { with_kind!(a, sort, axis, k) }, &nat, &input),
            ("targsort", TArg::Kind(k)) => giant_index_check(name, &if chained { with_kind!(res, argsort, axis, k) } else { with_kind!(a, argsort, axis, k) }, &nat),
            ("targmax", TArg::Keep(kd)) => giant_index_check(name, &if chained { res.argmax(axis, *kd) } else { a.argmax(axis, *kd) }, &nat),
            ("targmin", TArg::Keep(kd)) => giant_index_check(name, &if chained { res.argmin(axis, *kd) } else { a.argmin(axis, *kd) }, &nat),
            _ => Some("harness: no giant form of this operation".into()),
        })).unwrap_or_else(|_| Some(format!("{name}: panic")));
        if let Some(d) = bad {
            return Some(Verdict::Mismatch { observed: d, detail: "GIANT case, compared in place with the native reference (lane membership + std stable sort / rank / first extreme; validated against the model on the other cases of this run)".into() });
        }
        summary = match &nat { Nat::Err(e) => format!("err {e}"), Nat::Sorted { shape, .. } | Nat::Index { shape, .. } => format!("ok {}:<{} elements equal to the native reference, compared in place>", show_list(shape), shape.iter().product::<usize>()) };
    }
    Some(Verdict::Match(summary))
}

fn typed_call<T: Lane>(op: &str, a: &Array<T>, axis: Option<isize>, arg: &TArg, chained: bool) -> Run {
    let r = catch_unwind(AssertUnwindSafe(|| {
        let res: Result<Array<T>, ArrayError> = Ok(a.clone());
        match (op, arg) {
            ("tsort", TArg::Kind(k)) => run_t(if chained { with_kind!(res, sort, axis, k) } else { with_kind!(a, sort, axis, k) }),
            ("targsort", TArg::Kind(k)) => run_u(if chained { with_kind!(res, argsort, axis, k) } else { with_kind!(a, argsort, axis, k) }),
            ("tunique", _) => run_t(if chained { res.unique(axis) } else { a.unique(axis) }),
            ("targmax", TArg::Keep(kd)) => run_u(if chained { res.argmax(axis, *kd) } else { a.argmax(axis, *kd) }),
            ("targmin", TArg::Keep(kd)) => run_u(if chained { res.argmin(axis, *kd) } else { a.argmin(axis, *kd) }),
            _ => unreachable!(),
        }
    }));
    r.unwrap_or_else(|_| Run { value: "panic".into(), raw: "panic".into(), raws: vec![], toks: vec![] })
}
fn typed_args<T: Lane>(op: &str, args: &[&str]) -> Option<(Array<T>, Option<isize>, TArg)> {
    let a: Array<T> = parse_lane::<T>(args.first()?)?;
    let axis = parse_axis(args.get(1)?)?;
    let arg = match op {
        "tsort" | "targsort" => TArg::Kind(parse_kind_arg(args.get(2)?)?),
        "targmax" | "targmin" => TArg::Keep(parse_keep(args.get(2)?)?),
        "tunique" => TArg::Nothing,
        _ => return None,
    };
    Some((a, axis, arg))
}

/// `probe`: only the first call (A-B-A re-run), its bit-level answer as `Open`
fn typed<T: Lane>(op: &str, rc: &str, args: &[&str], expected: &str, probe: bool) -> Option<Verdict> {
    let (a, axis, arg) = typed_args::<T>(op, args)?;
    let by_ref = args.len() == 4 && args[3] == "ref";
    if args.len() > 4 || (args.len() == 4 && !by_ref) || (by_ref && expected != "ref" && !probe) { return None; }
    if by_ref && !probe && a.len().unwrap_or(0) > GIANT { return typed_giant(op, rc, &a, axis, &arg); }
    let call = |chained: bool| -> Run { typed_call(op, &a, axis, &arg, chained) };
    if probe { return Some(Verdict::Open(call(rc == "r").raw)); }
    let mut runs: Vec<(&str, Run)> = vec![];
    if rc != "r" { runs.push(("the plain receiver", call(false))); if a.len().unwrap_or(0) <= 300 { runs.push(("the same call a second time", call(false))); } }
    if rc != "p" { runs.push(("the chained call on Ok(array)", call(true))); }
    let first = runs[0].1.clone();
    for (name, r) in &runs[1..] {
        if r.raw != first.raw {
            return Some(Verdict::Mismatch { observed: format!("RECEIVER-DIVERGENCE {name} gives `{}`, {} gives `{}`", truncate(&r.raw, 300), runs[0].0, truncate(&first.raw, 300)),
                detail: format!("all receivers / repeated calls must agree bit-wise; model says `{}`", truncate(expected, 300)) });
        }
    }
    LAST_RAW.with(|l| *l.borrow_mut() = Some(first.raw.clone()));
    let input = a.get_elements().unwrap();
    let has_nan = input.iter().any(ArrayElement::is_nan);
    let mut sorted_in: Vec<String> = input.iter().map(Lane::raw).collect(); sorted_in.sort();
    if op == "tsort" && first.value.starts_with("ok") {
        // "each kept with its multiplicity": the multiset of bit patterns is preserved (0.0 and -0.0 are not traded for one another)
        let mut so = first.raws.clone(); so.sort();
        if so != sorted_in { return Some(Verdict::Mismatch { observed: truncate(&first.raw, 2000), detail: format!("sort does not keep the multiset of element representations (value-level answer `{}`)", truncate(&first.value, 300)) }); }
    }
    // the native reference: compared with the model where the model answers, used in its place on `ref` cases
    let native = native_answer(op, &a.get_shape().unwrap(), &input, axis, &arg);
    let expected_owned: String;
    let expected: &str = if by_ref {
        bump(&REF_USED);
        expected_owned = native?;
        &expected_owned
    } else {
        if let Some(nat) = &native {
            bump(&REF_VALIDATED);
            if !(nat == expected || (class_of(nat) == "err" && class_of(expected) == "err")) {
                bump(&REF_BROKEN);
                return Some(Verdict::Mismatch { observed: "n/a".into(), detail: format!("HARNESS: the native reference says `{}`, the model `{}`", truncate(nat, 300), truncate(expected, 300)) });
            }
        }
        expected
    };
    if has_nan && op != "targmax" && op != "targmin" {
        // no linear order: outside the statement.  Weak oracle, then open region.
        if first.value == "panic" || first.value.starts_with("inconsistent") { return Some(Verdict::Mismatch { observed: first.value, detail: "lane with NaN: the call must still return".into() }); }
        if op == "tunique" && axis.is_none() && first.value.starts_with("ok") {
            let set = |v: Vec<String>| -> std::collections::BTreeSet<String> { v.into_iter().filter(|t| t != "n").collect() };
            let (si, so) = (set(input.iter().map(Lane::tok).collect()), set(first.toks.clone()));
            if si != so { return Some(Verdict::Mismatch { observed: first.value, detail: "unique on a lane with NaN lost or invented a non-NaN value".into() }); }
        }
        return Some(Verdict::Open(first.value));
    }
    Some(match compare_default(first.value, expected) {
        Verdict::Match(t) => Verdict::Match(truncate(&t, 3000)),
        Verdict::Mismatch { observed, detail } => Verdict::Mismatch { observed: truncate(&observed, 3000), detail: if by_ref { format!("native reference (lane membership + std stable sort / first extreme; validated against the model on the other cases of this run) says `{}`", truncate(expected, 400)) } else { detail } },
        v => v,
    })
}

fn typed_dispatch(op: &str, args: &[&str], expected: &str, probe: bool) -> Option<Verdict> {
    let (ty, rc) = args.first()?.split_once(':')?;
    if !matches!(rc, "p" | "r" | "b") { return None; }
    match ty {
        "i64" => typed::<i64>(op, rc, &args[1..], expected, probe),
        "u8" => typed::<u8>(op, rc, &args[1..], expected, probe),
        "i8" => typed::<i8>(op, rc, &args[1..], expected, probe),
        "str" => typed::<String>(op, rc, &args[1..], expected, probe),
        "f64" => typed::<f64>(op, rc, &args[1..], expected, probe),
        "L3" => typed::<L3>(op, rc, &args[1..], expected, probe),
        "L6" => typed::<L6>(op, rc, &args[1..], expected, probe),
        "L9" => typed::<L9>(op, rc, &args[1..], expected, probe),
        "L12" => typed::<L12>(op, rc, &args[1..], expected, probe),
        "L16" => typed::<L16>(op, rc, &args[1..], expected, probe),
        "L20" => typed::<L20>(op, rc, &args[1..], expected, probe),
        "L24" => typed::<L24>(op, rc, &args[1..], expected, probe),
        "L28" => typed::<L28>(op, rc, &args[1..], expected, probe),
        "L32" => typed::<L32>(op, rc, &args[1..], expected, probe),
        "L32s" => typed::<L32s>(op, rc, &args[1..], expected, probe),
        "L40" => typed::<L40>(op, rc, &args[1..], expected, probe),
        "L48s" => typed::<L48s>(op, rc, &args[1..], expected, probe),
        "L72" => typed::<L72>(op, rc, &args[1..], expected, probe),
        "L88" => typed::<L88>(op, rc, &args[1..], expected, probe),
        "L120" => typed::<L120>(op, rc, &args[1..], expected, probe),
        _ => {
            // `sl<k>`: String lanes whose members share a stem of k bytes
            let k: usize = ty.strip_prefix("sl")?.parse().ok()?;
            if k == 0 || k > 4096 { return None; }
            STEM.with(|s| s.set(k));
            let v = typed::<String>(op, rc, &args[1..], expected, probe);
            STEM.with(|s| s.set(0));
            v
        }
    }
}

/// the real call of an untyped case line
fn base_observe(op: &str, args: &[&str]) -> Option<String> {
    Some(match op {
        "sort" | "argsort" => {
            let a = parse_arr_i64(args.first()?);
            let axis = parse_axis(args.get(1)?)?;
            let kind = parse_kind_arg(args.get(2)?)?;
            let is_sort = op == "sort";
            guarded(move || match kind {
                Kind::None => if is_sort { checked(a.sort(axis, None::<&str>)) } else { checked(a.argsort(axis, None::<&str>)) },
                Kind::Enum(k) => if is_sort { checked(a.sort(axis, Some(k))) } else { checked(a.argsort(axis, Some(k))) },
                Kind::Str(s) => if is_sort { checked(a.sort(axis, Some(s.as_str()))) } else { checked(a.argsort(axis, Some(s.as_str()))) },
                Kind::Owned(s) => if is_sort { checked(a.sort(axis, Some(s.clone()))) } else { checked(a.argsort(axis, Some(s))) },
            })
        }
        "argmax" | "argmin" => {
            let a = parse_arr_i64(args.first()?);
            let axis = parse_axis(args.get(1)?)?;
            let keep = parse_keep(args.get(2)?)?;
            let is_max = op == "argmax";
            guarded(move || if is_max { checked(a.argmax(axis, keep)) } else { checked(a.argmin(axis, keep)) })
        }
        "argmax_f" | "argmin_f" => {
            let a = parse_farr(args.first()?);
            let axis = parse_axis(args.get(1)?)?;
            let keep = parse_keep(args.get(2)?)?;
            let is_max = op == "argmax_f";
            guarded(move || if is_max { checked(a.argmax(axis, keep)) } else { checked(a.argmin(axis, keep)) })
        }
        "unique" => {
            let a = parse_arr_i64(args.first()?);
            let axis = parse_axis(args.get(1)?)?;
            guarded(move || checked(a.unique(axis)))
        }
        _ => return None,
    })
}
/// the native reference on an untyped (i64) case line
fn base_native(op: &str, args: &[&str]) -> Option<String> {
    let top = match op { "sort" => "tsort", "argsort" => "targsort", "argmax" => "targmax", "argmin" => "targmin", _ => return None };
    let (shape, el) = parse_arr_raw(args.first()?);
    if el.len() != shape.iter().product::<usize>() { return None; }
    let axis = parse_axis(args.get(1)?)?;
    let arg = if top.ends_with("sort") { TArg::Kind(parse_kind_arg(args.get(2)?)?) } else { TArg::Keep(parse_keep(args.get(2)?)?) };
    native_answer::<i64>(top, &shape, &el, axis, &arg)
}

fn is_typed(op: &str) -> bool { matches!(op, "tsort" | "targsort" | "tunique" | "targmax" | "targmin") }
/// first call of a case, bit-level (A-B-A re-run)
fn probe_case(op: &str, args: &[&str]) -> Option<String> {
    if is_typed(op) { match typed_dispatch(op, args, "", true)? { Verdict::Open(t) => Some(t), _ => None } } else { base_observe(op, args) }
}

/// `VERIF_SLOW=<seconds>`: print the case lines that take longer (diagnostics only)
fn exec(op: &str, args: &[&str], expected: &str) -> Option<Verdict> {
    thread_local! { static SLOW: Option<f64> = std::env::var("VERIF_SLOW").ok().and_then(|v| v.parse().ok()); }
    let t0 = std::time::Instant::now();
    let v = exec_case(op, args, expected);
    if let Some(lim) = SLOW.with(|s| *s) { let dt = t0.elapsed().as_secs_f64(); if dt > lim { eprintln!("SLOW {dt:.3}s {op} {}", truncate(&args.join(" "), 200)); } }
    v
}
fn exec_case(op: &str, args: &[&str], expected: &str) -> Option<Verdict> {
    if op == "refstats" {
        let (v, u, b, aba) = (REF_VALIDATED.with(Cell::get), REF_USED.with(Cell::get), REF_BROKEN.with(Cell::get), ABA_RUNS.with(Cell::get));
        let text = format!("ok native reference (lane membership + stable sort / first extreme): compared with the model on {v} cases of this run ({b} disagreements), used in place of the model on {u} cases; A-B-A re-runs {aba}");
        eprintln!("C10 {}", &text[3..]);
        if expected != "ref" { return None; }
        return Some(if b > 0 || (u > 0 && v < 1000) { Verdict::Mismatch { observed: text, detail: "the native reference was used without (enough) validation against the model in the same run".into() } } else { Verdict::Match(text) });
    }
    LAST_RAW.with(|l| *l.borrow_mut() = None);
    let mut verdict = if is_typed(op) { typed_dispatch(op, args, expected, false)? } else {
        let observed = base_observe(op, args)?;
        if let Some(nat) = base_native(op, args) {
            bump(&REF_VALIDATED);
            if !(nat == expected || (class_of(&nat) == "err" && class_of(expected) == "err")) {
                bump(&REF_BROKEN);
                return Some(Verdict::Mismatch { observed: "n/a".into(), detail: format!("HARNESS: the native reference says `{}`, the model `{}`", truncate(&nat, 300), truncate(expected, 300)) });
            }
        }
        LAST_RAW.with(|l| *l.borrow_mut() = Some(observed.clone()));
        compare_default(observed, expected)
    };
    // A-B-A: the previous case is run again after this one and must answer exactly as before
    let prev = PREV.with(|p| p.borrow_mut().take());
    if let (Verdict::Match(_) | Verdict::Open(_), Some((pop, pargs, ptext))) = (&verdict, &prev) {
        let pa: Vec<&str> = pargs.iter().map(String::as_str).collect();
        bump(&ABA_RUNS);
        if let Some(again) = probe_case(pop, &pa) {
            if &again != ptext {
                verdict = Verdict::Mismatch { observed: truncate(&again, 2000), detail: format!("A-B-A: after this case the PREVIOUS case `{pop} {}` answers differently; before: `{}`", truncate(&pargs.join(" "), 600), truncate(ptext, 600)) };
            }
        }
    }
    let mine = LAST_RAW.with(|l| l.borrow_mut().take());
    // (remembered for the re-run: cases up to 2000 elements — the re-run costs one more call)
    let elems = args.iter().find_map(|a| { let (l, r) = a.split_once(':')?; let sh = if l.starts_with('G') { r } else { l }; if sh.chars().all(|c| c.is_ascii_digit() || c == ',') && !sh.is_empty() { Some(parse_usize_list(sh).iter().product::<usize>()) } else { None } }).unwrap_or(0);
    if let (Some(t), true) = (mine, elems <= 2000) { PREV.with(|p| *p.borrow_mut() = Some((op.to_string(), args.iter().map(|x| x.to_string()).collect(), t))); }
    Some(verdict)
}

/// non-trivial: the lane has at least two elements and is not already in strictly increasing order
/// (so sorting moves something, or duplicates have to be ranked / collapsed)
fn nontrivial(op: &str, args: &[&str]) -> bool {
    let Some(a) = (if op.starts_with('t') { args.get(1) } else { args.first() }) else { return false };
    let Some((_, el)) = a.split_once(':') else { return false };
    if el == "-" { return false; }
    let toks: Vec<&str> = el.split(',').collect();
    if toks.len() < 2 { return false; }
    let vals: Vec<i64> = toks.iter().map(|t| t.parse::<i64>().unwrap_or(i64::MIN)).collect();
    !vals.windows(2).all(|w| w[0] < w[1])
}

fn main() {
    harness_main(Spec { prop: "C10", gen, exec, nontrivial, hang_secs: 120,
        rule: "exhaustive: every lane over {0,1,2} of length<=6 (7 thorough), over {0..3} of length<=4, every permutation of 0..n n<=6 (7), \
every length 0..130 x 9 content patterns (all-equal, sorted, reversed, organ-pipe, few-distinct, random, runs, scramble, saw) \
x 4 kinds x {enum, lower, UPPER, MiXeD, owned String} spellings x axis none / 0 / -1 on 1-D arrays, flat form on n-D shapes, \
every axis in both spellings (k and k-rank) of every shape of rank<=4 with axis lengths 1..3 (+ rank 5, lanes of 35..130 (600 thorough) inside n-D arrays, \
zero-length axes, axes outside the rank) for sort x 4 kinds, argsort, argmax/argmin x keepdims none/true/false, unique; \
the lane lengths <= 1000 (2000) at which a merge pass meets a one-element right run; \
NaN arm of argmax/argmin on f64 lanes over {0,1,NaN} of length<=4; + seeded random lanes of length 131..400 (quick) / ..2000 (thorough); \
+ unknown selector names; \
ROBUSTNESS STREAMS (typed ops t*, every case on the plain receiver, a second time, and on Ok(array) through the Result impl, all bit-wise equal; \
answers compared at value level, 0.0 = -0.0, sort must keep the multiset of bit patterns): element types u8 / i8 / String / f64 with zeros of both signs on \
every lane over {0,1,2} of length<=4 (5); f64 lanes over {0.0,-0.0,1,NaN} of length<=4 (5) and random lanes to 130 with subnormals / infinities / NaN first-middle-last \
(sort / unique / argsort on lanes with NaN = open region with a weak oracle); i64 beyond 2^53 and at i64::MIN/MAX, u8 at 0/127/128/254/255, i8 at -128/127, \
String lanes incl. empty / blank / case / non-ASCII; argsort ties on lanes of 21,22,32,33,40,64,65,100,130,257,528,1030 (2100,4100) elements x 5 contents x 4 kinds x all spellings, \
also as lanes of n-D arrays; big_shapes() (axis lengths 7..17, 300/1030/4100/4900 elements) x every axis in both spellings x all queries; lanes of 4100 (5000) \
elements with repeated extreme values; zero_shapes() x every axis x all queries x 4 element types; valid and blank / whitespace / wrong / non-ASCII selector \
names as &str and String on 600-element and zero-size arrays. \
PART 2: hidden state - same-rank shapes colliding under weak keys (polynomial hashes 31/33/37/131/257/256 with equal element count, collision_shape_pairs(), permuted axis lengths, lengths equal modulo 2^8) back to back in both orders with the same axis through sort / argsort / argmax / argmin / unique; \
a lane and its reversed / rotated / permuted / one-off versions interleaved; refused axis or selector directly followed by the valid call; the same lane through i64,u8,i8,String,f64 back to back; A-B-A: after every case the previous case is run again and must answer bit-identically. \
Exact values: strictly descending runs closed by an element that is not smaller (whole lane, every aligned run of the run-merging sort; lengths 2..130 (200), 255..257 (300, 511..513, 528); also as rows / columns of 2-D arrays). \
Exact lengths: every lane length 1..300 in [2,d] (both axes) and [3,d,2] (axis 1). Ranks 6..8. \
NATIVE REFERENCE (lane membership by coordinate arithmetic + std stable sort / rank of every element with ties in order of appearance / first extreme, first NaN wins) - compared with the model's answer on every sort / argsort / argmax / argmin case the model answers (closing refstats line: count; fails when the reference is used without >= 1000 validations in the run) and used in place of the quadratic model on `ref` cases with generator-spelled arrays: \
[16,32,40], [4,8,16,40], [3,60,70], [26,26,26], [2,3,5,7,11,13], [130,130], [129,131], [100,200], [2,8200], [8200,2], [16385], [33000], [2,70000], [70000,2], [40,30,30], [10,11,12,13], [5,4,10,10,10], [300,300] (thorough + [70000], [140001], [7,131,151], [1,66000,2,1], [3,5,7,11,13,2]) on last and non-last axes, 4 kinds + spelled selector + both receivers, the lane lengths 49..300 of the sweep, colliding shapes above 250 elements. \
PART 3: element LAYOUT ladder - tuples / nested tuples of 3, 6, 9, 12, 16, 20, 24, 28, 32 (plain), 32 (String member), 40, 48 (two Strings), 72, 88, 120 bytes, tags mapped strictly monotonically (lexicographic derived order), through every operation and both receivers: \
every lane over {0,1,2} of length<=3 and every permutation of 0..n n<=5 (half of n=5 in the quick tier) x 4 kinds, random lanes of 2..130 / 257 / 528 (1030, 2100) elements, every axis of 9 n-D shapes, zero-length axes, the same lane through all 20 element types back to back, `ref` arrays of 4 900 .. 33 000 elements (contiguous and strided lanes). \
VALUE RELATIONS: f64 lanes whose elements are all == but not bit-identical (0.0 / -0.0 in seven sign patterns) of every length 1..40, 48, 63..65, 100, 130, 257, 528, 1030 (2100, 4100), alone and with ONE differing element first / middle / last, as rows and columns, as 16 385 .. 20 480-element `ref` arrays and as one lane of 2^20+5 elements (sort: value level + multiset of bit patterns; ranks 0,1,2,..; extremes 0; unique: one zero); \
constant lanes on every element type; String lanes whose members share a stem of 32 / 33 / 64 / 65 / 1024 bytes (one member is the stem itself). Axis values c + 2^8 / 2^16 / 2^32 / 3*2^32 and their negative twins (refused). \
GIANT arrays (`ref`, compared in place with the same native reference, first differing position only): one lane of 2^20+5 elements (flat, axis 0; merge / stable sort, argmax), [3,400001], [400001,3], [2,131073,4], [2,3,174763], 65 537 lanes of one u8 \
(thorough: + [2097153], [5,70000,4], all kinds, argmin, the chained receiver, 3- / 12- / 32-byte tuples on [2,131073,4] / [3,400001] / [2,3,174763], [1031,1033] and [600,2,1000] on u8, [1,65537] and [65537,1] with argmax and argsort). \
distinct = distinct case lines; non-trivial = lane of length>=2 not already strictly increasing" });
}
