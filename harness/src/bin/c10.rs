//! C10 — sorting and order queries: flat forms, and every axis (both spellings) of n-D arrays through apply_along_axis.
//!
//! ops (all on explicit integer arrays `shape:elems`, value protocol on i64 tags with duplicates):
//!   sort    <arr> <axis> <kind>        axis = none | int ; kind = none | e:<Variant> | s:<hex of &str> | o:<hex of String>
//!   argsort <arr> <axis> <kind>
//!   argmax  <arr> <axis> <keepdims>    keepdims = none | true | false
//!   argmin  <arr> <axis> <keepdims>
//!   unique  <arr> <axis>
//!   argmax_f / argmin_f <farr> none <keepdims>   f64 array, elements are integers or `n` (NaN) — exercises the NaN arm
use arrharness::*;

// ---------------------------------------------------------------- lanes

const KINDS: [&str; 4] = ["Quicksort", "Mergesort", "Heapsort", "Stable"];
fn lower_name(k: &str) -> String { k.to_lowercase() }
fn hex(s: &str) -> String { if s.is_empty() { "-".into() } else { s.bytes().map(|b| format!("{b:02x}")).collect() } }
fn unhex(s: &str) -> String {
    if s == "-" { return String::new(); }
    let b: Vec<u8> = (0..s.len() / 2).map(|i| u8::from_str_radix(&s[2 * i..2 * i + 2], 16).unwrap()).collect();
    String::from_utf8(b).unwrap()
}
fn mixed(s: &str, phase: usize) -> String {
    s.chars().enumerate().map(|(i, c)| if (i + phase) % 2 == 0 { c.to_ascii_uppercase() } else { c.to_ascii_lowercase() }).collect()
}
/// the spellings of one selector: enum, lower, UPPER, MiXeD (both phases), owned String
fn spellings(k: &str) -> Vec<String> {
    let l = lower_name(k);
    vec![format!("e:{k}"), format!("s:{}", hex(&l)), format!("s:{}", hex(&l.to_uppercase())), format!("s:{}", hex(&mixed(&l, 0))),
         format!("s:{}", hex(&mixed(&l, 1))), format!("o:{}", hex(&l)), format!("o:{}", hex(&mixed(&l, 0)))]
}

fn pattern(p: usize, n: usize, rng: &mut Rng) -> Vec<i64> {
    let n_i = n as i64;
    match p {
        0 => vec![7; n],                                                       // all equal
        1 => (0..n_i).collect(),                                               // sorted, distinct
        2 => (0..n_i).rev().collect(),                                         // reversed
        3 => (0..n_i).map(|i| if i < n_i / 2 { i } else { n_i - 1 - i }).collect(), // organ pipe (duplicates)
        4 => (0..n).map(|_| rng.range(0, 3)).collect(),                        // few distinct
        5 => (0..n).map(|_| rng.range(-(n_i.max(1)), n_i.max(1))).collect(),   // random, some duplicates
        6 => (0..n_i).map(|i| i / 3).collect(),                                // sorted with runs of duplicates
        7 => (0..n_i).map(|i| (i * 7919) % (n_i.max(1))).collect(),            // deterministic scramble
        _ => (0..n_i).map(|i| if i % 2 == 0 { i } else { -i }).collect(),      // saw with negatives
    }
}

fn arr1(v: &[i64]) -> String { format!("{}:{}", v.len(), show_list(v)) }
fn arr_shaped(shape: &[usize], v: &[i64]) -> String { format!("{}:{}", show_list(shape), show_list(v)) }

fn emit_lane(out: &mut dyn FnMut(String), a: &str, kinds: &[String], axes: &[&str], queries: bool) {
    for ax in axes {
        for k in kinds {
            out(format!("sort {a} {ax} {k}"));
            out(format!("argsort {a} {ax} {k}"));
        }
        if queries {
            for kd in ["none", "true", "false"] {
                out(format!("argmax {a} {ax} {kd}"));
                out(format!("argmin {a} {ax} {kd}"));
            }
            out(format!("unique {a} {ax}"));
        }
    }
}

/// all words over {0..alpha-1} of length `len`
fn words(alpha: i64, len: usize) -> Vec<Vec<i64>> {
    let mut out = vec![vec![]];
    for _ in 0..len {
        let mut nxt = vec![];
        for w in &out { for x in 0..alpha { let mut w2 = w.clone(); w2.push(x); nxt.push(w2); } }
        out = nxt;
    }
    out
}

/// `calc_min_run`
fn min_run(mut n: usize) -> usize { let mut r = 0; while n >= 32 { r |= n & 1; n >>= 1; } n + r }
/// lane lengths <= max at which some merge pass of the run-merging sort gets a right run of exactly one element
fn one_element_right_run_lengths(max: usize) -> Vec<usize> {
    let mut out = vec![];
    for n in 2..=max {
        let mut size = min_run(n);
        let mut hit = false;
        while size < n && !hit {
            let mut left = 0;
            while left < n {
                let mid = (n - 1).min(left + size - 1);
                let right = (left + 2 * size - 1).min(n - 1);
                if mid < right && right - mid == 1 { hit = true; }
                left += 2 * size;
            }
            size *= 2;
        }
        if hit { out.push(n); }
    }
    out
}

fn gen(tier: &str, seed: u64, out: &mut dyn FnMut(String)) {
    let thorough = tier == "thorough";
    let mut rng = Rng::new(seed);
    let enum_kinds: Vec<String> = KINDS.iter().map(|k| format!("e:{k}")).collect();
    let mut all_spellings: Vec<String> = vec!["none".into()];
    for k in KINDS { all_spellings.extend(spellings(k)); }

    // (i) corpus of past failures: the run-merging sort at the first lengths that merge, and the empty lane
    for n in [0usize, 1, 2, 63, 64, 65, 96, 128, 129, 200] {
        let v = pattern(2, n, &mut rng);
        out(format!("sort {} none e:Stable", arr1(&v)));
        out(format!("sort {} none s:{}", arr1(&v), hex("stable")));
        out(format!("argsort {} none e:Stable", arr1(&v)));
    }

    // (ii-a) exhaustive small scope: every lane over {0,1,2} of length <= 6 (7 thorough) and over {0..3} of length <= 4,
    //        x 4 kinds x every query, axis none and 0
    let max_len = if thorough { 7 } else { 6 };
    for len in 0..=max_len {
        for w in words(3, len) { emit_lane(out, &arr1(&w), &enum_kinds, &["none", "0"], true); }
    }
    for len in 1..=4 { for w in words(4, len) { if w.contains(&3) { emit_lane(out, &arr1(&w), &enum_kinds, &["none"], true); } } }
    // every permutation of 0..n, n <= 6 (distinct elements: every comparison outcome sequence)
    for n in 2..=(if thorough { 7 } else { 6 }) {
        for p in permutations(n) { let v: Vec<i64> = p.iter().map(|&x| x as i64).collect(); emit_lane(out, &arr1(&v), &enum_kinds, &["none"], n <= 5); }
    }

    // (ii-b) every length 0..=130 x 9 content patterns x 4 kinds x every spelling (enum, lower, UPPER, MiXeD, String)
    for n in 0..=130usize {
        for p in 0..9 {
            let v = pattern(p, n, &mut rng);
            let a = arr1(&v);
            // all spellings on three patterns per length, enum on the rest
            let kinds: &[String] = if p == 2 || p == 4 || p == 5 { &all_spellings } else { &enum_kinds };
            for k in kinds { out(format!("sort {a} none {k}")); }
            for k in &enum_kinds { out(format!("argsort {a} none {k}")); }
            let ax = if n % 2 == 0 { "0" } else { "-1" };
            for k in &enum_kinds { out(format!("sort {a} {ax} {k}")); }
            out(format!("argsort {a} {ax} {}", enum_kinds[(n + p) % 4]));
            for kd in ["none", "true"] { out(format!("argmax {a} none {kd}")); out(format!("argmin {a} none {kd}")); }
            out(format!("argmax {a} {ax} none")); out(format!("argmin {a} {ax} false"));
            out(format!("unique {a} none")); out(format!("unique {a} {ax}"));
        }
    }

    // (ii-c) flat form (axis none) on n-D arrays: the result is 1-D whatever the input shape; keepdims goes through atleast(ndim)
    for s in [vec![2usize, 3], vec![3, 2], vec![1, 4], vec![2, 2, 2], vec![2, 3, 2], vec![1, 1, 3], vec![2, 1, 2, 2], vec![2, 2, 2, 2, 2], vec![0, 3], vec![2, 0]] {
        let n: usize = s.iter().product();
        for p in [2usize, 4, 5] {
            let v = pattern(p, n, &mut rng);
            emit_lane(out, &arr_shaped(&s, &v), &enum_kinds, &["none"], true);
        }
    }

    // (ii-d) the NaN arm of argmax / argmin (f64 arrays; `n` = NaN)
    for len in 1..=4usize {
        for w in words(3, len) {
            // symbol 2 stands for NaN
            let toks: Vec<String> = w.iter().map(|&x| if x == 2 { "n".to_string() } else { x.to_string() }).collect();
            let a = format!("{}:{}", len, toks.join(","));
            for kd in ["none", "true"] { out(format!("argmax_f {a} none {kd}")); out(format!("argmin_f {a} none {kd}")); }
        }
    }

    // (ii-e) run-merging boundary lengths: lanes where some merge pass meets a ONE-element right run (first at 528),
    //        an arm no length <= 130 reaches
    for (bi, n) in one_element_right_run_lengths(if thorough { 2000 } else { 1000 }).into_iter().enumerate() {
        // (the list-backed model is quadratic: beyond 1000 every third such length, one content)
        if n > 1000 && bi % 3 != 0 { continue; }
        for p in [2usize, 5] {
            if n > 1000 && p == 2 { continue; }
            let v = pattern(p, n, &mut rng);
            out(format!("sort {} none e:Stable", arr1(&v)));
        }
    }

    // (ii-f) axis forms: every axis, in both spellings, of every shape of rank <= 4 with axes of length 1..3
    //        (+ rank 5 and longer lanes), duplicate-heavy and distinct contents
    let mut axis_shapes = shapes(1, 4, 1, 3);
    axis_shapes.extend(vec![vec![2, 2, 2, 2, 2], vec![1, 2, 1, 2, 3], vec![40, 3], vec![3, 40], vec![2, 35, 2], vec![2, 2, 70], vec![64, 2], vec![5, 4, 6]]);
    if thorough { axis_shapes.extend(shapes(5, 5, 1, 2)); axis_shapes.extend(vec![vec![3, 130], vec![100, 2, 2], vec![4, 4, 4, 4], vec![2, 600]]); }
    for (si, s) in axis_shapes.iter().enumerate() {
        let n: usize = s.iter().product();
        let rank = s.len() as isize;
        let dup: Vec<i64> = (0..n).map(|_| rng.range(0, 2)).collect();
        let scr: Vec<i64> = { let q = rng.perm(n); q.iter().map(|&j| j as i64).collect() };
        let (a_dup, a_scr) = (arr_shaped(s, &dup), arr_shaped(s, &scr));
        for k in 0..rank {
            for ax in [k, k - rank] {
                for kd in &enum_kinds { out(format!("sort {a_dup} {ax} {kd}")); }
                out(format!("sort {a_scr} {ax} {}", enum_kinds[(si + k as usize) % 4]));
                out(format!("argsort {a_dup} {ax} {}", enum_kinds[(si + k as usize) % 4]));
                out(format!("argsort {a_dup} {ax} {}", enum_kinds[(si + k as usize + 1) % 4]));
                out(format!("argsort {a_scr} {ax} {}", enum_kinds[(si + k as usize + 2) % 4]));
                for kdim in ["none", "true", "false"] {
                    out(format!("argmax {a_dup} {ax} {kdim}")); out(format!("argmin {a_dup} {ax} {kdim}"));
                }
                out(format!("argmax {a_scr} {ax} true")); out(format!("argmin {a_scr} {ax} none"));
                out(format!("unique {a_dup} {ax}")); out(format!("unique {a_scr} {ax}"));
            }
        }
        // string selector with an axis
        out(format!("sort {a_dup} {} s:{}", rank - 1, hex("STABLE")));
        out(format!("argsort {a_dup} 0 o:{}", hex("HeapSort")));
    }
    // zero-length axes and axes outside the rank (error values, never a panic)
    for s in [vec![0usize], vec![0, 3], vec![2, 0], vec![2, 0, 3], vec![3], vec![2, 3], vec![2, 3, 2], vec![2, 1, 2, 2]] {
        let n: usize = s.iter().product();
        let v: Vec<i64> = (0..n).map(|_| rng.range(0, 3)).collect();
        let a = arr_shaped(&s, &v);
        let rank = s.len() as isize;
        let mut axes: Vec<isize> = vec![rank, rank + 1, -rank - 1, -rank - 2, 7, -9];
        if n == 0 { axes.extend(0..rank); axes.extend((0..rank).map(|k| k - rank)); }
        for ax in axes {
            out(format!("sort {a} {ax} e:Stable")); out(format!("sort {a} {ax} e:Quicksort")); out(format!("argsort {a} {ax} e:Heapsort"));
            out(format!("argmax {a} {ax} none")); out(format!("argmax {a} {ax} true")); out(format!("argmin {a} {ax} false"));
            out(format!("unique {a} {ax}"));
        }
    }

    // (iii) seeded random stream beyond the small scope: lengths to 400 (quick) / 2000 (thorough)
    //       (the list-backed model is quadratic in the lane length, so most lanes stay below half the maximum and
    //        every 7th one sits at the maximum)
    let (n_rand, max_n) = if thorough { (168, 2000) } else { (40, 400) };
    for i in 0..n_rand {
        let n = if i % 7 == 0 { max_n - rng.below(8) } else { 131 + rng.below(max_n / 2 - 130) };
        let p = if i % 3 == 0 { 5 } else { rng.below(9) };
        let mut v = pattern(p, n, &mut rng);
        if i % 4 == 1 { let k = 1 + rng.below(6) as i64; for x in v.iter_mut() { *x = x.rem_euclid(k); } }   // duplicate-heavy
        if i % 7 == 2 { let q = rng.perm(n); v = q.iter().map(|&j| v[j]).collect(); }
        let a = arr1(&v);
        for k in KINDS {
            let sp = spellings(k);
            out(format!("sort {a} none {}", sp[rng.below(sp.len())]));
        }
        if n <= 1000 { out(format!("sort {a} 0 e:Stable")); }
        if n <= 1000 || i % 14 == 0 { out(format!("argsort {a} none {}", enum_kinds[i % 4])); }
        out(format!("argmax {a} none none")); out(format!("argmin {a} none none")); out(format!("unique {a} none"));
    }
    // random small lanes, all queries
    for _ in 0..(if thorough { 600 } else { 120 }) {
        let n = rng.below(40);
        let hi = *rng.pick(&[1i64, 2, 5, 100]);
        let v: Vec<i64> = (0..n).map(|_| rng.range(-hi, hi)).collect();
        emit_lane(out, &arr1(&v), &enum_kinds, &["none", "0"], true);
    }

    // (iv) malformed selectors: unknown names must be refused with an error value
    let v = pattern(5, 9, &mut rng);
    let a = arr1(&v);
    for bad in ["", "quick", "merge", "heap", "timsort", "stable ", " stable", "quicksort\n", "quick sort", "mergesort1", "Stabl", "sort", "none", "heapsort,", "QUICK_SORT"] {
        for op in ["sort", "argsort"] {
            out(format!("{op} {a} none s:{}", hex(bad)));
            out(format!("{op} {a} none o:{}", hex(bad)));
            out(format!("{op} {a} 0 s:{}", hex(bad)));
        }
        out(format!("sort 0:- none s:{}", hex(bad)));
    }
}

// ---------------------------------------------------------------- executor

enum Kind { None, Enum(SortKind), Str(String), Owned(String) }
fn parse_kind_arg(s: &str) -> Option<Kind> {
    if s == "none" { return Some(Kind::None); }
    let (tag, body) = s.split_once(':')?;
    match tag {
        "e" => Some(Kind::Enum(match body { "Quicksort" => SortKind::Quicksort, "Mergesort" => SortKind::Mergesort, "Heapsort" => SortKind::Heapsort, "Stable" => SortKind::Stable, _ => return None })),
        "s" => Some(Kind::Str(unhex(body))),
        "o" => Some(Kind::Owned(unhex(body))),
        _ => None,
    }
}
fn parse_axis(s: &str) -> Option<Option<isize>> { if s == "none" { Some(None) } else { s.parse().ok().map(Some) } }
fn parse_keep(s: &str) -> Option<Option<bool>> { match s { "none" => Some(None), "true" => Some(Some(true)), "false" => Some(Some(false)), _ => None } }

fn parse_farr(s: &str) -> Array<f64> {
    let (sh, el) = s.split_once(':').unwrap();
    let shape = parse_usize_list(sh);
    let elems: Vec<f64> = if el == "-" { vec![] } else { el.split(',').map(|t| if t == "n" { f64::NAN } else { t.parse::<i64>().unwrap() as f64 }).collect() };
    Array::new(elems, shape).expect("harness: malformed float array literal")
}

fn checked<T: ArrayElement + std::fmt::Display>(r: Result<Array<T>, ArrayError>) -> String {
    if let Ok(a) = &r { if !consistent(a) { return format!("inconsistent {}", show_arr(a)); } }
    res_arr(&r)
}

fn exec(op: &str, args: &[&str], expected: &str) -> Option<Verdict> {
    let observed = match op {
        "sort" | "argsort" => {
            let a = parse_arr_i64(args.first()?);
            let axis = parse_axis(args.get(1)?)?;
            let kind = parse_kind_arg(args.get(2)?)?;
            let is_sort = op == "sort";
            guarded(move || match kind {
                Kind::None => if is_sort { checked(a.sort(axis, None::<&str>)) } else { checked(a.argsort(axis, None::<&str>)) },
                Kind::Enum(k) => if is_sort { checked(a.sort(axis, Some(k))) } else { checked(a.argsort(axis, Some(k))) },
                Kind::Str(s) => if is_sort { checked(a.sort(axis, Some(s.as_str()))) } else { checked(a.argsort(axis, Some(s.as_str()))) },
                Kind::Owned(s) => if is_sort { checked(a.sort(axis, Some(s.clone()))) } else { checked(a.argsort(axis, Some(s))) },
            })
        }
        "argmax" | "argmin" => {
            let a = parse_arr_i64(args.first()?);
            let axis = parse_axis(args.get(1)?)?;
            let keep = parse_keep(args.get(2)?)?;
            let is_max = op == "argmax";
            guarded(move || if is_max { checked(a.argmax(axis, keep)) } else { checked(a.argmin(axis, keep)) })
        }
        "argmax_f" | "argmin_f" => {
            let a = parse_farr(args.first()?);
            let axis = parse_axis(args.get(1)?)?;
            let keep = parse_keep(args.get(2)?)?;
            let is_max = op == "argmax_f";
            guarded(move || if is_max { checked(a.argmax(axis, keep)) } else { checked(a.argmin(axis, keep)) })
        }
        "unique" => {
            let a = parse_arr_i64(args.first()?);
            let axis = parse_axis(args.get(1)?)?;
            guarded(move || checked(a.unique(axis)))
        }
        _ => return None,
    };
    Some(compare_default(observed, expected))
}

/// non-trivial: the lane has at least two elements and is not already in strictly increasing order
/// (so sorting moves something, or duplicates have to be ranked / collapsed)
fn nontrivial(_op: &str, args: &[&str]) -> bool {
    let Some(a) = args.first() else { return false };
    let Some((_, el)) = a.split_once(':') else { return false };
    if el == "-" { return false; }
    let toks: Vec<&str> = el.split(',').collect();
    if toks.len() < 2 { return false; }
    let vals: Vec<i64> = toks.iter().map(|t| t.parse::<i64>().unwrap_or(i64::MIN)).collect();
    !vals.windows(2).all(|w| w[0] < w[1])
}

fn main() {
    harness_main(Spec { prop: "C10", gen, exec, nontrivial, hang_secs: 60,
        rule: "exhaustive: every lane over {0,1,2} of length<=6 (7 thorough), over {0..3} of length<=4, every permutation of 0..n n<=6 (7), \
every length 0..130 x 9 content patterns (all-equal, sorted, reversed, organ-pipe, few-distinct, random, runs, scramble, saw) \
x 4 kinds x {enum, lower, UPPER, MiXeD, owned String} spellings x axis none / 0 / -1 on 1-D arrays, flat form on n-D shapes, \
every axis in both spellings (k and k-rank) of every shape of rank<=4 with axis lengths 1..3 (+ rank 5, lanes of 35..130 (600 thorough) inside n-D arrays, \
zero-length axes, axes outside the rank) for sort x 4 kinds, argsort, argmax/argmin x keepdims none/true/false, unique; \
the lane lengths <= 1000 (2000) at which a merge pass meets a one-element right run; \
NaN arm of argmax/argmin on f64 lanes over {0,1,NaN} of length<=4; + seeded random lanes of length 131..400 (quick) / ..2000 (thorough); \
+ unknown selector names. distinct = distinct case lines; non-trivial = lane of length>=2 not already strictly increasing" });
}
