//! C10 — sorting and order queries: flat forms, and every axis (both spellings) of n-D arrays through apply_along_axis.
//!
//! ops (all on explicit integer arrays `shape:elems`, value protocol on i64 tags with duplicates):
//!   sort    <arr> <axis> <kind>        axis = none | int ; kind = none | e:<Variant> | s:<hex of &str> | o:<hex of String>
//!   argsort <arr> <axis> <kind>
//!   argmax  <arr> <axis> <keepdims>    keepdims = none | true | false
//!   argmin  <arr> <axis> <keepdims>
//!   unique  <arr> <axis>
//!   argmax_f / argmin_f <farr> none <keepdims>   f64 array, elements are integers or `n` (NaN) — exercises the NaN arm
//! robustness streams (FRAMEWORK.md) — typed ops, first argument `<ty>:<rc>`:
//!   tsort / targsort <ty>:<rc> <arr> <axis> <kind>,  tunique <ty>:<rc> <arr> <axis>,  targmax / targmin <ty>:<rc> <arr> <axis> <keepdims>
//!   ty = i64 | u8 | i8 | str (integer lane, mapped order-preservingly into the element type; str through `STR_TABLE`)
//!      | f64 (float tokens: integer, `z` = -0.0, `e`/`-e` = ±smallest subnormal, `I`/`-I` = ±inf, `n` = NaN)
//!   rc = p (plain `Array<T>` receiver, called twice) | r (`Ok(array)` through `impl … for Result<Array<T>, ArrayError>`)
//!      | b (both; all runs must agree bit-wise)
//!   The answer is compared at VALUE level (0.0 and -0.0 are the same value: both print `0`, which is what the statement's
//!   "distinct values … without repetition" demands); in addition `tsort` must keep the multiset of bit patterns.
//!   Lanes containing NaN are outside the statement for sort / unique / argsort (no linear order): reported as open region
//!   after a weak oracle (sort keeps the multiset of bit patterns; unique keeps the set of non-NaN values).
use arrharness::*;
use std::panic::{catch_unwind, AssertUnwindSafe};

// ---------------------------------------------------------------- lanes

const KINDS: [&str; 4] = ["Quicksort", "Mergesort", "Heapsort", "Stable"];
fn lower_name(k: &str) -> String { k.to_lowercase() }
fn hex(s: &str) -> String { if s.is_empty() { "-".into() } else { s.bytes().map(|b| format!("{b:02x}")).collect() } }
fn unhex(s: &str) -> String {
    if s == "-" { return String::new(); }
    let b: Vec<u8> = (0..s.len() / 2).map(|i| u8::from_str_radix(&s[2 * i..2 * i + 2], 16).unwrap()).collect();
    String::from_utf8(b).unwrap()
}
fn mixed(s: &str, phase: usize) -> String {
    s.chars().enumerate().map(|(i, c)| if (i + phase) % 2 == 0 { c.to_ascii_uppercase() } else { c.to_ascii_lowercase() }).collect()
}
/// the spellings of one selector: enum, lower, UPPER, MiXeD (both phases), owned String
fn spellings(k: &str) -> Vec<String> {
    let l = lower_name(k);
    vec![format!("e:{k}"), format!("s:{}", hex(&l)), format!("s:{}", hex(&l.to_uppercase())), format!("s:{}", hex(&mixed(&l, 0))),
         format!("s:{}", hex(&mixed(&l, 1))), format!("o:{}", hex(&l)), format!("o:{}", hex(&mixed(&l, 0)))]
}

fn pattern(p: usize, n: usize, rng: &mut Rng) -> Vec<i64> {
    let n_i = n as i64;
    match p {
        0 => vec![7; n],                                                       // all equal
        1 => (0..n_i).collect(),                                               // sorted, distinct
        2 => (0..n_i).rev().collect(),                                         // reversed
        3 => (0..n_i).map(|i| if i < n_i / 2 { i } else { n_i - 1 - i }).collect(), // organ pipe (duplicates)
        4 => (0..n).map(|_| rng.range(0, 3)).collect(),                        // few distinct
        5 => (0..n).map(|_| rng.range(-(n_i.max(1)), n_i.max(1))).collect(),   // random, some duplicates
        6 => (0..n_i).map(|i| i / 3).collect(),                                // sorted with runs of duplicates
        7 => (0..n_i).map(|i| (i * 7919) % (n_i.max(1))).collect(),            // deterministic scramble
        _ => (0..n_i).map(|i| if i % 2 == 0 { i } else { -i }).collect(),      // saw with negatives
    }
}

fn arr1(v: &[i64]) -> String { format!("{}:{}", v.len(), show_list(v)) }
fn arr_shaped(shape: &[usize], v: &[i64]) -> String { format!("{}:{}", show_list(shape), show_list(v)) }

fn emit_lane(out: &mut dyn FnMut(String), a: &str, kinds: &[String], axes: &[&str], queries: bool) {
    for ax in axes {
        for k in kinds {
            out(format!("sort {a} {ax} {k}"));
            out(format!("argsort {a} {ax} {k}"));
        }
        if queries {
            for kd in ["none", "true", "false"] {
                out(format!("argmax {a} {ax} {kd}"));
                out(format!("argmin {a} {ax} {kd}"));
            }
            out(format!("unique {a} {ax}"));
        }
    }
}

/// all words over {0..alpha-1} of length `len`
fn words(alpha: i64, len: usize) -> Vec<Vec<i64>> {
    let mut out = vec![vec![]];
    for _ in 0..len {
        let mut nxt = vec![];
        for w in &out { for x in 0..alpha { let mut w2 = w.clone(); w2.push(x); nxt.push(w2); } }
        out = nxt;
    }
    out
}

/// `calc_min_run`
fn min_run(mut n: usize) -> usize { let mut r = 0; while n >= 32 { r |= n & 1; n >>= 1; } n + r }
/// lane lengths <= max at which some merge pass of the run-merging sort gets a right run of exactly one element
fn one_element_right_run_lengths(max: usize) -> Vec<usize> {
    let mut out = vec![];
    for n in 2..=max {
        let mut size = min_run(n);
        let mut hit = false;
        while size < n && !hit {
            let mut left = 0;
            while left < n {
                let mid = (n - 1).min(left + size - 1);
                let right = (left + 2 * size - 1).min(n - 1);
                if mid < right && right - mid == 1 { hit = true; }
                left += 2 * size;
            }
            size *= 2;
        }
        if hit { out.push(n); }
    }
    out
}

fn gen(tier: &str, seed: u64, out: &mut dyn FnMut(String)) {
    let thorough = tier == "thorough";
    let mut rng = Rng::new(seed);
    let enum_kinds: Vec<String> = KINDS.iter().map(|k| format!("e:{k}")).collect();
    let mut all_spellings: Vec<String> = vec!["none".into()];
    for k in KINDS { all_spellings.extend(spellings(k)); }

    // (i) corpus of past failures: the run-merging sort at the first lengths that merge, and the empty lane
    for n in [0usize, 1, 2, 63, 64, 65, 96, 128, 129, 200] {
        let v = pattern(2, n, &mut rng);
        out(format!("sort {} none e:Stable", arr1(&v)));
        out(format!("sort {} none s:{}", arr1(&v), hex("stable")));
        out(format!("argsort {} none e:Stable", arr1(&v)));
    }

    // (ii-a) exhaustive small scope: every lane over {0,1,2} of length <= 6 (7 thorough) and over {0..3} of length <= 4,
    //        x 4 kinds x every query, axis none and 0
    let max_len = if thorough { 7 } else { 6 };
    for len in 0..=max_len {
        for w in words(3, len) { emit_lane(out, &arr1(&w), &enum_kinds, &["none", "0"], true); }
    }
    for len in 1..=4 { for w in words(4, len) { if w.contains(&3) { emit_lane(out, &arr1(&w), &enum_kinds, &["none"], true); } } }
    // every permutation of 0..n, n <= 6 (distinct elements: every comparison outcome sequence)
    for n in 2..=(if thorough { 7 } else { 6 }) {
        for p in permutations(n) { let v: Vec<i64> = p.iter().map(|&x| x as i64).collect(); emit_lane(out, &arr1(&v), &enum_kinds, &["none"], n <= 5); }
    }

    // (ii-b) every length 0..=130 x 9 content patterns x 4 kinds x every spelling (enum, lower, UPPER, MiXeD, String)
    for n in 0..=130usize {
        for p in 0..9 {
            let v = pattern(p, n, &mut rng);
            let a = arr1(&v);
            // all spellings on three patterns per length, enum on the rest
            let kinds: &[String] = if p == 2 || p == 4 || p == 5 { &all_spellings } else { &enum_kinds };
            for k in kinds { out(format!("sort {a} none {k}")); }
            for k in &enum_kinds { out(format!("argsort {a} none {k}")); }
            let ax = if n % 2 == 0 { "0" } else { "-1" };
            for k in &enum_kinds { out(format!("sort {a} {ax} {k}")); }
            out(format!("argsort {a} {ax} {}", enum_kinds[(n + p) % 4]));
            for kd in ["none", "true"] { out(format!("argmax {a} none {kd}")); out(format!("argmin {a} none {kd}")); }
            out(format!("argmax {a} {ax} none")); out(format!("argmin {a} {ax} false"));
            out(format!("unique {a} none")); out(format!("unique {a} {ax}"));
        }
    }

    // (ii-c) flat form (axis none) on n-D arrays: the result is 1-D whatever the input shape; keepdims goes through atleast(ndim)
    for s in [vec![2usize, 3], vec![3, 2], vec![1, 4], vec![2, 2, 2], vec![2, 3, 2], vec![1, 1, 3], vec![2, 1, 2, 2], vec![2, 2, 2, 2, 2], vec![0, 3], vec![2, 0]] {
        let n: usize = s.iter().product();
        for p in [2usize, 4, 5] {
            let v = pattern(p, n, &mut rng);
            emit_lane(out, &arr_shaped(&s, &v), &enum_kinds, &["none"], true);
        }
    }

    // (ii-d) the NaN arm of argmax / argmin (f64 arrays; `n` = NaN)
    for len in 1..=4usize {
        for w in words(3, len) {
            // symbol 2 stands for NaN
            let toks: Vec<String> = w.iter().map(|&x| if x == 2 { "n".to_string() } else { x.to_string() }).collect();
            let a = format!("{}:{}", len, toks.join(","));
            for kd in ["none", "true"] { out(format!("argmax_f {a} none {kd}")); out(format!("argmin_f {a} none {kd}")); }
        }
    }

    // (ii-e) run-merging boundary lengths: lanes where some merge pass meets a ONE-element right run (first at 528),
    //        an arm no length <= 130 reaches
    for (bi, n) in one_element_right_run_lengths(if thorough { 2000 } else { 1000 }).into_iter().enumerate() {
        // (the list-backed model is quadratic: beyond 1000 every third such length, one content)
        if n > 1000 && bi % 3 != 0 { continue; }
        for p in [2usize, 5] {
            if n > 1000 && p == 2 { continue; }
            let v = pattern(p, n, &mut rng);
            out(format!("sort {} none e:Stable", arr1(&v)));
        }
    }

    // (ii-f) axis forms: every axis, in both spellings, of every shape of rank <= 4 with axes of length 1..3
    //        (+ rank 5 and longer lanes), duplicate-heavy and distinct contents
    let mut axis_shapes = shapes(1, 4, 1, 3);
    axis_shapes.extend(vec![vec![2, 2, 2, 2, 2], vec![1, 2, 1, 2, 3], vec![40, 3], vec![3, 40], vec![2, 35, 2], vec![2, 2, 70], vec![64, 2], vec![5, 4, 6]]);
    if thorough { axis_shapes.extend(shapes(5, 5, 1, 2)); axis_shapes.extend(vec![vec![3, 130], vec![100, 2, 2], vec![4, 4, 4, 4], vec![2, 600]]); }
    for (si, s) in axis_shapes.iter().enumerate() {
        let n: usize = s.iter().product();
        let rank = s.len() as isize;
        let dup: Vec<i64> = (0..n).map(|_| rng.range(0, 2)).collect();
        let scr: Vec<i64> = { let q = rng.perm(n); q.iter().map(|&j| j as i64).collect() };
        let (a_dup, a_scr) = (arr_shaped(s, &dup), arr_shaped(s, &scr));
        for k in 0..rank {
            for ax in [k, k - rank] {
                for kd in &enum_kinds { out(format!("sort {a_dup} {ax} {kd}")); }
                out(format!("sort {a_scr} {ax} {}", enum_kinds[(si + k as usize) % 4]));
                out(format!("argsort {a_dup} {ax} {}", enum_kinds[(si + k as usize) % 4]));
                out(format!("argsort {a_dup} {ax} {}", enum_kinds[(si + k as usize + 1) % 4]));
                out(format!("argsort {a_scr} {ax} {}", enum_kinds[(si + k as usize + 2) % 4]));
                for kdim in ["none", "true", "false"] {
                    out(format!("argmax {a_dup} {ax} {kdim}")); out(format!("argmin {a_dup} {ax} {kdim}"));
                }
                out(format!("argmax {a_scr} {ax} true")); out(format!("argmin {a_scr} {ax} none"));
                out(format!("unique {a_dup} {ax}")); out(format!("unique {a_scr} {ax}"));
            }
        }
        // string selector with an axis
        out(format!("sort {a_dup} {} s:{}", rank - 1, hex("STABLE")));
        out(format!("argsort {a_dup} 0 o:{}", hex("HeapSort")));
    }
    // zero-length axes and axes outside the rank (error values, never a panic)
    for s in [vec![0usize], vec![0, 3], vec![2, 0], vec![2, 0, 3], vec![3], vec![2, 3], vec![2, 3, 2], vec![2, 1, 2, 2]] {
        let n: usize = s.iter().product();
        let v: Vec<i64> = (0..n).map(|_| rng.range(0, 3)).collect();
        let a = arr_shaped(&s, &v);
        let rank = s.len() as isize;
        let mut axes: Vec<isize> = vec![rank, rank + 1, -rank - 1, -rank - 2, 7, -9];
        if n == 0 { axes.extend(0..rank); axes.extend((0..rank).map(|k| k - rank)); }
        for ax in axes {
            out(format!("sort {a} {ax} e:Stable")); out(format!("sort {a} {ax} e:Quicksort")); out(format!("argsort {a} {ax} e:Heapsort"));
            out(format!("argmax {a} {ax} none")); out(format!("argmax {a} {ax} true")); out(format!("argmin {a} {ax} false"));
            out(format!("unique {a} {ax}"));
        }
    }

    // (iii) seeded random stream beyond the small scope: lengths to 400 (quick) / 2000 (thorough)
    //       (the list-backed model is quadratic in the lane length, so most lanes stay below half the maximum and
    //        every 7th one sits at the maximum)
    let (n_rand, max_n) = if thorough { (168, 2000) } else { (40, 400) };
    for i in 0..n_rand {
        let n = if i % 7 == 0 { max_n - rng.below(8) } else { 131 + rng.below(max_n / 2 - 130) };
        let p = if i % 3 == 0 { 5 } else { rng.below(9) };
        let mut v = pattern(p, n, &mut rng);
        if i % 4 == 1 { let k = 1 + rng.below(6) as i64; for x in v.iter_mut() { *x = x.rem_euclid(k); } }   // duplicate-heavy
        if i % 7 == 2 { let q = rng.perm(n); v = q.iter().map(|&j| v[j]).collect(); }
        let a = arr1(&v);
        for k in KINDS {
            let sp = spellings(k);
            out(format!("sort {a} none {}", sp[rng.below(sp.len())]));
        }
        if n <= 1000 { out(format!("sort {a} 0 e:Stable")); }
        if n <= 1000 || i % 14 == 0 { out(format!("argsort {a} none {}", enum_kinds[i % 4])); }
        out(format!("argmax {a} none none")); out(format!("argmin {a} none none")); out(format!("unique {a} none"));
    }
    // random small lanes, all queries
    for _ in 0..(if thorough { 600 } else { 120 }) {
        let n = rng.below(40);
        let hi = *rng.pick(&[1i64, 2, 5, 100]);
        let v: Vec<i64> = (0..n).map(|_| rng.range(-hi, hi)).collect();
        emit_lane(out, &arr1(&v), &enum_kinds, &["none", "0"], true);
    }

    // (iv) malformed selectors: unknown names must be refused with an error value
    let v = pattern(5, 9, &mut rng);
    let a = arr1(&v);
    for bad in ["", "quick", "merge", "heap", "timsort", "stable ", " stable", "quicksort\n", "quick sort", "mergesort1", "Stabl", "sort", "none", "heapsort,", "QUICK_SORT"] {
        for op in ["sort", "argsort"] {
            out(format!("{op} {a} none s:{}", hex(bad)));
            out(format!("{op} {a} none o:{}", hex(bad)));
            out(format!("{op} {a} 0 s:{}", hex(bad)));
        }
        out(format!("sort 0:- none s:{}", hex(bad)));
    }

    gen_robust(thorough, &mut rng, out, &enum_kinds, &all_spellings);
}

// ---------------------------------------------------------------- robustness streams (typed ops)

const TYS: [&str; 5] = ["i64", "u8", "i8", "str", "f64"];
/// float tokens of an integer lane; `zmode` 1: every other zero is -0.0, 2: every zero is -0.0
fn f64_tokens(v: &[i64], zmode: usize) -> Vec<String> {
    let mut zc = 0usize;
    v.iter().map(|&x| if x == 0 { zc += 1; if zmode == 2 || (zmode == 1 && zc % 2 == 0) { "z".to_string() } else { "0".to_string() } } else { x.to_string() }).collect()
}
/// the lane `v` (values valid for every element type: 0..=100) spelled for element type `ty`
fn lane_ty(ty: &str, shape: &[usize], v: &[i64], zmode: usize) -> String {
    if ty == "f64" { let t = f64_tokens(v, zmode); format!("{}:{}", show_list(shape), if t.is_empty() { "-".to_string() } else { t.join(",") }) }
    else { arr_shaped(shape, v) }
}
fn emit_typed(out: &mut dyn FnMut(String), tr: &str, a: &str, axes: &[String], kinds: &[String], argsort_kinds: &[String], keeps: &[&str], unique: bool) {
    for ax in axes {
        for k in kinds { out(format!("tsort {tr} {a} {ax} {k}")); }
        for k in argsort_kinds { out(format!("targsort {tr} {a} {ax} {k}")); }
        for kd in keeps { out(format!("targmax {tr} {a} {ax} {kd}")); out(format!("targmin {tr} {a} {ax} {kd}")); }
        if unique { out(format!("tunique {tr} {a} {ax}")); }
    }
}
fn sv(v: &[&str]) -> Vec<String> { v.iter().map(|x| x.to_string()).collect() }

fn gen_robust(thorough: bool, rng: &mut Rng, out: &mut dyn FnMut(String), enum_kinds: &[String], all_spellings: &[String]) {
    let none_ax = sv(&["none"]);
    // (R-a) element types: every lane over {0,1,2} of length <= 4 (5 thorough) on u8 / i8 / String / f64 (zeros of both signs),
    //       both receivers, every query; axis none, and axis 0 / -1 on the longest words
    let wl = if thorough { 5 } else { 4 };
    for len in 0..=wl {
        for w in words(3, len) {
            for (ti, ty) in ["u8", "i8", "str", "f64"].iter().enumerate() {
                let a = lane_ty(ty, &[len], &w, 1 + (len + ti) % 2);
                let axes: Vec<String> = if len == wl { sv(&["none", if ti % 2 == 0 { "0" } else { "-1" }]) } else { none_ax.clone() };
                emit_typed(out, &format!("{ty}:b"), &a, &axes, enum_kinds, enum_kinds, &["none"], true);
            }
        }
    }
    // (R-b) float lanes over {0.0, -0.0, 1, NaN} of length <= 4 (5 thorough): argmax / argmin exactly (first NaN wins),
    //       sort x 4 kinds and unique (value level; lanes with NaN: open region + weak oracle), argsort on NaN-free lanes
    let ftok = ["0", "z", "1", "n"];
    for len in 1..=(if thorough { 5 } else { 4 }) {
        for w in words(4, len) {
            let toks: Vec<&str> = w.iter().map(|&x| ftok[x as usize]).collect();
            let a = format!("{}:{}", len, toks.join(","));
            let has_nan = w.contains(&3);
            let tr = if w.iter().sum::<i64>() % 3 == 0 { "f64:b" } else if w.iter().sum::<i64>() % 3 == 1 { "f64:p" } else { "f64:r" };
            for kd in ["none", "true"] { out(format!("targmax {tr} {a} none {kd}")); out(format!("targmin {tr} {a} none {kd}")); }
            out(format!("targmax {tr} {a} 0 false")); out(format!("targmin {tr} {a} -1 none"));
            for k in enum_kinds { out(format!("tsort {tr} {a} none {k}")); }
            out(format!("tunique {tr} {a} none"));
            if !has_nan { for k in enum_kinds { out(format!("targsort {tr} {a} none {k}")); } out(format!("tunique {tr} {a} 0")); }
        }
    }
    // longer float lanes mixing both zeros, subnormals and infinities; NaN placed first / in the middle / last for the extreme queries
    let fpool = ["0", "z", "1", "-1", "e", "-e", "I", "-I", "2", "z", "0"];
    for i in 0..(if thorough { 160 } else { 60 }) {
        let n = [2usize, 3, 5, 8, 12, 21, 33, 65, 100, 130][i % 10];
        let mut toks: Vec<&str> = (0..n).map(|_| *rng.pick(&fpool)).collect();
        let a = format!("{}:{}", n, toks.join(","));
        emit_typed(out, "f64:b", &a, &sv(&["none", if i % 2 == 0 { "0" } else { "-1" }]), enum_kinds, &enum_kinds[i % 4..i % 4 + 1], &["none", "true"], true);
        let pos = match i % 3 { 0 => 0, 1 => n / 2, _ => n - 1 };
        toks[pos] = "n"; if i % 4 == 0 { toks[n - 1] = "n"; }
        let a = format!("{}:{}", n, toks.join(","));
        for kd in ["none", "true", "false"] { out(format!("targmax f64:b {a} none {kd}")); out(format!("targmin f64:b {a} 0 {kd}")); }
        if n <= 8 { out(format!("tsort f64:b {a} none {}", enum_kinds[i % 4])); out(format!("tunique f64:b {a} none")); }
    }
    // (R-c) value classes: i64 beyond 2^53 (an f64 round trip loses bits) and at the ends of the range; u8 near 255; i8 near +-127;
    //       String lanes (empty string, blanks, prefixes, upper/lower case, non-ASCII)
    let p53 = 1i64 << 53;
    let pools: [(&str, Vec<i64>); 4] = [
        ("i64", vec![p53 - 1, p53, p53 + 1, p53 + 2, -p53, -p53 - 1, i64::MAX, i64::MAX - 1, i64::MIN, i64::MIN + 1, 0, -1]),
        ("u8", vec![0, 1, 127, 128, 254, 255]),
        ("i8", vec![-128, -127, -1, 0, 1, 126, 127]),
        ("str", vec![0, 1, 2, 3, 4, 5, 6, 7, 8, 9, 10, 11, 12, 13, 14, 15, 40, 1000]),
    ];
    for (ty, pool) in &pools {
        // every lane of length <= 3 over the first six values of the pool
        for len in 1..=3usize { for w in words(6, len) {
            let v: Vec<i64> = w.iter().map(|&x| pool[x as usize]).collect();
            emit_typed(out, &format!("{ty}:b"), &arr1(&v), &none_ax, &enum_kinds[(len + w[0] as usize) % 4..(len + w[0] as usize) % 4 + 1], &enum_kinds[(w[0] as usize) % 4..(w[0] as usize) % 4 + 1], &["none"], true);
        } }
        for i in 0..(if thorough { 120 } else { 40 }) {
            let n = [2usize, 4, 7, 10, 21, 33, 65, 100][i % 8];
            let v: Vec<i64> = (0..n).map(|_| *rng.pick(pool)).collect();
            let rc = ["b", "p", "r"][i % 3];
            emit_typed(out, &format!("{ty}:{rc}"), &arr1(&v), &sv(&["none", if i % 2 == 0 { "0" } else { "-1" }]), enum_kinds, enum_kinds, &["none", "true"], true);
        }
    }
    // (R-d) ties above the 20-element insertion-sort threshold of std's unstable sort: argsort must rank equal elements in
    //       order of appearance — lanes of 21.. elements over {0,1} / {0,1,2} / one value / runs / alternating, 4 kinds, every type
    let mut tie_lens = vec![21usize, 22, 32, 33, 40, 64, 65, 100, 130, 257, 528, 1030];
    if thorough { tie_lens.extend([2100, 4100]); }
    for (li, &n) in tie_lens.iter().enumerate() {
        for c in 0..5usize {
            let v: Vec<i64> = match c {
                0 => (0..n).map(|_| rng.range(0, 1)).collect(),
                1 => (0..n).map(|_| rng.range(0, 2)).collect(),
                2 => vec![5; n],
                3 => (0..n as i64).map(|i| (i / 3) % 100).collect(),
                _ => (0..n as i64).map(|i| i % 2).collect(),
            };
            let ty = TYS[(li + c) % 5];
            let a = lane_ty(ty, &[n], &v, 1);
            if n > 1000 && !thorough && c % 2 == 1 { continue; }
            let ks: &[String] = if n > 1100 { &enum_kinds[c % 4..c % 4 + 1] } else if n > 500 && !thorough { &enum_kinds[c % 3..c % 3 + 2] } else { enum_kinds };
            for k in ks { out(format!("targsort {ty}:b {a} none {k}")); }
            out(format!("targsort {ty}:b {a} {} {}", if c % 2 == 0 { "0" } else { "-1" }, enum_kinds[(li + c) % 4]));
            if c == 0 && n <= 130 { for k in all_spellings { out(format!("targsort {ty}:b {a} none {k}")); out(format!("targsort {ty}:r {a} -1 {k}")); } }
        }
    }
    // … and as lanes inside n-D arrays
    for (si, s) in [vec![21usize, 2], vec![2, 33], vec![2, 65, 2], vec![3, 100], vec![22, 3, 2], vec![2, 2, 40]].iter().enumerate() {
        let n: usize = s.iter().product();
        let v: Vec<i64> = (0..n).map(|_| rng.range(0, 1 + (si % 2) as i64)).collect();
        let ty = TYS[si % 5];
        let a = lane_ty(ty, s, &v, 1);
        let rank = s.len() as isize;
        for k in 0..rank { for ax in [k, k - rank] {
            for kd in enum_kinds { out(format!("targsort {ty}:b {a} {ax} {kd}")); }
            out(format!("tsort {ty}:b {a} {ax} {}", all_spellings[(si * 7 + (ax + rank) as usize * 3) % all_spellings.len()]));
        } }
    }
    // (R-e) sizes: `big_shapes()` — every axis of every shape (both spellings), all queries, element type rotating.
    //       Shapes with more than 2000 elements ([4100], [70,70]) get a fixed handful of cases in the quick tier (the list-backed
    //       model needs ~0.1–3 s for each of them) and the full treatment in the thorough tier.
    for (si, s) in big_shapes().iter().enumerate() {
        let n: usize = s.iter().product();
        let rank = s.len() as isize;
        let ty = TYS[(si + 1) % 5];
        let dup: Vec<i64> = (0..n).map(|_| rng.range(0, 2)).collect();
        let scr: Vec<i64> = { let q = rng.perm(n); q.iter().map(|&j| (j % 101) as i64).collect() };
        let (a_dup, a_scr) = (lane_ty(ty, s, &dup, 1), lane_ty(ty, s, &scr, 1));
        let heavy = n > 2000;
        if heavy {
            if rank == 1 {
                out(format!("tsort {ty}:b {a_dup} none e:Quicksort")); out(format!("tsort {ty}:b {a_scr} 0 e:Mergesort")); out(format!("tsort {ty}:b {a_dup} -1 e:Heapsort"));
                out(format!("targsort {ty}:b {a_dup} none e:Mergesort"));
                out(format!("targmax {ty}:b {a_dup} none none")); out(format!("targmin {ty}:b {a_scr} -1 true"));
                out(format!("tunique {ty}:b {a_scr} none")); out(format!("tunique {ty}:b {a_dup} 0"));
                if thorough { out(format!("tsort {ty}:b {a_scr} none e:Stable")); out(format!("targsort {ty}:b {a_scr} 0 e:Heapsort")); out(format!("targmax {ty}:b {a_scr} 0 true")); out(format!("targmin {ty}:b {a_dup} none false")); }
            } else {
                out(format!("tsort {ty}:b {a_dup} 0 e:Stable"));
                out(format!("targsort {ty}:b {a_dup} 1 e:Heapsort"));
                out(format!("targmin {ty}:b {a_scr} -1 true"));
                out(format!("tunique {ty}:b {a_dup} none"));
                if thorough {
                    out(format!("tsort {ty}:b {a_scr} -1 e:Quicksort")); out(format!("tsort {ty}:b {a_dup} 1 e:Mergesort")); out(format!("tsort {ty}:b {a_scr} -2 e:Heapsort"));
                    out(format!("targsort {ty}:b {a_scr} -2 e:Quicksort")); out(format!("targmax {ty}:b {a_dup} 0 none")); out(format!("targmax {ty}:b {a_scr} 1 false")); out(format!("tunique {ty}:b {a_dup} 0"));
                }
            }
            continue;
        }
        // quick tier: shapes of rank >= 3 take each axis in one spelling (alternating), shapes above 1000 elements two kinds per axis
        let mid = n > 1000 && !thorough;
        let mut axes: Vec<String> = vec!["none".into()];
        for k in 0..rank { if (rank <= 2 || thorough) && !(heavy && rank >= 2) { axes.push(k.to_string()); axes.push((k - rank).to_string()); } else { axes.push(if (k as usize + si) % 2 == 0 { k.to_string() } else { (k - rank).to_string() }); } }
        for (ai, ax) in axes.iter().enumerate() {
            let ks: Vec<String> = if heavy || mid { vec![enum_kinds[(si + ai) % 4].clone(), enum_kinds[(si + ai + 2) % 4].clone()] } else { enum_kinds.to_vec() };
            for k in &ks { out(format!("tsort {ty}:b {a_dup} {ax} {k}")); }
            if !mid || ai % 2 == 0 { out(format!("tsort {ty}:b {a_scr} {ax} {}", enum_kinds[(si + ai + 1) % 4])); }
            out(format!("targsort {ty}:b {a_dup} {ax} {}", enum_kinds[(si + ai) % 4]));
            if !heavy && !mid { out(format!("targsort {ty}:b {a_scr} {ax} {}", enum_kinds[(si + ai + 3) % 4])); }
            let kd = ["none", "true", "false"][(si + ai) % 3];
            out(format!("targmax {ty}:b {a_dup} {ax} {kd}")); out(format!("targmin {ty}:b {a_dup} {ax} {kd}"));
            out(format!("targmax {ty}:b {a_scr} {ax} true")); out(format!("targmin {ty}:b {a_scr} {ax} none"));
            out(format!("tunique {ty}:b {a_dup} {ax}"));
            if ax == "none" { out(format!("tunique {ty}:b {a_scr} {ax}")); }
        }
        // spelled selectors on big arrays
        out(format!("tsort {ty}:r {a_dup} {} s:{}", rank - 1, hex("MergeSort")));
        out(format!("targsort {ty}:r {a_dup} -1 o:{}", hex("STABLE")));
    }
    // lanes longer than 4096 with repeated extreme values: first position of the largest / smallest, distinct values.
    // quick: one placement pattern per element type (i64, u8, f64); thorough: every pattern and a 5000-element lane for i64, two patterns for u8 / f64 / i8
    let ext: [(&str, i64, i64, i64, i64); 4] = [("i64", i64::MIN, i64::MAX, -1000, 1000), ("u8", 0, 255, 1, 254), ("f64", -(1i64 << 53), 1i64 << 53, -50, 50), ("i8", -128, 127, -127, 126)];
    for (ei, (ty, lo, hi, mlo, mhi)) in ext.iter().enumerate() {
        if !thorough && ei == 3 { continue; }
        for (pi, n) in [(0usize, 4100usize), (1, 4100), (2, 4100), (3, 5000)] {
            if !thorough && pi != [1usize, 2, 0][ei] { continue; }
            if pi == 3 && ei != 0 { continue; }
            if thorough && ei != 0 && pi != [1usize, 2, 0, 1][ei] && pi != [2usize, 0, 1, 0][ei] { continue; }
            let mut v: Vec<i64> = (0..n).map(|_| rng.range(*mlo, *mhi)).collect();
            let at: Vec<usize> = match pi { 0 => vec![n - 1], 1 => vec![0, n / 2, n - 1], 2 => vec![4097, 4098, n - 2], _ => vec![17, 4096, 4999] };
            for (j, &p) in at.iter().enumerate() { v[p] = *hi; let q = (p + n - 7 - j) % n; if !at.contains(&q) { v[q] = *lo; } }
            let a = if *ty == "f64" { let mut t = f64_tokens(&v, 1); if pi <= 1 { t[n / 3] = "I".into(); t[n / 3 + 1] = "-I".into(); t[n / 4] = "I".into(); } format!("{}:{}", n, t.join(",")) } else { arr1(&v) };
            let kd = ["none", "true", "false"][pi % 3];
            out(format!("targmax {ty}:b {a} none {kd}")); out(format!("targmin {ty}:b {a} none {kd}"));
            out(format!("tunique {ty}:b {a} none"));
            out(format!("tsort {ty}:b {a} none e:Quicksort"));
            if thorough || ei == 0 { out(format!("targmax {ty}:b {a} 0 {kd}")); out(format!("targmin {ty}:b {a} -1 {kd}")); }
            if ei == 0 || (thorough && pi == 2) { out(format!("tsort {ty}:b {a} none e:Stable")); }
            if thorough { out(format!("tsort {ty}:b {a} none e:Mergesort")); out(format!("targsort {ty}:b {a} none e:Mergesort")); if pi == 1 { out(format!("tsort {ty}:b {a} none e:Heapsort")); } }
        }
        // one value only, 4100 times (for f64: zeros of both signs)
        if thorough || ei == 1 || ei == 2 {
            let v = vec![*hi; 4100];
            let a = if *ty == "f64" { format!("4100:{}", (0..4100).map(|i| if i % 3 == 0 { "0" } else { "z" }).collect::<Vec<_>>().join(",")) } else { arr1(&v) };
            out(format!("targmax {ty}:b {a} none none")); out(format!("tunique {ty}:b {a} none"));
            if thorough { out(format!("targmin {ty}:b {a} none true")); out(format!("tunique {ty}:b {a} 0")); }
        }
    }
    // (R-f) zero-length axes: `zero_shapes()` x every axis (both spellings, and just outside the rank) x every query x element types
    for (si, s) in zero_shapes().iter().enumerate() {
        let rank = s.len() as isize;
        let a = format!("{}:-", show_list(s));
        let mut axes: Vec<String> = vec!["none".into(), rank.to_string(), (-rank - 1).to_string()];
        for k in 0..rank { axes.push(k.to_string()); axes.push((k - rank).to_string()); }
        for (ti, ty) in ["i64", "f64", "u8", "str"].iter().enumerate() {
            let ks = [enum_kinds[(si + ti) % 4].clone(), enum_kinds[(si + ti + 1) % 4].clone(), all_spellings[(si * 5 + ti * 11) % all_spellings.len()].clone()];
            emit_typed(out, &format!("{ty}:b"), &a, &axes, &ks, &ks[1..], &["none", "true", "false"], true);
        }
    }
    // (R-g) selector spellings x receivers x sizes: every valid spelling on typed lanes with an axis; blank / whitespace /
    //       wrong names (incl. non-ASCII) as &str and String on big (600 elements) and zero-size arrays
    let big600: Vec<i64> = (0..600).map(|_| rng.range(0, 9)).collect();
    let lanes: Vec<(&str, String)> = vec![("i64", arr_shaped(&[600], &big600)), ("u8", arr_shaped(&[2, 300], &big600)), ("f64", lane_ty("f64", &[3, 200], &big600, 1)),
        ("i64", "0:-".to_string()), ("f64", "2,0:-".to_string()), ("str", arr_shaped(&[2, 3], &[3, 1, 2, 0, 0, 5]))];
    for (ty, a) in &lanes {
        let small = a.len() < 40;
        for k in all_spellings { if small || k.len() % 3 == 0 { out(format!("tsort {ty}:b {a} -1 {k}")); out(format!("targsort {ty}:b {a} 0 {k}")); out(format!("tsort {ty}:r {a} none {k}")); } }
        for bad in ["", " ", "  ", "\t", "\n", "stable ", " stable", "Stable\n", "quick", "QUICK SORT", "merge_sort", "heap", "none", "default", "0", "stablé", "ｓｔａｂｌｅ", "\u{feff}stable", "ſtable", "quicksort\u{0}"] {
            for sp in ["s", "o"] {
                out(format!("tsort {ty}:b {a} none {sp}:{}", hex(bad)));
                out(format!("targsort {ty}:b {a} -1 {sp}:{}", hex(bad)));
                out(format!("tsort {ty}:r {a} 7 {sp}:{}", hex(bad)));
            }
        }
    }
}

// ---------------------------------------------------------------- executor

enum Kind { None, Enum(SortKind), Str(String), Owned(String) }
fn parse_kind_arg(s: &str) -> Option<Kind> {
    if s == "none" { return Some(Kind::None); }
    let (tag, body) = s.split_once(':')?;
    match tag {
        "e" => Some(Kind::Enum(match body { "Quicksort" => SortKind::Quicksort, "Mergesort" => SortKind::Mergesort, "Heapsort" => SortKind::Heapsort, "Stable" => SortKind::Stable, _ => return None })),
        "s" => Some(Kind::Str(unhex(body))),
        "o" => Some(Kind::Owned(unhex(body))),
        _ => None,
    }
}
fn parse_axis(s: &str) -> Option<Option<isize>> { if s == "none" { Some(None) } else { s.parse().ok().map(Some) } }
fn parse_keep(s: &str) -> Option<Option<bool>> { match s { "none" => Some(None), "true" => Some(Some(true)), "false" => Some(Some(false)), _ => None } }

fn parse_farr(s: &str) -> Array<f64> {
    let (sh, el) = s.split_once(':').unwrap();
    let shape = parse_usize_list(sh);
    let elems: Vec<f64> = if el == "-" { vec![] } else { el.split(',').map(|t| if t == "n" { f64::NAN } else { t.parse::<i64>().unwrap() as f64 }).collect() };
    Array::new(elems, shape).expect("harness: malformed float array literal")
}

fn checked<T: ArrayElement + std::fmt::Display>(r: Result<Array<T>, ArrayError>) -> String {
    if let Ok(a) = &r { if !consistent(a) { return format!("inconsistent {}", show_arr(a)); } }
    res_arr(&r)
}

// ---------------------------------------------------------------- typed executor (robustness streams)

/// strictly increasing in Rust's `String` order (byte-wise UTF-8): key k < 14 is `STR_TABLE[k]`, larger keys follow
const STR_TABLE: [&str; 14] = ["", " ", "0", "10", "9", "A", "B", "a", "a ", "aa", "ab", "b", "é", "日本"];

trait Lane: ArrayElement + std::fmt::Display {
    fn from_tok(t: &str) -> Option<Self>;
    /// value-level protocol token (0.0 and -0.0 are the same value)
    fn tok(&self) -> String;
    /// identity of the representation (bit pattern)
    fn raw(&self) -> String;
}
impl Lane for i64 { fn from_tok(t: &str) -> Option<Self> { t.parse().ok() } fn tok(&self) -> String { self.to_string() } fn raw(&self) -> String { self.to_string() } }
impl Lane for u8 { fn from_tok(t: &str) -> Option<Self> { t.parse().ok() } fn tok(&self) -> String { self.to_string() } fn raw(&self) -> String { self.to_string() } }
impl Lane for i8 { fn from_tok(t: &str) -> Option<Self> { t.parse().ok() } fn tok(&self) -> String { self.to_string() } fn raw(&self) -> String { self.to_string() } }
impl Lane for String {
    fn from_tok(t: &str) -> Option<Self> { let k: usize = t.parse().ok()?; Some(if k < STR_TABLE.len() { STR_TABLE[k].to_string() } else { format!("日本{k:09}") }) }
    fn tok(&self) -> String {
        if let Some(k) = STR_TABLE.iter().position(|x| x == self) { return k.to_string(); }
        self.strip_prefix("日本").and_then(|d| d.parse::<usize>().ok()).map_or_else(|| format!("?{self}"), |k| k.to_string())
    }
    fn raw(&self) -> String { format!("{self:?}") }
}
impl Lane for f64 {
    fn from_tok(t: &str) -> Option<Self> {
        Some(match t { "n" => f64::NAN, "z" => -0.0, "e" => f64::from_bits(1), "-e" => -f64::from_bits(1), "I" => f64::INFINITY, "-I" => f64::NEG_INFINITY,
            _ => { let k: i64 = t.parse().ok()?; if k.unsigned_abs() > 1u64 << 53 { return None; } k as f64 } })
    }
    fn tok(&self) -> String {
        if self.is_nan() { "n".into() } else if *self == f64::INFINITY { "I".into() } else if *self == f64::NEG_INFINITY { "-I".into() }
        else if self.to_bits() == 1 { "e".into() } else if self.to_bits() == (1u64 << 63) | 1 { "-e".into() }
        else if self.fract() == 0.0 && self.abs() <= 9.1e15 { (*self as i64).to_string() } else { format!("?{self:e}") }
    }
    fn raw(&self) -> String { format!("{:016x}", self.to_bits()) }
}
fn parse_lane<T: Lane>(s: &str) -> Option<Array<T>> {
    let (sh, el) = s.split_once(':')?;
    let shape = parse_usize_list(sh);
    let elems: Vec<T> = if el == "-" { vec![] } else { el.split(',').map(T::from_tok).collect::<Option<Vec<T>>>()? };
    Array::new(elems, shape).ok()
}

/// one run of the real call: value-level answer, bit-level answer, and the result's elements (bit-level, value-level)
#[derive(Clone, PartialEq)]
struct Run { value: String, raw: String, raws: Vec<String>, toks: Vec<String> }
fn run_t<T: Lane>(r: Result<Array<T>, ArrayError>) -> Run {
    match r {
        Ok(a) => {
            if !consistent(&a) { let t = format!("inconsistent {}", show_arr(&a)); return Run { value: t.clone(), raw: t, raws: vec![], toks: vec![] }; }
            let (sh, el) = (a.get_shape().unwrap(), a.get_elements().unwrap());
            let toks: Vec<String> = el.iter().map(Lane::tok).collect();
            let raws: Vec<String> = el.iter().map(Lane::raw).collect();
            Run { value: format!("ok {}:{}", show_list(&sh), show_list(&toks)), raw: format!("ok {}:{}", show_list(&sh), show_list(&raws)), raws, toks }
        }
        Err(e) => Run { value: format!("err {}", err_name(&e)), raw: format!("err {e:?}"), raws: vec![], toks: vec![] },
    }
}
fn run_u(r: Result<Array<usize>, ArrayError>) -> Run {
    let raw = match &r { Err(e) => format!("err {e:?}"), Ok(_) => String::new() };
    let value = checked(r);
    Run { raw: if raw.is_empty() { value.clone() } else { raw }, value, raws: vec![], toks: vec![] }
}
macro_rules! with_kind {
    ($recv:expr, $m:ident, $axis:expr, $kind:expr) => {
        match $kind {
            Kind::None => $recv.$m($axis, None::<&str>),
            Kind::Enum(k) => $recv.$m($axis, Some(*k)),
            Kind::Str(s) => $recv.$m($axis, Some(s.as_str())),
            Kind::Owned(s) => $recv.$m($axis, Some(s.clone())),
        }
    };
}
enum TArg { Kind(Kind), Keep(Option<bool>), Nothing }

fn typed<T: Lane>(op: &str, rc: &str, args: &[&str], expected: &str) -> Option<Verdict> {
    let a: Array<T> = parse_lane::<T>(args.first()?)?;
    let axis = parse_axis(args.get(1)?)?;
    let arg = match op {
        "tsort" | "targsort" => TArg::Kind(parse_kind_arg(args.get(2)?)?),
        "targmax" | "targmin" => TArg::Keep(parse_keep(args.get(2)?)?),
        "tunique" => TArg::Nothing,
        _ => return None,
    };
    let call = |chained: bool| -> Run {
        let r = catch_unwind(AssertUnwindSafe(|| {
            let res: Result<Array<T>, ArrayError> = Ok(a.clone());
            match (op, &arg) {
                ("tsort", TArg::Kind(k)) => run_t(if chained { with_kind!(res, sort, axis, k) } else { with_kind!(a, sort, axis, k) }),
                ("targsort", TArg::Kind(k)) => run_u(if chained { with_kind!(res, argsort, axis, k) } else { with_kind!(a, argsort, axis, k) }),
                ("tunique", _) => run_t(if chained { res.unique(axis) } else { a.unique(axis) }),
                ("targmax", TArg::Keep(kd)) => run_u(if chained { res.argmax(axis, *kd) } else { a.argmax(axis, *kd) }),
                ("targmin", TArg::Keep(kd)) => run_u(if chained { res.argmin(axis, *kd) } else { a.argmin(axis, *kd) }),
                _ => unreachable!(),
            }
        }));
        r.unwrap_or_else(|_| Run { value: "panic".into(), raw: "panic".into(), raws: vec![], toks: vec![] })
    };
    let mut runs: Vec<(&str, Run)> = vec![];
    if rc != "r" { runs.push(("the plain receiver", call(false))); if a.len().unwrap_or(0) <= 300 { runs.push(("the same call a second time", call(false))); } }
    if rc != "p" { runs.push(("the chained call on Ok(array)", call(true))); }
    let first = runs[0].1.clone();
    for (name, r) in &runs[1..] {
        if r.raw != first.raw {
            return Some(Verdict::Mismatch { observed: format!("RECEIVER-DIVERGENCE {name} gives `{}`, {} gives `{}`", truncate(&r.raw, 300), runs[0].0, truncate(&first.raw, 300)),
                detail: format!("all receivers / repeated calls must agree bit-wise; model says `{}`", truncate(expected, 300)) });
        }
    }
    let input = a.get_elements().unwrap();
    let has_nan = input.iter().any(ArrayElement::is_nan);
    let mut sorted_in: Vec<String> = input.iter().map(Lane::raw).collect(); sorted_in.sort();
    if op == "tsort" && first.value.starts_with("ok") {
        // "each kept with its multiplicity": the multiset of bit patterns is preserved (0.0 and -0.0 are not traded for one another)
        let mut so = first.raws.clone(); so.sort();
        if so != sorted_in { return Some(Verdict::Mismatch { observed: first.raw.clone(), detail: format!("sort does not keep the multiset of element representations (value-level answer `{}`)", truncate(&first.value, 300)) }); }
    }
    if has_nan && op != "targmax" && op != "targmin" {
        // no linear order: outside the statement.  Weak oracle, then open region.
        if first.value == "panic" || first.value.starts_with("inconsistent") { return Some(Verdict::Mismatch { observed: first.value, detail: "lane with NaN: the call must still return".into() }); }
        if op == "tunique" && axis.is_none() && first.value.starts_with("ok") {
            let set = |v: Vec<String>| -> std::collections::BTreeSet<String> { v.into_iter().filter(|t| t != "n").collect() };
            let (si, so) = (set(input.iter().map(Lane::tok).collect()), set(first.toks.clone()));
            if si != so { return Some(Verdict::Mismatch { observed: first.value, detail: "unique on a lane with NaN lost or invented a non-NaN value".into() }); }
        }
        return Some(Verdict::Open(first.value));
    }
    Some(compare_default(first.value, expected))
}

fn exec(op: &str, args: &[&str], expected: &str) -> Option<Verdict> {
    if matches!(op, "tsort" | "targsort" | "tunique" | "targmax" | "targmin") {
        let (ty, rc) = args.first()?.split_once(':')?;
        if !matches!(rc, "p" | "r" | "b") { return None; }
        return match ty {
            "i64" => typed::<i64>(op, rc, &args[1..], expected),
            "u8" => typed::<u8>(op, rc, &args[1..], expected),
            "i8" => typed::<i8>(op, rc, &args[1..], expected),
            "str" => typed::<String>(op, rc, &args[1..], expected),
            "f64" => typed::<f64>(op, rc, &args[1..], expected),
            _ => None,
        };
    }
    let observed = match op {
        "sort" | "argsort" => {
            let a = parse_arr_i64(args.first()?);
            let axis = parse_axis(args.get(1)?)?;
            let kind = parse_kind_arg(args.get(2)?)?;
            let is_sort = op == "sort";
            guarded(move || match kind {
                Kind::None => if is_sort { checked(a.sort(axis, None::<&str>)) } else { checked(a.argsort(axis, None::<&str>)) },
                Kind::Enum(k) => if is_sort { checked(a.sort(axis, Some(k))) } else { checked(a.argsort(axis, Some(k))) },
                Kind::Str(s) => if is_sort { checked(a.sort(axis, Some(s.as_str()))) } else { checked(a.argsort(axis, Some(s.as_str()))) },
                Kind::Owned(s) => if is_sort { checked(a.sort(axis, Some(s.clone()))) } else { checked(a.argsort(axis, Some(s))) },
            })
        }
        "argmax" | "argmin" => {
            let a = parse_arr_i64(args.first()?);
            let axis = parse_axis(args.get(1)?)?;
            let keep = parse_keep(args.get(2)?)?;
            let is_max = op == "argmax";
            guarded(move || if is_max { checked(a.argmax(axis, keep)) } else { checked(a.argmin(axis, keep)) })
        }
        "argmax_f" | "argmin_f" => {
            let a = parse_farr(args.first()?);
            let axis = parse_axis(args.get(1)?)?;
            let keep = parse_keep(args.get(2)?)?;
            let is_max = op == "argmax_f";
            guarded(move || if is_max { checked(a.argmax(axis, keep)) } else { checked(a.argmin(axis, keep)) })
        }
        "unique" => {
            let a = parse_arr_i64(args.first()?);
            let axis = parse_axis(args.get(1)?)?;
            guarded(move || checked(a.unique(axis)))
        }
        _ => return None,
    };
    Some(compare_default(observed, expected))
}

/// non-trivial: the lane has at least two elements and is not already in strictly increasing order
/// (so sorting moves something, or duplicates have to be ranked / collapsed)
fn nontrivial(op: &str, args: &[&str]) -> bool {
    let Some(a) = (if op.starts_with('t') { args.get(1) } else { args.first() }) else { return false };
    let Some((_, el)) = a.split_once(':') else { return false };
    if el == "-" { return false; }
    let toks: Vec<&str> = el.split(',').collect();
    if toks.len() < 2 { return false; }
    let vals: Vec<i64> = toks.iter().map(|t| t.parse::<i64>().unwrap_or(i64::MIN)).collect();
    !vals.windows(2).all(|w| w[0] < w[1])
}

fn main() {
    harness_main(Spec { prop: "C10", gen, exec, nontrivial, hang_secs: 60,
        rule: "exhaustive: every lane over {0,1,2} of length<=6 (7 thorough), over {0..3} of length<=4, every permutation of 0..n n<=6 (7), \
every length 0..130 x 9 content patterns (all-equal, sorted, reversed, organ-pipe, few-distinct, random, runs, scramble, saw) \
x 4 kinds x {enum, lower, UPPER, MiXeD, owned String} spellings x axis none / 0 / -1 on 1-D arrays, flat form on n-D shapes, \
every axis in both spellings (k and k-rank) of every shape of rank<=4 with axis lengths 1..3 (+ rank 5, lanes of 35..130 (600 thorough) inside n-D arrays, \
zero-length axes, axes outside the rank) for sort x 4 kinds, argsort, argmax/argmin x keepdims none/true/false, unique; \
the lane lengths <= 1000 (2000) at which a merge pass meets a one-element right run; \
NaN arm of argmax/argmin on f64 lanes over {0,1,NaN} of length<=4; + seeded random lanes of length 131..400 (quick) / ..2000 (thorough); \
+ unknown selector names; \
ROBUSTNESS STREAMS (typed ops t*, every case on the plain receiver, a second time, and on Ok(array) through the Result impl, all bit-wise equal; \
answers compared at value level, 0.0 = -0.0, sort must keep the multiset of bit patterns): element types u8 / i8 / String / f64 with zeros of both signs on \
every lane over {0,1,2} of length<=4 (5); f64 lanes over {0.0,-0.0,1,NaN} of length<=4 (5) and random lanes to 130 with subnormals / infinities / NaN first-middle-last \
(sort / unique / argsort on lanes with NaN = open region with a weak oracle); i64 beyond 2^53 and at i64::MIN/MAX, u8 at 0/127/128/254/255, i8 at -128/127, \
String lanes incl. empty / blank / case / non-ASCII; argsort ties on lanes of 21,22,32,33,40,64,65,100,130,257,528,1030 (2100,4100) elements x 5 contents x 4 kinds x all spellings, \
also as lanes of n-D arrays; big_shapes() (axis lengths 7..17, 300/1030/4100/4900 elements) x every axis in both spellings x all queries; lanes of 4100 (5000) \
elements with repeated extreme values; zero_shapes() x every axis x all queries x 4 element types; valid and blank / whitespace / wrong / non-ASCII selector \
names as &str and String on 600-element and zero-size arrays. distinct = distinct case lines; non-trivial = lane of length>=2 not already strictly increasing" });
}
